import BtcModel.Lemmas.Levels
import BtcModel.Props.C02
import BtcModel.Model.State

/-!
# C04 — `min_confirmations` cuts the view at the last sufficiently buried block

Specification (`BtcModel/Spec/Ledger.lean`): `Spec.buriedPrefix hash t c chain 0` is the longest
prefix of `chain` all of whose blocks are *sufficiently buried*: the subtree below the block has
depth `≥ c` and is at least `c` deeper than the subtree of every other block at the same height
(`Spec.sufficientlyBuried`, phrased over `Spec.subtreesAt`, with no reference to the code's
level table or to `get_stability_count`).

Model of the code: `State.stablePrefix (Tree.levels hash t) c chain 0`, the walk of
`get_utxos_from_chain` over `block_hashes_with_depths_by_heights` using `get_stability_count`.
-/
namespace Btc.Props.C04
open Btc Btc.Tree Btc.Spec

variable {α : Type}

/-! ## 1. What `block_hashes_with_depths_by_heights` contains -/

/-- The level table at relative height `i` lists exactly the `(hash, depth)` pairs of the subtrees
    whose root is `i` edges below the tree's root (in DFS pre-order; the Rust code fills the same
    rows in post-order, and only the multiset matters to `get_stability_count`). -/
theorem levels_characterisation (h : α → Nat) (t : Tree α) (i : Nat) :
    (levels h t).getD i [] =
      ((subtreesAt t 0).filter (fun p => p.1 == i)).map (fun p => (h p.2.root, p.2.depth)) :=
  levels_getD h t i

/-- the same statement up to permutation (the form that also covers the code's post-order) -/
theorem levels_characterisation_perm (h : α → Nat) (t : Tree α) (i : Nat) :
    ((levels h t).getD i []).Perm
      (((subtreesAt t 0).filter (fun p => p.1 == i)).map (fun p => (h p.2.root, p.2.depth))) :=
  levels_getD_perm h t i

/-- the subtrees enumerated by the specification are rooted at exactly the blocks of the tree -/
theorem subtree_roots_are_blocks (t : Tree α) : (subtreesAt t 0).map (fun p => p.2.root) = t.blocks :=
  subtreesAt_roots t 0

/-! ## 2. What `get_stability_count` computes -/

/-- On a level with pairwise distinct hashes containing `(x, dx)`, the stability count of `x` is
    `dx - m` where `m` bounds the depth of every other entry and is attained by one of them (or is
    `0` if there is none): `m` is the maximum depth of the competitors. -/
theorem stabilityCount_eq (lv : List (Nat × Nat)) (x dx : Nat)
    (hnd : (lv.map (·.1)).Nodup) (hmem : (x, dx) ∈ lv) :
    ∃ m : Nat, stabilityCount lv x = (dx : Int) - (m : Int) ∧
      (∀ p ∈ lv, p.1 ≠ x → p.2 ≤ m) ∧
      (m = 0 ∨ ∃ p ∈ lv, p.1 ≠ x ∧ p.2 = m) := by
  refine ⟨maxOther lv x, ?_, maxOther_ge lv x, maxOther_attained lv x⟩
  rw [stabilityCount_eq_sub]
  have : ownDepth lv x = dx := ownDepth_fold_mem lv x dx 0 (nodup_fst_unique lv x dx hnd hmem) hmem
  rw [this]

/-- Hence: the stability count reaches `c` iff the block's own depth is at least `c` and it is at
    least `c` deeper than every competitor at its height. -/
theorem stabilityCount_ge_iff (lv : List (Nat × Nat)) (x dx c : Nat)
    (hnd : (lv.map (·.1)).Nodup) (hmem : (x, dx) ∈ lv) :
    (c : Int) ≤ stabilityCount lv x ↔ (c ≤ dx ∧ ∀ p ∈ lv, p.1 ≠ x → p.2 + c ≤ dx) := by
  obtain ⟨m, heq, hub, hatt⟩ := stabilityCount_eq lv x dx hnd hmem
  rw [heq]
  constructor
  · intro h
    refine ⟨by omega, fun p hp hne => ?_⟩
    have := hub p hp hne
    omega
  · intro ⟨h1, h2⟩
    rcases hatt with h0 | ⟨p, hp, hne, he⟩
    · omega
    · have := h2 p hp hne
      omega

/-- a hash that does not occur on the level never has a positive stability count -/
theorem stabilityCount_absent (lv : List (Nat × Nat)) (x : Nat) (hno : ∀ p ∈ lv, p.1 ≠ x) :
    stabilityCount lv x ≤ 0 := by
  rw [stabilityCount_eq_sub, ownDepth_of_not_mem lv x hno]
  omega

theorem stabilityCount_singleton (x dx : Nat) : stabilityCount [(x, dx)] x = (dx : Int) := by
  have := stabilityCount_eq [(x, dx)] x dx (by simp) (by simp)
  obtain ⟨m, heq, _, hatt⟩ := this
  rcases hatt with h0 | ⟨p, hp, hne, _⟩
  · rw [heq, h0]; omega
  · simp only [List.mem_singleton] at hp
    subst hp
    exact absurd rfl hne

/-! ## 3. Main theorem: the code's walk is the specification's buried prefix -/

/-- the keep-test of the loop in `get_utxos_from_chain` -/
def keepCode (c : Nat) (lv : List (Nat × Nat)) (x : Nat) : Bool :=
  !(decide (c > 0) && decide (stabilityCount lv x < (c : Int)))

theorem stablePrefix_eq_walkBy (L : List (List (Nat × Nat))) (c : Nat) (chain : List CBlock) (i : Nat) :
    State.stablePrefix L c chain i = walkBy CBlock.hash (keepCode c) L chain i := by
  induction chain generalizing i with
  | nil => rfl
  | cons b bs ih =>
    have hk : keepCode c (L.getD i []) b.hash =
        !(decide (c > 0) && decide (stabilityCount (L.getD i []) b.hash < (c : Int))) := rfl
    simp only [State.stablePrefix, walkBy, ih]
    by_cases hb : (decide (c > 0) && decide (stabilityCount (L.getD i []) b.hash < (c : Int))) = true
    · rw [if_pos hb, if_neg (by rw [hk, hb]; simp)]
    · rw [if_neg hb, if_pos (by rw [Bool.not_eq_true] at hb; rw [hk, hb]; rfl)]

/-- One level: for `c ≥ 1` and pairwise distinct hashes the code's test and the specification's
    test agree on **every** hash `x` (present on the level or not). -/
theorem keepCode_eq_buriedLv (c : Nat) (hc : 1 ≤ c) (lv : List (Nat × Nat)) (x : Nat)
    (hnd : (lv.map (·.1)).Nodup) : keepCode c lv x = buriedLv c lv x := by
  unfold keepCode buriedLv
  cases hf : lv.find? (fun p => p.1 == x) with
  | none =>
    have hno : ∀ p ∈ lv, p.1 ≠ x := by
      intro p hp
      have := List.find?_eq_none.mp hf p hp
      simpa using this
    have := stabilityCount_absent lv x hno
    have h1 : decide (c > 0) = true := by simp; omega
    have h2 : decide (stabilityCount lv x < (c : Int)) = true := by simp; omega
    simp [h1, h2]
  | some me =>
    have hmem : me ∈ lv := List.mem_of_find?_eq_some hf
    have hx : me.1 = x := by simpa using List.find?_some hf
    have hmem' : (x, me.2) ∈ lv := by rw [← hx]; exact hmem
    have hiff := stabilityCount_ge_iff lv x me.2 c hnd hmem'
    have h1 : decide (c > 0) = true := by simp; omega
    rw [h1, Bool.true_and]
    rw [Bool.eq_iff_iff]
    simp only [Bool.not_eq_true', decide_eq_false_iff_not, Int.not_lt, Bool.and_eq_true,
      decide_eq_true_eq, List.all_eq_true, Bool.or_eq_true, beq_iff_eq, ge_iff_le]
    rw [hiff]
    constructor
    · intro ⟨h1, h2⟩
      refine ⟨h1, fun p hp => ?_⟩
      by_cases hpx : p.1 = x
      · left; exact hpx
      · right; exact h2 p hp hpx
    · intro ⟨h1, h2⟩
      refine ⟨h1, fun p hp hne => ?_⟩
      rcases h2 p hp with h | h
      · exact absurd h hne
      · exact h

/-- **C04, main theorem.** If the hashes of the unstable blocks are pairwise distinct, then for
    every `c ≥ 1`, every list of blocks `chain` (in particular the best chain, or the chain to a
    page's tip) and every start height `i`, the prefix kept by the loop of `get_utxos_from_chain`
    is exactly the prefix of sufficiently buried blocks of the specification. -/
theorem stablePrefix_eq_buriedPrefix (t : Tree CBlock) (c : Nat) (hc : 1 ≤ c)
    (hnd : (t.blocks.map CBlock.hash).Nodup) (chain : List CBlock) (i : Nat) :
    State.stablePrefix (levels CBlock.hash t) c chain i = buriedPrefix CBlock.hash t c chain i := by
  rw [stablePrefix_eq_walkBy, buriedPrefix_eq_walkBy]
  apply walkBy_congr
  intro j x
  apply keepCode_eq_buriedLv c hc
  rw [levels_getD]
  exact specLevel_nodup CBlock.hash t j hnd

/-- The instance the endpoint uses: the chain is `get_main_chain`, which is the best path. -/
theorem stablePrefix_mainChain (t : Tree CBlock) (c : Nat) (hc : 1 ≤ c)
    (hnd : (t.blocks.map CBlock.hash).Nodup) :
    State.stablePrefix (levels CBlock.hash t) c (mainChain CBlock.diff t) 0 =
      buriedPrefix CBlock.hash t c (bestPath CBlock.diff t) 0 := by
  rw [C02.mainChain_eq_bestPath]
  exact stablePrefix_eq_buriedPrefix t c hc hnd _ 0

/-- The walk only ever meets blocks it can find: the `i`-th block of the best path is the root of
    a subtree at relative height `i` (so the `none` branch of `sufficientlyBuried` is not what
    stops the walk on the best chain). -/
theorem bestPath_getElem_subtree (d : α → Nat) (t : Tree α) (i : Nat) (hi : i < (bestPath d t).length) :
    ∃ s, (i, s) ∈ subtreesAt t 0 ∧ s.root = (bestPath d t)[i] :=
  paths_getElem_subtree t 0 _ (bestPath_mem_paths d t) i hi

/-! ## 6. The prefix is never empty for an admissible `c` -/

theorem buriedLv_singleton (c x dx : Nat) : buriedLv c [(x, dx)] x = decide (c ≤ dx) := by
  simp [buriedLv]

theorem keepCode_singleton (c x dx : Nat) (hc : 1 ≤ c) : keepCode c [(x, dx)] x = decide (c ≤ dx) := by
  rw [keepCode_eq_buriedLv c hc _ _ (by simp), buriedLv_singleton]

theorem levels_zero (h : α → Nat) (t : Tree α) : (levels h t).getD 0 [] = [(h t.root, t.depth)] := by
  cases t with
  | node r cs => simp [levels, Tree.root, depth]

/-- every root-to-leaf path, in particular the best one, is at most as long as the tree is deep -/
theorem bestPath_length_le_depth (d : α → Nat) (t : Tree α) : (bestPath d t).length ≤ t.depth :=
  Btc.bestPath_length_le_depth d t

/-- **Non-emptiness (specification side).** For `1 ≤ c ≤` length of the best chain the anchor is
    sufficiently buried, so the buried prefix starts with the anchor. -/
theorem buriedPrefix_head (hash d : α → Nat) (t : Tree α) (c : Nat)
    (hlen : c ≤ (bestPath d t).length) :
    (buriedPrefix hash t c (bestPath d t) 0).head? = some t.root := by
  have hdepth := bestPath_length_le_depth d t
  rw [buriedPrefix_eq_walkBy]
  cases t with
  | node r cs =>
    rw [bestPath_node]
    simp only [walkBy, levels_zero, Tree.root, buriedLv_singleton]
    rw [if_pos (by simp; omega)]
    rfl

theorem buriedPrefix_ne_nil (hash d : α → Nat) (t : Tree α) (c : Nat)
    (hlen : c ≤ (bestPath d t).length) : buriedPrefix hash t c (bestPath d t) 0 ≠ [] := by
  intro h
  have := buriedPrefix_head hash d t c hlen
  rw [h] at this
  simp at this

/-- **Non-emptiness (code side)**, with no distinctness hypothesis: for `c ≤` length of the main
    chain the loop of `get_utxos_from_chain` always applies the anchor. -/
theorem stablePrefix_head (t : Tree CBlock) (c : Nat)
    (hlen : c ≤ (mainChain CBlock.diff t).length) :
    (State.stablePrefix (levels CBlock.hash t) c (mainChain CBlock.diff t) 0).head? = some t.root := by
  rw [C02.mainChain_eq_bestPath] at *
  have hdepth := bestPath_length_le_depth CBlock.diff t
  cases t with
  | node r cs =>
    rw [bestPath_node]
    simp only [State.stablePrefix, levels_zero, Tree.root, stabilityCount_singleton]
    rw [if_neg]
    · rfl
    · simp only [Bool.and_eq_true, decide_eq_true_eq, not_and, Int.not_lt]
      intro _
      omega

/-! ## 4. Error cases of `get_utxos_from_chain` -/

/-- a malformed address is reported before anything else -/
theorem malformed_address_first (s : State) (c : Nat) (chain : List CBlock) (off : Option Utxo) (lim : Nat) :
    s.getUtxosFromChain .malformed c chain off lim = .err .malformedAddress := rfl

theorem wrong_network_first (s : State) (c : Nat) (chain : List CBlock) (off : Option Utxo) (lim : Nat) :
    s.getUtxosFromChain .wrongNetwork c chain off lim = .err .wrongNetwork := rfl

/-- a `c` larger than the number of unstable blocks on the chain is refused, naming that number -/
theorem minConf_too_large (s : State) (a : Addr) (c : Nat) (chain : List CBlock) (off : Option Utxo)
    (lim : Nat) (h : chain.length < c) :
    s.getUtxosFromChain (.ok a) c chain off lim = .err (.minConfirmationsTooLarge c chain.length) := by
  simp only [State.getUtxosFromChain, if_pos h]

/-- ... and this error is produced in no other situation -/
theorem minConf_too_large_iff (s : State) (a : Addr) (c : Nat) (chain : List CBlock) (off : Option Utxo)
    (lim : Nat) (g m : Nat) :
    s.getUtxosFromChain (.ok a) c chain off lim = .err (.minConfirmationsTooLarge g m) ↔
      (chain.length < c ∧ g = c ∧ m = chain.length) := by
  constructor
  · intro h
    by_cases hl : chain.length < c
    · rw [minConf_too_large s a c chain off lim hl] at h
      simp only [State.QResult.err.injEq, State.UtxosError.minConfirmationsTooLarge.injEq] at h
      exact ⟨hl, h.1.symm, h.2.symm⟩
    · exfalso
      simp only [State.getUtxosFromChain, if_neg hl] at h
      split at h
      · simp at h
      · split at h
        · simp at h
        · simp at h
  · intro ⟨hl, hg, hm⟩
    rw [hg, hm]
    exact minConf_too_large s a c chain off lim hl

/-- at the endpoint: `c` larger than the number of unstable best-chain blocks -/
theorem getUtxos_minConf_too_large (s : State) (a : Addr) (c lim : Nat)
    (h : (bestPath CBlock.diff s.unstable.tree).length < c) :
    s.getUtxos (.ok a) (.minConf c) lim =
      .err (.minConfirmationsTooLarge c (bestPath CBlock.diff s.unstable.tree).length) := by
  simp only [State.getUtxos, Unstable.mainChain, C02.mainChain_eq_bestPath]
  exact minConf_too_large s a c _ none lim h

/-! ## The endpoint: the filtered answer is the unfiltered answer as of block `B` -/

/-- `get_utxos_from_chain` with `min_confirmations = c ≥ 1` gives exactly the answer that the
    unfiltered walk gives on the chain cut after the last sufficiently buried block. -/
theorem filtered_eq_unfiltered_on_buriedPrefix (s : State) (addr : State.AddrArg) (c : Nat)
    (chain : List CBlock) (off : Option Utxo) (lim : Nat)
    (hc : 1 ≤ c) (hlen : c ≤ chain.length)
    (hnd : (s.unstable.tree.blocks.map CBlock.hash).Nodup)
    (hne : buriedPrefix CBlock.hash s.unstable.tree c chain 0 ≠ []) :
    s.getUtxosFromChain addr c chain off lim =
      s.getUtxosFromChain addr 0 (buriedPrefix CBlock.hash s.unstable.tree c chain 0) off lim := by
  cases addr with
  | malformed => rfl
  | wrongNetwork => rfl
  | ok a =>
    simp only [State.getUtxosFromChain, if_neg (Nat.not_lt.mpr hlen), Nat.not_lt_zero, if_false,
      stablePrefix_eq_buriedPrefix _ c hc hnd, C02.stablePrefix_zero]
    cases hl : (buriedPrefix CBlock.hash s.unstable.tree c chain 0).getLast? with
    | none => exact absurd (List.getLast?_eq_none_iff.mp hl) hne
    | some b => rfl

/-- **C04 at the endpoint.** `bitcoin_get_utxos` with `min_confirmations = c`, `1 ≤ c ≤` number of
    unstable best-chain blocks: the answer is the unfiltered answer computed on the best chain cut
    after `B`, the last block of the buried prefix; if it is a response, it names `B` as tip, at
    `B`'s height. -/
theorem getUtxos_minConf (s : State) (addr : State.AddrArg) (c lim : Nat)
    (hc : 1 ≤ c) (hlen : c ≤ (bestPath CBlock.diff s.unstable.tree).length)
    (hnd : (s.unstable.tree.blocks.map CBlock.hash).Nodup) :
    let view := buriedPrefix CBlock.hash s.unstable.tree c (bestPath CBlock.diff s.unstable.tree) 0
    s.getUtxos addr (.minConf c) lim = s.getUtxosFromChain addr 0 view none lim ∧
    ∃ B, view.getLast? = some B ∧
      ∀ r, s.getUtxos addr (.minConf c) lim = .ok r →
        r.tipHash = B.hash ∧ r.tipHeight = s.utxos.nextHeight + view.length - 1 := by
  intro view
  have hne : view ≠ [] := buriedPrefix_ne_nil CBlock.hash CBlock.diff s.unstable.tree c hlen
  have heq : s.getUtxos addr (.minConf c) lim = s.getUtxosFromChain addr 0 view none lim := by
    simp only [State.getUtxos, Unstable.mainChain, C02.mainChain_eq_bestPath]
    exact filtered_eq_unfiltered_on_buriedPrefix s addr c _ none lim hc hlen hnd hne
  refine ⟨heq, ?_⟩
  cases hl : view.getLast? with
  | none => exact absurd (List.getLast?_eq_none_iff.mp hl) hne
  | some B =>
    refine ⟨B, rfl, ?_⟩
    intro r hr
    rw [heq] at hr
    cases addr with
    | malformed => simp [State.getUtxosFromChain] at hr
    | wrongNetwork => simp [State.getUtxosFromChain] at hr
    | ok a =>
      simp only [State.getUtxosFromChain, Nat.not_lt_zero, if_false, C02.stablePrefix_zero, hl] at hr
      split at hr
      · simp at hr
      · split at hr
        · simp at hr
        · simp only [State.QResult.ok.injEq] at hr
          subst hr
          exact ⟨rfl, rfl⟩

/-! ## 5. Fork-free chains -/

/-- the tree is a single path: every block has at most one child -/
def IsPath (t : Tree α) : Prop := isPath t = true

instance (t : Tree α) : Decidable (IsPath t) := by unfold IsPath; infer_instance

theorem path_facts (d : α → Nat) : ∀ (t : Tree α), IsPath t →
    bestPath d t = t.blocks ∧ t.blocks.length = t.depth
  | .node r [], _ => by
    rw [bestPath_node]
    simp [pathsList, firstMax, blocks, blocksList, depth, depthList]
  | .node r [ch], hp => by
    have hp' : IsPath ch := by simpa [IsPath, isPath, isPathList] using hp
    have ⟨h1, h2⟩ := path_facts d ch hp'
    rw [bestPath_node]
    have : firstMax d (pathsList [ch]) [] = bestPath d ch := by
      simp [pathsList, bestPath]
    rw [this, h1]
    simp [blocks, blocksList, depth, depthList, h2]
  | .node r (_ :: _ :: _), hp => by simp [IsPath, isPath, isPathList] at hp

/-- a generic walk along a single path keeps the first `H + 1 - c` blocks as soon as its test on a
    one-block level is "own depth ≥ c" -/
theorem walkBy_path (hash : α → Nat) (keep : List (Nat × Nat) → Nat → Bool) (c : Nat)
    (hk : ∀ x dx, keep [(x, dx)] x = decide (c ≤ dx)) : ∀ (t : Tree α), IsPath t →
    walkBy hash keep (levels hash t) t.blocks 0 = t.blocks.take (t.depth + 1 - c)
  | .node r [], _ => by
    simp only [levels, levelsList, blocks, blocksList, depth, depthList, walkBy, List.getD_cons_zero, hk]
    by_cases h : c ≤ 1
    · have : 0 + 1 + 1 - c = (1 - c) + 1 := by omega
      simp [h, this]
    · have : 0 + 1 + 1 - c = 0 := by omega
      simp [h, this]
  | .node r [ch], hp => by
    have hp' : IsPath ch := by simpa [IsPath, isPath, isPathList] using hp
    have ih := walkBy_path hash keep c hk ch hp'
    simp only [levels, levelsList, zipLevels_nil_right, blocks, blocksList, depth, depthList,
      List.append_nil, walkBy, List.getD_cons_zero, hk, Nat.max_zero, walkBy_cons_succ, ih]
    by_cases h : c ≤ ch.depth + 1
    · have : ch.depth + 1 + 1 - c = (ch.depth + 1 - c) + 1 := by omega
      simp [h, this]
    · have : ch.depth + 1 + 1 - c = 0 := by omega
      simp [h, this]
  | .node r (_ :: _ :: _), hp => by simp [IsPath, isPath, isPathList] at hp

/-- **Fork-free corollary (specification).** On a single path of `H` blocks and `1 ≤ c ≤ H`, the
    buried prefix of the best chain is its first `H - c + 1` blocks: the named tip is at relative
    height `H - c`, i.e. absolute height `(stable height + H - 1) - c + 1`. -/
theorem forkFree_buriedPrefix (hash d : α → Nat) (t : Tree α) (hp : IsPath t) (c : Nat)
    (hc : 1 ≤ c) (hcH : c ≤ t.depth) :
    buriedPrefix hash t c (bestPath d t) 0 = t.blocks.take (t.depth - c + 1) ∧
    (buriedPrefix hash t c (bestPath d t) 0).length = t.depth - c + 1 := by
  have ⟨h1, h2⟩ := path_facts d t hp
  have hw := walkBy_path hash (buriedLv c) c (buriedLv_singleton c) t hp
  rw [buriedPrefix_eq_walkBy, h1, hw]
  have : t.depth + 1 - c = t.depth - c + 1 := by omega
  rw [this]
  refine ⟨rfl, ?_⟩
  rw [List.length_take, h2]
  omega

/-- **Fork-free corollary (code)**, with no distinctness hypothesis. -/
theorem forkFree_stablePrefix (t : Tree CBlock) (hp : IsPath t) (c : Nat)
    (hc : 1 ≤ c) (hcH : c ≤ t.depth) :
    State.stablePrefix (levels CBlock.hash t) c (mainChain CBlock.diff t) 0 =
        t.blocks.take (t.depth - c + 1) ∧
    (State.stablePrefix (levels CBlock.hash t) c (mainChain CBlock.diff t) 0).length =
        t.depth - c + 1 := by
  have ⟨h1, h2⟩ := path_facts CBlock.diff t hp
  have hw := walkBy_path CBlock.hash (keepCode c) c (fun x dx => keepCode_singleton c x dx hc) t hp
  rw [C02.mainChain_eq_bestPath, stablePrefix_eq_walkBy, h1, hw]
  have : t.depth + 1 - c = t.depth - c + 1 := by omega
  rw [this]
  refine ⟨rfl, ?_⟩
  rw [List.length_take, h2]
  omega

/-- with `c` above the height of the path nothing at all is sufficiently buried -/
theorem forkFree_too_large (hash d : α → Nat) (t : Tree α) (hp : IsPath t) (c : Nat)
    (hcH : t.depth < c) : buriedPrefix hash t c (bestPath d t) 0 = [] := by
  have ⟨h1, _⟩ := path_facts d t hp
  have hw := walkBy_path hash (buriedLv c) c (buriedLv_singleton c) t hp
  rw [buriedPrefix_eq_walkBy, h1, hw]
  have : t.depth + 1 - c = 0 := by omega
  rw [this]; rfl

/-! ## Examples (non-vacuity) -/

/-- `(hash, difficulty)`; a main branch 0-1-2-3-4 and a competing fork 5-6 off block 1 -/
private def ex1 : Tree (Nat × Nat) :=
  .node (0, 1) [.node (1, 1) [.node (2, 1) [.node (3, 1) [.node (4, 1) []]],
                              .node (5, 1) [.node (6, 1) []]]]

example : (ex1.blocks.map (·.1)).Nodup := by decide
example : (bestPath (·.2) ex1).map (·.1) = [0, 1, 2, 3, 4] := by decide
example : levels (·.1) ex1 = [[(0, 5)], [(1, 4)], [(2, 3), (5, 2)], [(3, 2), (6, 1)], [(4, 1)]] := by decide
/- block 2 has depth 3, its competitor 5 has depth 2: stability count 1 -/
example : stabilityCount [(2, 3), (5, 2)] 2 = 1 := by decide
example : stabilityCount [(2, 3), (5, 2)] 5 = -1 := by decide
/- c = 1: every best-chain block is at least 1 deep and at least 1 deeper than its competitor
   (2 vs 5: 3 vs 2; 3 vs 6: 2 vs 1): the whole chain is kept -/
example : (buriedPrefix (·.1) ex1 1 (bestPath (·.2) ex1) 0).map (·.1) = [0, 1, 2, 3, 4] := by decide
/- c = 2: the prefix stops at the fork, although block 2 is buried under 3 blocks -/
example : (buriedPrefix (·.1) ex1 2 (bestPath (·.2) ex1) 0).map (·.1) = [0, 1] := by decide
example : sufficientlyBuried (·.1) ex1 2 2 2 = false := by decide
example : (buriedPrefix (·.1) ex1 4 (bestPath (·.2) ex1) 0).map (·.1) = [0, 1] := by decide
example : (buriedPrefix (·.1) ex1 5 (bestPath (·.2) ex1) 0).map (·.1) = [0] := by decide
/- the walk over the code's level table gives the same answers -/
example : (walkBy (·.1) (keepCode 2) (levels (·.1) ex1) (mainChain (·.2) ex1) 0).map (·.1) = [0, 1] := by
  decide
example : (walkBy (·.1) (keepCode 1) (levels (·.1) ex1) (mainChain (·.2) ex1) 0).map (·.1) = [0, 1, 2, 3, 4] := by
  decide

/-- a fork-free chain of 4 blocks -/
private def ex2 : Tree (Nat × Nat) := .node (0, 1) [.node (1, 1) [.node (2, 1) [.node (3, 1) []]]]

example : IsPath ex2 := by decide
example : ¬ IsPath ex1 := by decide
example : ex2.depth = 4 := by decide
example : (buriedPrefix (·.1) ex2 2 (bestPath (·.2) ex2) 0).map (·.1) = [0, 1, 2] := by decide
example : (buriedPrefix (·.1) ex2 4 (bestPath (·.2) ex2) 0).map (·.1) = [0] := by decide
example : (buriedPrefix (·.1) ex2 5 (bestPath (·.2) ex2) 0).map (·.1) = [] := by decide

/-- without distinct hashes the two tests can differ (the code uses the last entry with the
    target hash, the specification the first): the distinctness hypothesis is needed -/
example : keepCode 2 [(7, 3), (7, 1)] 7 = false ∧ buriedLv 2 [(7, 3), (7, 1)] 7 = true := by decide

/-! A concrete canister state with a fork, satisfying all hypotheses of `getUtxos_minConf`:
    stable height 100, best chain 10-11-12-13-14, competing fork 15-16 off block 11. -/

private def mkB (h p : Nat) : CBlock := ⟨⟨h, p, 1, 0, 0, "", [], true⟩, none, 0⟩

private def exTree : Tree CBlock :=
  .node (mkB 10 9) [.node (mkB 11 10) [.node (mkB 12 11) [.node (mkB 13 12) [.node (mkB 14 13) []]],
                                       .node (mkB 15 11) [.node (mkB 16 15) []]]]

private def exState : State :=
  { utxos := { nextHeight := 100 }, unstable := { thr := 1, tree := exTree, net := .regtest } }

example : (buriedPrefix CBlock.hash exState.unstable.tree 2
    (bestPath CBlock.diff exState.unstable.tree) 0).map CBlock.hash = [10, 11] := by decide
example : (State.stablePrefix (levels CBlock.hash exTree) 2 (mainChain CBlock.diff exTree) 0).map
    CBlock.hash = [10, 11] := by decide

example :
    let view := buriedPrefix CBlock.hash exState.unstable.tree 2 (bestPath CBlock.diff exState.unstable.tree) 0
    exState.getUtxos (.ok []) (.minConf 2) 10 = exState.getUtxosFromChain (.ok []) 0 view none 10 ∧
    ∃ B, view.getLast? = some B ∧
      ∀ r, exState.getUtxos (.ok []) (.minConf 2) 10 = .ok r →
        r.tipHash = B.hash ∧ r.tipHeight = exState.utxos.nextHeight + view.length - 1 :=
  getUtxos_minConf exState (.ok []) 2 10 (by decide) (by decide) (by decide)

end Btc.Props.C04
