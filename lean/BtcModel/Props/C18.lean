import BtcModel.Lemmas.Transform

/-!
# C18 — watchdog HTTP transforms are total, canonical and strip everything else

Model: `Model/Transform.lean` (`watchdog/src/endpoints.rs`, `watchdog/src/lib.rs::transform_*`).
`transform` is a total Lean function, so "returns without trapping" is part of the model (the Rust
code has no `unwrap`/index-assign on this path: `Value` indexing by `Index::index` returns `Null`
instead of panicking, `parse().…unwrap_or_default()` and the two `match … Err` arms only print).

The JSON text parser is a parameter `pj : List Nat → Option Json`; the only thing assumed about it
(and only for the 64-bit bound in `body_canonical`) is `ParserWF pj`: the numbers it classifies as
`uint n` are below `2^64` (they are Rust `u64`s).
-/
namespace Btc.Props.C18
open Btc.Transform

theorem two64_eq : two64 = 2 ^ 64 := by decide

/-- The parser only returns values whose `uint` leaves fit into a `u64`. -/
def ParserWF (pj : List Nat → Option Json) : Prop := ∀ b j, pj b = some j → j.WF = true

/-- constant parser, used for examples -/
def pjConst (j : Json) : List Nat → Option Json := fun _ => some j

theorem parserWF_pjConst {j : Json} (h : j.WF = true) : ParserWF (pjConst j) := by
  intro b j' hj
  simp only [pjConst, Option.some.injEq] at hj
  subst hj; exact h

/-! ## 1. headers stripped, status kept -/

theorem headers_empty (pj : List Nat → Option Json) (ep : Endpoint) (r : Response) :
    (transform pj ep r).headers = [] := rfl

theorem status_kept (pj : List Nat → Option Json) (ep : Endpoint) (r : Response) :
    (transform pj ep r).status = r.status := rfl

/-! ## 2. canonical body -/

/-- The body is empty or the canonical `{"height":N}` (`N < 2^64`) / `{"height":null}`. -/
theorem body_canonical (pj : List Nat → Option Json) (hpj : ParserWF pj) (ep : Endpoint)
    (r : Response) :
    (transform pj ep r).body = [] ∨
      ∃ h : Option Nat, (∀ n, h = some n → n < 2 ^ 64) ∧ (transform pj ep r).body = renderHeight h := by
  rw [← two64_eq]
  simp only [transform]
  by_cases hs : r.status = 200
  · simp only [if_pos hs]
    cases hp : ep.path with
    | none =>
      simp only
      cases ht : parseU64Text r.body with
      | none => exact Or.inl rfl
      | some n =>
        refine Or.inr ⟨some n, ?_, rfl⟩
        intro m hm
        cases hm
        exact parseU64Text_lt ht
    | some p =>
      simp only
      cases hj : pj r.body with
      | none => exact Or.inl rfl
      | some j =>
        refine Or.inr ⟨extractPath p j, ?_, rfl⟩
        intro n hn
        exact extractPath_lt (hpj _ _ hj) hn
  · exact Or.inl (by simp only [if_neg hs])

/-- Without any assumption on the parser the body is still empty or a rendered height. -/
theorem body_canonical_unconditional (pj : List Nat → Option Json) (ep : Endpoint) (r : Response) :
    (transform pj ep r).body = [] ∨ ∃ h : Option Nat, (transform pj ep r).body = renderHeight h := by
  simp only [transform]
  by_cases hs : r.status = 200
  · simp only [if_pos hs]
    cases ep.path with
    | none =>
      simp only
      cases parseU64Text r.body with
      | none => exact Or.inl rfl
      | some n => exact Or.inr ⟨some n, rfl⟩
    | some p =>
      simp only
      cases pj r.body with
      | none => exact Or.inl rfl
      | some j => exact Or.inr ⟨_, rfl⟩
  · exact Or.inl (by simp only [if_neg hs])

/-- Any status other than 200 gives the empty body. -/
theorem body_empty_of_status_ne_200 (pj : List Nat → Option Json) (ep : Endpoint) (r : Response)
    (hs : r.status ≠ 200) : (transform pj ep r).body = [] := by
  simp only [transform, if_neg hs]

/-- … and hence the whole result is `{ status, headers := [], body := [] }`. -/
theorem transform_of_status_ne_200 (pj : List Nat → Option Json) (ep : Endpoint) (r : Response)
    (hs : r.status ≠ 200) : transform pj ep r = { status := r.status, headers := [], body := [] } := by
  simp only [transform, if_neg hs]

/-! ## 3. independence of the original headers -/

theorem headers_irrelevant (pj : List Nat → Option Json) (ep : Endpoint) (r : Response)
    (hs : List (String × String)) :
    transform pj ep { r with headers := hs } = transform pj ep r := rfl

/-- Two responses with equal status and body bytes are transformed to the same response. -/
theorem transform_eq_of_status_body_eq (pj : List Nat → Option Json) (ep : Endpoint)
    (r₁ r₂ : Response) (hs : r₁.status = r₂.status) (hb : r₁.body = r₂.body) :
    transform pj ep r₁ = transform pj ep r₂ := by
  simp only [transform, hs, hb]

/-! ## 4. JSON endpoints: only the extracted member matters -/

/-- The ten endpoints split into six JSON and four text endpoints. -/
theorem endpoint_kinds :
    (Endpoint.all.filter Endpoint.isJson).map Endpoint.name =
      ["bitcoin_mainnet_api_bitcore_io", "bitcoin_mainnet_api_blockchair_com",
       "bitcoin_mainnet_api_blockcypher_com", "dogecoin_mainnet_api_bitcore_io",
       "dogecoin_mainnet_api_blockchair_com", "dogecoin_mainnet_api_blockcypher_com"] ∧
    (Endpoint.all.filter Endpoint.isText).map Endpoint.name =
      ["bitcoin_mainnet_blockchain_info", "bitcoin_mainnet_blockstream_info", "bitcoin_mempool",
       "dogecoin_mainnet_psy_protocol"] := by
  constructor <;> rfl

theorem mem_all (ep : Endpoint) : ep ∈ Endpoint.all := by
  cases ep <;> simp [Endpoint.all]

theorem ofName_name (ep : Endpoint) : Endpoint.ofName? ep.name = some ep := by
  cases ep <;> rfl

theorem isJson_iff (ep : Endpoint) : ep.isJson = true ↔ ∃ p, ep.path = some p := by
  simp [Endpoint.isJson, Option.isSome_iff_exists]

theorem isText_iff (ep : Endpoint) : ep.isText = true ↔ ep.path = none := by
  simp [Endpoint.isText]

/-- Body of a JSON endpoint in closed form. -/
theorem json_body (pj : List Nat → Option Json) (ep : Endpoint) (hj : ep.isJson = true)
    (r : Response) :
    (transform pj ep r).body =
      if r.status = 200 then
        match pj r.body with
        | some j => renderHeight (extract ep j)
        | none => []
      else [] := by
  obtain ⟨p, hp⟩ := (isJson_iff ep).mp hj
  simp only [transform, extract, hp]
  rfl

/-- If the two parsed values agree on the extraction path, the outputs are identical. -/
theorem json_eq_of_extract_eq (pj : List Nat → Option Json) (ep : Endpoint)
    (hj : ep.isJson = true) (r₁ r₂ : Response) (hs : r₁.status = r₂.status) {j₁ j₂ : Json}
    (h₁ : pj r₁.body = some j₁) (h₂ : pj r₂.body = some j₂)
    (he : extract ep j₁ = extract ep j₂) :
    transform pj ep r₁ = transform pj ep r₂ := by
  obtain ⟨p, hp⟩ := (isJson_iff ep).mp hj
  simp only [extract, hp] at he
  simp only [transform, hs, hp, h₁, h₂, he]

/-- For status 200 the converse holds too: the replicas' outputs agree iff the extracted heights
    agree. -/
theorem json_eq_iff_extract_eq (pj : List Nat → Option Json) (ep : Endpoint)
    (hj : ep.isJson = true) (r₁ r₂ : Response) (hs₁ : r₁.status = 200) (hs₂ : r₂.status = 200)
    {j₁ j₂ : Json} (h₁ : pj r₁.body = some j₁) (h₂ : pj r₂.body = some j₂) :
    transform pj ep r₁ = transform pj ep r₂ ↔ extract ep j₁ = extract ep j₂ := by
  constructor
  · intro h
    have hb := congrArg Response.body h
    rw [json_body pj ep hj, json_body pj ep hj] at hb
    simp only [hs₁, hs₂, if_true, h₁, h₂] at hb
    exact renderHeight_injective hb
  · exact json_eq_of_extract_eq pj ep hj r₁ r₂ (hs₁.trans hs₂.symm) h₁ h₂

/-- JSON whitespace (and every other textual variation the parser erases): bodies that parse to
    the same value are transformed identically. -/
theorem json_eq_of_parse_eq (pj : List Nat → Option Json) (ep : Endpoint) (hj : ep.isJson = true)
    (r₁ r₂ : Response) (hs : r₁.status = r₂.status) (hp : pj r₁.body = pj r₂.body) :
    transform pj ep r₁ = transform pj ep r₂ := by
  obtain ⟨p, hpath⟩ := (isJson_iff ep).mp hj
  simp only [transform, hs, hpath, hp]

/-- Observationally equal parsed values give identical outputs (for every JSON endpoint). -/
theorem json_eq_of_obsEq (pj : List Nat → Option Json) (ep : Endpoint) (hj : ep.isJson = true)
    (r₁ r₂ : Response) (hs : r₁.status = r₂.status) {j₁ j₂ : Json}
    (h₁ : pj r₁.body = some j₁) (h₂ : pj r₂.body = some j₂) (ho : ObsEq j₁ j₂) :
    transform pj ep r₁ = transform pj ep r₂ := by
  refine json_eq_of_extract_eq pj ep hj r₁ r₂ hs h₁ h₂ ?_
  obtain ⟨p, hp⟩ := (isJson_iff ep).mp hj
  simp only [extract, hp]
  exact ho p

/-- 4(a), one level: `Json.get` does not depend on the member order when keys are distinct. -/
theorem get_perm {ms₁ ms₂ : List (String × Json)} (hp : ms₁.Perm ms₂)
    (hnd : (ms₁.map Prod.fst).Nodup) (key : String) :
    (Json.obj ms₁).get key = (Json.obj ms₂).get key := Json.get_perm hp hnd key

/-- 4(a): permuting the members of objects with pairwise distinct keys, at any depth of the
    parsed value (`DeepPerm`), does not change the result. -/
theorem json_member_order_irrelevant (pj : List Nat → Option Json) (ep : Endpoint)
    (hj : ep.isJson = true) (r₁ r₂ : Response) (hs : r₁.status = r₂.status) {j₁ j₂ : Json}
    (h₁ : pj r₁.body = some j₁) (h₂ : pj r₂.body = some j₂) (hp : DeepPerm j₁ j₂) :
    transform pj ep r₁ = transform pj ep r₂ :=
  json_eq_of_obsEq pj ep hj r₁ r₂ hs h₁ h₂ hp.obsEq

/-- 4(b): adding, removing or changing members / array elements that are not on the endpoint's
    extraction path (`EditOff`) does not change the result. -/
theorem json_other_members_irrelevant (pj : List Nat → Option Json) (ep : Endpoint)
    {p : List Step} (hpath : ep.path = some p) (r₁ r₂ : Response) (hs : r₁.status = r₂.status)
    {j₁ j₂ : Json} (h₁ : pj r₁.body = some j₁) (h₂ : pj r₂.body = some j₂)
    (he : EditOff p j₁ j₂) :
    transform pj ep r₁ = transform pj ep r₂ := by
  refine json_eq_of_extract_eq pj ep ((isJson_iff ep).mpr ⟨p, hpath⟩) r₁ r₂ hs h₁ h₂ ?_
  simp only [extract, hpath]
  exact he.extract_eq

/-- 4(b), the basic edit spelled out: a member whose key differs from `key` can be inserted
    anywhere in an object without changing `get key`. -/
theorem get_insert_other {key k' : String} (hne : k' ≠ key) (v : Json)
    (pre post : List (String × Json)) :
    (Json.obj (pre ++ (k', v) :: post)).get key = (Json.obj (pre ++ post)).get key :=
  Json.get_insert_other hne v pre post

/-- Closed forms of `extract` for the three shapes of JSON endpoints. -/
theorem extract_bitcore (j : Json) :
    extract .bitcoin_mainnet_api_bitcore_io j = ((j.idx 0).get "height").asU64 ∧
    extract .dogecoin_mainnet_api_bitcore_io j = ((j.idx 0).get "height").asU64 := ⟨rfl, rfl⟩

theorem extract_blockchair (j : Json) :
    extract .bitcoin_mainnet_api_blockchair_com j = ((j.get "data").get "best_block_height").asU64 ∧
    extract .dogecoin_mainnet_api_blockchair_com j = ((j.get "data").get "best_block_height").asU64 :=
  ⟨rfl, rfl⟩

theorem extract_blockcypher (j : Json) :
    extract .bitcoin_mainnet_api_blockcypher_com j = (j.get "height").asU64 ∧
    extract .dogecoin_mainnet_api_blockcypher_com j = (j.get "height").asU64 := ⟨rfl, rfl⟩

/-! ## 5. text endpoints -/

/-- Body of a text endpoint in closed form: a function of status and raw body bytes only. -/
theorem text_body (pj : List Nat → Option Json) (ep : Endpoint) (ht : ep.isText = true)
    (r : Response) :
    (transform pj ep r).body =
      if r.status = 200 then
        match parseU64Text r.body with
        | some n => renderHeight (some n)
        | none => []
      else [] := by
  have hp := (isText_iff ep).mp ht
  simp only [transform, hp]
  rfl

/-- Text endpoints never consult the JSON parser. -/
theorem text_parser_irrelevant (pj₁ pj₂ : List Nat → Option Json) (ep : Endpoint)
    (ht : ep.isText = true) (r : Response) : transform pj₁ ep r = transform pj₂ ep r := by
  have hp := (isText_iff ep).mp ht
  simp only [transform, hp]

theorem text_body_ne_nil_iff (pj : List Nat → Option Json) (ep : Endpoint) (ht : ep.isText = true)
    (r : Response) :
    (transform pj ep r).body ≠ [] ↔ r.status = 200 ∧ ∃ n, parseU64Text r.body = some n := by
  rw [text_body pj ep ht]
  by_cases hs : r.status = 200
  · rw [if_pos hs]
    cases h : parseU64Text r.body with
    | none => simp
    | some n => exact ⟨fun _ => ⟨hs, n, rfl⟩, fun _ => renderHeight_ne_nil (some n)⟩
  · rw [if_neg hs]
    exact ⟨fun h => absurd rfl h, fun h => absurd h.1 hs⟩

theorem text_body_of_parse (pj : List Nat → Option Json) (ep : Endpoint) (ht : ep.isText = true)
    (r : Response) (hs : r.status = 200) {n : Nat} (hn : parseU64Text r.body = some n) :
    (transform pj ep r).body = renderHeight (some n) := by
  rw [text_body pj ep ht, if_pos hs, hn]

theorem text_body_of_parse_fail (pj : List Nat → Option Json) (ep : Endpoint)
    (ht : ep.isText = true) (r : Response) (hn : parseU64Text r.body = none) :
    (transform pj ep r).body = [] := by
  rw [text_body pj ep ht, hn]; simp

/-- A text endpoint never produces `{"height":null}`. -/
theorem text_body_ne_null (pj : List Nat → Option Json) (ep : Endpoint) (ht : ep.isText = true)
    (r : Response) : (transform pj ep r).body ≠ renderHeight none := by
  rw [text_body pj ep ht]
  intro h
  by_cases hs : r.status = 200
  · rw [if_pos hs] at h
    cases hp : parseU64Text r.body with
    | none => rw [hp] at h; exact renderHeight_ne_nil none h.symm
    | some n => rw [hp] at h; cases renderHeight_injective h
  · rw [if_neg hs] at h; exact renderHeight_ne_nil none h.symm

/-- Characterisation of `parseU64Text` (`u64::from_str`): exactly `+?[0-9]+` with value `< 2^64`. -/
theorem parseU64Text_eq_some_iff (bs : List Nat) (n : Nat) :
    parseU64Text bs = some n ↔
      ∃ ds : List Nat, (bs = ds ∨ bs = 43 :: ds) ∧ ds ≠ [] ∧ (∀ d ∈ ds, isDigit d = true) ∧
        decVal ds = n ∧ n < 2 ^ 64 := by
  rw [← two64_eq]; exact Btc.Transform.parseU64Text_eq_some_iff bs n

theorem parseU64Text_rejects_empty : parseU64Text [] = none := rfl
theorem parseU64Text_rejects_lone_plus : parseU64Text [43] = none := rfl

/-- Any byte other than `+` / an ASCII digit (whitespace, newline, `-`, `.`, non-ASCII bytes,
    bytes of an invalid UTF-8 sequence) makes the parse fail. -/
theorem parseU64Text_rejects_byte {bs : List Nat} {b : Nat} (hb : b ∈ bs)
    (hnd : ¬ (48 ≤ b ∧ b ≤ 57)) (hnp : b ≠ 43) : parseU64Text bs = none := by
  refine parseU64Text_reject_byte hb ?_ hnp
  simp only [isDigit, Bool.and_eq_false_iff, decide_eq_false_iff_not]
  omega

theorem parseU64Text_rejects_inner_plus (b : Nat) (rest : List Nat) (h : 43 ∈ rest) :
    parseU64Text (b :: rest) = none := parseU64Text_reject_inner_plus b rest h

theorem parseU64Text_rejects_overflow {ds : List Nat} (h : 2 ^ 64 ≤ decVal ds) :
    parseU64Text ds = none ∧ parseU64Text (43 :: ds) = none :=
  parseU64Text_reject_overflow (by rw [two64_eq]; exact h)

/-- The canonical decimal rendering is accepted and read back (what `fetch.rs` relies on). -/
theorem parseU64Text_decDigits {n : Nat} (hn : n < 2 ^ 64) : parseU64Text (decDigits n) = some n :=
  Btc.Transform.parseU64Text_decDigits (by rw [two64_eq]; exact hn)

/-! ## 6. rendering is injective -/

theorem renderHeight_injective {h₁ h₂ : Option Nat} (h : renderHeight h₁ = renderHeight h₂) :
    h₁ = h₂ := Btc.Transform.renderHeight_injective h

theorem renderHeight_ne_nil (h : Option Nat) : renderHeight h ≠ [] :=
  Btc.Transform.renderHeight_ne_nil h

/-- Shape of the rendered bytes: `{"height":` ++ (digits | `null`) ++ `}`. -/
theorem renderHeight_shape (h : Option Nat) :
    ∃ mid, renderHeight h = asciiBytes "{\"height\":" ++ mid ++ asciiBytes "}" ∧
      ((h = none ∧ mid = asciiBytes "null") ∨
       (∃ n, h = some n ∧ mid = decDigits n ∧ mid ≠ [] ∧ (∀ d ∈ mid, isDigit d = true) ∧
          parseDigits mid 0 = some n)) := by
  cases h with
  | none => exact ⟨nullBytes, rfl, Or.inl ⟨rfl, rfl⟩⟩
  | some n =>
    exact ⟨decDigits n, rfl,
      Or.inr ⟨n, rfl, rfl, decDigits_ne_nil n, decDigits_allDigits n, parseDigits_decDigits n⟩⟩

/-- All replicas obtain identical bytes: the whole output is determined by the status and, for
    status 200, by the height a replica's response carries (`heightOf`). -/
def heightOf (pj : List Nat → Option Json) (ep : Endpoint) (r : Response) : Option (Option Nat) :=
  if r.status = 200 then
    match ep.path with
    | none => (parseU64Text r.body).map some
    | some p => (pj r.body).map (extractPath p)
  else none

theorem transform_eq_iff (pj : List Nat → Option Json) (ep : Endpoint) (r₁ r₂ : Response) :
    transform pj ep r₁ = transform pj ep r₂ ↔
      r₁.status = r₂.status ∧ heightOf pj ep r₁ = heightOf pj ep r₂ := by
  have key : ∀ r, (transform pj ep r).body =
      match heightOf pj ep r with
      | some h => renderHeight h
      | none => [] := by
    intro r
    simp only [transform, heightOf]
    by_cases hs : r.status = 200
    · simp only [if_pos hs]
      cases ep.path with
      | none => simp only; cases parseU64Text r.body <;> rfl
      | some p => simp only; cases pj r.body <;> rfl
    · simp only [if_neg hs]
  constructor
  · intro h
    have hst' : (transform pj ep r₁).status = (transform pj ep r₂).status :=
      congrArg Response.status h
    have hst : r₁.status = r₂.status := hst'
    refine ⟨hst, ?_⟩
    have hb := congrArg Response.body h
    rw [key r₁, key r₂] at hb
    cases h₁ : heightOf pj ep r₁ with
    | none =>
      cases h₂ : heightOf pj ep r₂ with
      | none => rfl
      | some b => rw [h₁, h₂] at hb; exact absurd hb.symm (renderHeight_ne_nil b)
    | some a =>
      cases h₂ : heightOf pj ep r₂ with
      | none => rw [h₁, h₂] at hb; exact absurd hb (renderHeight_ne_nil a)
      | some b => rw [h₁, h₂] at hb; rw [renderHeight_injective hb]
  · rintro ⟨hst, hh⟩
    have hb : (transform pj ep r₁).body = (transform pj ep r₂).body := by rw [key r₁, key r₂, hh]
    have e₁ : transform pj ep r₁ = ⟨r₁.status, [], (transform pj ep r₁).body⟩ := rfl
    have e₂ : transform pj ep r₂ = ⟨r₂.status, [], (transform pj ep r₂).body⟩ := rfl
    rw [e₁, e₂, hst, hb]

/-! ## 7. examples / non-vacuity -/

section Examples

def bitcoreBody : Json :=
  .arr [.obj [("height", .uint 700000), ("hash", .str "..")]]

def resp (status : Nat) (body : List Nat) : Response :=
  { status := status, headers := [("content-type", "application/json")], body := body }

example : ParserWF (pjConst bitcoreBody) := parserWF_pjConst (by decide)

example : (transform (pjConst bitcoreBody) .bitcoin_mainnet_api_bitcore_io (resp 200 [])).body =
    asciiBytes "{\"height\":700000}" := by decide

example : transform (pjConst bitcoreBody) .dogecoin_mainnet_api_bitcore_io (resp 200 [1, 2, 3]) =
    { status := 200, headers := [], body := asciiBytes "{\"height\":700000}" } := by decide

example : (transform (pjConst (.obj [("data", .obj [("best_block_height", .uint 5)])]))
    .bitcoin_mainnet_api_blockchair_com (resp 200 [])).body = asciiBytes "{\"height\":5}" := by
  decide

example : (transform (pjConst (.obj [("height", .uint 700003), ("name", .str "BTC.main")]))
    .bitcoin_mainnet_api_blockcypher_com (resp 200 [])).body =
    asciiBytes "{\"height\":700003}" := by decide

/-- a repeated key: the last occurrence wins (serde_json `Map::insert`) -/
example : (transform (pjConst (.obj [("height", .uint 1), ("height", .uint 2)]))
    .bitcoin_mainnet_api_blockcypher_com (resp 200 [])).body = asciiBytes "{\"height\":2}" := by
  decide

/-- wrong-typed values give `{"height":null}` -/
example : (transform (pjConst (.obj [("height", .str "700003")]))
    .bitcoin_mainnet_api_blockcypher_com (resp 200 [])).body = asciiBytes "{\"height\":null}" := by
  decide

example : (transform (pjConst (.obj [("height", .otherNum)]))
    .dogecoin_mainnet_api_blockcypher_com (resp 200 [])).body = asciiBytes "{\"height\":null}" := by
  decide

/-- a bitcore body that is an object instead of an array, an empty array, a missing member -/
example : (transform (pjConst (.obj [("height", .uint 7)]))
    .bitcoin_mainnet_api_bitcore_io (resp 200 [])).body = asciiBytes "{\"height\":null}" := by
  decide

example : (transform (pjConst (.arr [])) .bitcoin_mainnet_api_bitcore_io (resp 200 [])).body =
    asciiBytes "{\"height\":null}" := by decide

example : (transform (pjConst (.obj [("data", .null)]))
    .dogecoin_mainnet_api_blockchair_com (resp 200 [])).body = asciiBytes "{\"height\":null}" := by
  decide

/-- unparsable JSON gives the empty body -/
example : (transform (fun _ => none) .bitcoin_mainnet_api_bitcore_io (resp 200 [123])).body = [] := by
  decide

/-- text endpoints -/
example : (transform (fun _ => none) .bitcoin_mainnet_blockchain_info
    (resp 200 (asciiBytes "+12"))).body = asciiBytes "{\"height\":12}" := by decide

example : (transform (fun _ => none) .bitcoin_mainnet_blockstream_info
    (resp 200 (asciiBytes "700005"))).body = asciiBytes "{\"height\":700005}" := by decide

example : (transform (fun _ => none) .bitcoin_mempool
    (resp 200 (asciiBytes "0007"))).body = asciiBytes "{\"height\":7}" := by decide

example : (transform (fun _ => none) .dogecoin_mainnet_psy_protocol
    (resp 200 (asciiBytes "12\n"))).body = [] := by decide

example : (transform (fun _ => none) .bitcoin_mempool (resp 200 (asciiBytes " 12"))).body = [] := by
  decide

example : (transform (fun _ => none) .bitcoin_mempool (resp 200 (asciiBytes "-1"))).body = [] := by
  decide

example : (transform (fun _ => none) .bitcoin_mempool (resp 200 (asciiBytes "++1"))).body = [] := by
  decide

example : (transform (fun _ => none) .bitcoin_mempool (resp 200 [])).body = [] := by decide

/-- u64::MAX is accepted, u64::MAX + 1 is not -/
example : (transform (fun _ => none) .bitcoin_mempool
    (resp 200 (asciiBytes "18446744073709551615"))).body =
    asciiBytes "{\"height\":18446744073709551615}" := by decide

example : (transform (fun _ => none) .bitcoin_mempool
    (resp 200 (asciiBytes "18446744073709551616"))).body = [] := by decide

/-- invalid UTF-8 (a lone continuation byte) -/
example : (transform (fun _ => none) .bitcoin_mempool (resp 200 [49, 128])).body = [] := by decide

/-- status 404 gives the empty body, for both kinds of endpoints -/
example : transform (pjConst bitcoreBody) .bitcoin_mainnet_api_bitcore_io (resp 404 []) =
    { status := 404, headers := [], body := [] } := by decide

example : transform (fun _ => none) .bitcoin_mempool (resp 404 (asciiBytes "12")) =
    { status := 404, headers := [], body := [] } := by decide

/-- `DeepPerm` / `EditOff` are inhabited by non-trivial instances. -/
example : DeepPerm (.arr [.obj [("height", .uint 1), ("hash", .str "x")]])
    (.arr [.obj [("hash", .str "x"), ("height", .uint 1)]]) :=
  DeepPerm.inArr [] [] (DeepPerm.perm (List.Perm.swap _ _ _) (by decide))

example : EditOff [.idx 0, .key "height"] (.arr [.obj [("height", .uint 1)]])
    (.arr [.obj [("height", .uint 1), ("hash", .str "x")], .str "second block"]) :=
  EditOff.trans
    (EditOff.inElem [] [] (EditOff.addMember [.key "height"] "hash" (.str "x") [("height", .uint 1)] []
      (by intro rest h; simp at h)))
    (EditOff.appendElems 0 [.key "height"] [.obj [("height", .uint 1), ("hash", .str "x")]]
      [.str "second block"] (by decide))

/-- rendering of small and large numbers -/
example : renderHeight (some 0) = asciiBytes "{\"height\":0}" := by decide
example : renderHeight none = asciiBytes "{\"height\":null}" := by decide
example : decDigits 1234567890 = asciiBytes "1234567890" := by decide

end Examples

end Btc.Props.C18
