import BtcModel.Lemmas.Reach2Paused
import BtcModel.Props.C01Reach
import BtcModel.Props.C06
import BtcModel.Props.C07
import BtcModel.Props.C20

/-!
# The query theorems for every state the canister can be in

`Spec.Reachable2` (`Spec/Reach2.lean`): the states reachable from `State::new` by any history of
block insertions, calls of `ingest_stable_blocks_into_utxoset` — including calls that pause in the
middle of a block and are continued by later calls —, `set_config`, upgrades, announced headers
and queries.  `Lemmas.Reach2.reachable2_inv`: such a state satisfies the full invariant
`Spec.InvAll`, or it is `PausedAt'` the anchor of a state `s0` that does.

`reachable2_view` combines this with the invisibility theorems of C08: for every reachable state
`s` there is a state `s0` satisfying `InvAll s0 G` (`s0 = s` when no block is partially ingested)
that has the same unstable blocks and stable height and gives the same answer to every
`get_utxos`, `get_balance`, `get_block_headers` and fee-percentile request.  The C01, C04, C05, C06,
C07 and C20 theorems follow for *every* reachable state, paused or not, with no hypothesis left
except the numeric range hypotheses (`G.length ≤ 2^32`, `G.length + chain.length ≤ 2^32`,
`TxRange G`): these are not invariants of the model, whose heights, ids and output counts are
unbounded naturals.
-/
namespace Btc.Props.ReachAll
open Btc Btc.Spec Btc.State Btc.Lemmas.Reach Btc.Lemmas.Reach2

variable {bound : Unstable.BoundFn} {s : State} {G : List Block}

/-! ## Consequences of the full invariant -/

theorem InvAll.mainChain_unique {s : State} {G : List Block} (h : InvAll s G) :
    TxidsUnique (G ++ s.unstable.mainChain.map (·.blk)) := C01Reach.mainChain_unique h.invU

theorem InvAll.stable_unique {s : State} {G : List Block} (h : InvAll s G) : TxidsUnique G :=
  TxidsUnique_left _ _ (InvAll.mainChain_unique h)

theorem InvAll.allPathsUnique {s : State} {G : List Block} (h : InvAll s G) :
    C06.AllPathsUnique s G := by
  intro tip chain sib hc
  exact h.invU.unique tip _ (by simp [pathBlocks, hc])

theorem InvAll.hashesNodup {s : State} {G : List Block} (h : InvAll s G) :
    (s.unstable.tree.blocks.map CBlock.hash).Nodup := tree_hashes_nodup h.invU.inv

/-! ## The view of a reachable state -/

/-- `s` answers every request as `s0` does, and has the same unstable blocks and stable height -/
structure SameView (s s0 : State) : Prop where
  unstable : s.unstable = s0.unstable
  nextHeight : s.utxos.nextHeight = s0.utxos.nextHeight
  getUtxos : ∀ x f limit, s.getUtxos x f limit = s0.getUtxos x f limit
  getBalance : ∀ x c, s.getBalance x c = s0.getBalance x c
  getBlockHeaders : ∀ maxHeaders start end_,
    s.getBlockHeaders maxHeaders start end_ = s0.getBlockHeaders maxHeaders start end_
  feePercentiles : ∀ n, (s.feePercentiles n).map (·.2) = (s0.feePercentiles n).map (·.2)
  infoHeight : s.blockchainInfo.height = s0.blockchainInfo.height
  infoHash : s.blockchainInfo.hash = s0.blockchainInfo.hash
  infoTimestamp : s.blockchainInfo.timestamp = s0.blockchainInfo.timestamp
  infoDifficulty : s.blockchainInfo.difficulty = s0.blockchainInfo.difficulty

theorem SameView.refl (s : State) : SameView s s :=
  ⟨rfl, rfl, fun _ _ _ => rfl, fun _ _ => rfl, fun _ _ _ => rfl, fun _ => rfl, rfl, rfl, rfl, rfl⟩

/-- a paused state answers as the state before the block's ingestion began -/
theorem sameView_of_paused {s0 s : State} {G : List Block} {A : CBlock} {B : Nat}
    (hA : InvAll s0 G) (hP : PausedAt' s0 s G A B) : SameView s s0 := by
  have hU := InvAll.stable_unique hA
  have hi := C08.blockchainInfo_invisible hP.base
  refine ⟨hP.unstable, hP.nextHeight, ?_, C08.getBalance_invisible hP.base,
    C08.getBlockHeaders_invisible hP.base hA.headers.heights, C08.feePercentiles_invisible hP.base,
    hi.1, hi.2.1, hi.2.2.1, hi.2.2.2.1⟩
  intro x f limit
  cases f with
  | none_ => exact (C08.getUtxos_invisible hP.base hU x 0 limit).1
  | minConf c => exact (C08.getUtxos_invisible hP.base hU x c limit).2
  | page p => exact C08.getUtxos_page_invisible hP.base hU x p limit

/-- **Every reachable state is, for every query, a state satisfying the full invariant.** -/
theorem reachable2_view (hr : Reachable2 bound s G) :
    ∃ s0, InvAll s0 G ∧ SameView s s0 ∧ (¬ Paused s → s0 = s) := by
  rcases reachable2_inv2 hr with hA | ⟨s0, A, B, hA, hP⟩
  · exact ⟨s, hA, SameView.refl s, fun _ => rfl⟩
  · exact ⟨s0, hA, sameView_of_paused hA hP, fun hn => absurd hP.paused hn⟩

/-- the non-paused reachable states satisfy the full invariant themselves -/
theorem reachable2_invAll (hr : Reachable2 bound s G) (hn : ¬ Paused s) : InvAll s G :=
  (reachable2_inv hr).1 hn

/-! ## (a) C01: `get_utxos` is the ledger of the address at the served chain -/

/-- **C01 (every reachable state, paused or not)**: the unfiltered first-page `get_utxos` answer
    is the ledger state of the address at `G ++ best chain` (see `C01.getUtxos_unfiltered`). -/
theorem getUtxos_unfiltered (hr : Reachable2 bound s G) (hH : G.length ≤ 2 ^ 32) (a : Addr)
    (limit : Nat) :
    ∃ l r tip, s.unstable.mainChain.getLast? = some tip ∧
      l.Perm (ledgerFor a (G ++ s.unstable.mainChain.map (·.blk))) ∧
      (l.map (·.outpoint)).Nodup ∧ C01.HeightsDesc l ∧
      s.getUtxos (.ok a) .none_ limit = .ok r ∧
      r.utxos = l.take limit ∧ r.tipHash = tip.hash ∧
      r.tipHeight = G.length + s.unstable.mainChain.length - 1 ∧
      (r.nextPage = none ↔ l.length ≤ limit) := by
  obtain ⟨s0, hA, hV, _⟩ := reachable2_view hr
  rw [hV.unstable, hV.getUtxos]
  exact C01.getUtxos_unfiltered hA.invU.inv (InvAll.mainChain_unique hA) hH a limit

/-- **C01 with `min_confirmations` (every reachable state)** (see `C01.getUtxos_minConf`). -/
theorem getUtxos_minConf (hr : Reachable2 bound s G) (hH : G.length ≤ 2 ^ 32)
    (a : Addr) (c limit : Nat) (hc : c ≤ s.unstable.mainChain.length) :
    let applied := stablePrefix (Tree.levels CBlock.hash s.unstable.tree) c s.unstable.mainChain 0
    ∃ l r, l.Perm (ledgerFor a (G ++ applied.map (·.blk))) ∧
      (l.map (·.outpoint)).Nodup ∧ C01.HeightsDesc l ∧
      s.getUtxos (.ok a) (.minConf c) limit = .ok r ∧
      r.utxos = l.take limit ∧ (r.nextPage = none ↔ l.length ≤ limit) ∧
      (∀ tip, applied.getLast? = some tip →
        r.tipHash = tip.hash ∧ r.tipHeight = G.length + applied.length - 1) := by
  obtain ⟨s0, hA, hV, _⟩ := reachable2_view hr
  rw [hV.unstable] at hc ⊢
  rw [hV.getUtxos]
  exact C01.getUtxos_minConf hA.invU.inv (InvAll.mainChain_unique hA) hH a c limit hc

/-! ## (b) C05: `get_balance` is the sum of the `get_utxos` answer -/

theorem counted_congr {s s0 : State} (h : s.unstable = s0.unstable) (c : Nat) :
    C05.counted s c = C05.counted s0 c := by
  unfold C05.counted; rw [h]

/-- **C05 (every reachable state, every `min_confirmations`)**: `get_balance(a, c)` is the sum of
    the values of the complete `get_utxos(a, min_confirmations = c)` answer, and both are the
    reference ledger of `a` at `G ++ counted prefix` (see `C05.balance_eq_sum_of_utxos`). -/
theorem balance_eq_sum_of_utxos (hr : Reachable2 bound s G) (a : Addr) (c limit : Nat)
    (hc : c ≤ s.unstable.mainChain.length) :
    ∃ l r, s.getUtxos (.ok a) (.minConf c) limit = .ok r ∧
      r.utxos = l.take limit ∧ (r.nextPage = none ↔ l.length ≤ limit) ∧
      l.Perm (ledgerFor a (G ++ (C05.counted s c).map (·.blk))) ∧
      s.getBalance (.ok a) c = .ok (totalValue l) := by
  obtain ⟨s0, hA, hV, _⟩ := reachable2_view hr
  rw [hV.unstable] at hc
  rw [counted_congr hV.unstable, hV.getUtxos, hV.getBalance]
  exact C05.balance_eq_sum_of_utxos hA.invU.inv (InvAll.mainChain_unique hA) a c limit hc

/-- `get_balance` is the ledger balance (every reachable state) -/
theorem getBalance_eq_ledger (hr : Reachable2 bound s G) (a : Addr) (c : Nat)
    (hc : c ≤ s.unstable.mainChain.length) :
    s.getBalance (.ok a) c = .ok (totalValue (ledgerFor a (G ++ (C05.counted s c).map (·.blk)))) := by
  obtain ⟨s0, hA, hV, _⟩ := reachable2_view hr
  rw [hV.unstable] at hc
  rw [counted_congr hV.unstable, hV.getBalance]
  exact C05.getBalance_eq_ledger hA.invU.inv (InvAll.mainChain_unique hA) a c hc

/-- a single-page answer: the balance is the sum of the returned values (every reachable state) -/
theorem balance_eq_sum_single_page (hr : Reachable2 bound s G) (a : Addr) (c limit : Nat)
    (hc : c ≤ s.unstable.mainChain.length) (r : UtxosResponse)
    (hres : s.getUtxos (.ok a) (.minConf c) limit = .ok r) (hnext : r.nextPage = none) :
    s.getBalance (.ok a) c = .ok (totalValue r.utxos) := by
  obtain ⟨s0, hA, hV, _⟩ := reachable2_view hr
  rw [hV.unstable] at hc
  rw [hV.getUtxos] at hres
  rw [hV.getBalance]
  exact C05.balance_eq_sum_single_page hA.invU.inv (InvAll.mainChain_unique hA) a c limit hc r hres hnext

/-- a too large `min_confirmations` is reported identically by both endpoints (every reachable
    state) -/
theorem tooLarge_agree (hr : Reachable2 bound s G) (a : Addr) (c limit : Nat)
    (hc : s.unstable.mainChain.length < c) :
    s.getBalance (.ok a) c = .err (.minConfirmationsTooLarge c s.unstable.mainChain.length) ∧
    s.getUtxos (.ok a) (.minConf c) limit =
      .err (.minConfirmationsTooLarge c s.unstable.mainChain.length) := by
  obtain ⟨s0, hA, hV, _⟩ := reachable2_view hr
  rw [hV.unstable] at hc ⊢
  rw [hV.getUtxos, hV.getBalance]
  exact C05.tooLarge_agree hA.invU.inv a c limit hc

/-! ## (c) C07: `get_block_headers` is a slice of the full best chain -/

theorem fullBest_congr {s s0 : State} (h : s.unstable = s0.unstable) (G : List Block) :
    C07.fullBest s G = C07.fullBest s0 G := by
  unfold C07.fullBest; rw [h]

theorem bestBlocks_congr {s s0 : State} (h : s.unstable = s0.unstable) (G : List Block) :
    C07.bestBlocks s G = C07.bestBlocks s0 G := by
  unfold C07.bestBlocks; rw [h]

theorem mainChainHeight_congr {s s0 : State} (hV : SameView s s0) :
    s.mainChainHeight = s0.mainChainHeight := by
  unfold State.mainChainHeight; rw [hV.unstable, hV.nextHeight]

/-- **C07 (every reachable state, paused or not)**: start/end are validated against the height of
    the best chain; the answer is the slice of `fullBest s G` = the headers of the stable chain `G`
    followed by those of the unstable main chain (see `C07.getBlockHeaders_spec`).  No
    `HeightsNodup` hypothesis is left: it is part of the invariant. -/
theorem getBlockHeaders_spec (hr : Reachable2 bound s G) (maxHeaders start : Nat)
    (end_ : Option Nat) (hm : 1 ≤ maxHeaders) :
    let tip := (C07.fullBest s G).length - 1
    s.getBlockHeaders maxHeaders start end_ =
      match effectiveRange tip maxHeaders start end_ with
      | .error e => .error e
      | .ok (lo, hi) => .ok (hi, ((C07.fullBest s G).drop lo).take (hi - lo + 1)) := by
  obtain ⟨s0, hA, hV, _⟩ := reachable2_view hr
  rw [fullBest_congr hV.unstable, hV.getBlockHeaders]
  exact C07.getBlockHeaders_spec hA.invU.inv hA.headers.heights maxHeaders start end_ hm

/-- **C07, one header per height, hash-linked (every reachable state)** (see
    `C07.one_header_per_height`, `C07.answer_linked`). -/
theorem answer_linked (hr : Reachable2 bound s G) (maxHeaders start : Nat) (end_ : Option Nat)
    (lo hi : Nat) (hm : 1 ≤ maxHeaders)
    (hrange : effectiveRange s.mainChainHeight maxHeaders start end_ = .ok (lo, hi)) :
    ∃ bs : List Block, bs = ((C07.bestBlocks s G).drop lo).take (hi - lo + 1) ∧ LinkedChain bs ∧
      bs.length = hi - lo + 1 ∧ hi - lo + 1 ≤ maxHeaders ∧
      s.getBlockHeaders maxHeaders start end_ = .ok (hi, bs.map (·.header)) := by
  obtain ⟨s0, hA, hV, _⟩ := reachable2_view hr
  rw [mainChainHeight_congr hV] at hrange
  rw [bestBlocks_congr hV.unstable, hV.getBlockHeaders]
  obtain ⟨bs, e, hl, hres⟩ := C07.answer_linked hA.invU.inv hA.headers.heights maxHeaders start end_
    lo hi hm hrange
  obtain ⟨hs, hres', hlen, hle, _⟩ := C07.one_header_per_height hA.invU.inv hA.headers.heights
    maxHeaders start end_ lo hi hm hrange
  refine ⟨bs, e, hl, ?_, hle, hres⟩
  rw [hres] at hres'
  simp only [Except.ok.injEq, Prod.mk.injEq, true_and] at hres'
  rw [← hlen, ← hres', List.length_map]

/-- the best chain is hash-linked from genesis (every reachable state) -/
theorem bestBlocks_linked (hr : Reachable2 bound s G) : LinkedChain (C07.bestBlocks s G) := by
  obtain ⟨s0, hA, hV, _⟩ := reachable2_view hr
  rw [bestBlocks_congr hV.unstable]
  exact C07.bestBlocks_linked hA.invU.inv

/-! ## (d) C04 and C06 -/

/-- **C04 (every reachable state)**: `get_utxos` with `min_confirmations = c` is the unfiltered
    answer computed on the best chain cut after the last sufficiently buried block
    (see `C04.getUtxos_minConf`; its hypothesis "the tree hashes are distinct" is an invariant). -/
theorem c04_getUtxos_minConf (hr : Reachable2 bound s G) (addr : AddrArg) (c lim : Nat)
    (hc : 1 ≤ c) (hlen : c ≤ (bestPath CBlock.diff s.unstable.tree).length) :
    let view := buriedPrefix CBlock.hash s.unstable.tree c (bestPath CBlock.diff s.unstable.tree) 0
    s.getUtxos addr (.minConf c) lim = s.getUtxosFromChain addr 0 view none lim ∧
    ∃ Bk, view.getLast? = some Bk ∧
      ∀ r, s.getUtxos addr (.minConf c) lim = .ok r →
        r.tipHash = Bk.hash ∧ r.tipHeight = s.utxos.nextHeight + view.length - 1 := by
  obtain ⟨s0, hA, hV, _⟩ := reachable2_view hr
  have hnd : (s.unstable.tree.blocks.map CBlock.hash).Nodup := by
    rw [hV.unstable]; exact InvAll.hashesNodup hA
  exact C04.getUtxos_minConf s addr c lim hc hlen hnd

/-- the applied prefix is the specification's buried prefix (every reachable state) -/
theorem c04_stablePrefix_mainChain (hr : Reachable2 bound s G) (c : Nat) (hc : 1 ≤ c) :
    stablePrefix (Tree.levels CBlock.hash s.unstable.tree) c s.unstable.mainChain 0 =
      buriedPrefix CBlock.hash s.unstable.tree c (bestPath CBlock.diff s.unstable.tree) 0 := by
  obtain ⟨s0, hA, hV, _⟩ := reachable2_view hr
  have hnd : (s.unstable.tree.blocks.map CBlock.hash).Nodup := by
    rw [hV.unstable]; exact InvAll.hashesNodup hA
  exact C04.stablePrefix_mainChain s.unstable.tree c hc hnd

theorem followPages_congr {s s0 : State} (h : ∀ x f limit, s.getUtxos x f limit = s0.getUtxos x f limit)
    (addr : AddrArg) (limit : Nat) : ∀ (fuel : Nat) (p : Option (Nat × Nat × OutPoint)),
      C06.followPages s addr limit fuel p = C06.followPages s0 addr limit fuel p
  | _, none => by cases ‹Nat› <;> rfl
  | 0, some _ => rfl
  | fuel + 1, some p => by
    simp only [C06.followPages, h]
    cases s0.getUtxos addr (.page (some p)) limit with
    | ok r => simp only; rw [followPages_congr h addr limit fuel r.nextPage]
    | err e => rfl
    | trap m => rfl

/-- **C06 (every reachable state, paused or not)**: the first page and the pages obtained by
    following the tokens concatenate to one list `all`, a permutation of the reference ledger of
    the address at `G ++ applied prefix`; every page has at most `limit` elements and names the
    same tip at the same height (see `C06.all_pages`; `all` is `QueryInv.resultList` of the state
    `s0` of `reachable2_view`).  Range hypotheses `hR`, `hH`: see the header of this file. -/
theorem all_pages (hr : Reachable2 bound s G) (hR : TxRange G) (a : Addr)
    (c limit : Nat) (hl : 1 ≤ limit) (hc : c ≤ s.unstable.mainChain.length)
    (hH : G.length + s.unstable.mainChain.length ≤ 2 ^ 32) :
    let applied := stablePrefix (Tree.levels CBlock.hash s.unstable.tree) c s.unstable.mainChain 0
    ∃ all : List Utxo, all.Perm (ledgerFor a (G ++ applied.map (·.blk))) ∧
      ∀ fuel, all.length ≤ fuel + limit →
        ∃ r0 rs tip, applied.getLast? = some tip ∧
          s.getUtxos (.ok a) (.minConf c) limit = .ok r0 ∧
          C06.followPages s (.ok a) limit fuel r0.nextPage = some rs ∧
          (r0 :: rs).flatMap (·.utxos) = all ∧
          ∀ r ∈ r0 :: rs, r.utxos.length ≤ limit ∧ r.tipHash = tip.hash ∧
            r.tipHeight = G.length + applied.length - 1 := by
  obtain ⟨s0, hA, hV, _⟩ := reachable2_view hr
  rw [hV.unstable] at hc hH ⊢
  intro applied
  have hall := C06.all_pages hA.invU.inv (InvAll.mainChain_unique hA) hR a c limit hl hc hH
  obtain ⟨_, _, _, _, _, _, _, hperm, _⟩ := hall (resultList s0 G a applied).length (Nat.le_add_right _ _)
  refine ⟨resultList s0 G a applied, hperm, ?_⟩
  intro fuel hfuel
  obtain ⟨r0, rs, tip, h1, h2, h3, h4, _, h6⟩ := hall fuel hfuel
  refine ⟨r0, rs, tip, h1, ?_, ?_, h4, h6⟩
  · rw [hV.getUtxos]; exact h2
  · rw [followPages_congr hV.getUtxos]; exact h3

/-- **C06, a page request never traps (every reachable state, paused or not)**
    (see `C06.page_never_traps`; `AllPathsUnique` is an invariant). -/
theorem page_never_traps (hr : Reachable2 bound s G) (addr : AddrArg) (tip height : Nat)
    (op : OutPoint) (limit : Nat) :
    (∃ r, s.getUtxos addr (.page (some (tip, height, op))) limit = .ok r ∧ r.tipHash = tip) ∨
    (s.getUtxos addr (.page (some (tip, height, op))) limit = .err (.unknownTipBlockHash tip) ∧
      tip ∉ s.unstable.tree.blocks.map CBlock.hash) ∨
    (s.getUtxos addr (.page (some (tip, height, op))) limit = .err .malformedAddress ∧
      addr = .malformed) ∨
    (s.getUtxos addr (.page (some (tip, height, op))) limit = .err .wrongNetwork ∧
      addr = .wrongNetwork) := by
  obtain ⟨s0, hA, hV, _⟩ := reachable2_view hr
  rw [hV.unstable, hV.getUtxos]
  exact C06.page_never_traps hA.invU.inv (InvAll.allPathsUnique hA) addr tip height op limit

/-- **C06, next page (every reachable state)**: for a tip `T` of the tree with root path `chain`
    there is a complete answer `all` (a permutation of the reference ledger at `G ++ chain`) such
    that the request carrying the token of `all[k]` returns `(all.drop k).take limit`, names `T`
    again and carries the token of `all[k + limit]` (see `C06.next_page`). -/
theorem next_page (hr : Reachable2 bound s G) (a : Addr) (T : Nat) (chain sib : List CBlock)
    (hroot : Tree.chainWithTip CBlock.hash T s.unstable.tree = some (chain, sib))
    (hH : G.length + chain.length ≤ 2 ^ 32) (hR : TxRange G) (limit : Nat) :
    ∃ all : List Utxo, all.Perm (ledgerFor a (G ++ chain.map (·.blk))) ∧
      ∀ k x, all[k]? = some x →
        ∃ r, s.getUtxos (.ok a) (.page (some (C06.tokenOf T x))) limit = .ok r ∧
          r.utxos = (all.drop k).take limit ∧
          r.nextPage = (all[k + limit]?).map (C06.tokenOf T) ∧
          r.tipHash = T ∧ r.tipHeight = G.length + chain.length - 1 := by
  obtain ⟨s0, hA, hV, _⟩ := reachable2_view hr
  rw [hV.unstable] at hroot
  have hU := hA.invU.unique T (chain.map (·.blk)) (by simp [pathBlocks, hroot])
  have hp := PathCtx.of_rootPath hA.invU.inv T chain sib hroot hU chain [] (by simp)
  obtain ⟨_, _, hperm, _⟩ := addressUtxos_path hA.invU.inv hp a
  refine ⟨resultList s0 G a chain, hperm, ?_⟩
  intro k x hk
  rw [hV.getUtxos]
  exact C06.next_page hA.invU.inv a T chain sib hroot hp hH hR limit k x hk

/-- **C06 across state changes (any two reachable states, paused or not)**: if the tip `T` named by
    a token is in the trees of both states with the same chain from genesis, the complete answers
    `all`, `all'` for `T` in the two states are permutations of the same reference ledger list, and
    a token issued in the first state for an element `x` of `all` designates an element of `all'`
    in the second: the page returned there starts at `x` (see `C06.same_tip_same_ledger`,
    `C06.old_token_in_new_state`).  The element ORDER may differ (finding F11). -/
theorem old_token_in_new_state {s' : State} {G' : List Block} (hr : Reachable2 bound s G)
    (hr' : Reachable2 bound s' G') (T : Nat) (chain sib chain' sib' : List CBlock)
    (hroot : Tree.chainWithTip CBlock.hash T s.unstable.tree = some (chain, sib))
    (hroot' : Tree.chainWithTip CBlock.hash T s'.unstable.tree = some (chain', sib'))
    (hsame : G ++ chain.map (·.blk) = G' ++ chain'.map (·.blk))
    (hH' : G'.length + chain'.length ≤ 2 ^ 32) (hR' : TxRange G') (a : Addr) (limit : Nat) :
    ∃ all all' : List Utxo, all.Perm (ledgerFor a (G ++ chain.map (·.blk))) ∧
      all'.Perm (ledgerFor a (G ++ chain.map (·.blk))) ∧
      ∀ x ∈ all, ∃ k' r, all'[k']? = some x ∧
        s'.getUtxos (.ok a) (.page (some (C06.tokenOf T x))) limit = .ok r ∧
        r.utxos = (all'.drop k').take limit ∧ r.tipHash = T ∧
        r.nextPage = (all'[k' + limit]?).map (C06.tokenOf T) := by
  obtain ⟨s0, hA, hV, _⟩ := reachable2_view hr
  obtain ⟨s0', hA', hV', _⟩ := reachable2_view hr'
  rw [hV.unstable] at hroot
  rw [hV'.unstable] at hroot'
  have hU := hA.invU.unique T (chain.map (·.blk)) (by simp [pathBlocks, hroot])
  obtain ⟨_, _, _, _, _, _, _, _, hp1, hp2, _⟩ := C06.same_tip_same_ledger hA.invU.inv hA'.invU.inv T
    chain sib chain' sib' hroot hroot' hsame hU a
  refine ⟨resultList s0 G a chain, resultList s0' G' a chain', hp1, hp2, ?_⟩
  intro x hx
  rw [hV'.getUtxos]
  exact C06.old_token_in_new_state hA.invU.inv hA'.invU.inv T chain sib chain' sib' hroot hroot'
    hsame hU hH' hR' a limit x hx

/-! ## (e) C20: the bookkeeping of the unstable blocks is exact

All statements of `Props/C20.lean` only read the unstable blocks and the stable height, which a
paused ingestion does not touch: they hold in every reachable state of the extended system,
paused or not. -/

/-- the statements of C20, as a predicate of the unstable blocks, the stable height and the ghost -/
structure Bookkeeping (u : Unstable) (n : Nat) (G : List Block) : Prop where
  /-- (a) -/
  treeHashesNodup : (u.tree.blocks.map CBlock.hash).Nodup
  blockCacheNodup : u.blockCache.Nodup
  blockCachePerm : u.blockCache.Perm (u.tree.blocks.map CBlock.hash)
  /-- (b) -/
  addedKeys : ∀ h, AList.contains u.cache.added h = (u.tree.blocks.map CBlock.hash).contains h
  removedKeys : ∀ h, AList.contains u.cache.removed h = (u.tree.blocks.map CBlock.hash).contains h
  addedContent : ∀ b ∈ u.tree.blocks, ∀ a, u.cache.getAdded b.hash a = addedSpec b.blk a
  removedContent : ∀ b ∈ u.tree.blocks, ∀ a,
    u.cache.getRemoved b.hash a = removedSpec (G ++ u.tree.blocks.map (·.blk)) b.blk a
  /-- (c) -/
  txOutsNodup : (u.cache.txOuts.map (·.1)).Nodup
  txOutEntryIff : ∀ o, (u.cache.getTxOut o).isSome = true ↔ ∃ b ∈ u.tree.blocks, o ∈ blockRefs b.blk
  txOutEntry : ∀ o i, AList.find? u.cache.txOuts o = some i →
    i.count = (u.tree.blocks.flatMap (fun b => blockRefs b.blk)).count o ∧ 0 < i.count ∧
      outAt (G ++ u.tree.blocks.map (·.blk)) o = some i.txout
  txOutAbsent : ∀ o, AList.find? u.cache.txOuts o = none →
    (u.tree.blocks.flatMap (fun b => blockRefs b.blk)).count o = 0
  removeSucceeds : ∀ b ∈ u.tree.blocks, (u.cache.remove b.blk).isSome = true
  /-- (d) -/
  tipDepths : u.tipDepthsCache = u.tree.tipDepths
  /-- (e) -/
  nextOk : NextOk u.next
  nextNotInTree : ∀ c ∈ u.tree.blocks, u.next.getHeader c.hash = none
  nextAbove : ∀ h ht, u.next.getHeight h = some ht → n < ht
  maxHeight : ∀ m, u.next.maxHeight = some m ↔
    (∃ h, u.next.getHeight h = some m) ∧ ∀ h ht, u.next.getHeight h = some ht → ht ≤ m

open Btc.Lemmas.NextHeaders in
theorem bookkeeping_of_invAll {s : State} {G : List Block} (hA : InvAll s G) :
    Bookkeeping s.unstable s.utxos.nextHeight G := by
  have hI := hA.invU.inv
  have hC := hI.caches
  have hnd := tree_hashes_nodup hI
  have hN : NextInvAt s.unstable s.utxos.nextHeight := hA.next
  have hpos : PositiveCounts s.unstable.cache.txOuts := by
    intro o i hf
    have := hC.txOuts o
    rw [hf] at this
    exact this.2.1
  refine ⟨hnd, hA.invU.blockCacheNodup, ?_, hC.addedKeys, hC.removedKeys, hC.added, hC.removed,
    hC.txOutsNodup, ?_, ?_, ?_, ?_, hC.tipDepths, hN.ok, hN.notInTree, hN.above,
    fun m => maxHeight_eq_some_iff _ hN.ok m⟩
  · rw [List.perm_ext_iff_of_nodup hA.invU.blockCacheNodup hnd]
    intro h
    have := hC.blockCache h
    rw [Bool.eq_iff_iff, List.contains_iff_mem, List.contains_iff_mem] at this
    exact this
  · intro o
    have h := hC.txOuts o
    have hm : (∃ b ∈ s.unstable.tree.blocks, o ∈ blockRefs b.blk) ↔ 0 < refCount s.unstable.tree o := by
      unfold refCount
      rw [List.count_pos_iff, List.mem_flatMap]
    rw [hm]
    unfold OutPointsCache.getTxOut
    cases hf : AList.find? s.unstable.cache.txOuts o with
    | none => rw [hf] at h; simp only at h; simp [h]
    | some i => rw [hf] at h; simp only at h; simp; omega
  · intro o i hf
    have h := hC.txOuts o
    rw [hf] at h
    exact ⟨h.1.symm, h.2.1, h.2.2⟩
  · intro o hf
    have h := hC.txOuts o
    rw [hf] at h
    exact h
  · intro b hb
    have hle : ∀ o, (blockRefs b.blk).count o ≤ cntOf s.unstable.cache.txOuts o := by
      intro o
      have h1 := hC.txOuts o
      have h2 : (blockRefs b.blk).count o ≤ refCount s.unstable.tree o := by
        obtain ⟨l1, l2, e⟩ := List.append_of_mem hb
        unfold refCount
        rw [e]
        simp only [List.flatMap_append, List.flatMap_cons, List.count_append]
        omega
      unfold cntOf
      cases hf : AList.find? s.unstable.cache.txOuts o with
      | none => rw [hf] at h1; simp only at h1 ⊢; omega
      | some i => rw [hf] at h1; simp only at h1 ⊢; omega
    obtain ⟨m', hm', _⟩ := decRefs_spec (blockRefs b.blk) s.unstable.cache.txOuts hpos hC.txOutsNodup hle
    simp [OutPointsCache.remove, hm']

/-- **C20 (every reachable state of the extended system, paused or not)**: the block cache, the
    per-block address maps, the tx-out cache, the tip-depth cache and the announced headers are
    exact (the statements (a)–(e) of `Props/C20.lean`). -/
theorem bookkeeping_exact (hr : Reachable2 bound s G) :
    Bookkeeping s.unstable s.utxos.nextHeight G := by
  obtain ⟨s0, hA, hV, _⟩ := reachable2_view hr
  rw [hV.unstable, hV.nextHeight]
  exact bookkeeping_of_invAll hA

/-- (e), stated with the ghost: every announced height is above the number of completely ingested
    blocks, in non-paused and paused states alike -/
theorem next_heights_above_ghost (hr : Reachable2 bound s G) (h ht : Nat)
    (hg : s.unstable.next.getHeight h = some ht) : G.length < ht := by
  obtain ⟨s0, hA, hV, _⟩ := reachable2_view hr
  rw [← hA.invU.inv.heightEq, ← hV.nextHeight]
  exact (bookkeeping_exact hr).nextAbove h ht hg

/-- the stable height is the length of the ghost in every reachable state (while a block is being
    ingested it is still the height before that block) -/
theorem stable_height_eq_ghost (hr : Reachable2 bound s G) : s.utxos.nextHeight = G.length := by
  obtain ⟨s0, hA, hV, _⟩ := reachable2_view hr
  rw [hV.nextHeight]; exact hA.invU.inv.heightEq

/-! ## Non-vacuity: a run that passes through a paused state and completes -/

namespace Example
open Btc.Props.InvPush

def bnd : Unstable.BoundFn := fun _ _ => 0

/-- `b1` is pushed on the genesis `g0` (threshold 1: `g0` becomes stable); the first heartbeat has
    no budget left and pauses inside `g0` -/
def ops1 : List Op := [.push b1, .ingest 0]

/-- while paused: an announced header, a query, a `set_config`, an upgrade, an idle round; then
    the round that finishes `g0` -/
def ops2 : List Op :=
  [.insertNext ⟨7, 2, 2, 0, "h7"⟩, .query, .setConfig { lazyFees := some true }, .upgrade none,
   .ingest 0, .ingest 100]

/-- the first part of the run, by evaluation: the ghost is still empty and a block is partially
    ingested -/
theorem eval1 : ((State.new 1 .mainnet g0).bind (fun s0 => runOps2 bnd (s0, []) ops1)).map
    (fun sg => (sg.2, sg.1.utxos.ingesting.isSome, sg.1.utxos.nextHeight,
      sg.1.unstable.tree.blocks.map (·.blk))) = some ([], true, 0, [g0, b1]) := by decide +kernel

/-- the whole run, by evaluation: `g0` is in the ghost, nothing is partially ingested, `b1` is the
    anchor, the announced header is stored -/
theorem eval2 : ((State.new 1 .mainnet g0).bind (fun s0 => runOps2 bnd (s0, []) (ops1 ++ ops2))).map
    (fun sg => (sg.2, sg.1.utxos.ingesting.isSome, sg.1.utxos.nextHeight,
      sg.1.unstable.tree.blocks.map (·.blk), sg.1.unstable.next.getHeight 7)) =
    some ([g0], false, 1, [b1], some 2) := by decide +kernel

/-- **A reachable paused state and a completed sliced ingestion.** From `State::new` on `g0`:
    push `b1`, a round that pauses (`sp` is reachable and paused, ghost `[]`), then queries,
    `set_config`, an upgrade, an announced header and an idle round while paused, and a final round
    that completes the block (`s'` is reachable, not paused, ghost `[g0]`). -/
theorem ex_paused_run : ∃ s0 sp s', State.new 1 .mainnet g0 = some s0 ∧
    runOps2 bnd (s0, []) ops1 = some (sp, []) ∧ Reachable2 bnd sp [] ∧ Paused sp ∧
    runOps2 bnd (sp, []) ops2 = some (s', [g0]) ∧ Reachable2 bnd s' [g0] ∧ ¬ Paused s' ∧
    s'.utxos.nextHeight = 1 := by
  obtain ⟨s0, h0, hinv⟩ := init_establishes_inv 1 .mainnet g0 (by decide)
  obtain ⟨hu0, _, _, _, fr, d, ht⟩ := new_shape' h0
  have hblocks : s0.unstable.tree.blocks.map (·.blk) = [g0] := by rw [ht]; rfl
  have hpath : ∀ p, pathBlocks s0.unstable.tree b1.prev = some p → p = [g0] := by
    intro p hp
    rw [ht] at hp
    simp only [pathBlocks, Tree.leaf, Tree.chainWithTip] at hp
    split at hp
    · simp only [Option.map_some, List.map_cons, List.map_nil, Option.some.injEq] at hp
      exact hp.symm
    · rename_i hn; exact absurd rfl hn
  have hd : PushDomain s0 [] b1 :=
    { fresh := by rw [hblocks]; decide
      parent := by rw [ht]; simp [Tree.contains, Tree.leaf, Tree.chainWithTip, CBlock.hash, g0, b1]
      valid := by intro p hp; rw [hpath p hp]; decide
      unique := by intro p hp; rw [hpath p hp]; decide
      consistent := by rw [hblocks]; decide }
  have hr0 : Reachable2 bnd s0 [] := Reachable2.init 1 .mainnet g0 s0 (by decide) h0
  have hdom1 : DomainAll2 bnd (s0, []) ops1 :=
    ⟨⟨by rw [hu0], hd⟩, fun sg' _ => domainAll2_free bnd _ sg' (by simp [FreeOp])⟩
  have he1 := eval1
  have he2 := eval2
  rw [h0] at he1 he2
  simp only [Option.bind_some] at he1 he2
  rw [runOps2_append] at he2
  cases hrun1 : runOps2 bnd (s0, []) ops1 with
  | none => rw [hrun1] at he1; cases he1
  | some sg1 =>
    rw [hrun1] at he1 he2
    simp only [Option.map_some, Option.some.injEq, Prod.mk.injEq, Option.bind_some] at he1 he2
    obtain ⟨e1, e2, _, e4⟩ := he1
    have hreach1 := runOps2_reachable2 ops1 (s0, []) sg1 hr0 hdom1 hrun1
    have hsg1 : sg1 = (sg1.1, []) := by rw [← e1]
    -- the announced header is not a tree block: its hash `7` is neither `g0`'s nor `b1`'s
    have hdom2 : DomainAll2 bnd sg1 ops2 := by
      refine ⟨?_, fun sgA _ => domainAll2_free bnd _ sgA (by simp [FreeOp])⟩
      show (7 : Nat) ∉ sg1.1.unstable.tree.blocks.map CBlock.hash
      have : sg1.1.unstable.tree.blocks.map CBlock.hash = [1, 2] := by
        rw [map_hash_eq, e4]; rfl
      rw [this]; decide
    cases hrun2 : runOps2 bnd sg1 ops2 with
    | none => rw [hrun2] at he2; cases he2
    | some sg2 =>
      rw [hrun2] at he2
      simp only [Option.map_some, Option.some.injEq, Prod.mk.injEq] at he2
      obtain ⟨f1, f2, f3, _⟩ := he2
      have hreach2 := runOps2_reachable2 ops2 sg1 sg2 hreach1 hdom2 hrun2
      refine ⟨s0, sg1.1, sg2.1, h0, by rw [← hsg1]; exact hrun1, by rw [← e1]; exact hreach1, e2, ?_, ?_, ?_, f3⟩
      · rw [← hsg1, hrun2, ← f1]
      · rw [← f1]; exact hreach2
      · simp [Paused, f2]

/-- the theorems of this file apply to the paused state of that run: e.g. `get_utxos` for address
    `[1]` still answers from the ledger of `[] ++ [g0, b1]`, and the balance is the sum of the
    answer -/
example : ∃ sp, Reachable2 bnd sp [] ∧ Paused sp ∧
    (∃ (l : List Utxo) (r : UtxosResponse) (tip : CBlock), sp.unstable.mainChain.getLast? = some tip ∧
      l.Perm (ledgerFor [1] ([] ++ sp.unstable.mainChain.map (·.blk))) ∧
      sp.getUtxos (.ok [1]) .none_ 10 = .ok r ∧ r.utxos = l.take 10) ∧
    (∃ (l : List Utxo) (r : UtxosResponse), sp.getUtxos (.ok [1]) (.minConf 0) 10 = .ok r ∧ r.utxos = l.take 10 ∧
      sp.getBalance (.ok [1]) 0 = .ok (totalValue l)) := by
  obtain ⟨_, sp, _, _, _, hr, hp, _⟩ := ex_paused_run
  refine ⟨sp, hr, hp, ?_, ?_⟩
  · obtain ⟨l, r, tip, h1, h2, _, _, h5, h6, _⟩ := getUtxos_unfiltered hr (by simp) [1] 10
    exact ⟨l, r, tip, h1, h2, h5, h6⟩
  · obtain ⟨l, r, h1, h2, _, _, h5⟩ := balance_eq_sum_of_utxos hr [1] 0 10 (Nat.zero_le _)
    exact ⟨l, r, h1, h2, h5⟩

/-- **Finding (model and `state.rs`)**: raising the stability threshold with `set_config` while a
    block is partially ingested makes the next rounds trap once the budget suffices to finish the
    block: the block is ingested, `unstable_blocks::pop` finds no stable child, and `pop_block`
    unwraps `None`.  In the system this is a step that does not exist (`step2 = none`); the
    canister rolls the heartbeat back and traps again on every later heartbeat until the
    threshold is lowered.  Without the `set_config` the same round completes. -/
example : ((State.new 1 .mainnet g0).bind (fun s0 => runOps2 bnd (s0, [])
      [.push b1, .ingest 0, .setConfig { stabilityThreshold := some 2 }, .ingest 100])).isNone = true ∧
    ((State.new 1 .mainnet g0).bind (fun s0 => runOps2 bnd (s0, [])
      [.push b1, .ingest 0, .setConfig { stabilityThreshold := some 2 }, .ingest 0])).isSome = true ∧
    ((State.new 1 .mainnet g0).bind (fun s0 => runOps2 bnd (s0, [])
      [.push b1, .ingest 0, .setConfig { stabilityThreshold := some 1 }, .ingest 100])).isSome = true := by
  decide +kernel

end Example

end Btc.Props.ReachAll
