import BtcModel.Gen.Constants

/-
  The request types name the network with one of six spellings (`NetworkInRequest`: `Mainnet`,
  `mainnet`, …). `verify_network` compares the *converted* value with the canister's network, so the
  API gate (C14) and `send_transaction` (C19) refuse exactly the requests that name another network
  only if the conversion maps every spelling to the network it names. The table is regenerated from
  `interface/src/lib.rs` on every run.
-/
namespace Btc.Props.NetSpelling

open Btc.Gen

/-- every spelling is converted to the network it names -/
theorem spelling_names_its_network :
    ∀ r ∈ networkInRequestTable, r.2 = r.1.1 := by decide

/-- both spellings of every network exist -/
theorem spellings_complete (n : Network) (lower : Bool) :
    (n, lower) ∈ networkInRequestTable.map (·.1) := by
  cases n <;> cases lower <;> decide

/-- no spelling is listed twice (the conversion is a function) -/
theorem spellings_nodup : (networkInRequestTable.map (·.1)).Nodup := by decide

end Btc.Props.NetSpelling
