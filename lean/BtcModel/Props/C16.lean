import BtcModel.Model.Endpoints
import BtcModel.Gen.Constants

/-!
# C16 — cycles charged follow the published formula and never exceed the maximum

The charging functions (`chargeMetered`, `chargeFlat`, `chargeSend`) model
`verify_has_enough_cycles` / `charge_cycles` in `canister/src/lib.rs` and their use in
`api/get_utxos.rs`, `get_block_headers.rs`, `get_balance.rs`, `fee_percentiles.rs`,
`send_transaction.rs`; the `call*` functions compose them with the guards in the order of the code.
The default fee tables and the client's constants are regenerated from the source on every run
(`BtcModel/Gen/Constants.lean`).
-/
namespace Btc.Props.C16
open Btc Btc.State

/-- A call that carries less than the endpoint's maximum is refused before anything is charged. -/
theorem metered_refused_below_maximum (available base rate maximum ins : Nat) (e : Bool)
    (h : available < maximum) : chargeMetered available base rate maximum ins e = none := by
  simp [chargeMetered, h]

theorem flat_refused_below_maximum (available flat maximum : Nat) (h : available < maximum) :
    chargeFlat available flat maximum = none := by
  simp [chargeFlat, h]

/-- Successful `get_utxos` / `get_block_headers`: exactly `base + min(instructions/10 · rate,
    maximum − base)`, provided the call carries the maximum and `base ≤ maximum`. -/
theorem metered_formula (available base rate maximum ins : Nat)
    (ha : maximum ≤ available) (hb : base ≤ maximum) :
    chargeMetered available base rate maximum ins false =
      some (base + min (ins / 10 * rate) (maximum - base)) := by
  unfold chargeMetered
  have h1 : ¬ available < maximum := by omega
  have h2 : ¬ available < base := by omega
  have h3 : ¬ maximum < base := by omega
  simp only [h1, h2, h3, if_false, Bool.false_eq_true]
  have : ¬ (available - base < min (ins / 10 * rate) (maximum - base)) := by
    have := Nat.min_le_right (ins / 10 * rate) (maximum - base); omega
  simp [this]

/-- Request-level error: only the base fee. -/
theorem metered_error_charges_base (available base rate maximum ins : Nat)
    (ha : maximum ≤ available) (hb : base ≤ available) :
    chargeMetered available base rate maximum ins true = some base := by
  unfold chargeMetered
  have h1 : ¬ available < maximum := by omega
  have h2 : ¬ available < base := by omega
  simp [h1, h2]

/-- Whatever is charged never exceeds the maximum (for `base ≤ maximum`). -/
theorem metered_le_maximum (available base rate maximum ins : Nat) (e : Bool) (acc : Nat)
    (hb : base ≤ maximum)
    (h : chargeMetered available base rate maximum ins e = some acc) : acc ≤ maximum := by
  unfold chargeMetered at h
  split at h
  · simp at h
  · split at h
    · simp at h
    · split at h
      · simp at h; omega
      · split at h
        · simp at h
        · simp only at h
          split at h
          · simp at h
          · simp at h
            have := Nat.min_le_right (ins / 10 * rate) (maximum - base); omega

/-- `get_balance` / fee percentiles: the flat fee, never more than the maximum the caller had to attach. -/
theorem flat_formula (available flat maximum : Nat) (ha : maximum ≤ available) (hf : flat ≤ available) :
    chargeFlat available flat maximum = some flat := by
  unfold chargeFlat
  have h1 : ¬ available < maximum := by omega
  have h2 : ¬ available < flat := by omega
  simp [h1, h2]

/-- `send_transaction`: `base + per_byte · length`, or refusal when less is attached. -/
theorem send_formula (available base perByte len : Nat) :
    chargeSend available base perByte len =
      if available < base + perByte * len then none else some (base + perByte * len) := rfl

/-- Query variants never accept cycles. -/
theorem utxos_query_accepts_nothing (env : Env) (s : State) (r : DataReq) (a) (acc) (s')
    (h : s.callGetUtxosQuery env r = .answered a acc s') : acc = 0 := by
  unfold callGetUtxosQuery at h
  split at h
  · simp at h
  · split at h <;> simp at h <;> omega

theorem balance_query_accepts_nothing (env : Env) (s : State) (r : DataReq) (a) (acc) (s')
    (h : s.callGetBalanceQuery env r = .answered a acc s') : acc = 0 := by
  unfold callGetBalanceQuery at h
  split at h
  · simp at h
  · split at h <;> simp at h <;> omega

/-- A refused update call accepts nothing and changes nothing (it is a trap: no state is returned),
    and the refusal for too few cycles comes before any answer is computed. -/
theorem get_utxos_refuses_before_charging (env : Env) (s : State) (r : DataReq)
    (hg : s.guard env r.reqNet true = none) (h : r.available < s.fees.getUtxosMaximum) :
    s.callGetUtxos env r = .trap .cycles := by
  simp [callGetUtxos, hg, h]

/-! ### The client library covers the canister's default maximum (generated tables) -/

open Btc.Gen in
/-- For every network, what `ic-cdk-bitcoin-canister` attaches to a call is at least the default
    maximum of the canister for the same network and endpoint; for `send_transaction` it is at least
    the amount the canister charges, for every payload length. Re-proved against the current source
    on every run. -/
theorem client_covers_canister_defaults :
    ∀ n : Network,
      (canisterDefaultFees n).getUtxosMaximum ≤ clientGetUtxos n ∧
      (canisterDefaultFees n).getBalanceMaximum ≤ clientGetBalance n ∧
      (canisterDefaultFees n).getCurrentFeePercentilesMaximum ≤ clientFeePercentiles n ∧
      (canisterDefaultFees n).getBlockHeadersMaximum ≤ clientGetBlockHeaders n ∧
      (∀ len : Nat, (canisterDefaultFees n).sendTransactionBase +
          (canisterDefaultFees n).sendTransactionPerByte * len ≤ clientSendTransaction n len) := by
  intro n
  cases n <;> refine ⟨by decide, by decide, by decide, by decide, ?_⟩ <;> intro len <;>
    simp only [canisterDefaultFees, feesMainnet, feesTestnet, feesDefault, clientSendTransaction,
      cdk_SEND_TRANSACTION_SUBMISSION_MAINNET, cdk_SEND_TRANSACTION_SUBMISSION_TESTNET,
      cdk_SEND_TRANSACTION_PAYLOAD_MAINNET, cdk_SEND_TRANSACTION_PAYLOAD_TESTNET] <;> omega

open Btc.Gen in
/-- In the default tables the base / flat fees do not exceed the maxima (the side condition of the
    formulas above holds for the shipped configurations). -/
theorem default_tables_base_le_maximum :
    ∀ n : Network,
      (canisterDefaultFees n).getUtxosBase ≤ (canisterDefaultFees n).getUtxosMaximum ∧
      (canisterDefaultFees n).getBlockHeadersBase ≤ (canisterDefaultFees n).getBlockHeadersMaximum ∧
      (canisterDefaultFees n).getBalance ≤ (canisterDefaultFees n).getBalanceMaximum ∧
      (canisterDefaultFees n).getCurrentFeePercentiles ≤ (canisterDefaultFees n).getCurrentFeePercentilesMaximum := by
  intro n; cases n <;> decide

/-! Non-vacuity -/
example : chargeMetered 10000000000 50000000 10 10000000000 123456 false = some (50000000 + 12345 * 10) := by decide
example : chargeMetered 9999999999 50000000 10 10000000000 0 false = none := by decide
example : chargeMetered 100 5 3 20 1000000 false = some 20 := by decide

end Btc.Props.C16
