import BtcModel.Props.FullSys

/-!
# Non-vacuity of `Props/FullSys.lean`: a concrete schedule with a concrete decoder

A regtest canister with stability threshold 1 on the genesis block `gen`.  The schedule:

1. a heartbeat sends the initial `get_successors` request;
2. the block source answers with a complete response: the blob `"B2"` and the announced header `"H3"`;
3. a heartbeat processes it: `b2` is validated (header: proof of work, difficulty, timestamp on
   regtest; body) and pushed, `h3` is validated and stored, the fee percentiles are computed;
4. a heartbeat with no budget left begins to ingest `gen` (now stable) and pauses;
5. `get_current_fee_percentiles` is called while the ingestion is paused;
6. a heartbeat finishes `gen`: the ghost is `[gen]`;
7. a heartbeat sends the next request;
8. the answer is garbage followed by `"B2"`;
9. a heartbeat processes it: one error counter moves, nothing else.

The schedule satisfies the environment assumption (`trusted`), hence all its configurations are
`FullReachable` and the theorems of `Props/FullSys.lean` apply to them.
-/
namespace Btc.Props.FullSys.Example
open Btc Btc.State Btc.Spec Btc.Spec.Full Btc.Lemmas.FullSys Btc.Lemmas.Reach2

/-- genesis: a single coinbase paying 50 to address `[1]` -/
def gen : Block :=
  { hash := 1, prev := 0, diff := 1, time := 100, bits := 0x207fffff, header := "g",
    txs := [{ txid := 100, ntxid := 100, coinbase := true, vsize := 100, ins := [],
              outs := [⟨50, some [1], false⟩] }] }

/-- a valid regtest child of `gen`: a coinbase and a transaction spending the genesis output -/
def b2 : Block :=
  { hash := 2, prev := 1, diff := 1, time := 101, bits := 0x207fffff, header := "h2",
    txs := [{ txid := 200, ntxid := 200, coinbase := true, vsize := 100, ins := [],
              outs := [⟨50, some [2], false⟩] },
            { txid := 201, ntxid := 201, coinbase := false, vsize := 100, ins := [⟨100, 0⟩],
              outs := [⟨40, some [3], false⟩] }] }

/-- an announced header on top of `b2` -/
def h3 : NextHeader := ⟨3, 2, 102, 0x207fffff, "H3"⟩

/-- the library decoders on the blobs of the example: everything else is garbage -/
def dec : Decoders :=
  { block := fun blob => if blob = "B2" then some b2 else none
    header := fun raw => if raw = "H3" then some h3 else none }

def env (now : Nat) : Env :=
  { now := now, dec := dec, bound := fun _ _ => 1000, syncedThreshold := 2, maxHeaders := 100,
    numTransactions := 1000 }

def m1 : Env × Msg := (env 200, .heartbeat 100)
def m2 : Env × Msg := (env 201, .reply (.complete ⟨["B2"], ["H3"]⟩))
def m3 : Env × Msg := (env 202, .heartbeat 100)
def m4 : Env × Msg := (env 203, .heartbeat 0)
def m5 : Env × Msg := (env 204, .call (.feePercentiles { reqNet := .regtest, available := 0, instructions := 0 }))
def m6 : Env × Msg := (env 205, .heartbeat 100)
def m7 : Env × Msg := (env 206, .heartbeat 100)
def m8 : Env × Msg := (env 207, .reply (.complete ⟨["\x00garbage", "B2"], []⟩))
def m9 : Env × Msg := (env 208, .heartbeat 100)

def msgs : List (Env × Msg) := [m1, m2, m3, m4, m5, m6, m7, m8, m9]

def dummy : State :=
  { utxos := {}, unstable := { thr := 0, tree := .leaf ⟨gen, none, 0⟩, net := .regtest } }

/-- `State::new` on `gen` -/
def s0 : State := (State.new 1 .regtest gen).getD dummy

def c0 : Cfg := ({ st := s0, pending := none }, [])

theorem new_s0 : State.new 1 .regtest gen = some s0 := by
  have h : (State.new 1 .regtest gen).isSome = true := by decide +kernel
  unfold s0
  cases hs : State.new 1 .regtest gen with
  | none => rw [hs] at h; cases h
  | some v => rfl

theorem reach0 : FullReachable c0.1 c0.2 := FullReachable.init 1 .regtest gen s0 (by decide) new_s0

/-- what is observed of a configuration: the ledger part … -/
def obsL (c : Cfg) : List Block × Bool × Nat × List Block × Option Nat :=
  (c.2, c.1.st.utxos.ingesting.isSome, c.1.st.utxos.nextHeight,
   c.1.st.unstable.tree.blocks.map (·.blk), c.1.st.unstable.next.getHeight 3)
/-- … and the fetch part -/
def obsF (c : Cfg) : Option Request × Option ResponseToProcess × Nat × Bool :=
  (c.1.pending, c.1.st.syncing.response, c.1.st.syncing.deserializeErrors, c.1.st.feeCache.isSome)

/-- after the request -/
theorem eval1 : obsL (run c0 [m1]) = ([], false, 0, [gen], none) ∧
    obsF (run c0 [m1]) = (some (.initial 1 []), none, 0, false) := by
  decide +kernel
/-- after the reply -/
theorem eval2 : obsL (run c0 [m1, m2]) = ([], false, 0, [gen], none) ∧
    obsF (run c0 [m1, m2]) = (none, some (.complete ⟨["B2"], ["H3"]⟩), 0, false) := by
  decide +kernel
/-- after the processing heartbeat: `b2` is in the tree, `h3` is announced at height 2 -/
theorem eval3 : obsL (run c0 [m1, m2, m3]) = ([], false, 0, [gen, b2], some 2) ∧
    obsF (run c0 [m1, m2, m3]) = (none, none, 0, true) := by
  decide +kernel
/-- after the heartbeat without budget: `gen` is partially ingested -/
theorem eval4 : obsL (run c0 [m1, m2, m3, m4]) = ([], true, 0, [gen, b2], some 2) := by
  decide +kernel
/-- after the heartbeat that finishes `gen` -/
theorem eval6 : obsL (run c0 [m1, m2, m3, m4, m5, m6]) = ([gen], false, 1, [b2], some 2) := by
  decide +kernel
/-- at the end: the garbage moved one counter -/
theorem eval9 : obsL (run c0 msgs) = ([gen], false, 1, [b2], some 2) ∧
    obsF (run c0 msgs) = (none, none, 1, true) := by
  decide +kernel

/-! ### The schedule satisfies the environment assumption -/

def c1 : Cfg := stepMsg m1.1 c0 m1.2
def c2 : Cfg := stepMsg m2.1 c1 m2.2
def c3 : Cfg := stepMsg m3.1 c2 m3.2
def c4 : Cfg := stepMsg m4.1 c3 m4.2
def c5 : Cfg := stepMsg m5.1 c4 m5.2
def c6 : Cfg := stepMsg m6.1 c5 m6.2
def c7 : Cfg := stepMsg m7.1 c6 m7.2
def c8 : Cfg := stepMsg m8.1 c7 m8.2

theorem trusted_no_response {env : Env} {c : Cfg} {budget : Nat}
    (h : c.1.st.syncing.response = none) : Trusted env c (.heartbeat budget) := by
  intro _ r hr
  rw [h] at hr
  cases hr

theorem trusted_not_past {env : Env} {c : Cfg} {budget : Nat}
    (h : pastIngestion env c.1.st budget = false) : Trusted env c (.heartbeat budget) := by
  intro hp
  rw [h] at hp
  cases hp

theorem some_of_isSome {α : Type} {o : Option α} (d : α) (h : o.isSome = true) : o = some (o.getD d) := by
  cases o with
  | none => cases h
  | some v => rfl

/-- the state in which the first response is processed -/
def s2 : State := { c2.1.st with syncing := { c2.1.st.syncing with response := none } }

/-- **`b2` is a `PushDomain` block where it is delivered**: its hash is new, it spends the
    genesis output (valid on `[gen]`), no transaction id is repeated -/
theorem b2_domain : PushDomain s2 [] b2 :=
  { fresh := by decide +kernel
    parent := by decide +kernel
    valid := by
      intro p hp
      have e : pathBlocks s2.unstable.tree b2.prev = some [gen] := by decide +kernel
      rw [e] at hp; cases hp; decide
    unique := by
      intro p hp
      have e : pathBlocks s2.unstable.tree b2.prev = some [gen] := by decide +kernel
      rw [e] at hp; cases hp; decide
    consistent := by
      have e : s2.unstable.tree.blocks.map (·.blk) = [gen] := by decide +kernel
      rw [e]; decide }

/-- the state after the block loop of the first response -/
def s2b : State := ((processBlocks m3.1 s2 ["B2"]).getD (dummy, true)).1

/-- the announced header stored there does not carry the hash of an unstable block -/
theorem s2b_headers : ∀ h ∈ insertedHeaders m3.1 s2b ["H3"],
    h.hash ∉ s2b.unstable.tree.blocks.map CBlock.hash := by decide +kernel

theorem trusted3 : Trusted m3.1 c2 m3.2 := by
  intro _ r hr
  have e : c2.1.st.syncing.response = some (.complete ⟨["B2"], ["H3"]⟩) := by decide +kernel
  rw [e] at hr
  cases hr
  refine ⟨?_, ?_⟩
  · intro b hb
    have hb' : b = b2 := by
      have : m3.1.dec.block "B2" = some b2 := by decide
      rw [this] at hb; cases hb; rfl
    subst hb'
    exact ⟨fun _ => b2_domain, fun s' _ => by simp [TrustedBlocks]⟩
  · intro s1 hs1
    have hs1' : processBlocks m3.1 s2 ["B2"] = some (s1, false) := hs1
    rw [some_of_isSome (o := processBlocks m3.1 s2 ["B2"]) (dummy, true) (by decide +kernel)] at hs1'
    have e1 : s1 = s2b := (congrArg Prod.fst (Option.some.inj hs1')).symm
    rw [e1]
    exact s2b_headers

theorem trusted9 : Trusted m9.1 c8 m9.2 := by
  intro _ r hr
  have e : c8.1.st.syncing.response = some (.complete ⟨["\x00garbage", "B2"], []⟩) := by decide +kernel
  rw [e] at hr
  cases hr
  refine ⟨?_, ?_⟩
  · intro b hb
    have : m9.1.dec.block "\x00garbage" = none := by decide
    rw [this] at hb; cases hb
  · intro s1 hs1 h hh
    simp [insertedHeaders, insertedHeadersAll] at hh

/-- **the schedule satisfies the environment assumption** -/
theorem trusted : TrustedRun c0 msgs := by
  refine ⟨trusted_no_response (by decide +kernel), trivial, trusted3,
    trusted_not_past (by decide +kernel), trivial, trusted_not_past (by decide +kernel),
    trusted_no_response (by decide +kernel), trivial, trusted9, trivial⟩

/-- **every configuration of the schedule is reachable** -/
theorem reachable (k : Nat) : FullReachable (run c0 (msgs.take k)).1 (run c0 (msgs.take k)).2 :=
  run_reachable _ c0 reach0 (trustedRun_take trusted k)

/-- the operations of `Spec.step2` the messages of the schedule amount to (`msgOps`), tagged:
    (0, hash) = push, (1, budget) = ingest, (2, hash) = insertNext, (3, _) = other -/
def tag : Op → Nat × Nat
  | .push b => (0, b.hash)
  | .ingest n => (1, n)
  | .insertNext h => (2, h.hash)
  | _ => (3, 0)

/-- the simulation on the schedule: request / reply / call are no operation, the processing
    heartbeat is `push b2; insertNext h3`, the ingesting heartbeats are `ingest`, the heartbeat that
    processes garbage is no operation -/
theorem ops_of_schedule :
    (msgOps m1.1 c0.1.st m1.2).map tag = [] ∧ (msgOps m2.1 c1.1.st m2.2).map tag = [] ∧
    (msgOps m3.1 c2.1.st m3.2).map tag = [(0, 2), (2, 3)] ∧
    (msgOps m4.1 c3.1.st m4.2).map tag = [(1, 0)] ∧ (msgOps m5.1 c4.1.st m5.2).map tag = [] ∧
    (msgOps m6.1 c5.1.st m6.2).map tag = [(1, 100)] ∧ (msgOps m7.1 c6.1.st m7.2).map tag = [] ∧
    (msgOps m8.1 c7.1.st m8.2).map tag = [] ∧ (msgOps m9.1 c8.1.st m9.2).map tag = [] := by
  decide +kernel

/-- the configuration after the fourth message -/
def cP : Cfg := run c0 [m1, m2, m3, m4]
/-- the final configuration -/
def cE : Cfg := run c0 msgs

theorem reachP : FullReachable cP.1 cP.2 := reachable 4
theorem reachE : FullReachable cE.1 cE.2 := run_reachable _ c0 reach0 trusted

/-- all environments of the schedule use one depth bound: the final configuration has the ledger
    part of a configuration of the direct-feed system `Spec.Reachable2` (`embeds_into_direct_feed`) -/
theorem reachE_direct : ∃ t, Reachable2 (fun _ _ => 1000) t cE.2 ∧ Frame cE.1.st t := by
  have hB : FullReachableB (fun _ _ => 1000) cE.1 cE.2 :=
    run_reachableB msgs c0 (FullReachableB.init 1 .regtest gen s0 (by decide) new_s0)
      (by
        intro em hem
        simp only [msgs, List.mem_cons, List.mem_nil_iff, or_false] at hem
        rcases hem with rfl | rfl | rfl | rfl | rfl | rfl | rfl | rfl | rfl <;> rfl)
      trusted
  exact (embeds_into_direct_feed hB).2

/-- **Non-vacuity of the main theorem.**  The configuration after the fourth message is reachable
    and paused (ghost `[]`); the final configuration is reachable, not paused, with ghost `[gen]`
    and stable height 1.  `fullReachable_inv` applies to both. -/
theorem ex_run :
    (FullReachable cP.1 cP.2 ∧ Paused cP.1.st ∧ cP.2 = [] ∧
      ∃ s0 A B, InvAll s0 [] ∧ PausedAt' s0 cP.1.st [] A B) ∧
    (FullReachable cE.1 cE.2 ∧ ¬ Paused cE.1.st ∧ cE.2 = [gen] ∧ InvAll cE.1.st [gen] ∧
      cE.1.st.utxos.nextHeight = 1) := by
  have e4 : cP.2 = [] := by decide +kernel
  have p4 : Paused cP.1.st := by decide +kernel
  have e9 : cE.2 = [gen] := by decide +kernel
  have p9 : ¬ Paused cE.1.st := by decide +kernel
  have n9 : cE.1.st.utxos.nextHeight = 1 := by decide +kernel
  refine ⟨⟨reachP, p4, e4, ?_⟩, reachE, p9, e9, ?_, n9⟩
  · have := (fullReachable_inv reachP).2 p4
    rw [e4] at this
    exact this
  · have := (fullReachable_inv reachE).1 p9
    rw [e9] at this
    exact this

/-- the corollaries apply to the paused configuration: `get_utxos` of address `[1]` still answers
    from the ledger of `[] ++ [gen, b2]`, and the balance is the sum of the answer -/
example : ∃ c : Cfg, FullReachable c.1 c.2 ∧ Paused c.1.st ∧ c.2 = [] ∧
    (∃ (l : List Utxo) (r : UtxosResponse) (tip : CBlock), c.1.st.unstable.mainChain.getLast? = some tip ∧
      l.Perm (ledgerFor [1] (c.2 ++ c.1.st.unstable.mainChain.map (·.blk))) ∧
      c.1.st.getUtxos (.ok [1]) .none_ 10 = .ok r ∧ r.utxos = l.take 10) ∧
    (∃ (l : List Utxo) (r : UtxosResponse), c.1.st.getUtxos (.ok [1]) (.minConf 0) 10 = .ok r ∧
      r.utxos = l.take 10 ∧ c.1.st.getBalance (.ok [1]) 0 = .ok (totalValue l)) := by
  obtain ⟨⟨hr, hp, hg, _⟩, _⟩ := ex_run
  refine ⟨cP, hr, hp, hg, ?_, ?_⟩
  · obtain ⟨l, r, tip, h1, h2, _, _, h5, h6, _⟩ :=
      c01_getUtxos_unfiltered hr (by rw [hg]; simp) [1] 10
    exact ⟨l, r, tip, h1, h2, h5, h6⟩
  · obtain ⟨l, r, h1, h2, _, _, h5⟩ := c05_balance_eq_sum_of_utxos hr [1] 0 10 (Nat.zero_le _)
    exact ⟨l, r, h1, h2, h5⟩

/-- **Finding F13 at the message level**: if the controller raises the stability threshold while
    `gen` is partially ingested, the heartbeat that would finish the block traps (and is rolled
    back, so every later heartbeat traps again); without the `set_config` it completes. -/
example :
    let bad : List (Env × Msg) := [m1, m2, m3, m4, (env 204, .setConfig { stabilityThreshold := some 2 })]
    (match heartbeatStart (env 205) (run c0 bad).1.st 100 with | .trap => true | _ => false) = true ∧
    (run (run c0 bad) [m6]).1.st.utxos.ingesting.isSome = true ∧
    (match heartbeatStart (env 205) (run c0 [m1, m2, m3, m4]).1.st 100 with
      | .ingested _ false => true | _ => false) = true := by
  decide +kernel

end Btc.Props.FullSys.Example
