import BtcModel.Lemmas.Paging
import BtcModel.Lemmas.PageAux
import BtcModel.Lemmas.Pop
import BtcModel.Props.C04

/-!
# C06 — pagination of `get_utxos`

1. **One state.** Let `all` be the complete answer for address `a` and the applied prefix of the
   chain (`QueryInv.resultList`; by C01 a permutation of the reference ledger). The first page is
   `all.take limit` with a token naming `all[limit]` (`first_page`); a request carrying the token of
   `all[k]` returns `(all.drop k).take limit`, the same tip, and the token of `all[k + limit]`
   (`next_page`, from `Paging.addressUtxos_offset`: the offset `(height, outpoint)` of an element
   of `all` makes the iterator return exactly the suffix starting there). Following the tokens
   (`followPages`) yields `all`, in pages of at most `limit` elements that all name the same tip
   (`pages_concat`, `all_pages`).
2. **Across state changes.** If the tip named by a token is still in the tree and the chain ending
   there is the same (`chain_stable_push`, `chain_stable_pop`: pushes and ingestions keep it), the
   complete answers in both states are permutations of the same ledger list
   (`same_tip_same_ledger`), and a token of the old state still designates an element of the new
   complete answer (`old_token_in_new_state`); if the tip is gone the answer is
   `UnknownTipBlockHash` (`tip_gone`). The element ORDER across a stabilisation is not preserved
   (finding F11, `f11_*`): stable entries of one transaction are ordered by the little-endian
   bytes of `vout`, unstable ones numerically.
3. **Page blobs are total.** `pageOfBytes`/`bytesOfPage` (the codec of `Page`), round trip,
   `none` exactly for a length other than 72; a malformed page is `MalformedPage`; a well-formed one
   never traps (`page_never_traps`).

Range hypotheses (explicit): `TxRange G` (stable transaction ids `< 2^256`, at most `2^32`
outputs per transaction) and `G.length + applied.length ≤ 2^32` (heights fit in 4 bytes).
-/
namespace Btc.Props.C06
open Btc Btc.Spec Btc.State

/-! ## 1. One state -/

/-- the token naming an element -/
def tokenOf (tip : Nat) (u : Utxo) : Nat × Nat × OutPoint := (tip, u.height, u.outpoint)

theorem head?_drop_eq {α : Type} (l : List α) (n : Nat) : (l.drop n).head? = l[n]? := by
  rw [List.head?_drop]

/-- **First page** (`filter = MinConfirmations c`, and `none` = `c = 0`): with `applied` the applied
    prefix of the main chain and `all` the complete answer for it, the response carries
    `all.take limit`, names the last applied block `tip` (which is in the tree, its root path being
    `applied`), and its token names `all[limit]` when that exists. -/
theorem first_page {s : State} {G : List Block} (hinv : Inv s G)
    (hU : TxidsUnique (G ++ s.unstable.mainChain.map (·.blk))) (a : Addr) (c limit : Nat)
    (hc : c ≤ s.unstable.mainChain.length) :
    let applied := stablePrefix (Tree.levels CBlock.hash s.unstable.tree) c s.unstable.mainChain 0
    let all := resultList s G a applied
    ∃ r tip sib, applied.getLast? = some tip ∧
      Tree.chainWithTip CBlock.hash tip.hash s.unstable.tree = some (applied, sib) ∧
      PathCtx s G applied ∧
      s.getUtxos (.ok a) (.minConf c) limit = .ok r ∧
      r.utxos = all.take limit ∧ r.tipHash = tip.hash ∧
      r.tipHeight = G.length + applied.length - 1 ∧
      r.nextPage = (all[limit]?).map (tokenOf tip.hash) := by
  intro applied all
  obtain ⟨rest, hrest⟩ := C01.stablePrefix_isPrefix (Tree.levels CBlock.hash s.unstable.tree) c
    s.unstable.mainChain 0
  have hp0 := C01.mainChain_pathCtx hinv hU
  rw [hrest] at hp0
  have hp : PathCtx s G applied := hp0.prefix
  have hne : applied ≠ [] := by
    intro h
    have := C04.stablePrefix_head s.unstable.tree c hc
    change applied.head? = _ at this
    rw [h] at this; simp at this
  obtain ⟨tip, htip⟩ : ∃ tip, applied.getLast? = some tip := by
    cases h : applied.getLast? with
    | none => exact absurd (List.getLast?_eq_none_iff.mp h) hne
    | some t => exact ⟨t, rfl⟩
  obtain ⟨mt, msib, _, hroot⟩ := C01.mainChain_isRootPath hinv
  obtain ⟨sib, hsib⟩ := chainWithTip_prefix CBlock.hash mt.hash s.unstable.tree
    (C01.tree_hashes_nodup hinv) _ _ applied rest tip hroot hrest htip
  obtain ⟨r, hr, hu, hn, ht⟩ := getUtxosFromChain_first hinv a c s.unstable.mainChain limit hc
    applied rfl hp
  obtain ⟨ht1, ht2⟩ := ht tip htip
  refine ⟨r, tip, sib, htip, hsib, hp, hr, hu, ht1, ?_, ?_⟩
  · rw [ht2, hinv.heightEq]
  · rw [hn, head?_drop_eq, ht1]; rfl

/-- the unfiltered request is the request with `min_confirmations = 0` -/
theorem getUtxos_none_eq (s : State) (addr : AddrArg) (limit : Nat) :
    s.getUtxos addr .none_ limit = s.getUtxos addr (.minConf 0) limit := rfl

/-- **Next page**: for a tip `T` of the tree with root path `chain` and complete answer `all`, the
    request carrying the token of `all[k]` returns `(all.drop k).take limit`, names `T` again (same
    height), and its token names `all[k + limit]` when that exists. -/
theorem next_page {s : State} {G : List Block} (hinv : Inv s G) (a : Addr) (T : Nat)
    (chain sib : List CBlock)
    (hroot : Tree.chainWithTip CBlock.hash T s.unstable.tree = some (chain, sib))
    (hp : PathCtx s G chain) (hH : G.length + chain.length ≤ 2 ^ 32) (hR : TxRange G)
    (limit k : Nat) (x : Utxo) (hk : (resultList s G a chain)[k]? = some x) :
    ∃ r, s.getUtxos (.ok a) (.page (some (tokenOf T x))) limit = .ok r ∧
      r.utxos = ((resultList s G a chain).drop k).take limit ∧
      r.nextPage = ((resultList s G a chain)[k + limit]?).map (tokenOf T) ∧
      r.tipHash = T ∧ r.tipHeight = G.length + chain.length - 1 := by
  obtain ⟨r, hr, hu, hn, ht, hh⟩ := getUtxos_page hinv a T chain sib hroot hp hH hR limit k x hk
  refine ⟨r, hr, hu, ?_, ht, ?_⟩
  · rw [hn, head?_drop_eq]; rfl
  · rw [hh, hinv.heightEq]

/-- the loop of a client: follow `next_page` until there is none, collecting the responses
    (`fuel` bounds the number of requests) -/
def followPages (s : State) (addr : AddrArg) (limit : Nat) :
    Nat → Option (Nat × Nat × OutPoint) → Option (List UtxosResponse)
  | _, none => some []
  | 0, some _ => none
  | fuel + 1, some p =>
    match s.getUtxos addr (.page (some p)) limit with
    | .ok r => (followPages s addr limit fuel r.nextPage).map (r :: ·)
    | _ => none

/-- **Following the tokens from `all[k]` yields `all.drop k`**, in non-empty pages of at most
    `limit` elements that all name the tip `T` at the same height; at most `|all| - k` requests
    are needed. -/
theorem pages_concat {s : State} {G : List Block} (hinv : Inv s G) (a : Addr) (T : Nat)
    (chain sib : List CBlock)
    (hroot : Tree.chainWithTip CBlock.hash T s.unstable.tree = some (chain, sib))
    (hp : PathCtx s G chain) (hH : G.length + chain.length ≤ 2 ^ 32) (hR : TxRange G)
    (limit : Nat) (hl : 1 ≤ limit) :
    ∀ (fuel k : Nat), (resultList s G a chain).length - k ≤ fuel →
      ∃ rs, followPages s (.ok a) limit fuel (((resultList s G a chain)[k]?).map (tokenOf T)) = some rs ∧
        rs.flatMap (·.utxos) = (resultList s G a chain).drop k ∧
        ∀ r ∈ rs, r.utxos.length ≤ limit ∧ r.utxos ≠ [] ∧ r.tipHash = T ∧
          r.tipHeight = G.length + chain.length - 1 := by
  intro fuel
  induction fuel with
  | zero =>
    intro k hk
    have hge : (resultList s G a chain).length ≤ k := by omega
    rw [List.getElem?_eq_none hge]
    refine ⟨[], rfl, ?_, by simp⟩
    rw [List.drop_eq_nil_of_le hge]; rfl
  | succ fuel ih =>
    intro k hk
    cases hx : (resultList s G a chain)[k]? with
    | none =>
      have hge : (resultList s G a chain).length ≤ k := List.getElem?_eq_none_iff.mp hx
      refine ⟨[], rfl, ?_, by simp⟩
      rw [List.drop_eq_nil_of_le hge]; rfl
    | some x =>
      have hlt : k < (resultList s G a chain).length := (List.getElem?_eq_some_iff.mp hx).1
      obtain ⟨r, hr, hu, hn, ht, hh⟩ := next_page hinv a T chain sib hroot hp hH hR limit k x hx
      obtain ⟨rs, hrs, hcat, hall⟩ := ih (k + limit) (by omega)
      refine ⟨r :: rs, ?_, ?_, ?_⟩
      · simp only [Option.map_some, followPages, hr, hn, hrs]
      · simp only [List.flatMap_cons, hcat, hu]
        rw [← List.drop_drop, List.take_append_drop]
      · intro r' hr'
        rcases List.mem_cons.mp hr' with rfl | hm
        · refine ⟨by rw [hu]; simp only [List.length_take]; omega, ?_, ht, hh⟩
          rw [hu]
          intro hnil
          have := congrArg List.length hnil
          simp only [List.length_take, List.length_drop, List.length_nil] at this
          omega
        · exact hall r' hm

/-- **C06.1, assembled**: the first page (unfiltered or with `min_confirmations = c`) followed by
    the pages obtained by following `next_page` concatenate to the complete answer `all`; every
    page has at most `limit` elements and names the same tip block and height. -/
theorem all_pages {s : State} {G : List Block} (hinv : Inv s G)
    (hU : TxidsUnique (G ++ s.unstable.mainChain.map (·.blk))) (hR : TxRange G) (a : Addr)
    (c limit : Nat) (hl : 1 ≤ limit) (hc : c ≤ s.unstable.mainChain.length)
    (hH : G.length + s.unstable.mainChain.length ≤ 2 ^ 32) (fuel : Nat) :
    let applied := stablePrefix (Tree.levels CBlock.hash s.unstable.tree) c s.unstable.mainChain 0
    let all := resultList s G a applied
    all.length ≤ fuel + limit →
    ∃ r0 rs tip, applied.getLast? = some tip ∧
      s.getUtxos (.ok a) (.minConf c) limit = .ok r0 ∧
      followPages s (.ok a) limit fuel r0.nextPage = some rs ∧
      (r0 :: rs).flatMap (·.utxos) = all ∧
      all.Perm (ledgerFor a (G ++ applied.map (·.blk))) ∧
      ∀ r ∈ r0 :: rs, r.utxos.length ≤ limit ∧ r.tipHash = tip.hash ∧
        r.tipHeight = G.length + applied.length - 1 := by
  intro applied all hfuel
  obtain ⟨r0, tip, sib, htip, hroot, hp, hr0, hu0, ht0, hh0, hn0⟩ := first_page hinv hU a c limit hc
  have hlen : applied.length ≤ s.unstable.mainChain.length := by
    obtain ⟨rest, hrest⟩ := C01.stablePrefix_isPrefix (Tree.levels CBlock.hash s.unstable.tree) c
      s.unstable.mainChain 0
    have := congrArg List.length hrest
    simp only [List.length_append] at this
    show (stablePrefix (Tree.levels CBlock.hash s.unstable.tree) c s.unstable.mainChain 0).length ≤ _
    omega
  obtain ⟨rs, hrs, hcat, hall⟩ := pages_concat hinv a tip.hash applied sib hroot hp (by omega) hR
    limit hl fuel limit (by show all.length - limit ≤ fuel; omega)
  refine ⟨r0, rs, tip, htip, hr0, by rw [hn0]; exact hrs, ?_, (addressUtxos_path hinv hp a).2.2.1, ?_⟩
  · simp only [List.flatMap_cons, hcat, hu0]
    exact List.take_append_drop limit all
  · intro r hr
    rcases List.mem_cons.mp hr with rfl | hm
    · exact ⟨by rw [hu0]; simp only [List.length_take]; omega, ht0, hh0⟩
    · obtain ⟨h1, _, h3, h4⟩ := hall r hm
      exact ⟨h1, h3, h4⟩

/-! ## 2. Across state changes -/

/-- the chain from genesis to the block with hash `T`: the stable chain and the root path of `T` -/
def fullChain (s : State) (G : List Block) (T : Nat) : Option (List Block) :=
  (pathBlocks s.unstable.tree T).map (G ++ ·)

/-- inserting a block keeps the chain of every other tip -/
theorem chain_stable_push (s : State) (G : List Block) (b : CBlock) (prev : Nat) (t' : Tree CBlock)
    (u' : Unstable) (he : Tree.extend CBlock.hash prev b s.unstable.tree = some t')
    (hu' : u'.tree = t') (T : Nat) (hT : T ≠ b.hash) :
    fullChain { s with unstable := u' } G T = fullChain s G T := by
  unfold fullChain pathBlocks
  simp only [hu']
  have := TreeExtend.chainWithTip_extend_ne CBlock.hash prev b T hT s.unstable.tree t' he
  cases h1 : Tree.chainWithTip CBlock.hash T t' <;>
    cases h2 : Tree.chainWithTip CBlock.hash T s.unstable.tree <;>
    simp_all

/-- ingesting the anchor `r` and re-rooting the tree at its stable child keeps the chain of every
    tip that is still in the tree -/
theorem chain_stable_pop (s : State) (G : List Block) (r : CBlock) (cs : List (Tree CBlock))
    (htree : s.unstable.tree = .node r cs)
    (hnd : (s.unstable.tree.blocks.map CBlock.hash).Nodup) (i : Nat) (child : Tree CBlock)
    (hchild : cs[i]? = some child) (u' : Unstable) (hu' : u'.tree = child) (T : Nat)
    (c : List Block) (h : fullChain { s with unstable := u' } (G ++ [r.blk]) T = some c) :
    fullChain s G T = some c := by
  unfold fullChain pathBlocks at h ⊢
  simp only [hu'] at h
  cases hc : Tree.chainWithTip CBlock.hash T child with
  | none => rw [hc] at h; cases h
  | some ps =>
    obtain ⟨p, sib⟩ := ps
    rw [hc] at h
    rw [htree] at hnd ⊢
    rw [Tree.chainWithTip_of_child CBlock.hash T r cs i child p sib hnd hchild hc]
    simp only [Option.map_some, Option.some.injEq] at h ⊢
    rw [← h]; simp

/-- the tree after `unstable_blocks::push` is the old tree extended by the new block -/
theorem push_tree (u : Unstable) (utxos : UtxoSet) (b : Block) (u' : Unstable)
    (h : u.push utxos b = .ok u') :
    ∃ c : CBlock, c.blk = b ∧ Tree.extend CBlock.hash b.prev c u.tree = some u'.tree := by
  cases hd : Tree.findDepth CBlock.hash b.prev u.tree with
  | none => simp only [Unstable.push, hd] at h; cases h
  | some depth =>
    cases hi : insertOutpoints u.cache utxos b (utxos.nextHeight + depth + 1) with
    | none => simp only [Unstable.push, hd, hi] at h; cases h
    | some cm =>
      obtain ⟨cache, m⟩ := cm
      cases he : Tree.extend CBlock.hash b.prev (CBlock.mk b (some m.feeRates) m.utxoDelta) u.tree with
      | none => simp only [Unstable.push, hd, hi, he] at h; cases h
      | some tree =>
        simp only [Unstable.push, hd, hi, he, Unstable.PushResult.ok.injEq] at h
        subst h
        exact ⟨_, rfl, he⟩

/-- `insert_block` keeps the chain from genesis of every block already in the tree -/
theorem chain_stable_insert (s : State) (G : List Block) (b : Block) (u' : Unstable)
    (h : s.unstable.push s.utxos b = .ok u') (T : Nat) (hT : T ≠ b.hash) :
    fullChain { s with unstable := u' } G T = fullChain s G T := by
  obtain ⟨c, hc, he⟩ := push_tree _ _ _ _ h
  exact chain_stable_push s G c b.prev _ u' he rfl T (by rw [CBlock.hash, hc]; exact hT)

/-- the tree after `unstable_blocks::pop` is a child of the old root -/
theorem pop_tree (bound : Unstable.BoundFn) (u : Unstable) (sh : Nat) (u' : Unstable) (blk : Block)
    (h : Unstable.pop bound u sh = .ok u' blk) :
    ∃ (r : CBlock) (cs : List (Tree CBlock)) (i : Nat), u.tree = .node r cs ∧ cs[i]? = some u'.tree ∧ blk = r.blk := by
  unfold Unstable.pop at h
  split at h
  · cases h
  · rename_i idx _
    split at h
    rename_i r cs htree
    split at h
    · cases h
    · rename_i child hchild
      simp only at h
      split at h
      · cases h
      · split at h
        · cases h
        · cases h
          exact ⟨r, cs, idx, htree, hchild, rfl⟩

/-- popping the ingested anchor keeps the chain from genesis of every block still in the tree -/
theorem chain_stable_popBlock (bound : Unstable.BoundFn) (s : State) (G : List Block) (sh : Nat)
    (u' : Unstable) (blk : Block) (h : Unstable.pop bound s.unstable sh = .ok u' blk)
    (hnd : (s.unstable.tree.blocks.map CBlock.hash).Nodup) (T : Nat) (c : List Block)
    (hc : fullChain { s with unstable := u' } (G ++ [blk]) T = some c) : fullChain s G T = some c := by
  obtain ⟨r, cs, i, htree, hchild, rfl⟩ := pop_tree bound _ sh u' _ h
  exact chain_stable_pop s G r cs htree hnd i _ hchild u' rfl T c hc

/-- **Same tip, same ledger**: if the tip `T` is in the trees of two `Inv` states with the same
    chain from genesis, then for every address the complete answers for `T` in the two states are
    permutations of the same reference ledger list, hence of each other. -/
theorem same_tip_same_ledger {s s' : State} {G G' : List Block} (hinv : Inv s G)
    (hinv' : Inv s' G') (T : Nat) (chain sib chain' sib' : List CBlock)
    (hroot : Tree.chainWithTip CBlock.hash T s.unstable.tree = some (chain, sib))
    (hroot' : Tree.chainWithTip CBlock.hash T s'.unstable.tree = some (chain', sib'))
    (hsame : G ++ chain.map (·.blk) = G' ++ chain'.map (·.blk))
    (hU : TxidsUnique (G ++ chain.map (·.blk))) (a : Addr) :
    ∃ A R A' R',
      applyBlocks s a chain s.utxos.nextHeight ([], []) = some (A, R) ∧
      addressUtxos s a A R none = some (resultList s G a chain) ∧
      applyBlocks s' a chain' s'.utxos.nextHeight ([], []) = some (A', R') ∧
      addressUtxos s' a A' R' none = some (resultList s' G' a chain') ∧
      (resultList s G a chain).Perm (ledgerFor a (G ++ chain.map (·.blk))) ∧
      (resultList s' G' a chain').Perm (ledgerFor a (G ++ chain.map (·.blk))) ∧
      (resultList s G a chain).Perm (resultList s' G' a chain') := by
  have hp := PathCtx.of_rootPath hinv T chain sib hroot hU chain [] (by simp)
  have hp' := PathCtx.of_rootPath hinv' T chain' sib' hroot' (hsame ▸ hU) chain' [] (by simp)
  obtain ⟨h1, h2, h3, _⟩ := addressUtxos_path hinv hp a
  obtain ⟨h1', h2', h3', _⟩ := addressUtxos_path hinv' hp' a
  rw [← hsame] at h3'
  exact ⟨_, _, _, _, h1, h2, h1', h2', h3, h3', h3.trans h3'.symm⟩

/-- **A token of the old state in the new state**: under the hypotheses of `same_tip_same_ledger`,
    the token of any element `x` of the old complete answer, presented to the new state, returns
    the slice of the NEW complete answer `all'` that starts at `x` (`x` occurs in `all'`, at some
    position `k'`), with the same tip. No element before `x` in the new order is returned; which
    elements those are may differ from the old order (F11). -/
theorem old_token_in_new_state {s s' : State} {G G' : List Block} (hinv : Inv s G)
    (hinv' : Inv s' G') (T : Nat) (chain sib chain' sib' : List CBlock)
    (hroot : Tree.chainWithTip CBlock.hash T s.unstable.tree = some (chain, sib))
    (hroot' : Tree.chainWithTip CBlock.hash T s'.unstable.tree = some (chain', sib'))
    (hsame : G ++ chain.map (·.blk) = G' ++ chain'.map (·.blk))
    (hU : TxidsUnique (G ++ chain.map (·.blk))) (hH' : G'.length + chain'.length ≤ 2 ^ 32)
    (hR' : TxRange G') (a : Addr) (limit : Nat) (x : Utxo) (hx : x ∈ resultList s G a chain) :
    ∃ k' r, (resultList s' G' a chain')[k']? = some x ∧
      s'.getUtxos (.ok a) (.page (some (tokenOf T x))) limit = .ok r ∧
      r.utxos = ((resultList s' G' a chain').drop k').take limit ∧ r.tipHash = T ∧
      r.nextPage = ((resultList s' G' a chain')[k' + limit]?).map (tokenOf T) := by
  obtain ⟨_, _, _, _, _, _, _, _, _, _, hperm⟩ :=
    same_tip_same_ledger hinv hinv' T chain sib chain' sib' hroot hroot' hsame hU a
  have hx' : x ∈ resultList s' G' a chain' := hperm.mem_iff.mp hx
  obtain ⟨k', hk'⟩ := List.getElem?_of_mem hx'
  have hp' := PathCtx.of_rootPath hinv' T chain' sib' hroot' (hsame ▸ hU) chain' [] (by simp)
  obtain ⟨r, hr, hu, hn, ht, _⟩ := next_page hinv' a T chain' sib' hroot' hp' hH' hR' limit k' x hk'
  exact ⟨k', r, hk', hr, hu, ht, hn⟩

/-- **The tip is gone** (e.g. its fork was discarded when a competing block became stable): the
    page request is refused with `UnknownTipBlockHash` (unless the address itself is bad, which
    is only checked later). -/
theorem tip_gone (s' : State) (addr : AddrArg) (T height : Nat) (op : OutPoint) (limit : Nat)
    (hT : T ∉ s'.unstable.tree.blocks.map CBlock.hash) :
    s'.getUtxos addr (.page (some (T, height, op))) limit = .err (.unknownTipBlockHash T) := by
  unfold getUtxos
  simp only [chainWithTip_none_of_not_mem CBlock.hash T s'.unstable.tree hT]

/-! ### F11: the element order changes when a block becomes stable -/

/-- a UTXO set holding the outputs `vout = 1` and `vout = 256` of transaction 7 (height 0), both
    paying address `[5]` -/
def f11Stable : UtxoSet :=
  { utxos := [(⟨7, 1⟩, (⟨10, some [5], false⟩, 0)), (⟨7, 256⟩, (⟨20, some [5], false⟩, 0))],
    index := [⟨[5], 0, ⟨7, 1⟩⟩, ⟨[5], 0, ⟨7, 256⟩⟩],
    balances := [([5], 30)], nextHeight := 1 }

def f11Tree : Unstable := { thr := 1, tree := Tree.leaf ⟨mkB 1 0 [], none, 0⟩, net := .regtest }

/-- the two outputs are stable -/
def f11After : State := { utxos := f11Stable, unstable := f11Tree }
/-- the two outputs are still unstable (they are in the `added` set of `AddressUtxoSet`) -/
def f11Before : State := { utxos := {}, unstable := f11Tree }

/-- while unstable, the outputs come in numeric `vout` order (`Ord for OutPoint`) … -/
theorem f11_unstable_order :
    f11Before.addressUtxos [5] [⟨0, ⟨7, 256⟩, 20⟩, ⟨0, ⟨7, 1⟩, 10⟩] [] none =
      some [⟨0, ⟨7, 1⟩, 10⟩, ⟨0, ⟨7, 256⟩, 20⟩] := by
  rw [addressUtxos_unstable_only _ _ _ _ rfl rfl]; decide

/-- … once stable, in the byte order of the index key, whose `vout` part is little-endian:
    `256 = 00 01 00 00` sorts before `1 = 01 00 00 00` -/
theorem f11_stable_order :
    f11After.addressUtxos [5] [] [] none = some [⟨0, ⟨7, 256⟩, 20⟩, ⟨0, ⟨7, 1⟩, 10⟩] :=
  addressUtxos_stable_only _ _ _ rfl _ (by decide)

/-- consequence for pagination with `limit = 1`: the first page, taken while the block was
    unstable, is `[vout 1]` and its token names `(0, ⟨7, 256⟩)`; the continuation after the block
    became stable returns `vout 256` and then `vout 1` AGAIN … -/
theorem f11_duplicate :
    f11After.addressUtxos [5] [] [] (some ⟨0, ⟨7, 256⟩, 0⟩) =
      some [⟨0, ⟨7, 256⟩, 20⟩, ⟨0, ⟨7, 1⟩, 10⟩] :=
  addressUtxos_stable_only _ _ _ rfl _ (by decide)

/-- … and a token naming `vout 1` (issued in the stable order after `vout 256`) would, in the
    unstable order, be followed by `vout 256` again; in the stable order it ends the list -/
theorem f11_tail : f11After.addressUtxos [5] [] [] (some ⟨0, ⟨7, 1⟩, 0⟩) = some [⟨0, ⟨7, 1⟩, 10⟩] :=
  addressUtxos_stable_only _ _ _ rfl _ (by decide)

/-! ## 3. Page blobs -/

/-- big-endian value of a byte string -/
def beVal (bs : List Nat) : Nat := bs.foldl (fun a b => a * 256 + b) 0

theorem beVal_append_singleton (l : List Nat) (c : Nat) : beVal (l ++ [c]) = beVal l * 256 + c := by
  simp [beVal, List.foldl_append]

theorem beVal_beBytes (n x : Nat) (hx : x < 256 ^ n) : beVal (beBytes n x) = x := by
  induction n generalizing x with
  | zero => simp at hx; subst hx; rfl
  | succ n ih =>
    simp only [beBytes, beVal_append_singleton]
    rw [ih (x / 256) (by rw [Nat.pow_succ] at hx; exact Nat.div_lt_of_lt_mul (by rw [Nat.mul_comm]; exact hx))]
    omega

theorem leVal_leBytes (n x : Nat) (hx : x < 256 ^ n) : beVal (leBytes n x).reverse = x := by
  induction n generalizing x with
  | zero => simp at hx; subst hx; rfl
  | succ n ih =>
    simp only [leBytes, List.reverse_cons, beVal_append_singleton]
    rw [ih (x / 256) (by rw [Nat.pow_succ] at hx; exact Nat.div_lt_of_lt_mul (by rw [Nat.mul_comm]; exact hx))]
    omega

theorem heightVal_heightBytes (h : Nat) (hh : h < 2 ^ 32) :
    (heightBytes h).foldl (fun a b => a * 256 + (255 - b)) 0 = h := by
  unfold heightBytes
  rw [List.foldl_map]
  have : ∀ (l : List Nat) (acc : Nat), (∀ b ∈ l, b < 256) →
      l.foldl (fun a b => a * 256 + (255 - (255 - b))) acc = l.foldl (fun a b => a * 256 + b) acc := by
    intro l
    induction l with
    | nil => intros; rfl
    | cons c cs ih =>
      intro acc hl
      simp only [List.foldl_cons]
      have hc : c < 256 := hl c List.mem_cons_self
      have : 255 - (255 - c) = c := by omega
      rw [this]
      exact ih _ (fun b hb => hl b (List.mem_cons_of_mem _ hb))
  rw [this _ _ (beBytes_lt 4 h)]
  exact beVal_beBytes 4 h (by simpa using hh)

/-- `Page::from_bytes` (the same expressions as `Driver.parsePage`): 72 bytes = tip hash (32) ‖
    height (4 bytes, big-endian, each XOR 0xff) ‖ txid (32) ‖ vout (4, little-endian); `none` iff
    the length is not 72 -/
def pageOfBytes (bs : List Nat) : Option (Nat × Nat × OutPoint) :=
  if bs.length ≠ 72 then none
  else
    let tip := (bs.take 32).foldl (fun a b => a * 256 + b) 0
    let height := ((bs.drop 32).take 4).foldl (fun a b => a * 256 + (255 - b)) 0
    let txid := ((bs.drop 36).take 32).foldl (fun a b => a * 256 + b) 0
    let vout := ((bs.drop 68).take 4).reverse.foldl (fun a b => a * 256 + b) 0
    some (tip, height, ⟨txid, vout⟩)

/-- `Page::to_bytes` (= `Driver.showPage` before hex encoding) -/
def bytesOfPage (p : Nat × Nat × OutPoint) : List Nat :=
  beBytes 32 p.1 ++ heightBytes p.2.1 ++ outPointBytes p.2.2

theorem bytesOfPage_length (p : Nat × Nat × OutPoint) : (bytesOfPage p).length = 72 := by
  simp [bytesOfPage, heightBytes, outPointBytes, beBytes_length, leBytes_length]

theorem slices {α : Type} (A B C D : List α) (hA : A.length = 32) (hB : B.length = 4)
    (hC : C.length = 32) :
    (A ++ B ++ (C ++ D)).take 32 = A ∧ ((A ++ B ++ (C ++ D)).drop 32).take 4 = B ∧
    ((A ++ B ++ (C ++ D)).drop 36).take 32 = C ∧ (A ++ B ++ (C ++ D)).drop 68 = D := by
  refine ⟨?_, ?_, ?_, ?_⟩
  · rw [List.append_assoc, List.take_left' hA]
  · rw [List.append_assoc, List.drop_left' hA, List.take_left' hB]
  · rw [List.drop_left' (by simp [hA, hB]), List.take_left' hC]
  · rw [← List.append_assoc, List.drop_left' (by simp [hA, hB, hC])]

/-- **decode ∘ encode = id** on in-range fields (32-byte hashes, `u32` height and `vout`) -/
theorem pageOfBytes_bytesOfPage (p : Nat × Nat × OutPoint) (h1 : p.1 < 2 ^ 256)
    (h2 : p.2.1 < 2 ^ 32) (h3 : p.2.2.txid < 2 ^ 256) (h4 : p.2.2.vout < 2 ^ 32) :
    pageOfBytes (bytesOfPage p) = some p := by
  unfold pageOfBytes
  rw [if_neg (by simp [bytesOfPage_length])]
  obtain ⟨tip, h, ⟨txid, vout⟩⟩ := p
  simp only at h1 h2 h3 h4
  obtain ⟨e1, e2, e3, e4⟩ := slices (beBytes 32 tip) (heightBytes h) (beBytes 32 txid) (leBytes 4 vout)
    (beBytes_length _ _) (by simp [heightBytes, beBytes_length]) (beBytes_length _ _)
  simp only [bytesOfPage, outPointBytes]
  rw [e1, e2, e3, e4, List.take_of_length_le (by simp [leBytes_length])]
  have t1 := beVal_beBytes 32 tip (by simpa using h1)
  have t2 := heightVal_heightBytes h h2
  have t3 := beVal_beBytes 32 txid (by simpa using h3)
  have t4 := leVal_leBytes 4 vout (by simpa using h4)
  unfold beVal at t1 t3 t4
  rw [t1, t2, t3, t4]

/-- a blob is rejected exactly when it is not 72 bytes long: decoding is total on 72-byte blobs -/
theorem pageOfBytes_eq_none_iff (bs : List Nat) : pageOfBytes bs = none ↔ bs.length ≠ 72 := by
  unfold pageOfBytes
  by_cases h : bs.length = 72 <;> simp [h]

/-- the decoded fields of any 72-byte blob are in range, so every decodable page is the encoding
    of some page: `from_bytes` has no further failure mode -/
theorem pageOfBytes_isSome_iff (bs : List Nat) : (pageOfBytes bs).isSome ↔ bs.length = 72 := by
  unfold pageOfBytes
  by_cases h : bs.length = 72 <;> simp [h]

/-- a malformed page blob (wrong length) is answered with `MalformedPage`, before the address is
    even looked at -/
theorem malformed_page (s : State) (addr : AddrArg) (limit : Nat) :
    s.getUtxos addr (.page none) limit = .err .malformedPage := rfl

/-- the request built from a blob: `MalformedPage` exactly for blobs that are not 72 bytes long -/
theorem malformed_page_iff (s : State) (addr : AddrArg) (limit : Nat) (bs : List Nat) :
    s.getUtxos addr (.page (pageOfBytes bs)) limit = .err .malformedPage ↔ bs.length ≠ 72 := by
  constructor
  · intro h hlen'
    obtain ⟨p, hp⟩ := Option.isSome_iff_exists.mp ((pageOfBytes_isSome_iff bs).mpr hlen')
    rw [hp] at h
    obtain ⟨tip, height, op⟩ := p
    unfold getUtxos at h
    simp only at h
    split at h
    · cases h
    · unfold getUtxosFromChain at h
      cases addr with
      | malformed => cases h
      | wrongNetwork => cases h
      | ok a =>
        simp only [Nat.not_lt_zero, if_false] at h
        repeat (split at h <;> try cases h)
  · intro h
    rw [(pageOfBytes_eq_none_iff bs).mpr h]
    rfl

/-- every root path of the tree, appended to the stable chain, has pairwise distinct transaction
    ids (the extra hypothesis of C01, for all tips at once) -/
def AllPathsUnique (s : State) (G : List Block) : Prop :=
  ∀ tip chain sib, Tree.chainWithTip CBlock.hash tip s.unstable.tree = some (chain, sib) →
    TxidsUnique (G ++ chain.map (·.blk))

/-- **A page request never traps**: under the invariant, any well-formed page — whatever its
    fields are, even if no element of the answer matches the offset — yields an answer naming the
    requested tip, or `UnknownTipBlockHash` (exactly when the tip is not in the tree), or one of
    the two address errors. -/
theorem page_never_traps {s : State} {G : List Block} (hinv : Inv s G) (hU : AllPathsUnique s G)
    (addr : AddrArg) (tip height : Nat) (op : OutPoint) (limit : Nat) :
    (∃ r, s.getUtxos addr (.page (some (tip, height, op))) limit = .ok r ∧ r.tipHash = tip) ∨
    (s.getUtxos addr (.page (some (tip, height, op))) limit = .err (.unknownTipBlockHash tip) ∧
      tip ∉ s.unstable.tree.blocks.map CBlock.hash) ∨
    (s.getUtxos addr (.page (some (tip, height, op))) limit = .err .malformedAddress ∧
      addr = .malformed) ∨
    (s.getUtxos addr (.page (some (tip, height, op))) limit = .err .wrongNetwork ∧
      addr = .wrongNetwork) := by
  unfold getUtxos
  simp only
  cases hc : Tree.chainWithTip CBlock.hash tip s.unstable.tree with
  | none =>
    right; left
    refine ⟨rfl, ?_⟩
    intro hm
    have := TreeExtend.chainWithTip_isSome_of_mem CBlock.hash tip s.unstable.tree hm
    rw [hc] at this
    cases this
  | some cs =>
    obtain ⟨chain, sib⟩ := cs
    simp only
    cases addr with
    | malformed => right; right; left; exact ⟨rfl, rfl⟩
    | wrongNetwork => right; right; right; exact ⟨rfl, rfl⟩
    | ok a =>
      left
      have hp : PathCtx s G chain :=
        PathCtx.of_rootPath hinv tip chain sib hc (hU tip chain sib hc) chain [] (by simp)
      obtain ⟨h1, _, _, _⟩ := addressUtxos_path hinv hp a
      have hG := hp.validG
      obtain ⟨res, hres⟩ := addressUtxos_offset_isSome s (ledger G) hinv.stable
        (Spec.ledger_keys_nodup G hG.1 hG.2) a (addedAll a G.length (chain.map (·.blk)))
        (removedAll (histOf s G) a (chain.map (·.blk))) (some ⟨height, op, 0⟩)
      obtain ⟨_, x, hx, hxt⟩ := chainWithTip_spec CBlock.hash tip _ _ _ hc
      unfold getUtxosFromChain
      simp only [Nat.not_lt_zero, if_false, C02.stablePrefix_zero, h1, hres, hx]
      exact ⟨_, rfl, hxt⟩

/-! ## Non-vacuity (the example state of C01: address `[2]` has two unspent outputs) -/

theorem exAllPaths : AllPathsUnique C01.exS [exG] := by
  intro tip chain sib hc
  have : chain = [C01.exCB] := by
    simp only [C01.exS, C01.exU, Tree.leaf, Tree.chainWithTip, Tree.chainWithTipList] at hc
    split at hc
    · simp at hc; exact hc.1.symm
    · simp at hc
  subst this
  decide

/-- two pages of one element each, concatenating to the complete answer, both naming block 101 -/
example : ∃ r0 rs tip,
    (stablePrefix (Tree.levels CBlock.hash C01.exS.unstable.tree) 0 C01.exS.unstable.mainChain 0).getLast?
      = some tip ∧
    C01.exS.getUtxos (.ok [2]) (.minConf 0) 1 = .ok r0 ∧
    followPages C01.exS (.ok [2]) 1 5 r0.nextPage = some rs ∧
    (r0 :: rs).flatMap (·.utxos) = [⟨1, ⟨2, 0⟩, 50⟩, ⟨1, ⟨3, 1⟩, 30⟩] ∧
    ∀ r ∈ r0 :: rs, r.utxos.length ≤ 1 ∧ r.tipHash = tip.hash ∧ r.tipHeight = 1 := by
  obtain ⟨r0, rs, tip, h1, h2, h3, h4, _, h6⟩ := all_pages C01.exInv C01.exUnique
    (by unfold TxRange; decide) [2] 0 1 (by decide) (by decide) (by decide) 5 (by
      rw [C02.stablePrefix_zero, exAll2]; decide)
  rw [C02.stablePrefix_zero] at h4 h6
  rw [exAll2] at h4
  exact ⟨r0, rs, tip, h1, h2, h3, h4, h6⟩

example : (∃ r, C01.exS.getUtxos (.ok [2]) (.page (some (101, 7, ⟨9, 9⟩))) 10 = .ok r ∧ r.tipHash = 101) := by
  rcases page_never_traps C01.exInv exAllPaths (.ok [2]) 101 7 ⟨9, 9⟩ 10 with h | ⟨_, h⟩ | ⟨_, h⟩ | ⟨_, h⟩
  · exact h
  · exact absurd (by decide) h
  · cases h
  · cases h

theorem exRoot : Tree.chainWithTip CBlock.hash 101 C01.exS.unstable.tree = some ([C01.exCB], []) := by
  rfl

/-- the hypotheses of the cross-state theorems are satisfiable (here with `s' = s`; the chain
    equality is then trivial — `chain_stable_insert`/`chain_stable_popBlock` provide it along
    executions) -/
example : ∃ k' r, (resultList C01.exS [exG] [2] [C01.exCB])[k']? = some ⟨1, ⟨3, 1⟩, 30⟩ ∧
    C01.exS.getUtxos (.ok [2]) (.page (some (101, 1, ⟨3, 1⟩))) 1 = .ok r ∧
    r.utxos = ((resultList C01.exS [exG] [2] [C01.exCB]).drop k').take 1 ∧ r.tipHash = 101 ∧
    r.nextPage = ((resultList C01.exS [exG] [2] [C01.exCB])[k' + 1]?).map (tokenOf 101) :=
  old_token_in_new_state C01.exInv C01.exInv 101 _ _ _ _ exRoot exRoot rfl (by decide) (by decide)
    (by unfold TxRange; decide) [2] 1 ⟨1, ⟨3, 1⟩, 30⟩ (by
      have := exAll2
      rw [show C01.exS.unstable.mainChain = [C01.exCB] from rfl] at this
      rw [this]; decide)

example : pageOfBytes (bytesOfPage (101, 1, ⟨3, 1⟩)) = some (101, 1, ⟨3, 1⟩) :=
  pageOfBytes_bytesOfPage _ (by decide) (by decide) (by decide) (by decide)

end Btc.Props.C06
