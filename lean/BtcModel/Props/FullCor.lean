import BtcModel.Lemmas.FullCor
import BtcModel.Props.C02
import BtcModel.Props.C04
import BtcModel.Props.C14
import BtcModel.Props.C16

/-!
# The per-property headline statements, for every message history of the canister

`Spec.Full.FullReachable sys G` (`Spec/FullSys.lean`): the configurations — canister state,
request outstanding at the block source, ghost `G` of the completely ingested blocks — that the
canister reaches from `State::new` by any sequence of *messages* (heartbeats with any budget,
replies of any kind, endpoint calls, `set_config`, upgrades), under the environment assumption
`Spec.Full.Trusted`.  `Props/FullSys.lean` proves the ledger invariant for all of them and lifts
C01, C05, C06 (no trap), C07, C20.  This file lifts the remaining headline statements:

1. **C02** `get_blockchain_info`, unfiltered `get_utxos`, `get_balance`, `get_block_headers` and
   the fee percentiles describe the last block of `Spec.bestPath` (heaviest branch; ties: more
   blocks, then first received) over the tree of unstable blocks.
2. **C03** finality along message histories: the stable chain only grows by appending and the
   header store's block at a stable height never changes; a heartbeat that moves the anchor moves
   it by `pop`s, each decided by the declarative rule, along the chain being served; no advance is
   withheld; the tree loses blocks only in such a heartbeat.
3. **C04** `min_confirmations` = the cut at the last sufficiently buried block.
4. **C06** page requests (`all_pages`, `next_page`, `page_never_traps`, `old_token_in_new_state`
   between two configurations of one message history).
5. **C08** at message level: while a block is partially ingested every query answers as the
   state before that block's ingestion began, whatever messages arrive, and no request is issued.
6. **C09** at message level: an upgrade message changes no query answer, is the `upgrade` step of
   `Spec.step2`, abandons the outstanding request; the next request is an initial one.
7. **C14 / C16** at message level: a refused or under-funded call leaves the whole configuration
   unchanged; query variants accept no cycles and change nothing.

All statements hold in paused configurations too (a block partially ingested), via
`fullReachable_view`.  Range hypotheses (`G.length ≤ 2^32`, `TxRange G`, …) are kept explicit:
they are not invariants of the model (heights, ids and output counts are unbounded naturals).
Nothing here depends on the model of announced-header insertion.
-/
namespace Btc.Props.FullCor
open Btc Btc.State Btc.Spec Btc.Spec.Full Btc.Lemmas.Reach Btc.Lemmas.Reach2 Btc.Lemmas.FullSys
open Btc.Lemmas.FullCor Btc.Props.ReachAll Btc.Props.FullSys

variable {sys : Fetch.Sys} {G : List Block}

/-- the branch of the tree of unstable blocks that is served: the root path with the greatest
    accumulated difficulty; ties: the one with more blocks, then the one received first
    (`Spec.bestPath`, the oracle of C02) -/
abbrev best (s : State) : List CBlock := bestPath CBlock.diff s.unstable.tree

theorem best_ne_nil (s : State) : best s ≠ [] := by
  intro hn
  have := C02.bestPath_head CBlock.diff s.unstable.tree
  rw [show bestPath CBlock.diff s.unstable.tree = [] from hn] at this
  simp at this

theorem mainChain_eq_best (s : State) : s.unstable.mainChain = best s := by
  unfold Unstable.mainChain
  exact C02.mainChain_eq_bestPath _ _

/-! ## 1. C02: every endpoint answers with respect to the tip of the heaviest branch -/

/-- **C02, `get_blockchain_info`** (every reachable configuration, paused or not): hash, timestamp
    and difficulty are those of the last block `tip` of the heaviest branch; the height is the
    height of `tip` on the chain `G ++ heaviest branch` (the ghost `G` = the stable blocks). -/
theorem c02_blockchainInfo (hr : FullReachable sys G) :
    ∃ tip, (best sys.st).getLast? = some tip ∧
      (G ++ (best sys.st).map (·.blk)).getLast? = some tip.blk ∧
      sys.st.blockchainInfo.hash = tip.hash ∧
      sys.st.blockchainInfo.timestamp = tip.blk.time ∧
      sys.st.blockchainInfo.difficulty = tip.blk.diff ∧
      sys.st.blockchainInfo.height = G.length + (best sys.st).length - 1 ∧
      sys.st.blockchainInfo.height + 1 = (G ++ (best sys.st).map (·.blk)).length := by
  have hne := best_ne_nil sys.st
  obtain ⟨h1, h2, h3, h4⟩ := C02.blockchainInfo_describes_best_tip sys.st
  have hlen : 0 < (best sys.st).length := List.length_pos_iff.mpr hne
  cases hl : (best sys.st).getLast? with
  | none => exact absurd (List.getLast?_eq_none_iff.mp hl) hne
  | some tip =>
    have hl' : (bestPath CBlock.diff sys.st.unstable.tree).getLast? = some tip := hl
    simp only [hl', Option.getD_some] at h1 h2 h3
    rw [stable_height_eq_ghost hr] at h4
    refine ⟨tip, rfl, ?_, h1, h2, h3, h4, ?_⟩
    · rw [List.getLast?_append, List.getLast?_map, hl]
      rfl
    · rw [h4, List.length_append, List.length_map]
      show G.length + (best sys.st).length - 1 + 1 = _
      omega

/-- **C02, unfiltered `get_utxos`**: the answer is the ledger of the address at
    `G ++ heaviest branch`, and it names the tip and height that `get_blockchain_info` reports. -/
theorem c02_getUtxos (hr : FullReachable sys G) (hH : G.length ≤ 2 ^ 32) (a : Addr) (limit : Nat) :
    ∃ (l : List Utxo) (r : UtxosResponse),
      sys.st.getUtxos (.ok a) .none_ limit = .ok r ∧ r.utxos = l.take limit ∧
      l.Perm (ledgerFor a (G ++ (best sys.st).map (·.blk))) ∧
      r.tipHash = sys.st.blockchainInfo.hash ∧ r.tipHeight = sys.st.blockchainInfo.height := by
  obtain ⟨l, r, tip, _, h2, _, _, h5, h6, _⟩ := c01_getUtxos_unfiltered hr hH a limit
  obtain ⟨t1, t2⟩ := C02.unfiltered_utxos_name_best_tip sys.st a limit r h5
  rw [mainChain_eq_best] at h2
  refine ⟨l, r, h5, h6, h2, ?_, t2⟩
  rw [t1]
  exact (C02.blockchainInfo_describes_best_tip sys.st).1.symm

/-- **C02, `get_balance`** (no confirmation filter): the balance of the ledger at
    `G ++ heaviest branch` -/
theorem c02_getBalance (hr : FullReachable sys G) (a : Addr) :
    sys.st.getBalance (.ok a) 0 =
      .ok (totalValue (ledgerFor a (G ++ (best sys.st).map (·.blk)))) := by
  obtain ⟨s0, hA, hV, _⟩ := fullReachable_view hr
  rw [hV.getBalance, C05.getBalance_eq_ledger hA.invU.inv (InvAll.mainChain_unique hA) a 0
    (Nat.zero_le _)]
  unfold C05.counted
  rw [C02.stablePrefix_zero, ← hV.unstable, mainChain_eq_best]

/-- **C02, `get_block_headers`**: start and end are validated against the height that
    `get_blockchain_info` reports, and the answer is the slice of the headers of
    `G ++ heaviest branch` -/
theorem c02_getBlockHeaders (hr : FullReachable sys G) (maxHeaders start : Nat)
    (end_ : Option Nat) (hm : 1 ≤ maxHeaders) :
    sys.st.getBlockHeaders maxHeaders start end_ =
      match effectiveRange sys.st.blockchainInfo.height maxHeaders start end_ with
      | .error e => .error e
      | .ok (lo, hi) =>
        .ok (hi, (((G ++ (best sys.st).map (·.blk)).map (·.header)).drop lo).take (hi - lo + 1)) := by
  have h := c07_getBlockHeaders_spec hr maxHeaders start end_ hm
  obtain ⟨_, _, _, _, _, _, _, h7⟩ := c02_blockchainInfo hr
  have e1 : C07.fullBest sys.st G = (G ++ (best sys.st).map (·.blk)).map (·.header) := by
    rw [C07.fullBest_eq, C07.bestBlocks, mainChain_eq_best]
  have e2 : (C07.fullBest sys.st G).length - 1 = sys.st.blockchainInfo.height := by
    rw [e1, List.length_map, ← h7]; omega
  simp only [e2] at h
  rw [e1] at h
  exact h

/-- **C02, fee percentiles**: the answer is the specification's answer `Spec.feeAnswerSpec` for
    the history `G`, the heaviest branch and the cache; a fresh answer is stored under the hash
    that `get_blockchain_info` reports (`Spec.tipOf` of the heaviest branch). -/
theorem c02_feePercentiles (hr : FullReachable sys G) (n : Nat) :
    (sys.st.feePercentiles n).map (·.2) =
      some (feeAnswerSpec n G ((best sys.st).map (·.blk)) sys.st.feeCache).1 ∧
    tipOf ((best sys.st).map (·.blk)) = sys.st.blockchainInfo.hash := by
  constructor
  · obtain ⟨h2, hf⟩ := fullReachable_fee hr
    rcases h2 with hA | ⟨s0, A, B, hA, hP⟩
    · rw [C15Spec.feePercentiles_refines hA.invU.inv hf n]
      rfl
    · have hf0 : FeeCacheOk s0 G := Lemmas.FeeSpec.feeCacheOk_congr (by rw [hP.unstable]) hf
      have hc : sys.st.feeCache = s0.feeCache := by
        have := congrArg State.feeCache hP.base.eq
        exact this
      rw [C08.feePercentiles_invisible hP.base n, C15Spec.feePercentiles_refines hA.invU.inv hf0 n,
        hc]
      show some (feeAnswerSpec n G (bestChain s0) s0.feeCache).1 = _
      unfold bestChain best
      rw [hP.unstable]
  · exact (C15Spec.tipHash_eq_tipOf sys.st).symm

/-! ## 2. C03: finality along message histories -/

/-- **C03 (a), the stable chain only grows at its end** along every schedule of messages -/
theorem c03_stable_chain_append_only (c : Cfg) (msgs : List (Env × Msg)) (ht : TrustedRun c msgs) :
    c.2 <+: (run c msgs).2 := run_ghost_prefix msgs c ht

/-- **C03 (a), what is stable stays stable**: a block `b` that is the stable block of height `i`
    in a reachable configuration is the stable block of height `i` in every later configuration
    of the history; in both configurations the header store maps height `i` to the hash of `b`,
    and it keeps the header of `b` under that hash.  The stable height never decreases. -/
theorem c03_stable_block_final {c : Cfg} (hr : FullReachable c.1 c.2) (msgs : List (Env × Msg))
    (ht : TrustedRun c msgs) (i : Nat) (b : Block) (hb : c.2[i]? = some b) :
    (run c msgs).2[i]? = some b ∧
    AList.find? c.1.st.headers.byHeight i = some b.hash ∧
    AList.find? (run c msgs).1.st.headers.byHeight i = some b.hash ∧
    AList.find? (run c msgs).1.st.headers.byHash b.hash =
      some ⟨b.hash, b.prev, b.time, b.bits, b.header⟩ ∧
    c.1.st.utxos.nextHeight ≤ (run c msgs).1.st.utxos.nextHeight := by
  have hr' := run_reachable msgs c hr ht
  have h2 := fullReachable_inv2 hr
  have h2' := fullReachable_inv2 hr'
  obtain ⟨t, ht'⟩ := run_ghost_prefix msgs c ht
  obtain ⟨hi, hbi⟩ := List.getElem?_eq_some_iff.mp hb
  have hb' : (run c msgs).2[i]? = some b := by
    rw [← ht', List.getElem?_append_left hi]; exact hb
  obtain ⟨hi', hbi'⟩ := List.getElem?_eq_some_iff.mp hb'
  refine ⟨hb', ?_, ?_, ?_, ?_⟩
  · rw [inv2_headers h2 i hi, hbi]
  · rw [inv2_headers h2' i hi', hbi']
  · exact inv2_headersByHash h2' b (List.mem_of_getElem? hb')
  · rw [inv2_nextHeight h2, inv2_nextHeight h2', ← ht', List.length_append]
    omega

/-- **C03 (b), a heartbeat moves the anchor only by the rule, along the served chain.**  If a
    heartbeat in a reachable configuration ingests (it ends in `ingest_stable_blocks_into_utxoset`,
    paused or not), the blocks `popped` it hands to the stable set are appended to the ghost, and
    the new tree is reached from the old one by `popped.length` calls of `pop`
    (`Spec.PopSteps`, the `k`-th at stable height `G.length + k`), such that
    * each `pop` moved the anchor to the child that `get_stable_child` returned, which is the child
      satisfying the declarative difficulty rule (testnet/regtest: or the depth rule) of
      `Props/C03.lean`, and which was the second block of the chain being served
      (`DecidedSteps`);
    * the popped blocks are the first blocks of the heaviest branch that was being served, the new
      anchor is its next block, and the rest of it is the new heaviest branch: the served chain
      `G ++ heaviest branch` is the same before and after;
    * the tree only loses blocks. -/
theorem c03_heartbeat_advances_by_rule (hr : FullReachable sys G) (env : Env) (budget : Nat)
    (s' : State) (p : Bool) (h : heartbeatStart env sys.st budget = .ingested s' p) :
    stepMsg env (sys, G) (.heartbeat budget) = ({ sys with st := s' }, G ++ poppedAnchors sys.st s') ∧
    PopSteps env.bound sys.st.unstable G.length (poppedAnchors sys.st s') s'.unstable ∧
    DecidedSteps env.bound sys.st.unstable (poppedAnchors sys.st s') s'.unstable ∧
    (G ++ poppedAnchors sys.st s') ++ (best s').map (·.blk) = G ++ (best sys.st).map (·.blk) ∧
    (best sys.st)[(poppedAnchors sys.st s').length]? = some s'.unstable.tree.root ∧
    s'.unstable.tree.blocks.Sublist sys.st.unstable.tree.blocks := by
  obtain ⟨h1, h2⟩ := heartbeat_ingests env sys G budget s' p h
  obtain ⟨_, hp⟩ := inv2_ingest_popSteps env.bound (fullReachable_inv2 hr) budget s' _ h1
  refine ⟨h2, hp, popSteps_decided hp, ?_, popSteps_anchor_on_chain hp, popSteps_sublist env.bound hp⟩
  have := C03History.popSteps_mainChain hp
  rw [mainChain_eq_best, mainChain_eq_best] at this
  rw [this, List.append_assoc]

/-- **C03 (b), no advance is withheld**: when the ingestion part of a heartbeat completes (the
    heartbeat did not pause or trap in it) in a reachable configuration, no child of the anchor
    satisfies the rule any more — whenever a child qualifies, the advance happens at this
    ingestion opportunity. -/
theorem c03_no_advance_withheld (hr : FullReachable sys G) (bound : Unstable.BoundFn)
    (budget : Nat) (s' : State) (w : Bool) (h : sys.st.ingestStable bound budget = .done s' w)
    (r : CBlock) (cs : List (Tree CBlock)) (ht : s'.unstable.tree = .node r cs) (i : Nat) :
    Unstable.peek bound s'.unstable = none ∧
    ¬ C03.DifficultyRule CBlock.diff s'.unstable.thr r cs i ∧
    ¬ (s'.unstable.net.depthRule = true ∧
        C03.DepthRule CBlock.diff (bound s'.unstable.tree.blocksCount s'.unstable.thr) cs i) := by
  have hpk := inv2_ingest_complete bound (fullReachable_inv2 hr) budget s' w h
  have hn := stableChildIdx_none_of_peek hpk
  unfold Unstable.stableChildIdx at hn
  rw [ht, C03.stableChild_eq_none_iff] at hn
  refine ⟨hpk, ?_⟩
  rw [ht]
  exact hn i

/-- **C03 (c), the tree loses blocks only when the stable chain grows**: a message that does not
    extend the ghost removes no block from the tree of unstable blocks (the hashes before are a
    sublist of the hashes after). -/
theorem c03_tree_shrinks_only_when_ghost_grows (hr : FullReachable sys G) (env : Env) (m : Msg)
    (ht : Trusted env (sys, G) m) (hg : (stepMsg env (sys, G) m).2 = G) :
    (treeHashes sys.st).Sublist (treeHashes (stepMsg env (sys, G) m).1.st) :=
  frameRun_hashes_sublist (message_simulation env (sys, G) m ht) (fullReachable_inv2 hr) hg

/-- … in particular **blocks of losing forks are discarded only by an ingesting heartbeat**: every
    other message — a heartbeat that sends a request, processes a response or traps, a reply, an
    endpoint call, `set_config`, an upgrade — removes no block from the tree. -/
theorem c03_only_ingesting_heartbeat_discards (hr : FullReachable sys G) (env : Env) (m : Msg)
    (ht : Trusted env (sys, G) m)
    (hm : ∀ budget s' p, m = .heartbeat budget → heartbeatStart env sys.st budget ≠ .ingested s' p) :
    (stepMsg env (sys, G) m).2 = G ∧
    (treeHashes sys.st).Sublist (treeHashes (stepMsg env (sys, G) m).1.st) := by
  have hg : (stepMsg env (sys, G) m).2 = G := by
    cases m with
    | heartbeat budget =>
      simp only [stepMsg, stepGhost]
      cases hh : heartbeatStart env sys.st budget with
      | ingested s' p => exact absurd hh (hm budget s' p rfl)
      | trap => rfl
      | awaiting s' r => rfl
      | processed s' => rfl
    | reply r => rfl
    | upgrade c => rfl
    | setConfig c => rfl
    | call c => rfl
  exact ⟨hg, c03_tree_shrinks_only_when_ghost_grows hr env m ht hg⟩

/-! ## 3. C04: `min_confirmations` cuts the view at the last sufficiently buried block -/

/-- **C04 (every reachable configuration, paused or not)**: `get_utxos` with
    `min_confirmations = c`, `1 ≤ c ≤` length of the heaviest branch, is the unfiltered answer
    computed on the heaviest branch cut after the last block `B` of the specification's buried
    prefix (`Spec.buriedPrefix`: it and every unstable ancestor buried under at least `c` blocks
    and at least `c` deeper than any competitor of the same height); an answer names `B` as tip, at
    `B`'s height. -/
theorem c04_getUtxos_minConf (hr : FullReachable sys G) (addr : AddrArg) (c lim : Nat)
    (hc : 1 ≤ c) (hlen : c ≤ (best sys.st).length) :
    let view := buriedPrefix CBlock.hash sys.st.unstable.tree c (best sys.st) 0
    sys.st.getUtxos addr (.minConf c) lim = sys.st.getUtxosFromChain addr 0 view none lim ∧
    ∃ Bk, view.getLast? = some Bk ∧
      ∀ r, sys.st.getUtxos addr (.minConf c) lim = .ok r →
        r.tipHash = Bk.hash ∧ r.tipHeight = G.length + view.length - 1 := by
  obtain ⟨s0, hA, hV, _⟩ := fullReachable_view hr
  have hnd : (sys.st.unstable.tree.blocks.map CBlock.hash).Nodup := by
    rw [hV.unstable]; exact InvAll.hashesNodup hA
  have := C04.getUtxos_minConf sys.st addr c lim hc hlen hnd
  rw [stable_height_eq_ghost hr] at this
  exact this

/-- the prefix the code applies is the specification's buried prefix -/
theorem c04_stablePrefix_eq_buriedPrefix (hr : FullReachable sys G) (c : Nat) (hc : 1 ≤ c) :
    stablePrefix (Tree.levels CBlock.hash sys.st.unstable.tree) c sys.st.unstable.mainChain 0 =
      buriedPrefix CBlock.hash sys.st.unstable.tree c (best sys.st) 0 := by
  obtain ⟨s0, hA, hV, _⟩ := fullReachable_view hr
  have hnd : (sys.st.unstable.tree.blocks.map CBlock.hash).Nodup := by
    rw [hV.unstable]; exact InvAll.hashesNodup hA
  exact C04.stablePrefix_mainChain sys.st.unstable.tree c hc hnd

/-- **C04, the answer is the ledger at the cut**: for `1 ≤ c ≤` length of the heaviest branch the
    complete answer is a permutation of the reference ledger of the address at
    `G ++ buried prefix` (C01 at the cut block) -/
theorem c04_getUtxos_minConf_ledger (hr : FullReachable sys G) (hH : G.length ≤ 2 ^ 32) (a : Addr)
    (c limit : Nat) (hc : 1 ≤ c) (hlen : c ≤ (best sys.st).length) :
    let view := buriedPrefix CBlock.hash sys.st.unstable.tree c (best sys.st) 0
    ∃ (l : List Utxo) (r : UtxosResponse), l.Perm (ledgerFor a (G ++ view.map (·.blk))) ∧
      sys.st.getUtxos (.ok a) (.minConf c) limit = .ok r ∧ r.utxos = l.take limit ∧
      (r.nextPage = none ↔ l.length ≤ limit) := by
  intro view
  obtain ⟨s0, hA, hV, _⟩ := fullReachable_view hr
  have hlen' : c ≤ s0.unstable.mainChain.length := by
    rw [← hV.unstable, mainChain_eq_best]; exact hlen
  obtain ⟨l, r, h1, _, _, h4, h5, h6, _⟩ :=
    C01.getUtxos_minConf hA.invU.inv (InvAll.mainChain_unique hA) hH a c limit hlen'
  refine ⟨l, r, ?_, by rw [hV.getUtxos]; exact h4, h5, h6⟩
  have e := c04_stablePrefix_eq_buriedPrefix hr c hc
  rw [← hV.unstable, e] at h1
  exact h1

/-! ## 4. C06: page requests -/

/-- **C06, all pages (every reachable configuration, paused or not)**: the first page and the
    pages obtained by following the tokens concatenate to one list `all`, a permutation of the
    reference ledger of the address at `G ++ applied prefix`; every page has at most `limit`
    elements and names the same tip at the same height. -/
theorem c06_all_pages (hr : FullReachable sys G) (hR : TxRange G) (a : Addr)
    (c limit : Nat) (hl : 1 ≤ limit) (hc : c ≤ sys.st.unstable.mainChain.length)
    (hH : G.length + sys.st.unstable.mainChain.length ≤ 2 ^ 32) :
    let applied := stablePrefix (Tree.levels CBlock.hash sys.st.unstable.tree) c
      sys.st.unstable.mainChain 0
    ∃ all : List Utxo, all.Perm (ledgerFor a (G ++ applied.map (·.blk))) ∧
      ∀ fuel, all.length ≤ fuel + limit →
        ∃ r0 rs tip, applied.getLast? = some tip ∧
          sys.st.getUtxos (.ok a) (.minConf c) limit = .ok r0 ∧
          C06.followPages sys.st (.ok a) limit fuel r0.nextPage = some rs ∧
          (r0 :: rs).flatMap (·.utxos) = all ∧
          ∀ r ∈ r0 :: rs, r.utxos.length ≤ limit ∧ r.tipHash = tip.hash ∧
            r.tipHeight = G.length + applied.length - 1 := by
  obtain ⟨s0, hA, hV, _⟩ := fullReachable_view hr
  rw [hV.unstable] at hc hH ⊢
  intro applied
  have hall := C06.all_pages hA.invU.inv (InvAll.mainChain_unique hA) hR a c limit hl hc hH
  obtain ⟨_, _, _, _, _, _, _, hperm, _⟩ :=
    hall (resultList s0 G a applied).length (Nat.le_add_right _ _)
  refine ⟨resultList s0 G a applied, hperm, ?_⟩
  intro fuel hfuel
  obtain ⟨r0, rs, tip, h1, h2, h3, h4, _, h6⟩ := hall fuel hfuel
  refine ⟨r0, rs, tip, h1, ?_, ?_, h4, h6⟩
  · rw [hV.getUtxos]; exact h2
  · rw [followPages_congr hV.getUtxos]; exact h3

/-- **C06, a page request never traps** (any token — any 72-byte page blob): it answers for the
    tip named by the token, or reports that tip as unknown, or reports the address error. -/
theorem c06_page_request_never_traps (hr : FullReachable sys G) (addr : AddrArg) (tip height : Nat)
    (op : OutPoint) (limit : Nat) :
    (∃ r, sys.st.getUtxos addr (.page (some (tip, height, op))) limit = .ok r ∧ r.tipHash = tip) ∨
    (sys.st.getUtxos addr (.page (some (tip, height, op))) limit = .err (.unknownTipBlockHash tip) ∧
      tip ∉ sys.st.unstable.tree.blocks.map CBlock.hash) ∨
    (sys.st.getUtxos addr (.page (some (tip, height, op))) limit = .err .malformedAddress ∧
      addr = .malformed) ∨
    (sys.st.getUtxos addr (.page (some (tip, height, op))) limit = .err .wrongNetwork ∧
      addr = .wrongNetwork) :=
  Props.FullSys.c06_page_never_traps hr addr tip height op limit

/-- **C06, next page (every reachable configuration)**: for a tip `T` of the tree with root path
    `chain` there is a complete answer `all` (a permutation of the reference ledger at
    `G ++ chain`) such that the request carrying the token of `all[k]` returns
    `(all.drop k).take limit`, names `T` again and carries the token of `all[k + limit]`. -/
theorem c06_next_page (hr : FullReachable sys G) (a : Addr) (T : Nat) (chain sib : List CBlock)
    (hroot : Tree.chainWithTip CBlock.hash T sys.st.unstable.tree = some (chain, sib))
    (hH : G.length + chain.length ≤ 2 ^ 32) (hR : TxRange G) (limit : Nat) :
    ∃ all : List Utxo, all.Perm (ledgerFor a (G ++ chain.map (·.blk))) ∧
      ∀ k x, all[k]? = some x →
        ∃ r, sys.st.getUtxos (.ok a) (.page (some (C06.tokenOf T x))) limit = .ok r ∧
          r.utxos = (all.drop k).take limit ∧
          r.nextPage = (all[k + limit]?).map (C06.tokenOf T) ∧
          r.tipHash = T ∧ r.tipHeight = G.length + chain.length - 1 := by
  obtain ⟨s0, hA, hV, _⟩ := fullReachable_view hr
  rw [hV.unstable] at hroot
  have hU := hA.invU.unique T (chain.map (·.blk)) (by simp [pathBlocks, hroot])
  have hp := PathCtx.of_rootPath hA.invU.inv T chain sib hroot hU chain [] (by simp)
  obtain ⟨_, _, hperm, _⟩ := addressUtxos_path hA.invU.inv hp a
  refine ⟨resultList s0 G a chain, hperm, ?_⟩
  intro k x hk
  rw [hV.getUtxos]
  exact C06.next_page hA.invU.inv a T chain sib hroot hp hH hR limit k x hk

/-- **C06 across messages (two configurations of one message history)**: let `c` be reachable
    and `c' = run c msgs` a later configuration of the same history (any messages in between:
    blocks accepted, forks growing, older blocks stabilising, upgrades).  If the tip `T` named by a
    token is in the trees of both with the same chain from genesis, the complete answers `all`,
    `all'` for `T` in the two configurations are permutations of the same reference ledger list,
    and a token issued in `c` for an element `x` of `all` designates an element of `all'` in `c'`:
    the page returned there starts at `x`.  The element ORDER may differ (finding F11). -/
theorem c06_old_token_in_new_state {c : Cfg} (hr : FullReachable c.1 c.2)
    (msgs : List (Env × Msg)) (ht : TrustedRun c msgs) (T : Nat)
    (chain sib chain' sib' : List CBlock)
    (hroot : Tree.chainWithTip CBlock.hash T c.1.st.unstable.tree = some (chain, sib))
    (hroot' : Tree.chainWithTip CBlock.hash T (run c msgs).1.st.unstable.tree = some (chain', sib'))
    (hsame : c.2 ++ chain.map (·.blk) = (run c msgs).2 ++ chain'.map (·.blk))
    (hH' : (run c msgs).2.length + chain'.length ≤ 2 ^ 32) (hR' : TxRange (run c msgs).2)
    (a : Addr) (limit : Nat) :
    ∃ all all' : List Utxo, all.Perm (ledgerFor a (c.2 ++ chain.map (·.blk))) ∧
      all'.Perm (ledgerFor a (c.2 ++ chain.map (·.blk))) ∧
      ∀ x ∈ all, ∃ k' r, all'[k']? = some x ∧
        (run c msgs).1.st.getUtxos (.ok a) (.page (some (C06.tokenOf T x))) limit = .ok r ∧
        r.utxos = (all'.drop k').take limit ∧ r.tipHash = T ∧
        r.nextPage = (all'[k' + limit]?).map (C06.tokenOf T) := by
  have hr' := run_reachable msgs c hr ht
  obtain ⟨s0, hA, hV, _⟩ := fullReachable_view hr
  obtain ⟨s0', hA', hV', _⟩ := fullReachable_view hr'
  rw [hV.unstable] at hroot
  rw [hV'.unstable] at hroot'
  have hU := hA.invU.unique T (chain.map (·.blk)) (by simp [pathBlocks, hroot])
  obtain ⟨_, _, _, _, _, _, _, _, hp1, hp2, _⟩ := C06.same_tip_same_ledger hA.invU.inv hA'.invU.inv T
    chain sib chain' sib' hroot hroot' hsame hU a
  refine ⟨resultList s0 c.2 a chain, resultList s0' (run c msgs).2 a chain', hp1, hp2, ?_⟩
  intro x hx
  rw [hV'.getUtxos]
  exact C06.old_token_in_new_state hA.invU.inv hA'.invU.inv T chain sib chain' sib' hroot hroot'
    hsame hU hH' hR' a limit x hx

/-! ## 5. C08 at message level: a sliced ingestion is invisible, whatever messages arrive -/

/-- **C08, no request while ingesting**: a heartbeat in a configuration in which a block is
    partially ingested sends no request to the block source, leaves the outstanding request (if
    any) outstanding and does not touch the syncing state (in particular it does not process a
    stored response). -/
theorem c08_no_fetch_while_ingesting (env : Env) (sys : Fetch.Sys) (budget : Nat)
    (hp : Paused sys.st) :
    Fetch.issued env sys (.heartbeat budget) = none ∧
    (stepSys env sys (.heartbeat budget)).pending = sys.pending ∧
    (stepSys env sys (.heartbeat budget)).st.syncing = sys.st.syncing := by
  have hnf := C08.no_fetch_while_ingesting env sys.st budget hp
  simp only [Fetch.issued, stepSys, Fetch.step]
  cases hh : heartbeatStart env sys.st budget with
  | trap => exact ⟨rfl, rfl, rfl⟩
  | awaiting s' r => rw [hh] at hnf; exact hnf.elim
  | processed s' => rw [hh] at hnf; exact hnf.elim
  | ingested s' p => rw [hh] at hnf; exact ⟨rfl, rfl, hnf⟩

/-- **C08, one heartbeat on a paused configuration.**  Let `sys.st` be paused inside the block `A`
    (`PausedAt' s0 sys.st G A B`: `s0` = the state before the ingestion of `A` began, `B` = the
    budget spent on `A` so far).  A heartbeat with any budget leaves the outstanding request and
    the syncing state alone, and either
    * does not extend the ghost: it trapped (finding F13; nothing changed), or the canister is
      paused inside the same block `A` with the **same** view state `s0` (budget spent:
      `B + budget`); or
    * extends the ghost by `A.blk` (and possibly further blocks): the ingestion of `A` finished. -/
theorem c08_paused_heartbeat {s0 : State} {A : CBlock} {B : Nat} (hA : InvAll s0 G)
    (hP : PausedAt' s0 sys.st G A B) (env : Env) (budget : Nat) :
    (stepMsg env (sys, G) (.heartbeat budget)).1.pending = sys.pending ∧
    (stepMsg env (sys, G) (.heartbeat budget)).1.st.syncing = sys.st.syncing ∧
    (((stepMsg env (sys, G) (.heartbeat budget)).2 = G ∧
        ((stepMsg env (sys, G) (.heartbeat budget)).1.st = sys.st ∨
          PausedAt' s0 (stepMsg env (sys, G) (.heartbeat budget)).1.st G A (B + budget))) ∨
      ∃ rest, (stepMsg env (sys, G) (.heartbeat budget)).2 = G ++ A.blk :: rest) := by
  obtain ⟨_, h1, h2⟩ := c08_no_fetch_while_ingesting env sys budget hP.paused
  refine ⟨h1, h2, ?_⟩
  have hroot : sys.st.unstable.tree.root = A := by rw [hP.unstable]; exact hP.base.anchor
  have hround := paused_round env.bound hA hP budget
  rcases heartbeatStart_cases env sys.st budget with h | ⟨s', p, h, hi⟩ | ⟨hi, hni, _⟩ | ⟨hi, hni, _⟩
  · rw [heartbeat_traps env sys G budget h]
    exact Or.inl ⟨rfl, Or.inl rfl⟩
  · rw [(heartbeat_ingests env sys G budget s' p h).2]
    have key : PopSteps env.bound sys.st.unstable G.length (poppedAnchors sys.st s') s'.unstable ∧
        (poppedAnchors sys.st s' = [] → PausedAt' s0 s' G A (B + budget)) := by
      rcases hi with ⟨_, hi⟩ | ⟨_, hi⟩
      · rw [hi] at hround; exact hround
      · rw [hi] at hround; exact ⟨hround.1, fun hn => absurd hn hround.2.1⟩
    cases hpop : poppedAnchors sys.st s' with
    | nil =>
      left
      exact ⟨List.append_nil _, Or.inr (key.2 hpop)⟩
    | cons b rest =>
      right
      have hp := key.1
      rw [hpop] at hp
      rw [popSteps_head hp, hroot]
      exact ⟨rest, rfl⟩
  · obtain ⟨ing, hing, _⟩ := hP.ingesting
    rw [hni] at hing; cases hing
  · obtain ⟨ing, hing, _⟩ := hP.ingesting
    rw [hni] at hing; cases hing

/-- the fee percentiles too: a heartbeat that does not finish the block leaves the answer of
    `get_current_fee_percentiles` unchanged -/
theorem c08_paused_heartbeat_fee {s0 : State} {A : CBlock} {B : Nat} (hA : InvAll s0 G)
    (hP : PausedAt' s0 sys.st G A B) (env : Env) (budget : Nat)
    (hg : (stepMsg env (sys, G) (.heartbeat budget)).2 = G) (n : Nat) :
    ((stepMsg env (sys, G) (.heartbeat budget)).1.st.feePercentiles n).map (·.2) =
      (sys.st.feePercentiles n).map (·.2) := by
  obtain ⟨_, _, ⟨_, h | h⟩ | ⟨rest, h⟩⟩ := c08_paused_heartbeat hA hP env budget
  · rw [h]
  · rw [C08.feePercentiles_invisible h.base n, C08.feePercentiles_invisible hP.base n]
  · rw [hg] at h
    have := congrArg List.length h
    simp at this

/-- **C08, one message while a block is partially ingested.**  In a reachable configuration in
    which a block is partially ingested, a message of any kind (heartbeat with any budget, reply,
    endpoint call, `set_config`, upgrade) that does not complete the block (the ghost is not
    extended) leaves the canister paused and changes the answer of no query endpoint. -/
theorem c08_paused_message (hr : FullReachable sys G) (hp : Paused sys.st) (env : Env) (m : Msg)
    (hg : (stepMsg env (sys, G) m).2 = G) :
    Paused (stepMsg env (sys, G) m).1.st ∧ SameAnswers (stepMsg env (sys, G) m).1.st sys.st := by
  cases m with
  | heartbeat budget =>
    obtain ⟨s0, A, B, hA, hP⟩ := (fullReachable_inv hr).2 hp
    obtain ⟨_, _, ⟨_, h | h⟩ | ⟨rest, h⟩⟩ := c08_paused_heartbeat hA hP env budget
    · rw [h]; exact ⟨hp, SameAnswers.refl _⟩
    · exact ⟨h.paused, (SameView.answers (sameView_of_paused hA h)).trans
        (SameView.answers (sameView_of_paused hA hP)).symm⟩
    · rw [hg] at h
      have := congrArg List.length h
      simp at this
  | reply r =>
    have hf := (reply_ledger_unchanged env sys G r).1
    exact ⟨(paused_frame hf).mpr hp, answers_frame hf⟩
  | upgrade c =>
    refine ⟨?_, answers_upgrade sys.st c⟩
    show Paused (sys.st.upgrade c)
    unfold Paused
    rw [utxos_upgrade]; exact hp
  | setConfig c =>
    refine ⟨?_, answers_setConfig sys.st c⟩
    show Paused (sys.st.setConfig c)
    unfold Paused
    rw [(C09.setConfig_frame sys.st c).1]; exact hp
  | call c =>
    have hf := (call_ledger_unchanged env sys G c).1
    exact ⟨(paused_frame hf).mpr hp, answers_frame hf⟩

/-- **C08 along a message history.**  From a reachable configuration `c` in which a block is
    partially ingested, along every schedule of messages — heartbeats with any budgets, replies,
    endpoint calls, `set_config`s, upgrades — during which that block is not completed (the ghost
    is not extended): the canister stays paused and every query endpoint (`get_utxos` with every
    filter and page, `get_balance`, `get_block_headers`, height / hash / timestamp / difficulty of
    `get_blockchain_info`) answers as in `c`, hence (`fullReachable_view`) as the state `s0` before
    the ingestion of that block began, which satisfies the full invariant.
    (`utxos_length` of `get_blockchain_info` is excluded: finding F10.) -/
theorem c08_answers_frozen_while_ingesting : ∀ (msgs : List (Env × Msg)) (c : Cfg),
    FullReachable c.1 c.2 → Paused c.1.st → TrustedRun c msgs → (run c msgs).2 = c.2 →
    Paused (run c msgs).1.st ∧ SameAnswers (run c msgs).1.st c.1.st
  | [], c, _, hp, _, _ => ⟨hp, SameAnswers.refl _⟩
  | (env, m) :: rest, c, hr, hp, ht, hg => by
    obtain ⟨e1, e2⟩ := run_ghost_fixed ht hg
    obtain ⟨hp1, ha1⟩ := c08_paused_message (sys := c.1) (G := c.2) hr hp env m e1
    have hr1 : FullReachable (stepMsg env c m).1 (stepMsg env c m).2 :=
      FullReachable.step c.1 c.2 env m hr ht.1
    obtain ⟨hp2, ha2⟩ := c08_answers_frozen_while_ingesting rest (stepMsg env c m) hr1 hp1 ht.2 e2
    exact ⟨hp2, ha2.trans ha1⟩

/-- … in terms of the view state: all these answers are those of the state before the block's
    ingestion began -/
theorem c08_answers_are_pre_ingestion_answers {c : Cfg} (hr : FullReachable c.1 c.2)
    (hp : Paused c.1.st) :
    ∃ s0 A B, InvAll s0 c.2 ∧ PausedAt' s0 c.1.st c.2 A B ∧
      ∀ msgs, TrustedRun c msgs → (run c msgs).2 = c.2 → SameAnswers (run c msgs).1.st s0 := by
  obtain ⟨s0, A, B, hA, hP⟩ := (fullReachable_inv hr).2 hp
  refine ⟨s0, A, B, hA, hP, fun msgs ht hg => ?_⟩
  exact (c08_answers_frozen_while_ingesting msgs c hr hp ht hg).2.trans
    (SameView.answers (sameView_of_paused hA hP))

/-- … and no heartbeat of such a schedule sends a request to the block source: in the
    configuration reached after any number `k` of its messages, a heartbeat (in particular the
    `k`-th message, if it is one) issues no request -/
theorem c08_no_request_while_ingesting {c : Cfg} (hr : FullReachable c.1 c.2) (hp : Paused c.1.st)
    (msgs : List (Env × Msg)) (ht : TrustedRun c msgs) (hg : (run c msgs).2 = c.2) (k : Nat)
    (env : Env) (budget : Nat) :
    Paused (run c (msgs.take k)).1.st ∧
    Fetch.issued env (run c (msgs.take k)).1 (.heartbeat budget) = none := by
  have hsplit : msgs.take k ++ msgs.drop k = msgs := List.take_append_drop k msgs
  have ht' := (trustedRun_append c (msgs.take k) (msgs.drop k)).mp (by rw [hsplit]; exact ht)
  have hrun : run (run c (msgs.take k)) (msgs.drop k) = run c msgs := by
    rw [← run_append, hsplit]
  have p1 := run_ghost_prefix (msgs.take k) c ht'.1
  have p2 := run_ghost_prefix (msgs.drop k) (run c (msgs.take k)) ht'.2
  rw [hrun] at p2
  have e : (run c (msgs.take k)).2 = c.2 := prefix_antisymm p1 p2 hg
  have hpk := (c08_answers_frozen_while_ingesting (msgs.take k) c hr hp ht'.1 e).1
  exact ⟨hpk, (c08_no_fetch_while_ingesting env (run c (msgs.take k)).1 budget hpk).1⟩

/-! ## 6. C09 at message level: an upgrade message is transparent -/

/-- **C09, the upgrade message** (in every reachable configuration: fetching, response stored,
    partial pages received, ingestion paused; with or without a configuration argument):
    * it is the `upgrade` step of `Spec.step2`; the ghost is unchanged and the new configuration
      is reachable;
    * the outstanding request is abandoned, the fetch guard released, the stored response dropped;
    * every query endpoint answers as before (`SameAnswers`), the fee percentiles included — and
      the fee-percentile cache is kept —, and a block that was partially ingested still is;
    * the next request the canister computes is an *initial* one, for the anchor and all other
      unstable blocks. -/
theorem c09_upgrade_message (hr : FullReachable sys G) (env : Env) (cfg : Option SetConfig) :
    stepMsg env (sys, G) (.upgrade cfg) = ({ st := sys.st.upgrade cfg, pending := none }, G) ∧
    step2 env.bound (sys.st, G) (.upgrade cfg) = some (sys.st.upgrade cfg, G) ∧
    FullReachable { st := sys.st.upgrade cfg, pending := none } G ∧
    (sys.st.upgrade cfg).syncing.isFetching = false ∧ (sys.st.upgrade cfg).syncing.response = none ∧
    SameAnswers (sys.st.upgrade cfg) sys.st ∧
    (∀ n, ((sys.st.upgrade cfg).feePercentiles n).map (·.2) = (sys.st.feePercentiles n).map (·.2)) ∧
    (sys.st.upgrade cfg).feeCache = sys.st.feeCache ∧
    (Paused (sys.st.upgrade cfg) ↔ Paused sys.st) ∧
    successorsRequest (sys.st.upgrade cfg) =
      some (some (.initial sys.st.unstable.tree.root.hash (treeHashes sys.st).tail)) := by
  have hfetch := Lemmas.Fetch.upgrade_fetch sys.st cfg
  refine ⟨rfl, rfl, FullReachable.step sys G env (.upgrade cfg) hr trivial, hfetch.1, hfetch.2,
    answers_upgrade sys.st cfg, ?_, Lemmas.FeeSpec.upgrade_feeCache sys.st cfg, ?_,
    C09.successorsRequest_upgrade_anchor sys.st cfg⟩
  · intro n
    have hview : ∀ {s : State}, Inv s G → FeeCacheOk s G →
        ((s.upgrade cfg).feePercentiles n).map (·.2) = (s.feePercentiles n).map (·.2) := by
      intro s hI hf
      have := congrArg (Option.map (·.2)) (C15Spec.feePercentiles_upgrade hI hf cfg n)
      simpa [Option.map_map, Function.comp_def, C09.feeView] using this
    obtain ⟨h2, hf⟩ := fullReachable_fee hr
    rcases h2 with hA | ⟨s0, A, B, hA, hP⟩
    · exact hview hA.invU.inv hf
    · have hf0 : FeeCacheOk s0 G := Lemmas.FeeSpec.feeCacheOk_congr (by rw [hP.unstable]) hf
      have hP' := pausedAt'_upgrade cfg hA hP
      rw [C08.feePercentiles_invisible hP'.base n, C08.feePercentiles_invisible hP.base n]
      exact hview hA.invU.inv hf0
  · unfold Paused
    rw [utxos_upgrade]

/-- without a configuration argument the API guard decides as before the upgrade -/
theorem c09_upgrade_guard (env : Env) (s : State) (reqNet : Tree.Net) (syncRule : Bool) :
    State.guard env (s.upgrade none) reqNet syncRule = State.guard env s reqNet syncRule :=
  C09.guard_upgrade env s reqNet syncRule

/-- **C09, syncing resumes**: after an upgrade message, the first heartbeat whose ingestion part
    has nothing to do (syncing enabled) sends an initial request for the anchor and all other
    unstable blocks, and sets the fetch guard. -/
theorem c09_next_request_initial (env env' : Env) (cfg : Option SetConfig) (budget : Nat)
    (s1 : State) (hsync : (sys.st.upgrade cfg).syncing.syncing = true)
    (hidle : (sys.st.upgrade cfg).ingestStable env'.bound budget = .done s1 false) :
    ∃ anchor rest, anchor :: rest = treeHashes sys.st ∧
      stepMsg env' (stepMsg env (sys, G) (.upgrade cfg)) (.heartbeat budget) =
        ({ st := { sys.st.upgrade cfg with
                   syncing := { (sys.st.upgrade cfg).syncing with isFetching := true } },
           pending := some (.initial anchor rest) }, G) := by
  obtain ⟨anchor, rest, h1, h2⟩ := C09.heartbeatStart_upgrade env' sys.st cfg budget s1 hsync hidle
  refine ⟨anchor, rest, h1, ?_⟩
  exact (heartbeat_requests env' { st := sys.st.upgrade cfg, pending := none } G budget _ _ h2).2.2

/-! ## 7. C14 / C16 at message level: refused and under-funded calls have no effect -/

/-- the guard an endpoint call is subject to: `verify_api_access; verify_network; verify_synced`
    (`send_transaction` is exempt from the sync rule) -/
def guardOf (env : Env) (s : State) : Call → Option Refusal
  | .getUtxos r => s.guard env r.reqNet true
  | .getUtxosQuery r => s.guard env r.reqNet true
  | .getBalance r => s.guard env r.reqNet true
  | .getBalanceQuery r => s.guard env r.reqNet true
  | .getBlockHeaders r => s.guard env r.reqNet true
  | .feePercentiles r => s.guard env r.reqNet true
  | .sendTransaction n _ _ _ => s.guard env n false

def trapOf {α : Type} : CallResult α → Option CallTrap
  | .trap t => some t
  | .answered _ _ _ => none

def acceptedOf {α : Type} : CallResult α → Nat
  | .trap _ => 0
  | .answered _ acc _ => acc

/-- the trap of an endpoint call, if it traps -/
def callTrap (env : Env) (s : State) : Call → Option CallTrap
  | .getUtxos r => trapOf (callGetUtxos env s r)
  | .getUtxosQuery r => trapOf (callGetUtxosQuery env s r)
  | .getBalance r => trapOf (callGetBalance env s r)
  | .getBalanceQuery r => trapOf (callGetBalanceQuery env s r)
  | .getBlockHeaders r => trapOf (callGetBlockHeaders env s r)
  | .feePercentiles r => trapOf (callFeePercentiles env s r)
  | .sendTransaction n a l w => trapOf (callSendTransaction env s n a l w)

/-- the cycles an endpoint call accepts (none if it traps) -/
def callAccepted (env : Env) (s : State) : Call → Nat
  | .getUtxos r => acceptedOf (callGetUtxos env s r)
  | .getUtxosQuery r => acceptedOf (callGetUtxosQuery env s r)
  | .getBalance r => acceptedOf (callGetBalance env s r)
  | .getBalanceQuery r => acceptedOf (callGetBalanceQuery env s r)
  | .getBlockHeaders r => acceptedOf (callGetBlockHeaders env s r)
  | .feePercentiles r => acceptedOf (callFeePercentiles env s r)
  | .sendTransaction n a l w => acceptedOf (callSendTransaction env s n a l w)

/-- the call carries less than the endpoint requires to be attached -/
def underFunded (s : State) : Call → Prop
  | .getUtxos r => r.available < s.fees.getUtxosMaximum ∨ r.available < s.fees.getUtxosBase
  | .getUtxosQuery _ => False
  | .getBalance r => r.available < s.fees.getBalanceMaximum ∨ r.available < s.fees.getBalance
  | .getBalanceQuery _ => False
  | .getBlockHeaders r =>
    r.available < s.fees.getBlockHeadersMaximum ∨ r.available < s.fees.getBlockHeadersBase
  | .feePercentiles r =>
    r.available < s.fees.getCurrentFeePercentilesMaximum ∨
      r.available < s.fees.getCurrentFeePercentiles
  | .sendTransaction _ a l _ => a < s.fees.sendTransactionBase + s.fees.sendTransactionPerByte * l

theorem stateAfter_of_trap {α : Type} (s : State) (r : CallResult α) (t : CallTrap)
    (h : trapOf r = some t) : stateAfter s r = s ∧ acceptedOf r = 0 := by
  cases r with
  | trap t' => exact ⟨rfl, rfl⟩
  | answered a acc s' => cases h

/-- **a trapping call changes nothing**: the whole configuration — canister state, outstanding
    request, ghost — is the same after the message, and no cycles are accepted -/
theorem c14_trapping_call_no_effect (env : Env) (sys : Fetch.Sys) (G : List Block) (c : Call)
    (t : CallTrap) (h : callTrap env sys.st c = some t) :
    stepMsg env (sys, G) (.call c) = (sys, G) ∧ callAccepted env sys.st c = 0 := by
  cases c with
  | getUtxos r =>
    obtain ⟨h1, h2⟩ := stateAfter_of_trap sys.st _ t h
    exact ⟨by simp only [stepMsg, stepSys, stepGhost, callState, h1], h2⟩
  | getUtxosQuery r =>
    obtain ⟨h1, h2⟩ := stateAfter_of_trap sys.st _ t h
    exact ⟨by simp only [stepMsg, stepSys, stepGhost, callState, h1], h2⟩
  | getBalance r =>
    obtain ⟨h1, h2⟩ := stateAfter_of_trap sys.st _ t h
    exact ⟨by simp only [stepMsg, stepSys, stepGhost, callState, h1], h2⟩
  | getBalanceQuery r =>
    obtain ⟨h1, h2⟩ := stateAfter_of_trap sys.st _ t h
    exact ⟨by simp only [stepMsg, stepSys, stepGhost, callState, h1], h2⟩
  | getBlockHeaders r =>
    obtain ⟨h1, h2⟩ := stateAfter_of_trap sys.st _ t h
    exact ⟨by simp only [stepMsg, stepSys, stepGhost, callState, h1], h2⟩
  | feePercentiles r =>
    obtain ⟨h1, h2⟩ := stateAfter_of_trap sys.st _ t h
    exact ⟨by simp only [stepMsg, stepSys, stepGhost, callState, h1], h2⟩
  | sendTransaction n a l w =>
    obtain ⟨h1, h2⟩ := stateAfter_of_trap sys.st _ t h
    exact ⟨by simp only [stepMsg, stepSys, stepGhost, callState, h1], h2⟩

/-- **C14, a refused call has no effect**: whenever the guard of the endpoint refuses
    (API disabled, wrong network, or — data endpoints, flag on — not synced), the call traps with
    that refusal, whatever the rest of the request is, the whole configuration is unchanged and
    no cycles are accepted. -/
theorem c14_refused_call_no_effect (env : Env) (sys : Fetch.Sys) (G : List Block) (c : Call)
    (g : Refusal) (h : guardOf env sys.st c = some g) :
    callTrap env sys.st c = some (.refused g) ∧
    stepMsg env (sys, G) (.call c) = (sys, G) ∧ callAccepted env sys.st c = 0 := by
  have ht : callTrap env sys.st c = some (.refused g) := by
    cases c with
    | getUtxos r => simp only [guardOf] at h; simp only [callTrap, callGetUtxos, h, trapOf]
    | getUtxosQuery r => simp only [guardOf] at h; simp only [callTrap, callGetUtxosQuery, h, trapOf]
    | getBalance r => simp only [guardOf] at h; simp only [callTrap, callGetBalance, h, trapOf]
    | getBalanceQuery r =>
      simp only [guardOf] at h; simp only [callTrap, callGetBalanceQuery, h, trapOf]
    | getBlockHeaders r =>
      simp only [guardOf] at h; simp only [callTrap, callGetBlockHeaders, h, trapOf]
    | feePercentiles r =>
      simp only [guardOf] at h; simp only [callTrap, callFeePercentiles, h, trapOf]
    | sendTransaction n a l w =>
      simp only [guardOf] at h; simp only [callTrap, callSendTransaction, h, trapOf]
  exact ⟨ht, c14_trapping_call_no_effect env sys G c _ ht⟩

/-- **C16, an under-funded call has no effect**: a call that passes the guard but carries less
    than the endpoint's maximum (or than its base / flat fee; `send_transaction`: less than
    `base + per_byte × length`) is refused before anything is computed or charged: it traps for
    cycles, the whole configuration is unchanged, nothing is accepted. -/
theorem c16_underfunded_call_no_effect (env : Env) (sys : Fetch.Sys) (G : List Block) (c : Call)
    (hg : guardOf env sys.st c = none) (hu : underFunded sys.st c) :
    callTrap env sys.st c = some .cycles ∧
    stepMsg env (sys, G) (.call c) = (sys, G) ∧ callAccepted env sys.st c = 0 := by
  have ht : callTrap env sys.st c = some .cycles := by
    cases c with
    | getUtxos r =>
      simp only [guardOf] at hg
      simp only [underFunded] at hu
      have : (decide (r.available < sys.st.fees.getUtxosMaximum) ||
          decide (r.available < sys.st.fees.getUtxosBase)) = true := by simpa using hu
      simp only [callTrap, callGetUtxos, hg, this, if_true, trapOf]
    | getUtxosQuery r => exact hu.elim
    | getBalance r =>
      simp only [guardOf] at hg
      simp only [underFunded] at hu
      have : chargeFlat r.available sys.st.fees.getBalance sys.st.fees.getBalanceMaximum = none := by
        unfold chargeFlat
        rcases hu with h | h
        · simp [h]
        · by_cases h' : r.available < sys.st.fees.getBalanceMaximum <;> simp [h, h']
      simp only [callTrap, callGetBalance, hg, this, trapOf]
    | getBalanceQuery r => exact hu.elim
    | getBlockHeaders r =>
      simp only [guardOf] at hg
      simp only [underFunded] at hu
      have : (decide (r.available < sys.st.fees.getBlockHeadersMaximum) ||
          decide (r.available < sys.st.fees.getBlockHeadersBase)) = true := by simpa using hu
      simp only [callTrap, callGetBlockHeaders, hg, this, if_true, trapOf]
    | feePercentiles r =>
      simp only [guardOf] at hg
      simp only [underFunded] at hu
      have : chargeFlat r.available sys.st.fees.getCurrentFeePercentiles
          sys.st.fees.getCurrentFeePercentilesMaximum = none := by
        unfold chargeFlat
        rcases hu with h | h
        · simp [h]
        · by_cases h' : r.available < sys.st.fees.getCurrentFeePercentilesMaximum <;> simp [h, h']
      simp only [callTrap, callFeePercentiles, hg, this, trapOf]
    | sendTransaction n a l w =>
      simp only [guardOf] at hg
      simp only [underFunded] at hu
      have : chargeSend a sys.st.fees.sendTransactionBase sys.st.fees.sendTransactionPerByte l =
          none := by
        unfold chargeSend
        simp [hu]
      simp only [callTrap, callSendTransaction, hg, this, trapOf]
  exact ⟨ht, c14_trapping_call_no_effect env sys G c _ ht⟩

/-- **C16, query variants**: `get_utxos_query` and `get_balance_query` accept no cycles and never
    change the configuration, whatever they answer. -/
theorem c16_query_variants (env : Env) (sys : Fetch.Sys) (G : List Block) (r : DataReq) :
    stepMsg env (sys, G) (.call (.getUtxosQuery r)) = (sys, G) ∧
    stepMsg env (sys, G) (.call (.getBalanceQuery r)) = (sys, G) ∧
    callAccepted env sys.st (.getUtxosQuery r) = 0 ∧
    callAccepted env sys.st (.getBalanceQuery r) = 0 := by
  have h1 : stateAfter sys.st (callGetUtxosQuery env sys.st r) = sys.st ∧
      acceptedOf (callGetUtxosQuery env sys.st r) = 0 := by
    unfold callGetUtxosQuery
    split
    · exact ⟨rfl, rfl⟩
    · split <;> exact ⟨rfl, rfl⟩
  have h2 : stateAfter sys.st (callGetBalanceQuery env sys.st r) = sys.st ∧
      acceptedOf (callGetBalanceQuery env sys.st r) = 0 := by
    unfold callGetBalanceQuery
    split
    · exact ⟨rfl, rfl⟩
    · split <;> exact ⟨rfl, rfl⟩
  refine ⟨?_, ?_, h1.2, h2.2⟩
  · simp only [stepMsg, stepSys, stepGhost, callState, h1.1]
  · simp only [stepMsg, stepSys, stepGhost, callState, h2.1]

/-- `get_utxos` / `get_balance` with a confirmation filter never trap in a reachable configuration -/
theorem getUtxos_minConf_never_traps (hr : FullReachable sys G) (x : AddrArg) (c limit : Nat)
    (m : String) : sys.st.getUtxos x (.minConf c) limit ≠ .trap m := by
  intro h
  cases x with
  | malformed => simp [State.getUtxos, State.getUtxosFromChain] at h
  | wrongNetwork => simp [State.getUtxos, State.getUtxosFromChain] at h
  | ok a =>
    obtain ⟨s0, hA, hV, _⟩ := fullReachable_view hr
    by_cases hc : c ≤ sys.st.unstable.mainChain.length
    · obtain ⟨_, r, h1, _⟩ := c05_balance_eq_sum_of_utxos hr a c limit hc
      rw [h1] at h; cases h
    · rw [hV.unstable] at hc
      rw [hV.getUtxos, (C05.tooLarge_agree hA.invU.inv a c limit (by omega)).2] at h
      cases h

theorem getBalance_never_traps (hr : FullReachable sys G) (x : AddrArg) (c : Nat) (m : String) :
    sys.st.getBalance x c ≠ .trap m := by
  intro h
  cases x with
  | malformed => simp [State.getBalance] at h
  | wrongNetwork => simp [State.getBalance] at h
  | ok a =>
    obtain ⟨s0, hA, hV, _⟩ := fullReachable_view hr
    by_cases hc : c ≤ sys.st.unstable.mainChain.length
    · obtain ⟨_, _, _, _, _, _, h5⟩ := c05_balance_eq_sum_of_utxos hr a c 0 hc
      rw [h5] at h; cases h
    · rw [hV.unstable] at hc
      rw [hV.getBalance, (C05.tooLarge_agree hA.invU.inv a c 0 (by omega)).1] at h
      cases h

/-- **C14, in all other cases they answer**: in a reachable configuration (paused or not) a query
    call that passes the guard is answered — with the result of `get_utxos` / `get_balance` —,
    accepts nothing and leaves the state as it is. -/
theorem c14_passing_queries_answer (hr : FullReachable sys G) (env : Env) (r : DataReq)
    (hg : sys.st.guard env r.reqNet true = none) :
    callGetUtxosQuery env sys.st r =
      .answered (sys.st.getUtxos r.addr (.minConf r.minConf) r.limit) 0 sys.st ∧
    callGetBalanceQuery env sys.st r =
      .answered (sys.st.getBalance r.addr r.minConf) 0 sys.st := by
  constructor
  · unfold callGetUtxosQuery
    rw [hg]
    simp only
    split
    · rename_i m hm
      exact absurd hm (getUtxos_minConf_never_traps hr _ _ _ m)
    · rfl
  · unfold callGetBalanceQuery
    rw [hg]
    simp only
    split
    · rename_i m hm
      exact absurd hm (getBalance_never_traps hr _ _ m)
    · rfl

end Btc.Props.FullCor
