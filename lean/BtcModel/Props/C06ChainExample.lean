import BtcModel.Props.C06Chain
import BtcModel.Props.FullSysExample

/-!
# Concrete instances for `Props/C06Chain.lean`

A. **On the schedule of `Props/FullSysExample.lean`** (message level): the block `b2` (hash 2) is
   accepted by the third message and is still unstable at the end; in between, `gen` is ingested
   (with a pause).  `T = 2` stays in the tree; its chain from genesis is `[] ++ [gen, b2]` before
   and `[gen] ++ [b2]` after (`ex_chain`); the cross-state theorem applies
   (`ex_old_token`); during the messages that do not extend the ghost the answer is the same list
   and a walk concatenates (`ex_same_answer`, `ex_walk`).
B. **A run of `Spec.Reachable2` with a fork**: `g ← f2 ← f4` and `g ← f3`.  An ingestion makes
   `g` and `f2` stable and discards the fork `f3`; then a block `f3'` *carrying the hash of the
   discarded block* is pushed on top of `f4`.
   * `ex_fork_chain`: `T = 4` stays in the tree; ghost and root path change
     (`[] ++ [g, f2, f4]` ↦ `[g, f2] ++ [f4]`), the chain from genesis does not.
   * `both_ends_not_sufficient`: `T = 3` is in the tree at both ends of the run — but not in
     between — and its chains from genesis differ (`[g, f3]` vs `[g, f2, f4, f3']`).  So the
     hypothesis "in the tree in every intermediate configuration" of
     `chain_from_genesis_stable` / `reachable2_chain_same` cannot be weakened to "in the tree at
     both ends" (in the model, where `hash` is a free field).
-/
namespace Btc.Props.C06Chain.Example
open Btc Btc.State Btc.Spec Btc.Spec.Full Btc.Lemmas.Reach Btc.Lemmas.Reach2 Btc.Lemmas.FullSys
open Btc.Lemmas.FullCor Btc.Lemmas.C06Chain Btc.Props.ReachAll Btc.Props.FullSys Btc.Props.C06
open Btc.Props.FullSys.Example

/-- an optional pair that is `some` is `some` of the components of its `getD` -/
theorem some_pair_of_isSome {α β : Type} {o : Option (α × β)} (d : α × β) (h : o.isSome = true) :
    o = some ((o.getD d).1, (o.getD d).2) := by
  cases o with
  | none => cases h
  | some v => rfl

theorem pair_eta {α β : Type} (p : α × β) : (p.1, p.2) = p := rfl

/-! ## A. The schedule of `Props/FullSysExample.lean` -/

/-- the configuration after `b2` was accepted -/
def cA : Cfg := run c0 [m1, m2, m3]
/-- the rest of the schedule: pause inside `gen`, a call, `gen` finished, request, garbage -/
def later : List (Env × Msg) := [m4, m5, m6, m7, m8, m9]

theorem run_later : run cA later = cE := (run_append c0 [m1, m2, m3] later).symm

theorem reachA : FullReachable cA.1 cA.2 := reachable 3

theorem trustedLater : TrustedRun cA later :=
  ((trustedRun_append c0 [m1, m2, m3] later).mp trusted).2

/-- `b2` is in the tree after each of the six messages -/
theorem tipStays : TipStays 2 cA later := by
  unfold TipStays
  decide +kernel

/-- **`chain_from_genesis_stable` on the schedule**: the ghost grows from `[]` to `[gen]`, the root
    path of `b2` shrinks from `[gen, b2]` to `[b2]`, the chain from genesis is the same -/
theorem ex_chain : ∃ chain sib chain' sib',
    Tree.chainWithTip CBlock.hash 2 cA.1.st.unstable.tree = some (chain, sib) ∧
    Tree.chainWithTip CBlock.hash 2 (run cA later).1.st.unstable.tree = some (chain', sib') ∧
    cA.2 ++ chain.map (·.blk) = (run cA later).2 ++ chain'.map (·.blk) ∧
    cA.2 = [] ∧ chain.map (·.blk) = [gen, b2] ∧
    (run cA later).2 = [gen] ∧ chain'.map (·.blk) = [b2] := by
  have h1 := some_pair_of_isSome (o := Tree.chainWithTip CBlock.hash 2 cA.1.st.unstable.tree)
    ([], []) (by decide +kernel)
  have h2 := some_pair_of_isSome
    (o := Tree.chainWithTip CBlock.hash 2 (run cA later).1.st.unstable.tree) ([], []) (by decide +kernel)
  exact ⟨((Tree.chainWithTip CBlock.hash 2 cA.1.st.unstable.tree).getD ([], [])).1,
    ((Tree.chainWithTip CBlock.hash 2 cA.1.st.unstable.tree).getD ([], [])).2,
    ((Tree.chainWithTip CBlock.hash 2 (run cA later).1.st.unstable.tree).getD ([], [])).1,
    ((Tree.chainWithTip CBlock.hash 2 (run cA later).1.st.unstable.tree).getD ([], [])).2, h1, h2,
    chain_from_genesis_stable reachA later trustedLater 2 tipStays _ _ _ _ h1 h2,
    by decide +kernel, by decide +kernel, by decide +kernel, by decide +kernel⟩

/-- **`c06_old_token_in_new_state'` on the schedule** (address `[2]`, paid by the coinbase of
    `b2`): a token issued before `gen` was ingested is honoured afterwards -/
theorem ex_old_token : ∃ all all' : List Utxo,
    all.Perm (ledgerFor [2] [gen, b2]) ∧ all'.Perm (ledgerFor [2] [gen, b2]) ∧
    ∀ x ∈ all, ∃ k' r, all'[k']? = some x ∧
      cE.1.st.getUtxos (.ok [2]) (.page (some (C06.tokenOf 2 x))) 1 = .ok r ∧
      r.utxos = (all'.drop k').take 1 ∧ r.tipHash = 2 ∧
      r.nextPage = (all'[k' + 1]?).map (C06.tokenOf 2) := by
  obtain ⟨chain, sib, chain', sib', h1, h2, _, e1, e2, e3, e4⟩ := ex_chain
  have hlen : chain'.length = 1 := by
    have := congrArg List.length e4
    simpa using this
  have := c06_old_token_in_new_state' reachA later trustedLater 2 tipStays chain sib chain' sib' h1 h2
    (by rw [e3, hlen]; decide) (by rw [e3]; unfold TxRange; decide) [2] 1
  rw [e1, e2, run_later] at this
  exact this

/-- the messages up to (and excluding) the heartbeat that finishes `gen` do not extend the ghost -/
def quiet : List (Env × Msg) := [m4, m5]

theorem trustedQuiet : TrustedRun cA quiet := by
  have := trustedRun_take trustedLater 2
  exact this

theorem ghostQuiet : (run cA quiet).2 = cA.2 := by decide +kernel

/-- **`same_answer_ghost_fixed` on the schedule**: while `gen` is partially ingested (and a call
    was served) the complete answer for `[2]` at tip `b2` is the same list as before -/
theorem ex_same_answer : ∃ all : List Utxo, all.Perm (ledgerFor [2] [gen, b2]) ∧
    ServesPages cA.1.st [2] 2 1 all ∧ ServesPages (run cA quiet).1.st [2] 2 1 all ∧
    Paused (run cA quiet).1.st := by
  obtain ⟨chain, sib, _, _, h1, _, _, e1, e2, _, _⟩ := ex_chain
  have hlen : chain.length = 2 := by
    have := congrArg List.length e2
    simpa using this
  obtain ⟨all, _, _, _, _, hp, s1, s2⟩ := same_answer_ghost_fixed reachA quiet trustedQuiet ghostQuiet
    2 chain sib h1 (by rw [e1, hlen]; decide) (by rw [e1]; unfold TxRange; decide) [2]
  rw [e1, e2] at hp
  rw [e1, hlen] at s1 s2
  exact ⟨all, hp, s1, s2, by decide +kernel⟩

/-- the gaps of a walk: the pausing heartbeat before the second request, the call before the
    third -/
theorem quietGaps : QuietGaps cA [[m4], [m5]] := by
  refine ⟨trustedRun_take trustedLater 1, by decide +kernel, ?_, by decide +kernel, trivial⟩
  exact ⟨trivial, trivial⟩

/-- **`c06_all_pages_across` on the schedule** (limit 1; the answer for `[2]` has one element, so
    the walk ends after the first page — the hypotheses are satisfiable with non-trivial gaps) -/
theorem ex_walk : ∃ (all : List Utxo) (r0 : UtxosResponse) (rs : List UtxosResponse),
    all.Perm (ledgerFor [2] [gen, b2]) ∧
    cA.1.st.getUtxos (.ok [2]) (.minConf 0) 1 = .ok r0 ∧
    walk [2] 1 cA [[m4], [m5]] r0.nextPage = some rs ∧ (r0 :: rs).flatMap (·.utxos) = all := by
  have hmc : cA.1.st.unstable.mainChain.map (·.blk) = [gen, b2] := by decide +kernel
  have hG : cA.2 = [] := by decide +kernel
  obtain ⟨all, hperm, h⟩ := c06_all_pages_across reachA (by rw [hG]; unfold TxRange; decide) [2] 0 1
    (by decide) (Nat.zero_le _) (by
      have := congrArg List.length hmc
      rw [List.length_map] at this
      rw [this, hG]; decide)
  rw [C02.stablePrefix_zero, hmc, hG] at hperm
  have hlen : all.length = 1 := by rw [hperm.length_eq]; decide +kernel
  obtain ⟨r0, rs, _, _, h2, h3, h4, _⟩ := h [[m4], [m5]] quietGaps (by rw [hlen]; decide)
  exact ⟨all, r0, rs, hperm, h2, h3, h4⟩

/-- **`walk_concat` on the schedule, the request served after a gap**: the walk from the token of
    the first element waits for the gap `[m4]` — the heartbeat that begins to ingest `gen` and
    pauses — and is then served by the *paused* configuration; it returns the complete answer of
    the configuration before the gap -/
theorem ex_walk_after_gap : ∃ (all : List Utxo) (rs : List UtxosResponse),
    all.Perm (ledgerFor [2] [gen, b2]) ∧
    walk [2] 1 cA [[m4], [m5]] ((all[0]?).map (C06.tokenOf 2)) = some rs ∧
    rs.flatMap (·.utxos) = all ∧ rs ≠ [] ∧ ∀ r ∈ rs, r.tipHash = 2 ∧ r.tipHeight = 1 := by
  obtain ⟨chain, sib, _, _, h1, _, _, e1, e2, _, _⟩ := ex_chain
  have hlen : chain.length = 2 := by
    have := congrArg List.length e2
    simpa using this
  obtain ⟨all, hperm, _, h⟩ := walk_concat reachA 2 chain sib h1 (by rw [e1, hlen]; decide)
    (by rw [e1]; unfold TxRange; decide) [2] 1 (by decide)
  rw [e1, e2] at hperm
  have hl : all.length = 1 := by rw [hperm.length_eq]; decide +kernel
  obtain ⟨rs, hw, hcat, hall⟩ := h [[m4], [m5]] 0 quietGaps (by rw [hl]; decide)
  rw [List.drop_zero] at hcat
  refine ⟨all, rs, hperm, hw, hcat, ?_, fun r hr => ?_⟩
  · intro hnil
    rw [hnil] at hcat
    rw [← hcat] at hl
    cases hl
  · obtain ⟨_, _, h3, h4⟩ := hall r hr
    rw [e1, hlen] at h4
    exact ⟨h3, h4⟩

/-! ## B. A run of `Spec.Reachable2` with a fork, and the re-use of a discarded hash -/

def bnd : Unstable.BoundFn := fun _ _ => 1000

/-- a coinbase paying 50 to address `[addr]` -/
def cb (txid addr : Nat) : Tx :=
  { txid := txid, ntxid := txid, coinbase := true, vsize := 100, ins := [],
    outs := [⟨50, some [addr], false⟩] }

def blk (hash prev : Nat) (txs : List Tx) : Block :=
  { hash := hash, prev := prev, diff := 1, time := 100 + hash, bits := 0x207fffff, header := "",
    txs := txs }

def g : Block := blk 1 0 [cb 100 1]
def f2 : Block := blk 2 1 [cb 200 2]
/-- the fork -/
def f3 : Block := blk 3 1 [cb 300 3]
def f4 : Block := blk 4 2 [cb 400 4]
/-- a different block, on another parent, carrying the hash of `f3` -/
def f3' : Block := blk 3 4 [cb 301 5]

def dummySG : State × List Block := (dummy, [])

def st0 : State := (State.new 1 .regtest g).getD dummy

theorem new_st0 : State.new 1 .regtest g = some st0 :=
  some_of_isSome dummy (by decide +kernel)

/-- the configurations of the run -/
def q0 : State × List Block := (st0, [])
def q1 : State × List Block := (step2 bnd q0 (.push f2)).getD dummySG
def q2 : State × List Block := (step2 bnd q1 (.push f3)).getD dummySG
/-- `g ← f2 ← f4`, `g ← f3`; nothing stable yet -/
def q3 : State × List Block := (step2 bnd q2 (.push f4)).getD dummySG
/-- after the ingestion: `g`, `f2` stable, `f3` discarded -/
def q4 : State × List Block := (step2 bnd q3 (.ingest 1000)).getD dummySG
/-- after the push of `f3'` -/
def q5 : State × List Block := (step2 bnd q4 (.push f3')).getD dummySG

theorem step01 : step2 bnd q0 (.push f2) = some q1 := some_of_isSome dummySG (by decide +kernel)
theorem step12 : step2 bnd q1 (.push f3) = some q2 := some_of_isSome dummySG (by decide +kernel)
theorem step23 : step2 bnd q2 (.push f4) = some q3 := some_of_isSome dummySG (by decide +kernel)
theorem step34 : step2 bnd q3 (.ingest 1000) = some q4 := some_of_isSome dummySG (by decide +kernel)
theorem step45 : step2 bnd q4 (.push f3') = some q5 := some_of_isSome dummySG (by decide +kernel)

/-- the shape of the run: trees (pre-order) and ghosts -/
theorem shapes :
    (q3.2, q3.1.unstable.tree.blocks.map (·.blk)) = ([], [g, f2, f4, f3]) ∧
    (q4.2, q4.1.unstable.tree.blocks.map (·.blk)) = ([g, f2], [f4]) ∧
    (q5.2, q5.1.unstable.tree.blocks.map (·.blk)) = ([g, f2], [f4, f3']) := by
  decide +kernel

theorem pushDomain_of (s : State) (G : List Block) (b : Block) (p : List Block)
    (hfresh : b.hash ∉ (G ++ s.unstable.tree.blocks.map (·.blk)).map (·.hash))
    (hparent : Tree.contains CBlock.hash b.prev s.unstable.tree = true)
    (hpath : pathBlocks s.unstable.tree b.prev = some p)
    (hvalid : TxValid (G ++ p ++ [b])) (hunique : TxidsUnique (G ++ p ++ [b]))
    (hcons : TxidsConsistent (G ++ s.unstable.tree.blocks.map (·.blk) ++ [b])) :
    PushDomain s G b :=
  { fresh := hfresh
    parent := hparent
    valid := by intro p' hp'; rw [hpath] at hp'; cases hp'; exact hvalid
    unique := by intro p' hp'; rw [hpath] at hp'; cases hp'; exact hunique
    consistent := hcons }

theorem dom0 : Domain2 q0 (.push f2) :=
  ⟨by decide +kernel, pushDomain_of q0.1 q0.2 f2 [g] (by decide +kernel) (by decide +kernel)
    (by decide +kernel) (by decide +kernel) (by decide +kernel) (by decide +kernel)⟩
theorem dom1 : Domain2 q1 (.push f3) :=
  ⟨by decide +kernel, pushDomain_of q1.1 q1.2 f3 [g] (by decide +kernel) (by decide +kernel)
    (by decide +kernel) (by decide +kernel) (by decide +kernel) (by decide +kernel)⟩
theorem dom2 : Domain2 q2 (.push f4) :=
  ⟨by decide +kernel, pushDomain_of q2.1 q2.2 f4 [g, f2] (by decide +kernel) (by decide +kernel)
    (by decide +kernel) (by decide +kernel) (by decide +kernel) (by decide +kernel)⟩
/-- the hash 3 is fresh again: `f3` was discarded, it is neither in the ghost nor in the tree -/
theorem dom4 : Domain2 q4 (.push f3') :=
  ⟨by decide +kernel, pushDomain_of q4.1 q4.2 f3' [f4] (by decide +kernel) (by decide +kernel)
    (by decide +kernel) (by decide +kernel) (by decide +kernel) (by decide +kernel)⟩

theorem domainAll2_cons {sg sg1 : State × List Block} {op : Op} {ops : List Op}
    (hd : Domain2 sg op) (hs : step2 bnd sg op = some sg1) (hrest : DomainAll2 bnd sg1 ops) :
    DomainAll2 bnd sg (op :: ops) :=
  ⟨hd, fun sg' h => by rw [hs] at h; cases h; exact hrest⟩

def opsA : List Op := [.push f2, .push f3, .push f4]
def opsB : List Op := [.ingest 1000, .push f3']

theorem domA : DomainAll2 bnd q0 opsA :=
  domainAll2_cons dom0 step01 (domainAll2_cons dom1 step12 (domainAll2_cons dom2 step23 trivial))
theorem domB : DomainAll2 bnd q3 opsB :=
  domainAll2_cons trivial step34 (domainAll2_cons dom4 step45 trivial)

theorem runA : runOps2 bnd q0 opsA = some q3 := by
  simp only [opsA, runOps2, step01, step12, step23, Option.bind_some]
theorem runB : runOps2 bnd q3 opsB = some q5 := by
  simp only [opsB, runOps2, step34, step45, Option.bind_some]

/-- the same with the configurations written as pairs (the form of the theorems) -/
theorem domB' : DomainAll2 bnd (q3.1, q3.2) opsB := by rw [pair_eta]; exact domB
theorem runB' : runOps2 bnd (q3.1, q3.2) opsB = some (q5.1, q5.2) := by
  rw [pair_eta, pair_eta]; exact runB

theorem reach0 : Reachable2 bnd q0.1 q0.2 := Reachable2.init 1 .regtest g st0 (by decide) new_st0
theorem reach3 : Reachable2 bnd q3.1 q3.2 := runOps2_reachable2 opsA q0 q3 reach0 domA runA

/-- the fork block is in the tree before the ingestion, gone after it, back after the push -/
theorem tip3 : InTree 3 q3.1 ∧ ¬ InTree 3 q4.1 ∧ InTree 3 q5.1 := by decide +kernel

/-- `f4` is in the tree of all three configurations -/
theorem tipStays4 : TipStays2 bnd 4 q3 opsB := by
  intro k hk sg' h
  have hk' : k = 0 ∨ k = 1 ∨ k = 2 := by
    simp only [opsB, List.length_cons, List.length_nil] at hk; omega
  rcases hk' with rfl | rfl | rfl
  · simp only [opsB, List.take_zero, runOps2, Option.some.injEq] at h
    subst h; decide +kernel
  · simp only [opsB, List.take_succ_cons, List.take_zero, runOps2, step34, Option.bind_some,
      Option.some.injEq] at h
    subst h; decide +kernel
  · simp only [opsB, List.take_succ_cons, List.take_zero, runOps2, step34, step45, Option.bind_some,
      Option.some.injEq] at h
    subst h; decide +kernel

theorem tipStays4' : TipStays2 bnd 4 (q3.1, q3.2) opsB := by rw [pair_eta]; exact tipStays4

/-- **`reachable2_chain_same` across a stabilisation that discards a fork**: the tip `f4` has the
    root path `[g, f2, f4]` over the ghost `[]` before, and `[f4]` over the ghost `[g, f2]` after;
    the chain from genesis is the same.  (Also by the syntactic form `reachable2_chain_back`: no
    block with hash 4 is pushed.) -/
theorem ex_fork_chain : ∃ chain sib chain' sib',
    Tree.chainWithTip CBlock.hash 4 q3.1.unstable.tree = some (chain, sib) ∧
    Tree.chainWithTip CBlock.hash 4 q5.1.unstable.tree = some (chain', sib') ∧
    q3.2 ++ chain.map (·.blk) = q5.2 ++ chain'.map (·.blk) ∧
    q3.2 = [] ∧ chain.map (·.blk) = [g, f2, f4] ∧ q5.2 = [g, f2] ∧ chain'.map (·.blk) = [f4] := by
  have h1 := some_pair_of_isSome (o := Tree.chainWithTip CBlock.hash 4 q3.1.unstable.tree) ([], [])
    (by decide +kernel)
  have h2 := some_pair_of_isSome (o := Tree.chainWithTip CBlock.hash 4 q5.1.unstable.tree) ([], [])
    (by decide +kernel)
  exact ⟨((Tree.chainWithTip CBlock.hash 4 q3.1.unstable.tree).getD ([], [])).1,
    ((Tree.chainWithTip CBlock.hash 4 q3.1.unstable.tree).getD ([], [])).2,
    ((Tree.chainWithTip CBlock.hash 4 q5.1.unstable.tree).getD ([], [])).1,
    ((Tree.chainWithTip CBlock.hash 4 q5.1.unstable.tree).getD ([], [])).2, h1, h2,
    reachable2_chain_same reach3 opsB domB' runB' 4 tipStays4' _ _ _ _ h1 h2,
    by decide +kernel, by decide +kernel, by decide +kernel, by decide +kernel⟩

example : ∃ chain sib, Tree.chainWithTip CBlock.hash 4 q3.1.unstable.tree = some (chain, sib) ∧
    q3.2 ++ chain.map (·.blk) = [g, f2, f4] := by
  have h2 := some_pair_of_isSome (o := Tree.chainWithTip CBlock.hash 4 q5.1.unstable.tree) ([], [])
    (by decide +kernel)
  obtain ⟨chain, sib, h, e⟩ := reachable2_chain_back reach3 opsB domB' runB' 4 (by
    intro b hb
    simp only [opsB, List.mem_cons, List.mem_nil_iff, or_false, reduceCtorEq, false_or,
      Op.push.injEq] at hb
    subst hb; decide) _ _ h2
  refine ⟨chain, sib, h, e.trans ?_⟩
  decide +kernel

/-- **"In the tree at both ends" is not sufficient.**  A run of `Spec.Reachable2` (every
    operation in its domain, in particular every pushed block is `PushDomain.fresh`): the tip
    with hash 3 is in the tree of the first and of the last configuration, but its chains from
    genesis differ — `[g, f3]` before, `[g, f2, f4, f3']` after.  In between the fork `f3` was
    discarded (`tip3`), which made its hash available again. -/
theorem both_ends_not_sufficient :
    ∃ (s s' : State) (G G' : List Block) (ops : List Op) (T : Nat) (chain sib chain' sib' : List CBlock),
      Reachable2 bnd s G ∧ DomainAll2 bnd (s, G) ops ∧ runOps2 bnd (s, G) ops = some (s', G') ∧
      Tree.chainWithTip CBlock.hash T s.unstable.tree = some (chain, sib) ∧
      Tree.chainWithTip CBlock.hash T s'.unstable.tree = some (chain', sib') ∧
      G ++ chain.map (·.blk) = [g, f3] ∧ G' ++ chain'.map (·.blk) = [g, f2, f4, f3'] ∧
      G ++ chain.map (·.blk) ≠ G' ++ chain'.map (·.blk) := by
  have h1 := some_pair_of_isSome (o := Tree.chainWithTip CBlock.hash 3 q3.1.unstable.tree) ([], [])
    (by decide +kernel)
  have h2 := some_pair_of_isSome (o := Tree.chainWithTip CBlock.hash 3 q5.1.unstable.tree) ([], [])
    (by decide +kernel)
  exact ⟨q3.1, q5.1, q3.2, q5.2, opsB, 3,
    ((Tree.chainWithTip CBlock.hash 3 q3.1.unstable.tree).getD ([], [])).1,
    ((Tree.chainWithTip CBlock.hash 3 q3.1.unstable.tree).getD ([], [])).2,
    ((Tree.chainWithTip CBlock.hash 3 q5.1.unstable.tree).getD ([], [])).1,
    ((Tree.chainWithTip CBlock.hash 3 q5.1.unstable.tree).getD ([], [])).2,
    reach3, domB', runB', h1, h2, by decide +kernel, by decide +kernel, by decide +kernel⟩

end Btc.Props.C06Chain.Example
