import BtcModel.Lemmas.C09Sim

/-!
# C09 — upgrade transparency, at the message level, for every reachable configuration

`Props/C09.lean` proves the frame theorems of `State.upgrade` and the simulation `Sim` for the
pieces `push` / ingestion; `Props/FullCor.lean` lifts the query part to the message level.  This
file closes the remaining gaps.

1. **`DeltaOk` / `MetricsOk` are invariants** (`fullReachable_deltaOk`,
   `fullReachable_metricsOk`; paused configurations included), so `get_blockchain_info` — ALL
   fields, `utxos_length` included — is unchanged by an `.upgrade c` message from every reachable
   configuration (`blockchainInfo_upgrade_message`), as are `is_synced`, the API guards and the
   complete observable outcome of every endpoint call (`upgrade_message_observations`).
2. **Message-level simulation.**  `MSim c c'`: same ghost, `C09.Sim`-related states, same syncing
   state, same pending request.  (a) `msim_step`, `msim_run`: every message, under the same
   environment, preserves `MSim` and has EQUAL observable outputs (`msgObs`: request issued,
   heartbeat trap, outcome of the endpoint call); the environment assumption is only needed on
   one side (`trusted_msim`).  `msim_sameObs`: `MSim`-related reachable configurations are
   indistinguishable by any query / endpoint call.  (b) `upgrade_idle_msim`,
   `upgrade_idle_transparent`: an upgrade at an idle point is invisible for ever.
   (c) `upgrade_forgets`: at any point the upgraded configuration is `MSim`-related to
   `forgotten cfg c` — the old configuration with the outstanding request abandoned, the fetch
   guard released and the stored response dropped, **complete or partial** — and
   `upgrade_converges`: for every reachable non-stuck configuration with syncing on there is an
   explicit schedule of at most `treeWork + 2` heartbeats after which an INITIAL request is
   outstanding that names the anchor and unstable blocks of the un-upgraded canister after the
   same ingestion rounds.
3. **The upgrade never traps** in the model because `State.upgrade` is total; what this assumes of
   `ciborium` serialisation is made explicit (`Codec.Faithful`, `upgradeVia_eq`);
   `upgrade_config_fields`: the configuration argument changes exactly the named fields.
4. Examples on the run of `Props/FullSysExample.lean`.
-/
namespace Btc.Props.C09Full
open Btc Btc.State Btc.Spec Btc.Spec.Full Btc.Lemmas Btc.Lemmas.Reach Btc.Lemmas.Reach2 Btc.Lemmas.Fetch
open Btc.Lemmas.FullSys Btc.Lemmas.FullCor Btc.Lemmas.FullLive Btc.Lemmas.FetchLive
open Btc.Props Btc.Props.C09 Btc.Props.C13Full
open Btc.Lemmas.C09Sim (MS withTree resetFetch applyCfg CallOutput callOutput)

variable {sys : Fetch.Sys} {G : List Block}

/-! ## 1. The stored metrics are right in every reachable configuration -/

/-- **`DeltaOk` is an invariant of the message-level system**: in every reachable configuration
    (paused or not) every cached per-block UTXO delta, when present, equals the recomputed one. -/
theorem fullReachable_deltaOk (hr : FullReachable sys G) : DeltaOk sys.st :=
  C09Sim.fullReachable_deltaOk hr

/-- **`MetricsOk` is an invariant too**: every block of the tree either has no cached metrics (as
    after an upgrade) or carries its true delta and the fee rates specified by the history
    `G ++ unstable blocks`. -/
theorem fullReachable_metricsOk (hr : FullReachable sys G) :
    MetricsOk (G ++ sys.st.unstable.tree.blocks.map (·.blk)) sys.st :=
  C09Sim.fullReachable_metricsOk hr

/-- **`get_blockchain_info` — all five fields, `utxos_length` included — is unchanged by an
    upgrade message**, with or without configuration argument, from every reachable configuration
    (request in flight, pages stored, ingestion paused, …). -/
theorem blockchainInfo_upgrade_message (hr : FullReachable sys G) (env : Env) (cfg : Option SetConfig) :
    (stepMsg env (sys, G) (.upgrade cfg)).1.st.blockchainInfo = sys.st.blockchainInfo :=
  (C09.queries_upgrade_config sys.st cfg).2.2.2.2.2 (fullReachable_deltaOk hr)

/-- the configuration fields an upgrade without argument must not touch, and the counters shown
    by the metrics endpoint -/
structure SameConfig (s s' : State) : Prop where
  fees : s.fees = s'.fees
  apiAccess : s.apiAccess = s'.apiAccess
  disableApiIfNotSynced : s.disableApiIfNotSynced = s'.disableApiIfNotSynced
  lazyFees : s.lazyFees = s'.lazyFees
  syncingFlag : s.syncing.syncing = s'.syncing.syncing
  stabilityThreshold : s.unstable.thr = s'.unstable.thr
  network : s.network = s'.network
  stableHeight : s.stableHeight = s'.stableHeight
  mainChainHeight : s.mainChainHeight = s'.mainChainHeight
  utxosLength : s.utxos.utxos.length = s'.utxos.utxos.length
  rejects : s.syncing.rejects = s'.syncing.rejects
  deserializeErrors : s.syncing.deserializeErrors = s'.syncing.deserializeErrors
  insertErrors : s.syncing.insertErrors = s'.syncing.insertErrors
  sendTxCount : s.sendTxCount = s'.sendTxCount

/-- **What a user can observe of a canister state**: the answers of all query endpoints, all of
    `get_blockchain_info`, `is_synced`, the API guards, the fee percentiles, the complete outcome
    (trap kind / answer / cycles accepted) of every endpoint call in every environment, the
    configuration and the metrics-relevant counters. -/
structure SameObs (s s' : State) : Prop where
  answers : SameAnswers s s'
  info : s.blockchainInfo = s'.blockchainInfo
  isSynced : ∀ thr, s.isSynced thr = s'.isSynced thr
  guard : ∀ env net rule, State.guard env s net rule = State.guard env s' net rule
  fees : ∀ n, (s.feePercentiles n).map (·.2) = (s'.feePercentiles n).map (·.2)
  calls : ∀ env cl, callOutput env s cl = callOutput env s' cl
  config : SameConfig s s'

/-- **the outcome of an endpoint call is a function of the observables**: API guard, fee table,
    query answers and fee percentiles -/
theorem callOutput_congr (env : Env) {s s2 : State}
    (hg : ∀ net rule, State.guard env s net rule = State.guard env s2 net rule)
    (hfees : s.fees = s2.fees) (ha : SameAnswers s s2)
    (hfee : (s.feePercentiles env.numTransactions).map (·.2) =
      (s2.feePercentiles env.numTransactions).map (·.2))
    (c : Call) : callOutput env s c = callOutput env s2 c := by
  cases c with
  | getUtxos r =>
    simp only [callOutput]
    congr 1
    unfold callGetUtxos
    rw [hg, hfees, ha.getUtxos]
    cases s2.guard env r.reqNet true with
    | some g => rfl
    | none =>
      dsimp only
      split
      · rfl
      · cases s2.getUtxos r.addr (.minConf r.minConf) r.limit with
        | trap m => rfl
        | err e => rfl
        | ok v =>
          dsimp only
          split <;> rfl
  | getUtxosQuery r =>
    simp only [callOutput]
    congr 1
    unfold callGetUtxosQuery
    rw [hg, ha.getUtxos]
    cases s2.guard env r.reqNet true with
    | some g => rfl
    | none =>
      dsimp only
      cases s2.getUtxos r.addr (.minConf r.minConf) r.limit <;> rfl
  | getBalance r =>
    simp only [callOutput]
    congr 1
    unfold callGetBalance
    rw [hg, hfees, ha.getBalance]
    cases s2.guard env r.reqNet true with
    | some g => rfl
    | none =>
      dsimp only
      cases chargeFlat r.available s2.fees.getBalance s2.fees.getBalanceMaximum with
      | none => rfl
      | some acc =>
        dsimp only
        cases s2.getBalance r.addr r.minConf <;> rfl
  | getBalanceQuery r =>
    simp only [callOutput]
    congr 1
    unfold callGetBalanceQuery
    rw [hg, ha.getBalance]
    cases s2.guard env r.reqNet true with
    | some g => rfl
    | none =>
      dsimp only
      cases s2.getBalance r.addr r.minConf <;> rfl
  | getBlockHeaders r =>
    simp only [callOutput]
    congr 1
    unfold callGetBlockHeaders
    rw [hg, hfees, ha.getBlockHeaders]
    cases s2.guard env r.reqNet true with
    | some g => rfl
    | none =>
      dsimp only
      split
      · rfl
      · cases s2.getBlockHeaders env.maxHeaders r.start none with
        | error e => rfl
        | ok v =>
          dsimp only
          split <;> rfl
  | feePercentiles r =>
    simp only [callOutput]
    congr 1
    unfold callFeePercentiles
    rw [hg, hfees]
    cases s2.guard env r.reqNet true with
    | some g => rfl
    | none =>
      dsimp only
      cases chargeFlat r.available s2.fees.getCurrentFeePercentiles
          s2.fees.getCurrentFeePercentilesMaximum with
      | none => rfl
      | some acc =>
        dsimp only
        cases h1 : s.feePercentiles env.numTransactions with
        | none =>
          cases h2 : s2.feePercentiles env.numTransactions with
          | none => rfl
          | some y => rw [h1, h2] at hfee; cases hfee
        | some x =>
          cases h2 : s2.feePercentiles env.numTransactions with
          | none => rw [h1, h2] at hfee; cases hfee
          | some y =>
            rw [h1, h2] at hfee
            obtain ⟨x1, x2⟩ := x
            obtain ⟨y1, y2⟩ := y
            simp only [Option.map_some, Option.some.injEq] at hfee
            subst hfee
            rfl
  | sendTransaction n a l w =>
    simp only [callOutput]
    congr 1
    unfold callSendTransaction
    rw [hg, hfees]
    cases s2.guard env n false with
    | some g => rfl
    | none =>
      dsimp only
      cases chargeSend a s2.fees.sendTransactionBase s2.fees.sendTransactionPerByte l with
      | none => rfl
      | some acc =>
        dsimp only
        unfold State.sendTransaction
        cases w <;> rfl

theorem SameConfig.trans {a b c : State} (h : SameConfig a b) (h' : SameConfig b c) : SameConfig a c :=
  ⟨h.1.trans h'.1, h.2.trans h'.2, h.3.trans h'.3, h.4.trans h'.4, h.5.trans h'.5, h.6.trans h'.6,
   h.7.trans h'.7, h.8.trans h'.8, h.9.trans h'.9, h.10.trans h'.10, h.11.trans h'.11,
   h.12.trans h'.12, h.13.trans h'.13, h.14.trans h'.14⟩

theorem SameObs.trans {a b c : State} (h : SameObs a b) (h' : SameObs b c) : SameObs a c :=
  ⟨h.answers.trans h'.answers, h.info.trans h'.info, fun t => (h.isSynced t).trans (h'.isSynced t),
   fun e n r => (h.guard e n r).trans (h'.guard e n r), fun n => (h.fees n).trans (h'.fees n),
   fun e cl => (h.calls e cl).trans (h'.calls e cl), h.config.trans h'.config⟩

/-- states that agree up to metrics and satisfy the invariants are observably equal -/
theorem sameObs_of_ms {s s' : State} (h : MS s s') (h2 : Inv2 s G) (hf : FeeCacheOk s G)
    (hd : DeltaOk s) (h2' : Inv2 s' G) (hf' : FeeCacheOk s' G) (hd' : DeltaOk s') : SameObs s s' := by
  have hinfo : s.blockchainInfo = s'.blockchainInfo := h.1.blockchainInfo hd hd'
  refine ⟨⟨h.1.getUtxos, h.1.getBalance, h.1.getBlockHeaders, congrArg (·.height) hinfo,
      congrArg (·.hash) hinfo, congrArg (·.timestamp) hinfo, congrArg (·.difficulty) hinfo⟩,
    hinfo, h.1.isSynced, fun env net rule => h.1.guard env net rule, ?_,
    fun env cl => (C09Sim.ms_call env h h2 hf h2' hf' cl).1, ?_⟩
  · intro n
    obtain ⟨fc, p, e1, e2⟩ := C09Sim.ms_feePercentiles h h2 hf h2' hf' n
    rw [e1, e2]
    rfl
  · have hm := h.1.mainChainHeight
    obtain ⟨t', _, rfl⟩ := h.exists_tree
    exact ⟨rfl, rfl, rfl, rfl, rfl, rfl, rfl, rfl, hm, rfl, rfl, rfl, rfl, rfl⟩

/-- **the fetch guard and the stored response are invisible**: changing them changes nothing a
    user can observe (no endpoint reads the syncing state) -/
theorem sameObs_fetch (s : State) (f : Bool) (r : Option ResponseToProcess) :
    SameObs { s with syncing := { s.syncing with isFetching := f, response := r } } s := by
  have hfr : Frame s { s with syncing := { s.syncing with isFetching := f, response := r } } :=
    ⟨rfl, rfl, rfl⟩
  have ha := answers_frame hfr
  have hfee : ∀ n, (({ s with syncing := { s.syncing with isFetching := f, response := r } } : State).feePercentiles
      n).map (·.2) = (s.feePercentiles n).map (·.2) := by
    intro n
    have := congrArg (Option.map (·.2))
      (C09Sim.feePercentiles_view_congr
        (s := { s with syncing := { s.syncing with isFetching := f, response := r } }) (s0 := s) rfl rfl n)
    simpa only [Option.map_map, Function.comp_def, C09.feeView] using this
  refine ⟨ha, rfl, fun _ => rfl, fun _ _ _ => rfl, hfee, ?_,
    ⟨rfl, rfl, rfl, rfl, rfl, rfl, rfl, rfl, rfl, rfl, rfl, rfl, rfl, rfl⟩⟩
  intro env cl
  exact callOutput_congr env
    (s := { s with syncing := { s.syncing with isFetching := f, response := r } }) (s2 := s)
    (fun _ _ => rfl) rfl ha (hfee _) cl

theorem applyCfg_resetFetch (s : State) (cfg : Option SetConfig) :
    applyCfg cfg (resetFetch s) =
      { applyCfg cfg s with
        syncing := { (applyCfg cfg s).syncing with isFetching := false, response := none } } := by
  cases cfg with
  | none => rfl
  | some c =>
    show setConfig (resetFetch s) c = { setConfig s c with syncing := { (setConfig s c).syncing with
      isFetching := false, response := none } }
    rw [C09.setConfig_eq, C09.setConfig_eq]
    rfl

/-- the configuration of `stepMsg` for `set_config` / nothing, as a reachable configuration -/
theorem applyCfg_reachable (hr : FullReachable sys G) (env : Env) (cfg : Option SetConfig) :
    FullReachable { sys with st := applyCfg cfg sys.st } G := by
  cases cfg with
  | none => exact hr
  | some c => exact FullReachable.step sys G env (.setConfig c) hr trivial

/-- **Everything a user can observe is unchanged by an upgrade message**, in every reachable
    configuration (request in flight, pages or a complete response stored, ingestion paused):
    without configuration argument the observations (`SameObs`: all query answers, all of
    `get_blockchain_info`, `is_synced`, the API guards, the fee percentiles, the complete outcome
    of every endpoint call, configuration, counters) are those of the old state; with an argument
    `c` they are those of `set_config(c)` applied to the old state. -/
theorem upgrade_message_observations (hr : FullReachable sys G) (env : Env) (cfg : Option SetConfig) :
    SameObs (stepMsg env (sys, G) (.upgrade cfg)).1.st (applyCfg cfg sys.st) := by
  obtain ⟨h2, _⟩ := fullReachable_fee hr
  have hr1 : FullReachable (stepMsg env (sys, G) (.upgrade cfg)).1 (stepMsg env (sys, G) (.upgrade cfg)).2 :=
    FullReachable.step sys G env (.upgrade cfg) hr trivial
  obtain ⟨k2, kf⟩ := fullReachable_fee hr1
  have kd := fullReachable_deltaOk hr1
  have hr0 := applyCfg_reachable hr env cfg
  obtain ⟨j2, jf⟩ := fullReachable_fee hr0
  have jd := fullReachable_deltaOk hr0
  have hm := C09Sim.ms_upgrade_reset sys.st (C09Sim.tipDepths_of_inv2 h2) cfg
  have hfr : Frame (applyCfg cfg sys.st) (applyCfg cfg (resetFetch sys.st)) := by
    rw [applyCfg_resetFetch]; exact ⟨rfl, rfl, rfl⟩
  have h1 : SameObs (sys.st.upgrade cfg) (applyCfg cfg (resetFetch sys.st)) :=
    sameObs_of_ms hm k2 kf kd (inv2_frame hfr j2) (feeCacheOk_frame hfr jf)
      (C09Sim.deltaOk_congr (by rw [hfr.unstable]) jd)
  have h2' : SameObs (applyCfg cfg (resetFetch sys.st)) (applyCfg cfg sys.st) := by
    rw [applyCfg_resetFetch]; exact sameObs_fetch _ _ _
  exact h1.trans h2'

/-- the case without argument, spelled out: `SameObs (upgraded state) (old state)` -/
theorem upgrade_message_transparent (hr : FullReachable sys G) (env : Env) :
    SameObs (stepMsg env (sys, G) (.upgrade none)).1.st sys.st :=
  upgrade_message_observations hr env none

/-! ## 2. Message-level simulation -/

/-- **`MSim c c'`**: same ghost, states related by `C09.Sim` (equal up to the per-block cached
    metrics), same syncing state (flags, stored response, counters), same pending request. -/
structure MSim (c c' : Cfg) : Prop where
  ghost : c.2 = c'.2
  sim : C09.Sim c.1.st c'.1.st
  syncing : c.1.st.syncing = c'.1.st.syncing
  pending : c.1.pending = c'.1.pending

theorem MSim.ms {c c' : Cfg} (h : MSim c c') : MS c.1.st c'.1.st := ⟨h.sim, h.syncing⟩
theorem MSim.refl (c : Cfg) : MSim c c := ⟨rfl, C09.Sim.refl _, rfl, rfl⟩
theorem MSim.symm {c c' : Cfg} (h : MSim c c') : MSim c' c :=
  ⟨h.ghost.symm, h.sim.symm, h.syncing.symm, h.pending.symm⟩
theorem MSim.trans {a b c : Cfg} (h : MSim a b) (h' : MSim b c) : MSim a c :=
  ⟨h.ghost.trans h'.ghost, h.sim.trans h'.sim, h.syncing.trans h'.syncing, h.pending.trans h'.pending⟩

/-- `MSim` says: the two configurations differ at most in the cached metrics of the tree blocks -/
theorem msim_iff (c c' : Cfg) : MSim c c' ↔
    c.2 = c'.2 ∧ c.1.pending = c'.1.pending ∧
      ∃ t', Tree.mapT stripC c.1.st.unstable.tree = Tree.mapT stripC t' ∧ c'.1.st = withTree c.1.st t' := by
  constructor
  · intro h
    obtain ⟨t', ht, e⟩ := h.ms.exists_tree
    exact ⟨h.ghost, h.pending, t', ht, e⟩
  · rintro ⟨h1, h2, t', ht, e⟩
    have := C09Sim.ms_withTree c.1.st (t' := t') ht
    rw [← e] at this
    exact ⟨h1, this.1, this.2, h2⟩

/-- the request a heartbeat sends -/
def issuedOf : HbResult → Option Request
  | .awaiting _ r => some r
  | _ => none

def hbTrapped : HbResult → Bool
  | .trap => true
  | _ => false

/-- **the observable output of one message**: the `get_successors` request a heartbeat sends,
    whether the heartbeat trapped, the outcome of an endpoint call (trap kind, or answer and
    cycles accepted).  Replies, `set_config` and upgrades return nothing. -/
structure MsgObs where
  issued : Option Request
  trapped : Bool
  call : Option CallOutput

def msgObs (env : Env) (sys : Fetch.Sys) : Msg → MsgObs
  | .heartbeat b =>
    ⟨issuedOf (heartbeatStart env sys.st b), hbTrapped (heartbeatStart env sys.st b), none⟩
  | .call c => ⟨none, false, some (callOutput env sys.st c)⟩
  | _ => ⟨none, false, none⟩

/-- the `issued` component is `FullLive.issuedM` -/
theorem msgObs_issued (env : Env) (sys : Fetch.Sys) (m : Msg) :
    (msgObs env sys m).issued = issuedM env sys m := by
  cases m with
  | heartbeat b =>
    simp only [msgObs, issuedM, Msg.action, Fetch.issued]
    cases heartbeatStart env sys.st b <;> rfl
  | reply r => rfl
  | upgrade c => rfl
  | setConfig c => rfl
  | call c => rfl

theorem stepMsg_heartbeat (env : Env) (sys : Fetch.Sys) (G : List Block) (b : Nat) :
    stepMsg env (sys, G) (.heartbeat b) =
      match heartbeatStart env sys.st b with
      | .trap => (sys, G)
      | .ingested s' _ => ({ sys with st := s' }, G ++ poppedAnchors sys.st s')
      | .processed s' => ({ sys with st := s' }, G)
      | .awaiting s' req => ({ st := s', pending := some req }, G) := by
  simp only [stepMsg, stepSys, stepGhost, Fetch.step]
  cases heartbeatStart env sys.st b <;> rfl

/-- the environment assumption only has to be made on one side -/
theorem trusted_msim {c c' : Cfg} (h : MSim c c') (env : Env) (m : Msg) (ht : Trusted env c m) :
    Trusted env c' m := C09Sim.trusted_ms env h.ghost h.ms m ht

theorem trusted_msim_iff {c c' : Cfg} (h : MSim c c') (env : Env) (m : Msg) :
    Trusted env c m ↔ Trusted env c' m :=
  ⟨trusted_msim h env m, trusted_msim h.symm env m⟩

/-- **(a) Every message preserves `MSim`, with equal observable outputs.**  Two reachable
    `MSim`-related configurations, the same message in the same environment (the environment
    assumption for the first one; it then holds for the second one): the successor configurations
    are `MSim`-related and the message has the same observable output. -/
theorem msim_step {c c' : Cfg} (hr : FullReachable c.1 c.2) (hr' : FullReachable c'.1 c'.2)
    (h : MSim c c') (env : Env) (m : Msg) (ht : Trusted env c m) :
    MSim (stepMsg env c m) (stepMsg env c' m) ∧ msgObs env c.1 m = msgObs env c'.1 m := by
  have ht' := trusted_msim h env m ht
  obtain ⟨sys, G⟩ := c
  obtain ⟨sys', G'⟩ := c'
  have hG : G = G' := h.ghost
  subst hG
  cases m with
  | heartbeat b =>
    have hrel := C09Sim.ms_heartbeatStart hr hr' h.ms env b ht ht'
    rw [stepMsg_heartbeat, stepMsg_heartbeat]
    simp only [msgObs]
    revert hrel
    generalize heartbeatStart env sys.st b = r1
    generalize heartbeatStart env sys'.st b = r2
    intro hrel
    cases hrel with
    | ingested p hab =>
      refine ⟨⟨?_, hab.1, hab.2, h.pending⟩, rfl⟩
      show G ++ poppedAnchors sys.st _ = G ++ poppedAnchors sys'.st _
      rw [C09Sim.ms_poppedAnchors h.ms hab]
    | awaiting r hab => exact ⟨⟨rfl, hab.1, hab.2, rfl⟩, rfl⟩
    | processed hab => exact ⟨⟨rfl, hab.1, hab.2, h.pending⟩, rfl⟩
    | trap => exact ⟨h, rfl⟩
  | reply r =>
    obtain ⟨st, p⟩ := sys
    obtain ⟨st', p'⟩ := sys'
    have hp : p = p' := h.pending
    subst hp
    obtain ⟨t', htt, e⟩ := h.ms.exists_tree
    have e' : st' = withTree st t' := e
    subst e'
    refine ⟨?_, rfl⟩
    simp only [stepMsg, stepSys, stepGhost, Fetch.step]
    cases p with
    | none => exact h
    | some req =>
      simp only [C09Sim.heartbeatReply_withTree]
      cases hrep : heartbeatReply st r with
      | none =>
        have := C09Sim.ms_withTree (replyTrapState st) (t' := t') htt
        exact ⟨rfl, this.1, this.2, rfl⟩
      | some s1 =>
        have hu : s1.unstable = st.unstable := (heartbeatReply_frame hrep).unstable
        have := C09Sim.ms_withTree s1 (t' := t') (by rw [hu]; exact htt)
        exact ⟨rfl, this.1, this.2, rfl⟩
  | upgrade cfg =>
    refine ⟨?_, rfl⟩
    have e := C09Sim.ms_upgrade_eq h.ms cfg
    show MSim (⟨sys.st.upgrade cfg, none⟩, G) (⟨sys'.st.upgrade cfg, none⟩, G)
    rw [e]
    exact MSim.refl _
  | setConfig cfg =>
    refine ⟨?_, rfl⟩
    have := C09Sim.ms_setConfig h.ms cfg
    exact ⟨rfl, this.1, this.2, h.pending⟩
  | call cl =>
    obtain ⟨h2, hf⟩ := fullReachable_fee hr
    obtain ⟨h2', hf'⟩ := fullReachable_fee hr'
    obtain ⟨e, m⟩ := C09Sim.ms_call env h.ms h2 hf h2' hf' cl
    refine ⟨⟨rfl, m.1, m.2, h.pending⟩, ?_⟩
    simp only [msgObs, e]

/-- **`MSim`-related reachable configurations are indistinguishable**: same answers of all query
    endpoints, same `get_blockchain_info`, `is_synced`, guards, fee percentiles, outcomes of all
    endpoint calls, configuration and counters. -/
theorem msim_sameObs {c c' : Cfg} (hr : FullReachable c.1 c.2) (hr' : FullReachable c'.1 c'.2)
    (h : MSim c c') : SameObs c.1.st c'.1.st := by
  obtain ⟨h2, hf⟩ := fullReachable_fee hr
  obtain ⟨h2', hf'⟩ := fullReachable_fee hr'
  rw [← h.ghost] at h2' hf'
  exact sameObs_of_ms h.ms h2 hf (fullReachable_deltaOk hr) h2' hf' (fullReachable_deltaOk hr')

/-- the observable outputs of a schedule -/
def obsTrace (c : Cfg) : List (Env × Msg) → List MsgObs
  | [] => []
  | (env, m) :: rest => msgObs env c.1 m :: obsTrace (stepMsg env c m) rest

/-- **(a) for schedules**: the same subsequent inputs lead to `MSim`-related — hence
    observably equal (`msim_sameObs`) — configurations, with the same observable outputs along the
    way; the schedule satisfies the environment assumption from `c'` as well. -/
theorem msim_run : ∀ (msgs : List (Env × Msg)) {c c' : Cfg}, FullReachable c.1 c.2 →
    FullReachable c'.1 c'.2 → MSim c c' → TrustedRun c msgs →
    TrustedRun c' msgs ∧ MSim (run c msgs) (run c' msgs) ∧ obsTrace c msgs = obsTrace c' msgs ∧
      FullReachable (run c msgs).1 (run c msgs).2 ∧ FullReachable (run c' msgs).1 (run c' msgs).2
  | [], _, _, hr, hr', h, _ => ⟨trivial, h, rfl, hr, hr'⟩
  | (env, m) :: rest, c, c', hr, hr', h, ht => by
    obtain ⟨h1, h2⟩ := msim_step hr hr' h env m ht.1
    have ht' := trusted_msim h env m ht.1
    obtain ⟨i1, i2, i3, i4, i5⟩ := msim_run rest (FullReachable.step c.1 c.2 env m hr ht.1)
      (FullReachable.step c'.1 c'.2 env m hr' ht') h1 ht.2
    refine ⟨⟨ht', i1⟩, i2, ?_, i4, i5⟩
    simp only [obsTrace, h2, i3]

/-! ### (b) an upgrade at an idle point -/

theorem syncing_reset_eq (sy : SyncingState) (h1 : sy.isFetching = false) (h2 : sy.response = none) :
    ({ sy with isFetching := false, response := none } : SyncingState) = sy := by
  obtain ⟨a, b, c, d, e, f⟩ := sy
  simp only at h1 h2
  subst h1 h2
  rfl

/-- **(b) An upgrade at an idle point is invisible.**  Reachable configuration, no request
    outstanding, no response stored (ingestion may be paused): the configuration after
    `.upgrade none` is `MSim`-related to the configuration before. -/
theorem upgrade_idle_msim (hr : FullReachable sys G) (env : Env) (hp : sys.pending = none)
    (hresp : sys.st.syncing.response = none) :
    MSim (stepMsg env (sys, G) (.upgrade none)) (sys, G) := by
  obtain ⟨h2, _⟩ := fullReachable_fee hr
  have hfetch : sys.st.syncing.isFetching = false := by
    have := (FullSys.fetch_invariant hr).1.singleFlight
    rw [hp] at this
    cases hb : sys.st.syncing.isFetching with
    | false => rfl
    | true => exact absurd (this.mpr hb) (by simp)
  refine ⟨rfl, C09.sim_upgrade sys.st (C09Sim.tipDepths_of_inv2 h2), ?_, hp.symm⟩
  exact syncing_reset_eq _ hfetch hresp

/-- **… so all later behaviour is identical**: for every schedule satisfying the environment
    assumption from the un-upgraded configuration, the run after the upgrade satisfies it too,
    produces the same observable outputs message by message, and ends in an `MSim`-related,
    observably equal configuration. -/
theorem upgrade_idle_transparent (hr : FullReachable sys G) (env : Env) (hp : sys.pending = none)
    (hresp : sys.st.syncing.response = none) (msgs : List (Env × Msg))
    (ht : TrustedRun (sys, G) msgs) :
    TrustedRun (stepMsg env (sys, G) (.upgrade none)) msgs ∧
    MSim (run (sys, G) msgs) (run (stepMsg env (sys, G) (.upgrade none)) msgs) ∧
    obsTrace (sys, G) msgs = obsTrace (stepMsg env (sys, G) (.upgrade none)) msgs ∧
    SameObs (run (sys, G) msgs).1.st (run (stepMsg env (sys, G) (.upgrade none)) msgs).1.st := by
  have hrU : FullReachable (stepMsg env (sys, G) (.upgrade none)).1 (stepMsg env (sys, G) (.upgrade none)).2 :=
    FullReachable.step sys G env (.upgrade none) hr trivial
  obtain ⟨i1, i2, i3, i4, i5⟩ := msim_run msgs (c := (sys, G)) hr hrU
    (upgrade_idle_msim hr env hp hresp).symm ht
  exact ⟨i1, i2, i3, msim_sameObs i4 i5 i2⟩

/-! ### (c) an upgrade at any point: what is lost, and convergence -/

/-- the configuration with the fetch exchange forgotten: the outstanding request abandoned, the
    fetch guard released, the stored response — partial OR complete — dropped; then the optional
    configuration applied.  Nothing else differs from `c`. -/
def forgotten (cfg : Option SetConfig) (c : Cfg) : Cfg :=
  (⟨applyCfg cfg (resetFetch c.1.st), none⟩, c.2)

/-- without configuration argument exactly three things are forgotten -/
theorem forgotten_none (c : Cfg) :
    (forgotten none c).2 = c.2 ∧ (forgotten none c).1.pending = none ∧
    (forgotten none c).1.st =
      { c.1.st with syncing := { c.1.st.syncing with isFetching := false, response := none } } :=
  ⟨rfl, rfl, rfl⟩

/-- **(c) What an upgrade loses, exactly.**  From every reachable configuration the configuration
    after `.upgrade cfg` is `MSim`-related to `forgotten cfg c`: up to the cached metrics it is the
    old configuration with the pending request, the fetch guard and the stored response dropped —
    a COMPLETE stored response as well (`reset_syncing_state` in `canister/src/lib.rs` sets
    `response_to_process = None` whatever it holds; the prose "only an in-flight or partially
    received exchange" is inaccurate) — and `cfg` applied. -/
theorem upgrade_forgets (hr : FullReachable sys G) (env : Env) (cfg : Option SetConfig) :
    MSim (stepMsg env (sys, G) (.upgrade cfg)) (forgotten cfg (sys, G)) := by
  obtain ⟨h2, _⟩ := fullReachable_fee hr
  have hm := C09Sim.ms_upgrade_reset sys.st (C09Sim.tipDepths_of_inv2 h2) cfg
  exact ⟨rfl, hm.1, hm.2, rfl⟩

/-- a complete stored response is dropped: its blocks are NOT applied by the upgrade (the unstable
    blocks are the same), and nothing remembers it -/
theorem upgrade_drops_complete_response (env : Env) (cfg : Option SetConfig) (r : CompleteResp)
    (_hresp : sys.st.syncing.response = some (.complete r)) :
    (stepMsg env (sys, G) (.upgrade cfg)).1.st.syncing.response = none ∧
    (stepMsg env (sys, G) (.upgrade cfg)).1.pending = none ∧
    (stepMsg env (sys, G) (.upgrade cfg)).1.st.syncing.isFetching = false ∧
    treeHashes (stepMsg env (sys, G) (.upgrade cfg)).1.st = treeHashes sys.st ∧
    (stepMsg env (sys, G) (.upgrade cfg)).2 = G :=
  ⟨(upgrade_fetch sys.st cfg).2, rfl, (upgrade_fetch sys.st cfg).1, C09.upgrade_hashes sys.st cfg, rfl⟩

/-- **(c) Convergence: syncing always resumes, with an initial request.**  Every reachable
    configuration (request in flight, pages stored, complete response stored, ingestion paused);
    after `.upgrade cfg` syncing is enabled and the canister is not stuck (finding F13; see
    `upgrade_converges_keeps`).  Then for heartbeats with any budget `b ≥ 1` there is
    `n ≤ treeWork + 1` such that the explicit schedule of `n + 1` heartbeats after the upgrade
    satisfies the environment assumption by itself (no delivered data is looked at), sends exactly
    one request, with its last message, that request is then outstanding, and it is an INITIAL
    request naming the anchor and the other unstable blocks of the UN-UPGRADED canister (to which
    `cfg` is applied by `set_config`) after the same `n` heartbeats — which are ingestion rounds
    there as well —; the ledger parts (stable set, unstable blocks up to metrics, header store, …)
    of the two agree (`C09.Sim`). -/
theorem upgrade_converges (hr : FullReachable sys G) (env env' : Env) (b : Nat) (hb : 1 ≤ b)
    (cfg : Option SetConfig) (hs : (sys.st.upgrade cfg).syncing.syncing = true)
    (hns : ¬ Stuck env'.bound (sys.st.upgrade cfg)) :
    ∃ n, n ≤ treeWork sys.st + 1 ∧
      TrustedRun (stepMsg env (sys, G) (.upgrade cfg)) (hbsM env' b (n + 1)) ∧
      settles env' b n (applyCfg cfg sys.st) = true ∧
      C09.Sim (settled env' b n (sys.st.upgrade cfg)) (settled env' b n (applyCfg cfg sys.st)) ∧
      (run (stepMsg env (sys, G) (.upgrade cfg)) (hbsM env' b n)).1 =
        ⟨settled env' b n (sys.st.upgrade cfg), none⟩ ∧
      (run ((⟨applyCfg cfg sys.st, sys.pending⟩ : Fetch.Sys), G) (hbsM env' b n)).1 =
        ⟨settled env' b n (applyCfg cfg sys.st), sys.pending⟩ ∧
      ∃ anchor rest,
        anchor :: rest = treeHashes (settled env' b n (applyCfg cfg sys.st)) ∧
        traceM (stepMsg env (sys, G) (.upgrade cfg)) (hbsM env' b (n + 1)) = [.initial anchor rest] ∧
        (run (stepMsg env (sys, G) (.upgrade cfg)) (hbsM env' b (n + 1))).1.pending =
          some (.initial anchor rest) := by
  have e : stepMsg env (sys, G) (.upgrade cfg) = (⟨sys.st.upgrade cfg, none⟩, G) := rfl
  rw [e]
  have hr1 : FullReachable (⟨sys.st.upgrade cfg, none⟩ : Fetch.Sys) G :=
    FullReachable.step sys G env (.upgrade cfg) hr trivial
  obtain ⟨h2, _⟩ := fullReachable_fee hr
  obtain ⟨n, hn, hsettle⟩ := settles_of_reachable hr1 env' b hb hns
  have hresp : (sys.st.upgrade cfg).syncing.response = none := (upgrade_fetch sys.st cfg).2
  have hc : ∀ r, (sys.st.upgrade cfg).syncing.response ≠ some (.complete r) := by
    rw [hresp]; intro r h; cases h
  obtain ⟨t, req, tr, rn, sel⟩ :=
    idle_full (c := ((⟨sys.st.upgrade cfg, none⟩ : Fetch.Sys), G)) hr1 rfl hs hsettle hc
  have hsim := C09Sim.sim_upgrade_applyCfg sys.st (C09Sim.tipDepths_of_inv2 h2) cfg
  have hsim' := C09Sim.sim_settled env' b n hsim
  have hsel : ∃ anchor rest, req = .initial anchor rest ∧
      anchor :: rest = (settled env' b n (sys.st.upgrade cfg)).unstable.tree.blocks.map CBlock.hash := by
    have := sel
    dsimp only at this
    rw [hresp] at this
    exact this
  obtain ⟨anchor, rest, hreq, hanchor⟩ := hsel
  subst hreq
  have hs0 : settles env' b n (applyCfg cfg sys.st) = true := by
    rw [← C09Sim.sim_settles env' b n hsim]; exact hsettle
  refine ⟨n, ?_, t, hs0, hsim', (settle_full env' b n _ hsettle).2.1,
    (settle_full env' b n ((⟨applyCfg cfg sys.st, sys.pending⟩ : Fetch.Sys), G) hs0).2.1,
    anchor, rest, ?_, tr, ?_⟩
  · have := C09Sim.treeWork_upgrade sys.st cfg
    dsimp only at hn
    omega
  · rw [hanchor]
    exact TSim.hashes hsim'.tsim
  · rw [rn]

/-- the non-stuck hypothesis follows from the one before the upgrade when the configuration
    argument leaves the stability threshold alone (or there is none), or when no block is
    partially ingested -/
theorem upgrade_not_stuck (hr : FullReachable sys G) (env' : Env) (cfg : Option SetConfig)
    (hns : ¬ Stuck env'.bound sys.st)
    (hk : keepsThreshold (.upgrade cfg) = true ∨ ¬ Paused sys.st) :
    ¬ Stuck env'.bound (sys.st.upgrade cfg) := by
  rcases hk with hk | hk
  · exact nonStuck_step_keeps hr env' (.upgrade cfg) hns hk
  · exact nonStuck_step hr env' (.upgrade cfg) hns (fun _ hp => absurd hp hk)

/-- **Convergence, hypotheses on the configuration BEFORE the upgrade**: reachable, not stuck,
    the upgrade does not raise the stability threshold while a block is partially ingested (no
    threshold in `cfg`, or no block partially ingested), syncing enabled afterwards. -/
theorem upgrade_converges_keeps (hr : FullReachable sys G) (env env' : Env) (b : Nat) (hb : 1 ≤ b)
    (cfg : Option SetConfig) (hs : (sys.st.upgrade cfg).syncing.syncing = true)
    (hns : ¬ Stuck env'.bound sys.st)
    (hk : keepsThreshold (.upgrade cfg) = true ∨ ¬ Paused sys.st) :
    ∃ n, n ≤ treeWork sys.st + 1 ∧
      TrustedRun (stepMsg env (sys, G) (.upgrade cfg)) (hbsM env' b (n + 1)) ∧
      C09.Sim (settled env' b n (sys.st.upgrade cfg)) (settled env' b n (applyCfg cfg sys.st)) ∧
      ∃ anchor rest,
        anchor :: rest = treeHashes (settled env' b n (applyCfg cfg sys.st)) ∧
        traceM (stepMsg env (sys, G) (.upgrade cfg)) (hbsM env' b (n + 1)) = [.initial anchor rest] ∧
        (run (stepMsg env (sys, G) (.upgrade cfg)) (hbsM env' b (n + 1))).1.pending =
          some (.initial anchor rest) := by
  obtain ⟨n, h1, h2, _, h4, _, _, h6⟩ :=
    upgrade_converges hr env env' b hb cfg hs (upgrade_not_stuck hr env' cfg hns hk)
  exact ⟨n, h1, h2, h4, h6⟩

/-- an upgrade without argument keeps the syncing flag: "syncing enabled afterwards" is "syncing
    enabled before" -/
theorem upgrade_none_syncing (s : State) : (s.upgrade none).syncing.syncing = s.syncing.syncing := rfl

/-! ## 3. The upgrade never traps: what is assumed of serialisation -/

/-- the state `pre_upgrade` hands to the serialiser: `reset_syncing_state` is applied first -/
def preUpgrade (s : State) : State := resetFetch s

/-- what is written and read back: everything except the per-block metrics (`fee_rates`,
    `utxo_delta` of `CachedBlock` are not serialised).  The structures living in stable memory
    (UTXO maps, header store, block cache) are not serialised either: they stay where they are, and
    the model treats them as part of the state that is unchanged. -/
def persisted (s : State) : State := { s with unstable := s.unstable.clearMetrics }

/-- `post_upgrade(cfg)` after deserialisation: `reset_syncing_state` again,
    `refresh_tip_depths_cache`, then `set_config_no_verification` -/
def postUpgrade (s : State) (cfg : Option SetConfig) : State :=
  applyCfg cfg
    { resetFetch s with unstable := { s.unstable with tipDepthsCache := s.unstable.tree.tipDepths } }

/-- an abstract serialiser (`ciborium::ser::into_writer` / `ciborium::de::from_reader`); `β` is the
    type of what is written to stable memory and `size` its length in bytes -/
structure Codec (β : Type) where
  encode : State → Option β
  decode : β → Option State
  size : β → Nat

/-- **The serialisation assumption behind `State.upgrade`** (which is a total function, so "the
    upgrade never traps" holds in the model by construction).  Assumed of the real code:
    encoding never fails (`expect("failed to encode state")`), the encoding fits the `u32` length
    prefix written to stable memory, decoding the written bytes never fails
    (`expect("Failed to read state.")`) and gives back the state that was written, except for the
    fields that are not serialised (`persisted`): the round trip is the identity on the modelled
    state.  Also assumed: the stable-memory structures are not touched by an upgrade, and the new
    code version reads the old format (the `or_else(read_memory_with_old_state)` fallback is not
    modelled). -/
def Codec.Faithful {β : Type} (c : Codec β) : Prop :=
  ∀ s : State, ∃ bytes, c.encode s = some bytes ∧ c.size bytes < 2 ^ 32 ∧
    c.decode bytes = some (persisted s)

/-- `pre_upgrade; post_upgrade(cfg)` through a serialiser; `none` = one of the `expect`s fails,
    or the length does not fit in the `u32` prefix -/
def upgradeVia {β : Type} (c : Codec β) (s : State) (cfg : Option SetConfig) : Option State :=
  match c.encode (preUpgrade s) with
  | none => none
  | some bytes =>
    if c.size bytes < 2 ^ 32 then
      match c.decode bytes with
      | none => none
      | some s1 => some (postUpgrade s1 cfg)
    else none

theorem postUpgrade_persisted (s : State) (cfg : Option SetConfig) :
    postUpgrade (persisted (preUpgrade s)) cfg = s.upgrade cfg := by
  have e : (persisted (preUpgrade s)).unstable.tree.tipDepths = s.unstable.tree.tipDepths :=
    Tree.tipDepths_mapT _ _
  unfold postUpgrade
  rw [e]
  cases cfg <;> rfl

/-- **under the serialisation assumption the upgrade never traps and is `State.upgrade`** -/
theorem upgradeVia_eq {β : Type} (c : Codec β) (hc : c.Faithful) (s : State) (cfg : Option SetConfig) :
    upgradeVia c s cfg = some (s.upgrade cfg) := by
  obtain ⟨bytes, h1, h2, h3⟩ := hc (preUpgrade s)
  unfold upgradeVia
  rw [h1]
  simp only [h2, if_true, h3, postUpgrade_persisted]

/-- the assumption is satisfiable (the "serialiser" that keeps the state as it is and drops the
    metrics when reading it back) -/
example : (⟨some, fun s => some (persisted s), fun _ => 0⟩ : Codec State).Faithful :=
  fun s => ⟨s, rfl, by show 0 < 2 ^ 32; decide, rfl⟩

/-- **`set_config` through the upgrade argument changes exactly the named fields**: the six
    configuration fields are the ones of the argument where present and the old ones otherwise;
    every other field is as after an upgrade without argument. -/
theorem upgrade_config_fields (s : State) (c : SetConfig) :
    (s.upgrade (some c)).fees = c.fees.getD s.fees ∧
    (s.upgrade (some c)).apiAccess = c.apiAccess.getD s.apiAccess ∧
    (s.upgrade (some c)).disableApiIfNotSynced = c.disableApiIfNotSynced.getD s.disableApiIfNotSynced ∧
    (s.upgrade (some c)).lazyFees = c.lazyFees.getD s.lazyFees ∧
    (s.upgrade (some c)).syncing.syncing = c.syncing.getD s.syncing.syncing ∧
    (s.upgrade (some c)).unstable.thr = c.stabilityThreshold.getD s.unstable.thr ∧
    (s.upgrade (some c)).utxos = (s.upgrade none).utxos ∧
    (s.upgrade (some c)).unstable.tree = (s.upgrade none).unstable.tree ∧
    (s.upgrade (some c)).unstable.cache = (s.upgrade none).unstable.cache ∧
    (s.upgrade (some c)).unstable.next = (s.upgrade none).unstable.next ∧
    (s.upgrade (some c)).unstable.net = (s.upgrade none).unstable.net ∧
    (s.upgrade (some c)).unstable.tipDepthsCache = (s.upgrade none).unstable.tipDepthsCache ∧
    (s.upgrade (some c)).unstable.blockCache = (s.upgrade none).unstable.blockCache ∧
    (s.upgrade (some c)).headers = (s.upgrade none).headers ∧
    (s.upgrade (some c)).feeCache = (s.upgrade none).feeCache ∧
    (s.upgrade (some c)).sendTxCount = (s.upgrade none).sendTxCount ∧
    (s.upgrade (some c)).syncing.isFetching = false ∧
    (s.upgrade (some c)).syncing.response = none ∧
    (s.upgrade (some c)).syncing.rejects = s.syncing.rejects ∧
    (s.upgrade (some c)).syncing.deserializeErrors = s.syncing.deserializeErrors ∧
    (s.upgrade (some c)).syncing.insertErrors = s.syncing.insertErrors := by
  rw [C09.upgrade_some]
  obtain ⟨a1, a2, a3, a4, a5, a6⟩ := C09.setConfig_fields (s.upgrade none) c
  obtain ⟨b1, b2, b3, b4, b5, b6, b7, b8, b9, b10, b11, b12, b13, b14, b15⟩ :=
    C09.setConfig_frame (s.upgrade none) c
  exact ⟨a1, a2, a3, a4, a5, a6, b1, b2, b3, b4, b5, b6, b7, b8, b9, b10, b11, b12, b13, b14, b15⟩

/-- the empty configuration argument is no argument -/
theorem upgrade_empty_config (s : State) : s.upgrade (some {}) = s.upgrade none := rfl

/-! ## 4. Examples on the run of `Props/FullSysExample.lean` -/

namespace Example
open Btc.Props.FullSys.Example Btc.Props.C13Full.Example

/-! ### an upgrade while a COMPLETE response is stored (`c2`: `⟨["B2"], ["H3"]⟩` stored) -/

/-- the configuration after the upgrade -/
def cU : Cfg := stepMsg (env 300) c2 (.upgrade none)

theorem reachU : FullReachable cU.1 cU.2 :=
  FullReachable.step c2.1 c2.2 (env 300) (.upgrade none) reach2 trivial

theorem c2_notStuck : ¬ Stuck (env 301).bound c2.1.st := by decide +kernel

/-- the complete response is dropped, nothing else of the ledger changes (the metrics of the
    anchor are forgotten) -/
example : c2.1.st.syncing.response = some (.complete ⟨["B2"], ["H3"]⟩) ∧
    cU.1.st.syncing.response = none ∧ cU.1.pending = none ∧ treeHashes cU.1.st = [1] ∧ cU.2 = [] ∧
    c2.1.st.unstable.tree.blocks.map (·.feeRates) = [some []] ∧
    cU.1.st.unstable.tree.blocks.map (·.feeRates) = [none] := by
  decide +kernel

/-- `upgrade_forgets`, `upgrade_message_transparent`, `blockchainInfo_upgrade_message`,
    `fullReachable_deltaOk` apply -/
example : MSim cU (forgotten none c2) ∧ SameObs cU.1.st c2.1.st ∧
    cU.1.st.blockchainInfo = c2.1.st.blockchainInfo ∧ DeltaOk c2.1.st ∧ DeltaOk cU.1.st :=
  ⟨upgrade_forgets reach2 (env 300) none, upgrade_message_transparent reach2 (env 300),
   blockchainInfo_upgrade_message reach2 (env 300) none, fullReachable_deltaOk reach2,
   fullReachable_deltaOk reachU⟩

/-- **the prose's "only in-flight or partial" is inaccurate**: after the upgrade the next
    heartbeat sends an INITIAL request for the anchor and `b2` is not in the tree, whereas without
    the upgrade the same heartbeat applies the stored response (`b2` is pushed) and sends nothing -/
example :
    (run cU [(env 301, .heartbeat 100)]).1.pending = some (.initial 1 []) ∧
    treeHashes (run cU [(env 301, .heartbeat 100)]).1.st = [1] ∧
    (run c2 [(env 301, .heartbeat 100)]).1.pending = none ∧
    treeHashes (run c2 [(env 301, .heartbeat 100)]).1.st = [1, 2] := by
  decide +kernel

/-- `upgrade_converges_keeps` in `c2` -/
example : ∃ n, n ≤ treeWork c2.1.st + 1 ∧
    TrustedRun (stepMsg (env 300) (c2.1, c2.2) (.upgrade none)) (hbsM (env 301) 100 (n + 1)) ∧
    C09.Sim (settled (env 301) 100 n (c2.1.st.upgrade none)) (settled (env 301) 100 n c2.1.st) ∧
    ∃ anchor rest, anchor :: rest = treeHashes (settled (env 301) 100 n c2.1.st) ∧
      traceM (stepMsg (env 300) (c2.1, c2.2) (.upgrade none)) (hbsM (env 301) 100 (n + 1)) =
        [.initial anchor rest] ∧
      (run (stepMsg (env 300) (c2.1, c2.2) (.upgrade none)) (hbsM (env 301) 100 (n + 1))).1.pending =
        some (.initial anchor rest) :=
  upgrade_converges_keeps reach2 (env 300) (env 301) 100 (by decide) none (by decide +kernel)
    c2_notStuck (Or.inl rfl)

/-! ### an upgrade after blocks with metrics were stored (`c3`: `gen`, `b2` with fee rates) -/

/-- the metrics are really there before and gone afterwards, `utxos_length` is the same -/
example :
    c3.1.st.unstable.tree.blocks.map (fun c => (c.feeRates, c.utxoDelta)) =
      [(some [], 1), (some [100], 1)] ∧
    (stepMsg (env 300) c3 (.upgrade none)).1.st.unstable.tree.blocks.map
      (fun c => (c.feeRates, c.utxoDelta)) = [(none, 0), (none, 0)] ∧
    c3.1.st.blockchainInfo.utxosLength = 2 ∧
    (stepMsg (env 300) c3 (.upgrade none)).1.st.blockchainInfo.utxosLength = 2 := by
  decide +kernel

example : (stepMsg (env 300) (c3.1, c3.2) (.upgrade none)).1.st.blockchainInfo = c3.1.st.blockchainInfo :=
  blockchainInfo_upgrade_message (reachable 3) (env 300) none

/-! ### an upgrade while `gen` is partially ingested (`cP`) -/

/-- the configuration after the upgrade -/
abbrev cPU : Cfg := stepMsg (env 300) (cP.1, cP.2) (.upgrade none)

theorem cP_idle : cP.1.pending = none ∧ cP.1.st.syncing.response = none := by decide +kernel

theorem cP_paused : Paused cP.1.st := by decide +kernel

/-- the upgrade point is idle and paused: the upgrade is invisible (`upgrade_idle_msim`), the
    block is still partially ingested -/
example : Paused cP.1.st ∧ Paused (cP.1.st.upgrade none) ∧
    MSim (stepMsg (env 300) (cP.1, cP.2) (.upgrade none)) (cP.1, cP.2) ∧
    SameObs (stepMsg (env 300) (cP.1, cP.2) (.upgrade none)).1.st cP.1.st :=
  ⟨cP_paused, (FullCor.c09_upgrade_message reachP (env 300) none).2.2.2.2.2.2.2.2.1.mpr cP_paused,
   upgrade_idle_msim (sys := cP.1) (G := cP.2) reachP (env 300) cP_idle.1 cP_idle.2,
   upgrade_message_transparent (sys := cP.1) (G := cP.2) reachP (env 300)⟩

theorem trusted_tail : TrustedRun (cP.1, cP.2) [m5, m6, m7, m8, m9] := by
  have := ((trustedRun_append c0 [m1, m2, m3, m4] [m5, m6, m7, m8, m9]).mp trusted).2
  rw [Prod.eta]
  exact this

/-- **all later behaviour is identical**: the rest of the schedule (an endpoint call while paused,
    the heartbeat finishing `gen`, a request, a garbage reply, its processing) run after the
    upgrade satisfies the environment assumption, produces the same observable outputs and ends in
    an observably equal configuration -/
example : TrustedRun (stepMsg (env 300) (cP.1, cP.2) (.upgrade none)) [m5, m6, m7, m8, m9] ∧
    MSim (run (cP.1, cP.2) [m5, m6, m7, m8, m9])
      (run (stepMsg (env 300) (cP.1, cP.2) (.upgrade none)) [m5, m6, m7, m8, m9]) ∧
    obsTrace (cP.1, cP.2) [m5, m6, m7, m8, m9] =
      obsTrace (stepMsg (env 300) (cP.1, cP.2) (.upgrade none)) [m5, m6, m7, m8, m9] ∧
    SameObs (run (cP.1, cP.2) [m5, m6, m7, m8, m9]).1.st
      (run (stepMsg (env 300) (cP.1, cP.2) (.upgrade none)) [m5, m6, m7, m8, m9]).1.st :=
  upgrade_idle_transparent (sys := cP.1) (G := cP.2) reachP (env 300) cP_idle.1 cP_idle.2 _ trusted_tail

/-- what is observed along that schedule: the call answers, the third message sends the request -/
example : (obsTrace cPU [m5, m6, m7, m8, m9]).map (fun o => (o.issued, o.trapped, o.call.isSome)) =
    [(none, false, true), (none, false, false), (some (.initial 2 []), false, false),
     (none, false, false), (none, false, false)] := by
  decide +kernel

/-- syncing resumes after the upgrade in the paused configuration: one heartbeat finishes `gen`,
    the next one sends the initial request naming the new anchor `b2` -/
example : ∃ n, n ≤ treeWork cP.1.st + 1 ∧
    TrustedRun (stepMsg (env 300) (cP.1, cP.2) (.upgrade none)) (hbsM (env 205) 100 (n + 1)) ∧
    C09.Sim (settled (env 205) 100 n (cP.1.st.upgrade none)) (settled (env 205) 100 n cP.1.st) ∧
    ∃ anchor rest, anchor :: rest = treeHashes (settled (env 205) 100 n cP.1.st) ∧
      traceM (stepMsg (env 300) (cP.1, cP.2) (.upgrade none)) (hbsM (env 205) 100 (n + 1)) =
        [.initial anchor rest] ∧
      (run (stepMsg (env 300) (cP.1, cP.2) (.upgrade none)) (hbsM (env 205) 100 (n + 1))).1.pending =
        some (.initial anchor rest) :=
  upgrade_converges_keeps (sys := cP.1) (G := cP.2) reachP (env 300) (env 205) 100 (by decide) none
    (by decide +kernel) cP_notStuck (Or.inl rfl)

example : traceM cPU (hbsM (env 205) 100 2) = [.initial 2 []] := by decide +kernel

/-- **the hypothesis "not stuck after the upgrade" is needed** (finding F13): an upgrade whose
    argument raises the stability threshold while `gen` is partially ingested leaves the canister
    stuck — no heartbeat ever gets past ingestion again -/
example : Stuck (env 205).bound (cP.1.st.upgrade (some { stabilityThreshold := some 2 })) ∧
    keepsThreshold (.upgrade (some { stabilityThreshold := some 2 })) = false := by
  decide +kernel

end Example

end Btc.Props.C09Full
