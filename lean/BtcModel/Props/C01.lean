import BtcModel.Lemmas.QueryInv
import BtcModel.Props.C02

/-!
# C01 — `get_utxos` returns the ledger state of the address at the named tip

Under the global invariant `Spec.Inv s G` (plus the explicit extra hypothesis `Spec.TxidsUnique`,
see `Lemmas/LedgerDecomp.lean`), the complete answer of `get_utxos` for address `a` is a permutation
of `Spec.ledgerFor a (G ++ p)`: every unspent output of `a` on the chain ending at the named tip,
exactly once, with its true value and the height of its block on that chain, and nothing else.
-/
namespace Btc.Props.C01
open Btc Btc.Spec Btc.State

theorem tree_hashes_nodup {s : State} {G : List Block} (hinv : Inv s G) :
    (s.unstable.tree.blocks.map CBlock.hash).Nodup := by
  have := hinv.hashesNodup
  rw [List.map_append, List.nodup_append] at this
  have h2 := this.2.1
  rw [List.map_map] at h2
  exact h2

/-- the main chain is a root path of the tree -/
theorem mainChain_isRootPath {s : State} {G : List Block} (hinv : Inv s G) :
    ∃ tip sib, s.unstable.mainChain.getLast? = some tip ∧
      Tree.chainWithTip CBlock.hash tip.hash s.unstable.tree = some (s.unstable.mainChain, sib) :=
  mainChain_rootPath CBlock.hash CBlock.diff s.unstable.tree (tree_hashes_nodup hinv)

theorem mainChain_pathCtx {s : State} {G : List Block} (hinv : Inv s G)
    (hU : TxidsUnique (G ++ s.unstable.mainChain.map (·.blk))) : PathCtx s G s.unstable.mainChain := by
  obtain ⟨tip, sib, _, hroot⟩ := mainChain_isRootPath hinv
  exact PathCtx.of_rootPath hinv tip.hash _ sib hroot hU _ [] (by simp)

theorem stablePrefix_isPrefix (L : List (List (Nat × Nat))) (c : Nat) (chain : List CBlock) (i : Nat) :
    ∃ rest, chain = stablePrefix L c chain i ++ rest := by
  induction chain generalizing i with
  | nil => exact ⟨[], rfl⟩
  | cons b bs ih =>
    simp only [stablePrefix]
    split
    · exact ⟨b :: bs, rfl⟩
    · obtain ⟨rest, hr⟩ := ih (i + 1)
      exact ⟨rest, by simp [← hr]⟩

/-- `get_utxos_from_chain` without offset, for the applied prefix of any chain satisfying `PathCtx`:
    the page is the first `limit` elements of `resultList`. -/
theorem getUtxosFromChain_ok {s : State} {G : List Block} (hinv : Inv s G) (a : Addr) (c : Nat)
    (chain : List CBlock) (limit : Nat) (hc : c ≤ chain.length)
    (hp : PathCtx s G (stablePrefix (Tree.levels CBlock.hash s.unstable.tree) c chain 0)) :
    ∃ r, getUtxosFromChain s (.ok a) c chain none limit = .ok r ∧
      r.utxos = (resultList s G a (stablePrefix (Tree.levels CBlock.hash s.unstable.tree) c chain 0)).take limit ∧
      (r.nextPage = none ↔
        (resultList s G a (stablePrefix (Tree.levels CBlock.hash s.unstable.tree) c chain 0)).length ≤ limit) ∧
      (∀ tip, (stablePrefix (Tree.levels CBlock.hash s.unstable.tree) c chain 0).getLast? = some tip →
        r.tipHash = tip.hash ∧
        r.tipHeight = s.utxos.nextHeight +
          (stablePrefix (Tree.levels CBlock.hash s.unstable.tree) c chain 0).length - 1) := by
  obtain ⟨h1, h2, _, _⟩ := addressUtxos_path hinv hp a
  unfold getUtxosFromChain
  have hc' : ¬ chain.length < c := by omega
  simp only [hc', if_false, h1, h2]
  refine ⟨_, rfl, rfl, ?_, ?_⟩
  · simp only [Option.map_eq_none_iff, List.head?_eq_none_iff, List.drop_eq_nil_iff]
  · intro tip ht
    simp [ht]

/-! ### The main statements -/

/-- heights never increase along the list -/
def HeightsDesc (l : List Utxo) : Prop := l.Pairwise (fun u1 u2 => u2.height ≤ u1.height)

/-- **C01 for an arbitrary root path** (used by page requests and `min_confirmations` prefixes).
    For any prefix `applied` of a root path of the tree (anchor first), with `p` its blocks:
    `apply_block` over `applied` yields `A`/`R`, the iterator does not panic and returns a list `l`
    that is a permutation of the reference ledger of `a` at `G ++ p`, lists every outpoint once and
    has non-increasing heights.

    Extra hypotheses beyond `Inv`: `hU` (no repeated transaction id on the chain — not implied by
    `Inv`, see `Spec.TxidsUnique`) and `hH` (stable heights fit in the 4-byte key encoding; only
    needed for the ordering part). -/
theorem answer_for_rootPath_prefix {s : State} {G : List Block} (hinv : Inv s G) (tip : Nat)
    (chainC sib : List CBlock)
    (hroot : Tree.chainWithTip CBlock.hash tip s.unstable.tree = some (chainC, sib))
    (hU : TxidsUnique (G ++ chainC.map (·.blk)))
    (applied rest : List CBlock) (happ : chainC = applied ++ rest) (a : Addr)
    (hH : G.length ≤ 2 ^ 32) :
    ∃ A R l, applyBlocks s a applied s.utxos.nextHeight ([], []) = some (A, R) ∧
      A = addedAll a G.length (applied.map (·.blk)) ∧
      R = removedAll (histOf s G) a (applied.map (·.blk)) ∧
      addressUtxos s a A R none = some l ∧
      l.Perm (ledgerFor a (G ++ applied.map (·.blk))) ∧
      (l.map (·.outpoint)).Nodup ∧ HeightsDesc l := by
  have hp := PathCtx.of_rootPath hinv tip chainC sib hroot hU applied rest happ
  obtain ⟨h1, h2, h3, h4⟩ := addressUtxos_path hinv hp a
  exact ⟨_, _, _, h1, rfl, rfl, h2, h3, h4, (resultList_heights hinv hp a hH).2⟩

/-- Soundness and completeness of the list in words: `u` is returned iff it is an output of a
    transaction in block number `u.height` of the chain `G ++ p`, pays `a`, is not `OP_RETURN`,
    carries that output's value, and no transaction of the chain spends it. -/
theorem mem_answer_iff {s : State} {G : List Block} (hinv : Inv s G) {applied : List CBlock}
    (hp : PathCtx s G applied) (a : Addr) (u : Utxo) :
    u ∈ resultList s G a applied ↔
      ∃ i b tx v t, (G ++ applied.map (·.blk))[i]? = some b ∧ tx ∈ b.txs ∧ tx.outs[v]? = some t ∧
        t.addr = some a ∧ t.opret = false ∧ u = ⟨i, ⟨tx.txid, v⟩, t.value⟩ ∧
        (⟨tx.txid, v⟩ : OutPoint) ∉ insB (G ++ applied.map (·.blk)) := by
  rw [(addressUtxos_path hinv hp a).2.2.1.mem_iff]
  exact mem_ledgerFor_iff a _ hp.valid hp.unique u

/-- **C01 main theorem**: the unfiltered first-page `get_utxos` answer.
    With `chainC` the main chain, `p` its blocks and `n = G.length` the stable height: there is a
    list `l` — the complete answer — such that `l` is a permutation of `ledgerFor a (G ++ p)`, has
    pairwise distinct outpoints and non-increasing heights; the response carries `l.take limit`,
    names the last block of the main chain as tip at height `n + |chainC| - 1`, and has a next
    page exactly when `l` is longer than `limit`. -/
theorem getUtxos_unfiltered {s : State} {G : List Block} (hinv : Inv s G)
    (hU : TxidsUnique (G ++ s.unstable.mainChain.map (·.blk))) (hH : G.length ≤ 2 ^ 32)
    (a : Addr) (limit : Nat) :
    ∃ l r tip, s.unstable.mainChain.getLast? = some tip ∧
      l.Perm (ledgerFor a (G ++ s.unstable.mainChain.map (·.blk))) ∧
      (l.map (·.outpoint)).Nodup ∧ HeightsDesc l ∧
      s.getUtxos (.ok a) .none_ limit = .ok r ∧
      r.utxos = l.take limit ∧ r.tipHash = tip.hash ∧
      r.tipHeight = G.length + s.unstable.mainChain.length - 1 ∧
      (r.nextPage = none ↔ l.length ≤ limit) := by
  have hp := mainChain_pathCtx hinv hU
  obtain ⟨tip, _, htip, _⟩ := mainChain_isRootPath hinv
  have hpre : stablePrefix (Tree.levels CBlock.hash s.unstable.tree) 0 s.unstable.mainChain 0 =
      s.unstable.mainChain := C02.stablePrefix_zero _ _ _
  obtain ⟨r, hr, hu, hn, ht⟩ := getUtxosFromChain_ok hinv a 0 s.unstable.mainChain limit
    (Nat.zero_le _) (by rw [hpre]; exact hp)
  rw [hpre] at hu hn ht
  obtain ⟨_, _, h3, h4⟩ := addressUtxos_path hinv hp a
  refine ⟨resultList s G a s.unstable.mainChain, r, tip, htip, h3, h4,
    (resultList_heights hinv hp a hH).2, hr, hu, (ht tip htip).1, ?_, hn⟩
  rw [(ht tip htip).2, hinv.heightEq]

/-- `get_utxos` with `min_confirmations = c` (first page): the complete answer is the ledger state
    of `a` after the applied prefix of the main chain (`State.stablePrefix`, characterised in C04). -/
theorem getUtxos_minConf {s : State} {G : List Block} (hinv : Inv s G)
    (hU : TxidsUnique (G ++ s.unstable.mainChain.map (·.blk))) (hH : G.length ≤ 2 ^ 32)
    (a : Addr) (c limit : Nat) (hc : c ≤ s.unstable.mainChain.length) :
    let applied := stablePrefix (Tree.levels CBlock.hash s.unstable.tree) c s.unstable.mainChain 0
    ∃ l r, l.Perm (ledgerFor a (G ++ applied.map (·.blk))) ∧
      (l.map (·.outpoint)).Nodup ∧ HeightsDesc l ∧
      s.getUtxos (.ok a) (.minConf c) limit = .ok r ∧
      r.utxos = l.take limit ∧ (r.nextPage = none ↔ l.length ≤ limit) ∧
      (∀ tip, applied.getLast? = some tip →
        r.tipHash = tip.hash ∧ r.tipHeight = G.length + applied.length - 1) := by
  intro applied
  obtain ⟨rest, hrest⟩ := stablePrefix_isPrefix (Tree.levels CBlock.hash s.unstable.tree) c
    s.unstable.mainChain 0
  have hp0 := mainChain_pathCtx hinv hU
  rw [hrest] at hp0
  have hp : PathCtx s G applied := hp0.prefix
  obtain ⟨r, hr, hu, hn, ht⟩ := getUtxosFromChain_ok hinv a c s.unstable.mainChain limit hc hp
  obtain ⟨_, _, h3, h4⟩ := addressUtxos_path hinv hp a
  refine ⟨resultList s G a applied, r, h3, h4, (resultList_heights hinv hp a hH).2, hr, hu, hn, ?_⟩
  intro tip htip
  rw [← hinv.heightEq]
  exact ht tip htip

/-! ### The stable readers under the invariant (item 2, phrased with `Inv`) -/

theorem stable_getUtxo {s : State} {G : List Block} (hinv : Inv s G) (o : OutPoint) :
    s.utxos.getUtxo o = AList.find? (ledger G) o :=
  getUtxo_stable s.utxos (ledger G) hinv.stable o

theorem stable_getBalance {s : State} {G : List Block} (hinv : Inv s G) (a : Addr) :
    s.utxos.getBalance a = some (totalValue (ledgerFor a G)) :=
  getBalance_stable s.utxos (ledger G) hinv.stable a

/-- the stable outpoints of `a`: exactly those of the reference ledger of the stable chain, and
    (via `us`) in an order along which the heights never increase -/
theorem stable_getAddressOutpoints {s : State} {G : List Block} (hinv : Inv s G)
    (hv : TxValid G) (hu : TxidsUnique G) (hH : G.length ≤ 2 ^ 32) (a : Addr) :
    (s.utxos.getAddressOutpoints a none).Perm ((ledgerFor a G).map (·.outpoint)) ∧
    ∃ us : List Utxo, us.map (·.outpoint) = s.utxos.getAddressOutpoints a none ∧
      us.Perm (ledgerFor a G) ∧ HeightsDesc us := by
  have hkeys := ledger_keys_nodup G hv hu
  refine ⟨getAddressOutpoints_perm s.utxos (ledger G) hinv.stable hkeys a, ?_⟩
  apply getAddressOutpoints_sorted s (ledger G) hinv.stable hkeys a
  intro e he
  have := (mem_ledger_iff G hv hu e).mp he
  obtain ⟨i, b, tx, v, t, hb, _, _, _, rfl, _⟩ := this
  have := (List.getElem?_eq_some_iff.mp hb).1
  simp only
  omega

/-! ### Non-vacuity: a concrete state satisfying `Inv` and the extra hypotheses -/

def exUtxos : UtxoSet :=
  { utxos := ledger [exG], index := [⟨[1], 0, ⟨1, 0⟩⟩], balances := [([1], 50)], nextHeight := 1 }

def exCB : CBlock := ⟨exB1, some [0], 3⟩

def exCache : OutPointsCache :=
  { txOuts := [(⟨3, 1⟩, ⟨⟨30, some [2], false⟩, 1, 1⟩), (⟨3, 0⟩, ⟨⟨20, some [1], false⟩, 1, 1⟩),
               (⟨1, 0⟩, ⟨⟨50, some [1], false⟩, 0, 1⟩), (⟨2, 1⟩, ⟨⟨0, none, true⟩, 1, 1⟩),
               (⟨2, 0⟩, ⟨⟨50, some [2], false⟩, 1, 1⟩)],
    added := [(101, [([2], [⟨2, 0⟩, ⟨3, 1⟩]), ([1], [⟨3, 0⟩])])],
    removed := [(101, [([1], [⟨1, 0⟩])])] }

def exU : Unstable :=
  { thr := 2, tree := Tree.leaf exCB, cache := exCache, net := .regtest, tipDepthsCache := [1],
    blockCache := [101] }

/-- the state after ingesting `exG` into the stable set, with `exB1` as the only unstable block -/
def exS : State :=
  { utxos := exUtxos, unstable := exU,
    headers := { byHeight := [(0, 100)], byHash := [(100, ⟨100, 0, 0, 0, ""⟩)] } }

/-- this is the unstable part the model itself builds for that anchor -/
example : (Unstable.new exUtxos 2 exB1 .regtest).map (fun u => (u.cache.txOuts, u.cache.added,
    u.cache.removed, u.tipDepthsCache, u.blockCache, u.tree.blocks.map (·.blk))) =
    some (exCache.txOuts, exCache.added, exCache.removed, [1], [101], [exB1]) := by rfl

theorem exStable : StableIs exUtxos (ledger [exG]) where
  notIngesting := rfl
  utxosNodup := by decide
  utxosEq := fun _ => rfl
  indexNodup := by decide
  indexEq := by
    intro e
    have hl : ledger [exG] = [(⟨1, 0⟩, (⟨50, some [1], false⟩, 0))] := by decide
    rw [hl]
    constructor
    · intro he
      have : e = ⟨[1], 0, ⟨1, 0⟩⟩ := by simpa [exUtxos] using he
      subst this
      exact ⟨⟨50, some [1], false⟩, by decide, rfl⟩
    · rintro ⟨t, hf, ha⟩
      obtain ⟨addr, h, op⟩ := e
      simp only [AList.find?_cons, AList.find?_nil] at hf
      by_cases hop : ((⟨1, 0⟩ : OutPoint) == op) = true
      · simp only [hop, if_true, Option.some.injEq, Prod.mk.injEq] at hf
        obtain ⟨rfl, rfl⟩ := hf
        have hop' : op = ⟨1, 0⟩ := (eq_of_beq hop).symm
        subst hop'
        simp only [Option.some.injEq] at ha
        subst ha
        simp [exUtxos]
      · simp [hop] at hf
  balancesNodup := by decide
  balancesEq := by
    intro a
    have hl : ledger [exG] = [(⟨1, 0⟩, (⟨50, some [1], false⟩, 0))] := by decide
    rw [hl]
    by_cases ha : a = [1]
    · subst ha; decide
    · have h1 : (([1] : Addr) == a) = false := by
        simp only [beq_eq_false_iff_ne, ne_eq]; exact fun h => ha h.symm
      have h2 : ((some [1] : Option Addr) == some a) = false := by
        simp only [beq_eq_false_iff_ne, ne_eq, Option.some.injEq]; exact fun h => ha h.symm
      simp [exUtxos, AList.find?_cons, h1, h2]

theorem exBlocks : exU.tree.blocks = [exCB] := rfl
theorem exHist : [exG] ++ exS.unstable.tree.blocks.map (·.blk) = [exG, exB1] := rfl

theorem beq_some_ne {a b : Addr} (h : a ≠ b) : ((some a : Option Addr) == some b) = false := by
  simp only [beq_eq_false_iff_ne, ne_eq, Option.some.injEq]; exact h

theorem exAdded (a : Addr) : exU.cache.getAdded exCB.hash a = addedSpec exCB.blk a := by
  by_cases h1 : a = [1]
  · subst h1; decide
  · by_cases h2 : a = [2]
    · subst h2; decide
    · have e1 : (([1] : Addr) == a) = false := by simp; exact fun h => h1 h.symm
      have e2 : (([2] : Addr) == a) = false := by simp; exact fun h => h2 h.symm
      have e3 := beq_some_ne (fun h => h1 h.symm : ([1] : Addr) ≠ a)
      have e4 := beq_some_ne (fun h => h2 h.symm : ([2] : Addr) ≠ a)
      have e5 : ((none : Option Addr) == some a) = false := rfl
      have lhs : exU.cache.getAdded exCB.hash a = [] := by
        simp [OutPointsCache.getAdded, exU, exCache, exCB, CBlock.hash, exB1, mkB, AList.find?_cons, e1, e2]
      rw [lhs]
      have n1 : ¬ [1] = a := fun h => h1 h.symm
      have n2 : ¬ [2] = a := fun h => h2 h.symm
      simp [addedSpec, exCB, exB1, mkB, createdBy, List.range, List.range.loop, n1, n2]

theorem exRemoved (a : Addr) :
    exU.cache.getRemoved exCB.hash a = removedSpec [exG, exB1] exCB.blk a := by
  have ho : outAt [exG, exB1] ⟨1, 0⟩ = some ⟨50, some [1], false⟩ := by decide
  by_cases h1 : a = [1]
  · subst h1; decide
  · have e1 : (([1] : Addr) == a) = false := by simp; exact fun h => h1 h.symm
    have e3 := beq_some_ne (fun h => h1 h.symm : ([1] : Addr) ≠ a)
    have lhs : exU.cache.getRemoved exCB.hash a = [] := by
      simp [OutPointsCache.getRemoved, exU, exCache, exCB, CBlock.hash, exB1, mkB, AList.find?_cons, e1]
    rw [lhs]
    have hb : exB1.txs = [⟨2, 0, true, 100, [], [⟨50, some [2], false⟩, ⟨0, none, true⟩]⟩,
        ⟨3, 0, false, 100, [⟨1, 0⟩], [⟨20, some [1], false⟩, ⟨30, some [2], false⟩]⟩] := rfl
    have n1 : ¬ [1] = a := fun h => h1 h.symm
    simp [removedSpec, exCB, hb, ho, n1]

theorem txOuts_ok_of (u : Unstable) (hist : List Block) (o : OutPoint) (info : TxOutInfo)
    (h1 : AList.find? u.cache.txOuts o = some info) (h2 : refCount u.tree o = info.count)
    (h3 : 0 < info.count) (h4 : outAt hist o = some info.txout) :
    (match AList.find? u.cache.txOuts o with
      | none => refCount u.tree o = 0
      | some info => refCount u.tree o = info.count ∧ 0 < info.count ∧ outAt hist o = some info.txout) := by
  rw [h1]; exact ⟨h2, h3, h4⟩

theorem exCaches : CachesExact exU [exG, exB1] where
  added := by
    intro b hb a
    rw [exBlocks, List.mem_singleton] at hb
    subst hb; exact exAdded a
  removed := by
    intro b hb a
    rw [exBlocks, List.mem_singleton] at hb
    subst hb; exact exRemoved a
  addedKeys := by
    intro h
    by_cases hh : h = 101
    · subst hh; decide
    · have e : ((101 : Nat) == h) = false := by simp; omega
      have e' : ¬ (101 : Nat) = h := by omega
      simp [AList.contains, exU, exCache, AList.find?_cons, e, Tree.leaf, Tree.blocks, Tree.blocksList,
        CBlock.hash, exCB, exB1, mkB, hh]
  removedKeys := by
    intro h
    by_cases hh : h = 101
    · subst hh; decide
    · have e : ((101 : Nat) == h) = false := by simp; omega
      have e' : ¬ (101 : Nat) = h := by omega
      simp [AList.contains, exU, exCache, AList.find?_cons, e, Tree.leaf, Tree.blocks, Tree.blocksList,
        CBlock.hash, exCB, exB1, mkB, hh]
  txOutsNodup := by decide
  txOuts := by
    intro o
    by_cases hm : o ∈ exU.cache.txOuts.map (·.1)
    · have hm' : o ∈ [(⟨3, 1⟩ : OutPoint), ⟨3, 0⟩, ⟨1, 0⟩, ⟨2, 1⟩, ⟨2, 0⟩] := hm
      simp only [List.mem_cons, List.not_mem_nil, or_false] at hm'
      rcases hm' with rfl | rfl | rfl | rfl | rfl
      · exact txOuts_ok_of exU [exG, exB1] ⟨3, 1⟩ ⟨⟨30, some [2], false⟩, 1, 1⟩ rfl (by decide) (by decide) (by decide)
      · exact txOuts_ok_of exU [exG, exB1] ⟨3, 0⟩ ⟨⟨20, some [1], false⟩, 1, 1⟩ rfl (by decide) (by decide) (by decide)
      · exact txOuts_ok_of exU [exG, exB1] ⟨1, 0⟩ ⟨⟨50, some [1], false⟩, 0, 1⟩ rfl (by decide) (by decide) (by decide)
      · exact txOuts_ok_of exU [exG, exB1] ⟨2, 1⟩ ⟨⟨0, none, true⟩, 1, 1⟩ rfl (by decide) (by decide) (by decide)
      · exact txOuts_ok_of exU [exG, exB1] ⟨2, 0⟩ ⟨⟨50, some [2], false⟩, 1, 1⟩ rfl (by decide) (by decide) (by decide)
    · rw [(AList.find?_eq_none_iff _ _).mpr hm]
      show List.count o [(⟨2, 0⟩ : OutPoint), ⟨2, 1⟩, ⟨1, 0⟩, ⟨3, 0⟩, ⟨3, 1⟩] = 0
      rw [List.count_eq_zero]
      intro hc
      apply hm
      show o ∈ [(⟨3, 1⟩ : OutPoint), ⟨3, 0⟩, ⟨1, 0⟩, ⟨2, 1⟩, ⟨2, 0⟩]
      simp only [List.mem_cons, List.not_mem_nil, or_false] at hc ⊢
      rcases hc with h | h | h | h | h <;> simp [h]
  blockCache := by
    intro h
    by_cases hh : h = 101
    · subst hh; decide
    · have e' : ¬ (101 : Nat) = h := by omega
      have e'' : ¬ h = 101 := hh
      simp [exU, Tree.leaf, Tree.blocks, Tree.blocksList, CBlock.hash, exCB, exB1, mkB, e'']
  tipDepths := rfl

theorem exInv : Inv exS [exG] where
  heightEq := rfl
  stable := exStable
  linked := by simp [exS, exU, Tree.leaf, Linked, LinkedList]
  rootLinked := by
    show exS.unstable.tree.root.blk.prev = exG.hash
    decide
  hashesNodup := by decide
  caches := exCaches
  txids := by
    show TxidsConsistent [exG, exB1]
    decide
  valid := by
    intro tip p hp
    have : p = [exB1] := by
      unfold pathBlocks at hp
      simp only [exS, exU, Tree.leaf, Tree.chainWithTip, Tree.chainWithTipList] at hp
      split at hp
      · simp at hp; exact hp.symm
      · simp at hp
    subst this
    decide
  stableLinked := by intro i h; simp at h
  headers := by
    intro i h
    have : i = 0 := by simpa using h
    subst this; rfl
  headersOnly := by
    intro i h
    have e : ((0 : Nat) == i) = false := by
      simp only [beq_eq_false_iff_ne, ne_eq]; simp at h; omega
    simp [exS, AList.find?_cons, e]
  headersByHash := by
    intro g hg
    rw [List.mem_singleton] at hg
    subst hg; decide

/-- the extra hypotheses of the C01/C05 theorems hold for the example -/
theorem exUnique : TxidsUnique ([exG] ++ exS.unstable.mainChain.map (·.blk)) := by decide

/-- the theorem applies, and the answer it describes is the one the model computes -/
example : ∃ l r tip, exS.unstable.mainChain.getLast? = some tip ∧
    l.Perm (ledgerFor [2] ([exG] ++ exS.unstable.mainChain.map (·.blk))) ∧
    (l.map (·.outpoint)).Nodup ∧ HeightsDesc l ∧
    exS.getUtxos (.ok [2]) .none_ 10 = .ok r ∧ r.utxos = l.take 10 ∧ r.tipHash = tip.hash ∧
    r.tipHeight = [exG].length + exS.unstable.mainChain.length - 1 ∧
    (r.nextPage = none ↔ l.length ≤ 10) :=
  getUtxos_unfiltered exInv exUnique (by decide) [2] 10

/-- ... and the theorem pins the answer down: address `[1]` had 50 in the stable block, spent
    by the unstable block, which pays it 20 -/
example : ∃ r, exS.getUtxos (.ok [1]) .none_ 10 = .ok r ∧ r.utxos = [⟨1, ⟨3, 0⟩, 20⟩] ∧
    r.tipHash = 101 ∧ r.tipHeight = 1 ∧ r.nextPage = none := by
  obtain ⟨l, r, tip, htip, hperm, _, _, hr, hu, hth, hh, hn⟩ :=
    getUtxos_unfiltered exInv exUnique (by decide) [1] 10
  have hled : ledgerFor [1] ([exG] ++ exS.unstable.mainChain.map (·.blk)) = [⟨1, ⟨3, 0⟩, 20⟩] := by
    decide
  rw [hled] at hperm
  have hl : l = [⟨1, ⟨3, 0⟩, 20⟩] := List.perm_singleton.mp hperm
  subst hl
  have ht : tip = exCB := by
    have : exS.unstable.mainChain.getLast? = some exCB := rfl
    rw [this] at htip
    exact (Option.some.inj htip).symm
  subst ht
  exact ⟨r, hr, by rw [hu]; rfl, hth, hh, hn.mpr (by decide)⟩

end Btc.Props.C01
