import BtcModel.Gen.Constants
import BtcModel.Model.Endpoints

/-
  C14, "every bitcoin_* data endpoint … (send_transaction is exempt from the sync rule) …
  get_config, get_blockchain_info and the metrics endpoint answer regardless": which `verify_*`
  guards each public endpoint calls is a TABLE regenerated from `canister/src/lib.rs` and
  `api/send_transaction.rs` on every run (`Gen.endpointGuards`); the model's endpoints
  (`Model/Endpoints.lean`) take the sync rule from `Endpoint.syncRule`. These theorems tie the two
  and state the rule outright; a change of the code that drops or reorders a guard breaks them.
-/
namespace Btc.Props.GuardTable

open Btc.Gen

/-- the six data endpoints call the three guards, in this order -/
theorem data_endpoints_fully_gated :
    ∀ e ∈ [EndpointName.get_utxos, .get_utxos_query, .get_balance, .get_balance_query,
           .get_block_headers, .get_current_fee_percentiles],
      endpointGuards e = [.apiAccess, .network, .synced] := by decide

/-- `send_transaction` is gated by access flag and network only -/
theorem send_transaction_exempt_from_sync :
    endpointGuards .send_transaction = [.apiAccess, .network] := by decide

/-- `get_config`, `get_blockchain_info` and the metrics endpoint are not gated -/
theorem ungated_endpoints :
    ∀ e ∈ [EndpointName.get_config, .get_blockchain_info, .http_request], endpointGuards e = [] := by decide

/-- the model's endpoint of the same name -/
def modelEndpoint : EndpointName → Option Btc.State.Endpoint
  | .get_utxos => some .getUtxos
  | .get_utxos_query => some .getUtxosQuery
  | .get_balance => some .getBalance
  | .get_balance_query => some .getBalanceQuery
  | .get_block_headers => some .getBlockHeaders
  | .get_current_fee_percentiles => some .getCurrentFeePercentiles
  | .send_transaction => some .sendTransaction
  | _ => none

/-- every modelled endpoint checks access and network first, and the sync rule exactly when the
    code calls `verify_synced` -/
theorem model_guards_match_code (e : EndpointName) (m : Btc.State.Endpoint) (h : modelEndpoint e = some m) :
    (endpointGuards e).take 2 = [.apiAccess, .network] ∧
    (GuardCall.synced ∈ endpointGuards e ↔ m.syncRule = true) := by
  cases e <;> simp [modelEndpoint] at h <;> subst h <;> decide

end Btc.Props.GuardTable
