import BtcModel.Lemmas.MainChain
import BtcModel.Model.Fees

/-!
# C02 — every endpoint serves the heaviest chain and agrees on its tip

`Spec.bestPath d t` is the specification: among all root-to-leaf paths of the tree of unstable
blocks, the one with the greatest accumulated difficulty, ties broken by the number of blocks and
then by arrival order (first in DFS pre-order, children being kept in arrival order).
-/
namespace Btc.Props.C02
open Btc Btc.Tree Btc.Spec

variable {α : Type}

/-- **Algorithm = oracle**: `main_chain_by_difficulty` returns exactly the heaviest branch, for
    every tree shape and every difficulty assignment. -/
theorem mainChain_eq_bestPath (d : α → Nat) (t : Tree α) : mainChain d t = bestPath d t := by
  unfold mainChain
  rw [mainChainInner_eq]
  rfl

/-- The allocation-free twin returns the length of the same branch. -/
theorem mainChainLen_eq_length (d : α → Nat) (t : Tree α) :
    mainChainLen d t = (bestPath d t).length := by
  unfold mainChainLen
  rw [mainChainLenInner_eq, mainChainInner_eq]
  rfl

/-- The heaviest branch starts at the anchor and is never empty. -/
theorem bestPath_head (d : α → Nat) (t : Tree α) : (bestPath d t).head? = some t.root := by
  cases t with
  | node r cs => rw [bestPath_node]; rfl

/-- `get_blockchain_info`: height, hash, timestamp and difficulty are those of the last block
    of the heaviest branch; the height is the stable height plus the branch length minus one. -/
theorem blockchainInfo_describes_best_tip (s : State) :
    let best := bestPath CBlock.diff s.unstable.tree
    let tip := best.getLast?.getD s.unstable.tree.root
    s.blockchainInfo.hash = tip.hash ∧
    s.blockchainInfo.timestamp = tip.blk.time ∧
    s.blockchainInfo.difficulty = tip.blk.diff ∧
    s.blockchainInfo.height = s.utxos.nextHeight + best.length - 1 := by
  simp only [State.blockchainInfo, State.mainChainHeight, Unstable.mainChain,
    mainChain_eq_bestPath, mainChainLen_eq_length]
  exact ⟨trivial, trivial, trivial, by omega⟩

/-- with no confirmation filter the prefix walk keeps the whole chain -/
theorem stablePrefix_zero (levels : List (List (Nat × Nat))) (chain : List CBlock) (i : Nat) :
    State.stablePrefix levels 0 chain i = chain := by
  induction chain generalizing i with
  | nil => rfl
  | cons b bs ih => simp [State.stablePrefix, ih]

/-- Unfiltered `get_utxos` (first page): whenever it answers, it names the last block of the
    heaviest branch, at the height `get_blockchain_info` reports. -/
theorem unfiltered_utxos_name_best_tip (s : State) (a : Addr) (limit : Nat)
    (r : State.UtxosResponse)
    (h : s.getUtxos (.ok a) .none_ limit = .ok r) :
    let best := bestPath CBlock.diff s.unstable.tree
    r.tipHash = (best.getLast?.getD s.unstable.tree.root).hash ∧
    r.tipHeight = s.blockchainInfo.height := by
  have hinfo := (blockchainInfo_describes_best_tip s).2.2.2
  simp only [State.getUtxos, State.getUtxosFromChain, Unstable.mainChain, mainChain_eq_bestPath,
    stablePrefix_zero] at h
  have hne : bestPath CBlock.diff s.unstable.tree ≠ [] := by
    intro hn
    have := bestPath_head CBlock.diff s.unstable.tree
    rw [hn] at this; simp at this
  split at h
  · simp at h
  · rename_i hlen
    cases hl : (bestPath CBlock.diff s.unstable.tree).getLast? with
    | none => simp [List.getLast?_eq_none_iff] at hl; exact absurd hl hne
    | some tip =>
      simp only [hl] at h
      split at h
      · simp at h
      · split at h
        · simp at h
        · simp only [State.QResult.ok.injEq] at h
          subst h
          refine ⟨by rw [hl]; rfl, ?_⟩
          rw [hinfo]

/-- `get_block_headers` without an end height: the reported tip height is the best-chain height
    (capped by the response limit), and the part of the answer at or above the stable height is
    the corresponding slice of the heaviest branch. -/
theorem headers_follow_best_chain (s : State) (maxHeaders start : Nat) (tip : Nat) (hs : List String)
    (h : s.getBlockHeaders maxHeaders start none = .ok (tip, hs)) :
    let best := bestPath CBlock.diff s.unstable.tree
    let sh := s.utxos.nextHeight
    tip = min s.blockchainInfo.height (start + maxHeaders - 1) ∧
    ∃ stablePart, hs = stablePart ++
      (if tip < sh then [] else
        ((best.drop (start - sh)).take (tip - sh + 1 - (start - sh))).map (fun b => b.blk.header)) := by
  have hinfo := (blockchainInfo_describes_best_tip s).2.2.2
  simp only [State.getBlockHeaders, State.effectiveRange, State.mainChainHeight,
    mainChainLen_eq_length, Unstable.mainChain, mainChain_eq_bestPath, State.stableHeight] at h
  split at h
  · simp at h
  · rename_i lo hi heq
    split at heq
    · simp at heq
    · simp only [Except.ok.injEq, Prod.mk.injEq] at heq h
      obtain ⟨rfl, rfl⟩ := heq
      obtain ⟨rfl, rfl⟩ := h
      refine ⟨?_, ⟨_, rfl⟩⟩
      rw [hinfo, Nat.add_comm]

/-- The fee-percentile cache is keyed by the hash of the heaviest branch's tip: a cached answer is
    returned only for that tip. -/
theorem fee_percentiles_keyed_by_best_tip (s : State) (n : Nat) (h : Nat) (p : List Nat)
    (hc : s.feeCache = some (h, p))
    (hk : h = ((bestPath CBlock.diff s.unstable.tree).getLast?.getD s.unstable.tree.root).hash) :
    s.feePercentiles n = some (s, p) := by
  simp only [State.feePercentiles, Unstable.mainChain, mainChain_eq_bestPath, hc, ← hk, if_true]

/-! ### Non-vacuity: a heavy short branch beats a light long branch; exact ties go to the longer
    branch and then to the branch received first. -/

private def ex1 : Tree (Nat × Nat) :=  -- (hash, difficulty)
  .node (0, 1) [.node (1, 1) [.node (2, 1) [.node (3, 1) []]], .node (4, 5) []]

example : (mainChain (·.2) ex1).map (·.1) = [0, 4] := by decide
example : (bestPath (·.2) ex1).map (·.1) = [0, 4] := by decide

private def ex2 : Tree (Nat × Nat) :=
  .node (0, 1) [.node (1, 2) [], .node (2, 1) [.node (3, 1) []], .node (4, 1) [.node (5, 1) []]]

example : (mainChain (·.2) ex2).map (·.1) = [0, 2, 3] := by decide

end Btc.Props.C02
