import BtcModel.Props.FullCor
import BtcModel.Props.FullSysExample

/-!
# Non-vacuity of `Props/FullCor.lean`: the theorems on the schedule of `Props/FullSysExample.lean`

The schedule `msgs = [m1, …, m9]` from `c0` (regtest, threshold 1, genesis `gen`): request,
reply (`b2` + announced `h3`), processing heartbeat, heartbeat that pauses inside `gen` (`cP`),
`get_current_fee_percentiles` while paused, heartbeat that finishes `gen`, request, garbage
reply, processing heartbeat (`cE`: ghost `[gen]`, tree `[b2]`).
-/
namespace Btc.Props.FullCor.Example
open Btc Btc.State Btc.Spec Btc.Spec.Full Btc.Lemmas.FullSys Btc.Lemmas.Reach2 Btc.Lemmas.FullCor
open Btc.Props.FullSys.Example

/-- the configuration after the fifth message (paused, the fee percentiles have been asked) -/
def c5' : Cfg := run c0 (msgs.take 5)
/-- the configuration after the third message: `b2` accepted, nothing ingested -/
def c3' : Cfg := run c0 (msgs.take 3)

theorem reach5 : FullReachable c5'.1 c5'.2 := reachable 5
theorem reach3 : FullReachable c3'.1 c3'.2 := reachable 3

/-! ### 1. C02 -/

/-- in the final configuration the served chain is `[gen, b2]`; `get_blockchain_info` reports the
    tip `b2` at height 1, and `get_balance` is the ledger balance at that chain -/
example : cE.2 ++ (best cE.1.st).map (·.blk) = [gen, b2] ∧
    cE.1.st.blockchainInfo.hash = 2 ∧ cE.1.st.blockchainInfo.height = 1 ∧
    cE.1.st.getBalance (.ok [3]) 0 =
      .ok (totalValue (ledgerFor [3] (cE.2 ++ (best cE.1.st).map (·.blk)))) :=
  ⟨by decide +kernel, by decide +kernel, by decide +kernel, c02_getBalance reachE [3]⟩

/-- the same in the paused configuration `cP` (ghost `[]`, `gen` partially ingested): the tip is
    still `b2` at height 1 -/
example : ∃ tip, (best cP.1.st).getLast? = some tip ∧ cP.1.st.blockchainInfo.hash = tip.hash ∧
    cP.1.st.blockchainInfo.height = cP.2.length + (best cP.1.st).length - 1 := by
  obtain ⟨tip, h1, _, h3, _, _, h6, _⟩ := c02_blockchainInfo reachP
  exact ⟨tip, h1, h3, h6⟩

/-! ### 2. C03 -/

/-- what is observed of the heartbeat `m6` in `c5'`: it ingests, completes and hands `gen` to the
    stable set -/
def hbCheck : HbResult → Bool
  | .ingested s' false => decide (poppedAnchors c5'.1.st s' = [gen])
  | _ => false

theorem hb6 : ∃ s', heartbeatStart m6.1 c5'.1.st 100 = .ingested s' false ∧
    poppedAnchors c5'.1.st s' = [gen] := by
  have h : hbCheck (heartbeatStart m6.1 c5'.1.st 100) = true := by decide +kernel
  cases hh : heartbeatStart m6.1 c5'.1.st 100 with
  | ingested s' p =>
    rw [hh] at h
    cases p with
    | false => exact ⟨s', rfl, by simpa [hbCheck] using h⟩
    | true => simp [hbCheck] at h
  | trap => rw [hh] at h; simp [hbCheck] at h
  | awaiting s' r => rw [hh] at h; simp [hbCheck] at h
  | processed s' => rw [hh] at h; simp [hbCheck] at h

/-- **C03 (b) on the run**: the heartbeat that makes `gen` stable moved the anchor by one `pop`
    decided by the rule, to the second block of the served chain -/
example : ∃ s', heartbeatStart m6.1 c5'.1.st 100 = .ingested s' false ∧
    DecidedSteps m6.1.bound c5'.1.st.unstable [gen] s'.unstable ∧
    (best c5'.1.st)[1]? = some s'.unstable.tree.root ∧
    (c5'.2 ++ [gen]) ++ (best s').map (·.blk) = c5'.2 ++ (best c5'.1.st).map (·.blk) := by
  obtain ⟨s', h, hp⟩ := hb6
  obtain ⟨_, _, h3, h4, h5, _⟩ := c03_heartbeat_advances_by_rule reach5 m6.1 100 s' false h
  rw [hp] at h3 h4 h5
  exact ⟨s', h, h3, h5, h4⟩

/-- **C03 (a) on the run**: `gen`, stable at height 0 after six messages, is the stable block of
    height 0 at the end, and the header store maps height 0 to its hash -/
example : (run (run c0 (msgs.take 6)) (msgs.drop 6)).2[0]? = some gen ∧
    AList.find? (run (run c0 (msgs.take 6)) (msgs.drop 6)).1.st.headers.byHeight 0 = some gen.hash := by
  have ht := (trustedRun_append c0 (msgs.take 6) (msgs.drop 6)).mp trusted
  obtain ⟨h1, _, h3, _⟩ := c03_stable_block_final (c := run c0 (msgs.take 6)) (reachable 6)
    (msgs.drop 6) ht.2 0 gen (by decide +kernel)
  exact ⟨h1, h3⟩

/-! ### 3. C04 -/

/-- `min_confirmations = 1` in the paused configuration `cP` -/
example : ∃ Bk, (buriedPrefix CBlock.hash cP.1.st.unstable.tree 1 (best cP.1.st) 0).getLast? = some Bk ∧
    ∀ r, cP.1.st.getUtxos (.ok [1]) (.minConf 1) 10 = .ok r → r.tipHash = Bk.hash := by
  obtain ⟨_, Bk, h1, h2⟩ := c04_getUtxos_minConf reachP (.ok [1]) 1 10 (by decide) (by decide +kernel)
  exact ⟨Bk, h1, fun r hr => (h2 r hr).1⟩

/-! ### 4. C06 -/

/-- an arbitrary page token in the final configuration: an answer for the named tip or an explicit
    error, never a trap -/
example := c06_page_request_never_traps reachE (.ok [3]) 2 1 ⟨201, 0⟩ 10

/-- the root path to `b2` in the tree of `c3'` and in the tree of `cE` -/
def chain3 : List CBlock × List CBlock :=
  (Tree.chainWithTip CBlock.hash 2 c3'.1.st.unstable.tree).getD ([], [])
def chainE : List CBlock × List CBlock :=
  (Tree.chainWithTip CBlock.hash 2 cE.1.st.unstable.tree).getD ([], [])

/-- **a token issued before `gen` stabilised is still good afterwards** (six messages later):
    `old_token_in_new_state` between `c3'` and `cE = run c3' (msgs.drop 3)` for the tip `b2` -/
example : ∃ all all' : List Utxo,
    all.Perm (ledgerFor [3] (c3'.2 ++ chain3.1.map (·.blk))) ∧
    all'.Perm (ledgerFor [3] (c3'.2 ++ chain3.1.map (·.blk))) ∧
    ∀ x ∈ all, ∃ k' r, all'[k']? = some x ∧
      (run c3' (msgs.drop 3)).1.st.getUtxos (.ok [3]) (.page (some (C06.tokenOf 2 x))) 10 = .ok r ∧
      r.utxos = (all'.drop k').take 10 ∧ r.tipHash = 2 ∧
      r.nextPage = (all'[k' + 10]?).map (C06.tokenOf 2) := by
  have ht := (trustedRun_append c0 (msgs.take 3) (msgs.drop 3)).mp trusted
  have e : run c3' (msgs.drop 3) = cE := by
    show run (run c0 (msgs.take 3)) (msgs.drop 3) = run c0 msgs
    rw [← run_append, List.take_append_drop]
  have eta : ∀ (o : Option (List CBlock × List CBlock)) (p : List CBlock × List CBlock),
      o = some p → o = some (p.1, p.2) := fun _ _ h => h
  have h3' : Tree.chainWithTip CBlock.hash 2 c3'.1.st.unstable.tree = some chain3 :=
    some_of_isSome ([], []) (by decide +kernel)
  have hE' : Tree.chainWithTip CBlock.hash 2 cE.1.st.unstable.tree = some chainE :=
    some_of_isSome ([], []) (by decide +kernel)
  have h3 := eta _ _ h3'
  have hE : Tree.chainWithTip CBlock.hash 2 (run c3' (msgs.drop 3)).1.st.unstable.tree =
      some (chainE.1, chainE.2) := by
    rw [e]; exact eta _ _ hE'
  refine c06_old_token_in_new_state reach3 (msgs.drop 3) ht.2 2 chain3.1 chain3.2 chainE.1 chainE.2
    h3 hE ?_ ?_ ?_ [3] 10
  · rw [e]; decide +kernel
  · rw [e]; decide +kernel
  · rw [e]
    have : cE.2 = [gen] := by decide +kernel
    rw [this]
    intro b hb tx htx
    simp only [List.mem_singleton] at hb
    subst hb
    simp only [gen, List.mem_singleton] at htx
    subst htx
    decide

/-! ### 5. C08 -/

/-- while `gen` is partially ingested: the `get_current_fee_percentiles` call `m5` and a further
    heartbeat without budget change no query answer, the canister stays paused, and the heartbeat
    issues no request -/
example :
    let sched : List (Env × Msg) := [m5, (env 300, .heartbeat 0)]
    Paused (run cP sched).1.st ∧ SameAnswers (run cP sched).1.st cP.1.st ∧
    Fetch.issued (env 300) (run cP (sched.take 1)).1 (.heartbeat 0) = none := by
  intro sched
  have hp : Paused cP.1.st := by decide +kernel
  have ht : TrustedRun cP sched :=
    ⟨trivial, trusted_not_past (by decide +kernel), trivial⟩
  have hg : (run cP sched).2 = cP.2 := by decide +kernel
  obtain ⟨h1, h2⟩ := c08_answers_frozen_while_ingesting sched cP reachP hp ht hg
  exact ⟨h1, h2, (c08_no_request_while_ingesting reachP hp sched ht hg 1 (env 300) 0).2⟩

/-! ### 6. C09 -/

/-- an upgrade in the middle of the sliced ingestion of `gen`: no query answer changes, the
    block is still partially ingested, the next request is an initial one for `gen` and `b2` -/
example : SameAnswers (cP.1.st.upgrade none) cP.1.st ∧ Paused (cP.1.st.upgrade none) ∧
    successorsRequest (cP.1.st.upgrade none) = some (some (.initial 1 [2])) := by
  obtain ⟨_, _, _, _, _, h6, _, _, h9, h10⟩ := c09_upgrade_message reachP (env 204) none
  refine ⟨h6, h9.mpr (by decide +kernel), ?_⟩
  rw [h10]
  decide +kernel

/-! ### 7. C14 / C16 -/

/-- a `get_utxos` call naming another network is refused in the final configuration: nothing
    changes -/
example : stepMsg (env 300) (cE.1, cE.2)
    (.call (.getUtxos { reqNet := .mainnet, available := 0, instructions := 0 })) = (cE.1, cE.2) :=
  (c14_refused_call_no_effect (env 300) cE.1 cE.2 _ .wrongNetwork (by decide +kernel)).2.1

/-- an under-funded `get_balance` call (maximum 10, 5 attached) passes the guard and is refused
    for cycles: nothing changes -/
example :
    let s : State := { dummy with fees := { getBalanceMaximum := 10 } }
    let c : Call := .getBalance { reqNet := .regtest, available := 5, instructions := 0 }
    stepMsg (env 300) ({ st := s, pending := none }, []) (.call c) = ({ st := s, pending := none }, []) := by
  intro s c
  exact (c16_underfunded_call_no_effect (env 300) { st := s, pending := none } [] c
    (by decide +kernel) (Or.inl (by decide))).2.1

end Btc.Props.FullCor.Example
