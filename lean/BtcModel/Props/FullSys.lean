import BtcModel.Lemmas.FullSysFee
import BtcModel.Lemmas.FullSysHeader
import BtcModel.Lemmas.FullSysEmbed
import BtcModel.Props.ReachAll

/-!
# The whole canister, message by message

`Spec/FullSys.lean` defines the transition system of the canister *messages*: heartbeats (with
any ingestion budget), replies of the block source (complete / partial / follow-up / reject,
well-typed or not), endpoint calls, `set_config`, upgrades — executed by the functions of
`Model/Canister.lean` and `Model/Endpoints.lean` (`heartbeatStart`, `heartbeatReply`,
`Fetch.step`, `call*`).  This file ties it to the *direct-feed* system `Spec.step2`
(`Spec/Reach2.lean`), for which the ledger invariant is proved in `Lemmas/Reach2Paused.lean`:

1. **Simulation** (`message_simulation`, and one theorem per kind of message): every message is a
   finite sequence of `Spec.step2` steps, each in its domain (`msgOps`), interleaved with changes
   of fields that `InvAll` / `PausedAt'` do not read (`Frame`).  The frame changes can be dropped
   (`message_simulation_ops`), so the message-level system embeds into `Spec.Reachable2`
   (`embeds_into_direct_feed`).
2. **Main theorem** (`fullReachable_inv`): every configuration reachable by messages satisfies
   the ledger invariant `InvAll`, or is a paused copy `PausedAt'` of a state that does.
3. **Corollaries** for every reachable configuration: C01, C05, C06 (no trap), C07, C20; C13's
   invariant (`fetch_invariant`); `FeeCacheOk` (`fee_never_traps`); and
   **the only trap of a heartbeat is finding F13** (`heartbeat_trap_is_F13`): the assertion of
   `maybe_get_successors_request`, the header validation library, `unstable_blocks::push` and the
   fee percentiles never trap.
4. **Non-vacuity**: a concrete schedule with a concrete decoder (`Props/FullSysExample.lean`).

## The environment assumption (`Spec.Full.Trusted`)

The canister checks the header of a delivered block (C11) and the shape of its body (C12); it
does not check that the transactions spend existing outputs: this is taken on trust from the proof
of work.  `unstable_blocks::push` panics on a block that spends an unknown output.  The single
assumption on the environment (block source + the library decoders `env.dec`) is therefore:

  each time a heartbeat gets past the ingestion part with a complete response stored, for every
  blob `blob` of the response and the state `s` in which `maybe_process_response` examines it:
  `env.dec.block blob = some b → passesValidation env s b = true → PushDomain s G b`;
  and every announced header that passes validation and is stored has a hash that is not the hash
  of an unstable block.

It is a hypothesis of the *step* of `FullReachable`, i.e. it is assumed along the run only, at
the states actually reached (a global form "for all states satisfying the invariant" would not be
satisfiable by a concrete decoder, since block hashes are free fields in the model).
`PushDomain.parent` is not part of the assumption: it follows from validation
(`pushDomain_of_validated`).
-/
namespace Btc.Props.FullSys
open Btc Btc.State Btc.Spec Btc.Spec.Full Btc.Lemmas.Reach Btc.Lemmas.Reach2 Btc.Lemmas.Fetch
open Btc.Lemmas.FullSys Btc.Props.ReachAll

/-! ## 1. Simulation, message kind by message kind -/

/-- **A heartbeat that ingests is the `ingest budget` step** of `Spec.step2` (paused or not), with
    the same ghost update. -/
theorem heartbeat_ingests (env : Env) (sys : Fetch.Sys) (G : List Block) (budget : Nat) (s' : State)
    (p : Bool) (h : heartbeatStart env sys.st budget = .ingested s' p) :
    step2 env.bound (sys.st, G) (.ingest budget) = some (s', G ++ poppedAnchors sys.st s') ∧
    stepMsg env (sys, G) (.heartbeat budget) = ({ sys with st := s' }, G ++ poppedAnchors sys.st s') := by
  constructor
  · rcases heartbeatStart_cases env sys.st budget with h' | ⟨s2, p2, h', hi⟩ | ⟨_, _, _, _, h'⟩ |
        ⟨_, _, _, _, _, h'⟩
    · rw [h'] at h; cases h
    · rw [h'] at h
      cases h
      rw [step2_ingest]
      rcases hi with ⟨_, hi⟩ | ⟨_, hi⟩ <;> rw [hi]
    · rw [h'] at h; cases h
    · rw [h'] at h; cases h
  · simp only [stepMsg, stepSys, stepGhost, Fetch.step, h]

/-- **A heartbeat that processes**: nothing was ingested, no block is partially ingested, and the
    message is the run of `finishOps` (pushes of the accepted blocks, then `insertNext`s of the
    stored headers) interleaved with frame changes (response taken, error counter, fee cache). -/
theorem heartbeat_processes (env : Env) (sys : Fetch.Sys) (G : List Block) (budget : Nat) (s' : State)
    (ht : Trusted env (sys, G) (.heartbeat budget))
    (h : heartbeatStart env sys.st budget = .processed s') :
    sys.st.ingestStable env.bound budget = .done sys.st false ∧ sys.st.utxos.ingesting = none ∧
    FrameRun env.bound (sys.st, G) (finishOps env sys.st) (s', G) ∧
    stepMsg env (sys, G) (.heartbeat budget) = ({ sys with st := s' }, G) := by
  rcases heartbeatStart_cases env sys.st budget with h' | ⟨s2, p2, h', hi⟩ | ⟨_, _, _, _, h'⟩ |
      ⟨hi, hni, _, s2, hfin, h'⟩
  · rw [h'] at h; cases h
  · rw [h'] at h; cases h
  · rw [h'] at h; cases h
  · rw [h'] at h
    cases h
    refine ⟨hi, hni, finish_sim env.bound env sys.st s' G hni (ht (pastIngestion_iff.mpr hi)) hfin, ?_⟩
    simp only [stepMsg, stepSys, stepGhost, Fetch.step, h']

/-- the operations of a heartbeat that processes the complete response `r`: a `push` for every
    block of the accepted prefix, then — if no blob was refused — an `insertNext` for every header
    that is stored -/
theorem finishOps_complete (env : Env) (s : State) (r : CompleteResp)
    (hr : s.syncing.response = some (.complete r)) :
    finishOps env s =
      (acceptedBlocks env { s with syncing := { s.syncing with response := none } } r.blocks).map Op.push ++
        match processBlocks env { s with syncing := { s.syncing with response := none } } r.blocks with
        | some (s1, false) => (insertedHeaders env s1 r.next).map Op.insertNext
        | _ => [] := by
  unfold finishOps
  rw [hr]
  rfl

/-- no complete response stored: a processing heartbeat is no operation at all -/
theorem finishOps_idle (env : Env) (s : State) (hr : ∀ r, s.syncing.response ≠ some (.complete r)) :
    finishOps env s = [] := by
  unfold finishOps
  split
  · rename_i r h; exact absurd h (hr r)
  · rfl

/-- **The block loop, exactly**: the accepted blocks are accepted one on top of the other
    (`C10.acceptAll`, each by `C10.accepted_iff`), and the state the loop leaves is the state after
    them, possibly with one error counter incremented (a refused or undecodable blob changes
    nothing else: `C10.acceptance_is_atomic`). -/
theorem processBlocks_accepted (env : Env) : ∀ (blobs : List String) (s s1 : State) (stopped : Bool),
    processBlocks env s blobs = some (s1, stopped) →
    ∃ s2, C10.acceptAll env s (acceptedBlocks env s blobs) = some s2 ∧
      ((stopped = false ∧ s1 = s2 ∧ blobs.map env.dec.block = (acceptedBlocks env s blobs).map some) ∨
       (stopped = true ∧ (s1 = C10.bumpDeserialize s2 ∨ s1 = C10.bumpInsert s2)))
  | [], s, s1, stopped, h => by
    simp only [processBlocks, Option.some.injEq, Prod.mk.injEq] at h
    obtain ⟨rfl, rfl⟩ := h
    exact ⟨s, rfl, Or.inl ⟨rfl, rfl, rfl⟩⟩
  | blob :: rest, s, s1, stopped, h => by
    rw [C10.processBlocks_cons] at h
    simp only [acceptedBlocks]
    cases hd : env.dec.block blob with
    | none =>
      rw [hd] at h
      simp only [Option.some.injEq, Prod.mk.injEq] at h
      obtain ⟨rfl, rfl⟩ := h
      exact ⟨s, rfl, Or.inr ⟨rfl, Or.inl rfl⟩⟩
    | some b =>
      rw [hd] at h
      simp only at h ⊢
      cases hi : insertBlock env s b with
      | trap => rw [hi] at h; cases h
      | rejected why =>
        rw [hi] at h
        simp only [Option.some.injEq, Prod.mk.injEq] at h
        obtain ⟨rfl, rfl⟩ := h
        exact ⟨s, rfl, Or.inr ⟨rfl, Or.inr rfl⟩⟩
      | ok s' =>
        rw [hi] at h
        simp only at h ⊢
        obtain ⟨s2, h1, h2⟩ := processBlocks_accepted env rest s' s1 stopped h
        refine ⟨s2, by simp only [C10.acceptAll, hi]; exact h1, ?_⟩
        rcases h2 with ⟨e1, e2, e3⟩ | h2
        · exact Or.inl ⟨e1, e2, by simp [hd, e3]⟩
        · exact Or.inr h2

/-- **A heartbeat that sends a request** leaves the ledger part alone (it sets the fetch guard) -/
theorem heartbeat_requests (env : Env) (sys : Fetch.Sys) (G : List Block) (budget : Nat) (s' : State)
    (req : Request) (h : heartbeatStart env sys.st budget = .awaiting s' req) :
    Frame sys.st s' ∧ sys.st.utxos.ingesting = none ∧
    stepMsg env (sys, G) (.heartbeat budget) = ({ st := s', pending := some req }, G) := by
  rcases heartbeatStart_cases env sys.st budget with h' | ⟨s2, p2, h', hi⟩ | ⟨_, hni, _, _, h'⟩ |
      ⟨_, _, _, _, _, h'⟩
  · rw [h'] at h; cases h
  · rw [h'] at h; cases h
  · rw [h'] at h
    cases h
    refine ⟨⟨rfl, rfl, rfl⟩, hni, ?_⟩
    simp only [stepMsg, stepSys, stepGhost, Fetch.step, h']
  · rw [h'] at h; cases h

/-- **A heartbeat that traps** changes nothing (rollback) -/
theorem heartbeat_traps (env : Env) (sys : Fetch.Sys) (G : List Block) (budget : Nat)
    (h : heartbeatStart env sys.st budget = .trap) :
    stepMsg env (sys, G) (.heartbeat budget) = (sys, G) := by
  simp only [stepMsg, stepSys, stepGhost, Fetch.step, h]

/-- **Replies** — delivered to a suspended heartbeat or dropped, of the right type for the request
    or not, trapping in the continuation or not — leave the ledger part and the ghost alone -/
theorem reply_ledger_unchanged (env : Env) (sys : Fetch.Sys) (G : List Block) (r : Reply) :
    Frame sys.st (stepMsg env (sys, G) (.reply r)).1.st ∧ (stepMsg env (sys, G) (.reply r)).2 = G :=
  ⟨reply_frame env sys r, rfl⟩

/-- a reply whose continuation traps leaves only the released guard behind -/
theorem reply_traps (env : Env) (sys : Fetch.Sys) (G : List Block) (r : Reply) (req : Request)
    (hp : sys.pending = some req) (h : heartbeatReply sys.st r = none) :
    stepMsg env (sys, G) (.reply r) = ({ st := replyTrapState sys.st, pending := none }, G) := by
  simp only [stepMsg, stepSys, stepGhost, Fetch.step, hp, h]

/-- **Endpoint calls** leave the ledger part, the ghost, the pending request and the syncing state
    alone (the fee-percentile cache and the `send_transaction` counter may change) -/
theorem call_ledger_unchanged (env : Env) (sys : Fetch.Sys) (G : List Block) (c : Call) :
    Frame sys.st (stepMsg env (sys, G) (.call c)).1.st ∧ (stepMsg env (sys, G) (.call c)).2 = G ∧
    (stepMsg env (sys, G) (.call c)).1.pending = sys.pending ∧
    (stepMsg env (sys, G) (.call c)).1.st.syncing = sys.st.syncing :=
  ⟨callState_frame env sys.st c, rfl, (stepSys_call_fetch env sys c).1, (stepSys_call_fetch env sys c).2⟩

/-- a trapping call changes nothing -/
theorem call_traps_getUtxos (env : Env) (sys : Fetch.Sys) (G : List Block) (r : DataReq) (t : CallTrap)
    (h : callGetUtxos env sys.st r = .trap t) : stepMsg env (sys, G) (.call (.getUtxos r)) = (sys, G) := by
  simp only [stepMsg, stepSys, stepGhost, callState, h, stateAfter]

/-- **`set_config` is the `setConfig` step** -/
theorem setConfig_is_step (env : Env) (sys : Fetch.Sys) (G : List Block) (c : SetConfig) :
    step2 env.bound (sys.st, G) (.setConfig c) =
      some ((stepMsg env (sys, G) (.setConfig c)).1.st, (stepMsg env (sys, G) (.setConfig c)).2) := rfl

/-- **an upgrade is the `upgrade` step** -/
theorem upgrade_is_step (env : Env) (sys : Fetch.Sys) (G : List Block) (c : Option SetConfig) :
    step2 env.bound (sys.st, G) (.upgrade c) =
      some ((stepMsg env (sys, G) (.upgrade c)).1.st, (stepMsg env (sys, G) (.upgrade c)).2) := rfl

/-- **Simulation (every message)**: under the environment assumption for the message, the message
    is the sequence `msgOps` of `Spec.step2` steps, each in its domain `Domain2`, interleaved with
    changes outside the ledger part. -/
theorem message_simulation (env : Env) (c : Cfg) (m : Msg) (ht : Trusted env c m) :
    FrameRun env.bound (c.1.st, c.2) (msgOps env c.1.st m)
      ((stepMsg env c m).1.st, (stepMsg env c m).2) := stepMsg_sim env c m ht

/-- for the messages of the fetch protocol the canister part is `Fetch.step` (the system of C13);
    endpoint calls are invisible to it (`call_ledger_unchanged`) -/
theorem canister_part_is_fetch_step (env : Env) (sys : Fetch.Sys) (m : Msg) (h : ∀ c, m ≠ .call c) :
    stepSys env sys m = Fetch.step env sys (Msg.action m) := stepSys_eq_fetch env sys m h

/-- the ghost only grows -/
theorem ghost_grows (env : Env) (c : Cfg) (m : Msg) (ht : Trusted env c m) :
    c.2 <+: (stepMsg env c m).2 := frameRun_ghost_prefix (stepMsg_sim env c m ht)

/-! ## The environment assumption, decomposed -/

/-- `PushDomain.parent` follows from the canister's own validation -/
theorem parent_of_validated {env : Env} {s : State} {b : Block}
    (h : passesValidation env s b = true) :
    Tree.contains CBlock.hash b.prev s.unstable.tree = true := by
  unfold passesValidation validationContext at h
  unfold Tree.contains
  cases hc : Tree.chainWithTip CBlock.hash (hdrOfBlock b).prev s.unstable.tree with
  | none => rw [hc] at h; cases h
  | some x => exact (show (Tree.chainWithTip CBlock.hash b.prev s.unstable.tree).isSome = true by
      rw [show b.prev = (hdrOfBlock b).prev from rfl, hc]; rfl)

/-- what has to be assumed of a validated block: the four conditions on its hash and its
    transactions -/
theorem pushDomain_of_validated {env : Env} {s : State} {G : List Block} {b : Block}
    (h : passesValidation env s b = true)
    (hfresh : b.hash ∉ (G ++ s.unstable.tree.blocks.map (·.blk)).map (·.hash))
    (hvalid : ∀ p, pathBlocks s.unstable.tree b.prev = some p → TxValid (G ++ p ++ [b]))
    (hunique : ∀ p, pathBlocks s.unstable.tree b.prev = some p → TxidsUnique (G ++ p ++ [b]))
    (hcons : TxidsConsistent (G ++ s.unstable.tree.blocks.map (·.blk) ++ [b])) :
    PushDomain s G b :=
  ⟨hfresh, parent_of_validated h, hvalid, hunique, hcons⟩

/-! ## 2. The main theorem -/

/-- **Every configuration the canister reaches satisfies the ledger invariant.**  For every
    sequence of messages — heartbeats with any budgets, replies of any kind, endpoint calls,
    `set_config`s, upgrades — under the environment assumption: if no block is partially ingested
    the full invariant `InvAll` holds for the ghost `G` (the blocks ingested so far); otherwise the
    state is a paused copy (`PausedAt'`) of a state `s0` that satisfies it. -/
theorem fullReachable_inv {sys : Fetch.Sys} {G : List Block} (h : FullReachable sys G) :
    (¬ Paused sys.st → InvAll sys.st G) ∧
    (Paused sys.st → ∃ s0 A B, InvAll s0 G ∧ PausedAt' s0 sys.st G A B) := by
  rcases fullReachable_inv2 h with hA | ⟨s0, A, B, hA, hP⟩
  · exact ⟨fun _ => hA, fun hp => absurd hp hA.not_paused⟩
  · exact ⟨fun hn => absurd hP.paused hn, fun _ => ⟨s0, A, B, hA, hP⟩⟩

/-- the same for schedules -/
theorem run_inv {c : Cfg} (hr : FullReachable c.1 c.2) (msgs : List (Env × Msg))
    (ht : TrustedRun c msgs) :
    (¬ Paused (run c msgs).1.st → InvAll (run c msgs).1.st (run c msgs).2) ∧
    (Paused (run c msgs).1.st → ∃ s0 A B, InvAll s0 (run c msgs).2 ∧
      PausedAt' s0 (run c msgs).1.st (run c msgs).2 A B) :=
  fullReachable_inv (run_reachable msgs c hr ht)

/-- **Every reachable configuration answers every query as a state satisfying the invariant.** -/
theorem fullReachable_view {sys : Fetch.Sys} {G : List Block} (hr : FullReachable sys G) :
    ∃ s0, InvAll s0 G ∧ SameView sys.st s0 ∧ (¬ Paused sys.st → s0 = sys.st) := by
  rcases fullReachable_inv2 hr with hA | ⟨s0, A, B, hA, hP⟩
  · exact ⟨sys.st, hA, SameView.refl _, fun _ => rfl⟩
  · exact ⟨s0, hA, sameView_of_paused hA hP, fun hn => absurd hP.paused hn⟩

/-- **The message-level system embeds into the direct-feed system.**  If all environments use
    the depth bound `bound`, the ledger part (stable set, unstable blocks, header store) of every
    configuration reachable by messages is the ledger part of a configuration of
    `Spec.Reachable2 bound` with the same ghost: the operations `msgOps` of the messages, executed
    by `Spec.runOps2` without any of the frame changes, are all in their domains
    (`frameRun_runOps2`). -/
theorem embeds_into_direct_feed {bound : Unstable.BoundFn} {sys : Fetch.Sys} {G : List Block}
    (h : FullReachableB bound sys G) :
    FullReachable sys G ∧ ∃ t, Reachable2 bound t G ∧ Frame sys.st t :=
  ⟨FullReachableB.full h, fullReachable_reachable2 h⟩

/-- one message, on a state with the same ledger part: the operations alone -/
theorem message_simulation_ops (env : Env) (c : Cfg) (m : Msg) (ht : Trusted env c m) (t : State)
    (hf : Frame c.1.st t) :
    ∃ t', runOps2 env.bound (t, c.2) (msgOps env c.1.st m) = some (t', (stepMsg env c m).2) ∧
      DomainAll2 env.bound (t, c.2) (msgOps env c.1.st m) ∧ Frame (stepMsg env c m).1.st t' :=
  frameRun_runOps2 (stepMsg_sim env c m ht) t hf

/-! ## 3. Corollaries for every reachable configuration -/

variable {sys : Fetch.Sys} {G : List Block}

/-- **C01**: the unfiltered first-page `get_utxos` answer is the ledger of the address at
    `G ++ best chain` (`C01.getUtxos_unfiltered`), in every reachable configuration, paused or not -/
theorem c01_getUtxos_unfiltered (hr : FullReachable sys G) (hH : G.length ≤ 2 ^ 32) (a : Addr)
    (limit : Nat) :
    ∃ l r tip, sys.st.unstable.mainChain.getLast? = some tip ∧
      l.Perm (ledgerFor a (G ++ sys.st.unstable.mainChain.map (·.blk))) ∧
      (l.map (·.outpoint)).Nodup ∧ C01.HeightsDesc l ∧
      sys.st.getUtxos (.ok a) .none_ limit = .ok r ∧
      r.utxos = l.take limit ∧ r.tipHash = tip.hash ∧
      r.tipHeight = G.length + sys.st.unstable.mainChain.length - 1 ∧
      (r.nextPage = none ↔ l.length ≤ limit) := by
  obtain ⟨s0, hA, hV, _⟩ := fullReachable_view hr
  rw [hV.unstable, hV.getUtxos]
  exact C01.getUtxos_unfiltered hA.invU.inv (InvAll.mainChain_unique hA) hH a limit

/-- **C05**: `get_balance(a, c)` is the sum of the values of the complete
    `get_utxos(a, min_confirmations = c)` answer, and both are the reference ledger of `a` at
    `G ++ counted prefix` -/
theorem c05_balance_eq_sum_of_utxos (hr : FullReachable sys G) (a : Addr) (c limit : Nat)
    (hc : c ≤ sys.st.unstable.mainChain.length) :
    ∃ l r, sys.st.getUtxos (.ok a) (.minConf c) limit = .ok r ∧
      r.utxos = l.take limit ∧ (r.nextPage = none ↔ l.length ≤ limit) ∧
      l.Perm (ledgerFor a (G ++ (C05.counted sys.st c).map (·.blk))) ∧
      sys.st.getBalance (.ok a) c = .ok (totalValue l) := by
  obtain ⟨s0, hA, hV, _⟩ := fullReachable_view hr
  rw [hV.unstable] at hc
  rw [counted_congr hV.unstable, hV.getUtxos, hV.getBalance]
  exact C05.balance_eq_sum_of_utxos hA.invU.inv (InvAll.mainChain_unique hA) a c limit hc

/-- **C07**: `get_block_headers` is the validated slice of the headers of `G` followed by those of
    the unstable main chain -/
theorem c07_getBlockHeaders_spec (hr : FullReachable sys G) (maxHeaders start : Nat)
    (end_ : Option Nat) (hm : 1 ≤ maxHeaders) :
    let tip := (C07.fullBest sys.st G).length - 1
    sys.st.getBlockHeaders maxHeaders start end_ =
      match effectiveRange tip maxHeaders start end_ with
      | .error e => .error e
      | .ok (lo, hi) => .ok (hi, ((C07.fullBest sys.st G).drop lo).take (hi - lo + 1)) := by
  obtain ⟨s0, hA, hV, _⟩ := fullReachable_view hr
  rw [fullBest_congr hV.unstable, hV.getBlockHeaders]
  exact C07.getBlockHeaders_spec hA.invU.inv hA.headers.heights maxHeaders start end_ hm

/-- **C20**: the bookkeeping of the unstable blocks (block cache, per-block address maps, tx-out
    cache, tip-depth cache, announced headers) is exact -/
theorem c20_bookkeeping_exact (hr : FullReachable sys G) :
    Bookkeeping sys.st.unstable sys.st.utxos.nextHeight G := by
  obtain ⟨s0, hA, hV, _⟩ := fullReachable_view hr
  rw [hV.unstable, hV.nextHeight]
  exact bookkeeping_of_invAll hA

/-- the stable height is the number of completely ingested blocks -/
theorem stable_height_eq_ghost (hr : FullReachable sys G) : sys.st.utxos.nextHeight = G.length := by
  obtain ⟨s0, hA, hV, _⟩ := fullReachable_view hr
  rw [hV.nextHeight]; exact hA.invU.inv.heightEq

/-- C06: a page request never traps -/
theorem c06_page_never_traps (hr : FullReachable sys G) (addr : AddrArg) (tip height : Nat)
    (op : OutPoint) (limit : Nat) :
    (∃ r, sys.st.getUtxos addr (.page (some (tip, height, op))) limit = .ok r ∧ r.tipHash = tip) ∨
    (sys.st.getUtxos addr (.page (some (tip, height, op))) limit = .err (.unknownTipBlockHash tip) ∧
      tip ∉ sys.st.unstable.tree.blocks.map CBlock.hash) ∨
    (sys.st.getUtxos addr (.page (some (tip, height, op))) limit = .err .malformedAddress ∧
      addr = .malformed) ∨
    (sys.st.getUtxos addr (.page (some (tip, height, op))) limit = .err .wrongNetwork ∧
      addr = .wrongNetwork) := by
  obtain ⟨s0, hA, hV, _⟩ := fullReachable_view hr
  rw [hV.unstable, hV.getUtxos]
  exact C06.page_never_traps hA.invU.inv (InvAll.allPathsUnique hA) addr tip height op limit

/-! ### Which traps of the heartbeat remain -/

/-- **No heartbeat traps in the ingestion part, except for finding F13**: if
    `ingest_stable_blocks_into_utxoset` traps in a reachable configuration, a block is partially
    ingested and its anchor is no longer stable (the threshold was raised, or the depth bound
    changed, since the ingestion of the block began). -/
theorem ingestion_trap_is_F13 (hr : FullReachable sys G) (bound : Unstable.BoundFn) (budget : Nat)
    (m : String) (h : sys.st.ingestStable bound budget = .trap m) :
    Paused sys.st ∧ ∃ s0 A B, InvAll s0 G ∧ PausedAt' s0 sys.st G A B ∧
      Unstable.peek bound s0.unstable = none := by
  rcases fullReachable_inv2 hr with hA | ⟨s0, A, B, hA, hP⟩
  · exact absurd h (ingest_no_trap_clean bound hA budget m)
  · exact ⟨hP.paused, s0, A, B, hA, hP, ingest_trap_paused bound hA hP budget m h⟩

/-- **The header validation library never traps on the canister's own header store**: in a
    state satisfying the invariant, for a header `h` whose `ValidationContext` exists (the unstable
    chain to its parent, `chain`), `validate_header` returns `Ok` or an error, never panics
    ("Last adjustment header must exist" / "previous header should be in the header store"). -/
theorem header_validation_never_traps (hr : FullReachable sys G) (hn : ¬ Paused sys.st)
    (h : Header.Hdr) (chain : List Header.Hdr) (now : Nat)
    (hc : validationContext sys.st h = .ok chain ∨ validationContextWithNext sys.st h = .ok chain) :
    Header.validateHeader sys.st.network (validationStore sys.st chain) h now ≠ .trap := by
  have hA := (fullReachable_inv hr).1 hn
  rcases hc with hc | hc
  · obtain ⟨h1, x, hx, he⟩ := chainOk_validationContext hA.invU.inv hc
    exact validateHeader_no_trap hA.invU.inv h1 h (getLast?_mem_hash hx he) _ now
  · obtain ⟨h1, hlast⟩ := chainOk_validationContextWithNext hA.invU.inv hA.next.ok hc
    exact validateHeader_no_trap hA.invU.inv h1 h hlast _ now

/-- **`maybe_process_response` never traps**: under the environment assumption neither the header
    validation library nor `unstable_blocks::push` (`insert_block`'s `expect`) fails, on no block
    of the response and on no announced header. -/
theorem processResponse_never_traps (hr : FullReachable sys G) (env : Env) (budget : Nat)
    (ht : Trusted env (sys, G) (.heartbeat budget))
    (hi : sys.st.ingestStable env.bound budget = .done sys.st false) :
    processResponse env sys.st ≠ none := by
  have hni := (ingestStable_done_false' hi).2
  have hA : InvAll sys.st G := (fullReachable_inv hr).1 (by simp [Paused, hni])
  have ht' := ht (pastIngestion_iff.mpr hi)
  intro hp
  unfold processResponse at hp
  cases hresp : sys.st.syncing.response with
  | none => rw [hresp] at hp; cases hp
  | some resp =>
    rw [hresp] at hp
    cases resp with
    | partial_ p k => cases hp
    | complete r =>
      simp only at hp
      obtain ⟨ht1, ht2⟩ := ht' r hresp
      simp only at ht1 ht2
      have hA0 := invAll_frame (clearResponse_frame sys.st) hA
      cases hb : processBlocks env
          { sys.st with syncing := { sys.st.syncing with response := none } } r.blocks with
      | none => exact processBlocks_ne_none env G r.blocks _ hA0 ht1 hb
      | some x =>
        obtain ⟨s1, stopped⟩ := x
        rw [hb] at hp
        cases stopped with
        | true => cases hp
        | false =>
          simp only at hp
          have hrun := processBlocks_sim env.bound env G r.blocks
            { sys.st with syncing := { sys.st.syncing with response := none } } s1 false hni ht1 hb
          have h2 := frameRun_inv2 hrun (Or.inl hA0)
          have hu := processBlocks_utxos env r.blocks
            { sys.st with syncing := { sys.st.syncing with response := none } } s1 false hb
          have hA1 : InvAll s1 G := by
            rcases h2 with hA1 | ⟨s0, A, B, _, hP⟩
            · exact hA1
            · obtain ⟨ing, hi', _⟩ := hP.ingesting
              rw [show s1.utxos = sys.st.utxos from hu, hni] at hi'
              cases hi'
          exact insertNextHeaders_ne_none env G r.next s1 hA1 (ht2 s1 hb) hp

/-- **C13's invariant along every message sequence** (well-typed replies or not): the fetch guard
    is held exactly while a request is outstanding, a stored partial response still expects a
    page, the pending request agrees with the stored response.  In particular the assertion of
    `maybe_get_successors_request` never fails. -/
theorem fetch_invariant (hr : FullReachable sys G) :
    C13.Inv sys ∧ fetchDecision sys.st ≠ none :=
  ⟨fullReachable_fetchInv hr, fetchDecision_ne_none hr⟩

/-- **`FeeCacheOk` along every message sequence**, and hence: the fee-percentile computation never
    traps, in no reachable configuration (paused or not) -/
theorem fee_never_traps (hr : FullReachable sys G) (n : Nat) :
    FeeCacheOk sys.st G ∧ (sys.st.feePercentiles n).isSome = true :=
  ⟨(fullReachable_fee hr).2, feePercentiles_isSome hr n⟩

/-- `get_current_fee_percentiles` traps only in its guards and its cycles check -/
theorem callFeePercentiles_traps (hr : FullReachable sys G) (env : Env) (r : DataReq) (t : CallTrap)
    (h : callFeePercentiles env sys.st r = .trap t) : (∃ g, t = .refused g) ∨ t = .cycles := by
  unfold callFeePercentiles at h
  split at h
  · cases h; exact Or.inl ⟨_, rfl⟩
  · split at h
    · cases h; exact Or.inr rfl
    · split at h
      · rename_i hq
        have := feePercentiles_isSome hr env.numTransactions
        rw [hq] at this; cases this
      · cases h

/-- **The only trap of a heartbeat is finding F13.**  In a reachable configuration, under the
    environment assumption, a heartbeat traps only if a block is partially ingested and its anchor
    is no longer stable (the stability threshold was raised by `set_config` / an upgrade, or the
    depth bound changed, since the ingestion of the block began).  Nothing else traps: not the
    rest of the ingestion, not the assertion of `maybe_get_successors_request`
    (`fetch_invariant`), not the header validation library (`header_validation_never_traps`), not
    `unstable_blocks::push` (excluded by the environment assumption), not the fee percentiles
    (`fee_never_traps`). -/
theorem heartbeat_trap_is_F13 (hr : FullReachable sys G) (env : Env) (budget : Nat)
    (ht : Trusted env (sys, G) (.heartbeat budget))
    (h : heartbeatStart env sys.st budget = .trap) :
    Paused sys.st ∧ ∃ s0 A B, InvAll s0 G ∧ PausedAt' s0 sys.st G A B ∧
      Unstable.peek env.bound s0.unstable = none := by
  rw [heartbeatStart_eq] at h
  cases hi : sys.st.ingestStable env.bound budget with
  | trap m => exact ingestion_trap_is_F13 hr env.bound budget m hi
  | paused s' => rw [hi] at h; cases h
  | done s' w =>
    rw [hi] at h
    cases w with
    | true => cases h
    | false =>
      exfalso
      simp only at h
      obtain ⟨rfl, hni⟩ := ingestStable_done_false' hi
      unfold afterIngest at h
      cases hf : fetchDecision sys.st with
      | none => exact fetchDecision_ne_none hr hf
      | some o =>
        rw [hf] at h
        cases o with
        | some req => cases h
        | none =>
          simp only at h
          unfold finish at h
          cases hp : processResponse env sys.st with
          | none => exact processResponse_never_traps hr env budget ht hi hp
          | some s2 =>
            rw [hp] at h
            simp only at h
            have hfee := heartbeat_fee_isSome hr env budget ht hi s2 hp env.numTransactions
            cases hl : s2.lazyFees with
            | true => rw [hl] at h; cases h
            | false =>
              rw [hl] at h
              simp only [Bool.false_eq_true, if_false] at h
              cases hq : s2.feePercentiles env.numTransactions with
              | none => rw [hq] at hfee; cases hfee
              | some x => rw [hq] at h; cases h

/-- **While no block is partially ingested, no heartbeat ever traps.** -/
theorem heartbeat_never_traps_unpaused (hr : FullReachable sys G) (hn : ¬ Paused sys.st) (env : Env)
    (budget : Nat) (ht : Trusted env (sys, G) (.heartbeat budget)) :
    heartbeatStart env sys.st budget ≠ .trap :=
  fun h => hn (heartbeat_trap_is_F13 hr env budget ht h).1

end Btc.Props.FullSys
