import BtcModel.Lemmas.JsonParse
import BtcModel.Lemmas.JsonObs
import BtcModel.Props.C18

/-!
# The JSON parser inside the C18 model

`Model/Json.lean` models `String::from_utf8` + `serde_json::from_str::<Value>` on the body BYTES
(`Btc.Json.parse`, validated against the real library by the `#guard` vectors of
`Model/JsonTest*.lean`). This file proves, about that executable parser:

* (a) a body that is not valid UTF-8 is rejected; every sequence of encoded scalar values is valid;
* (b) whitespace insensitivity: every text of a value `v` (`textOf`: any whitespace at every place the
  grammar allows) parses to `normalize v` -- or to nothing when `v` is nested deeper than 127;
* (c) round trip for the compact rendering `render`;
* (d) the stored members do not depend on the source order of members with distinct keys, and no
  extraction path can tell the stored (sorted, de-duplicated) members from the source members with
  last-wins lookup;

and combines them with `Props/C18.lean` into END-TO-END theorems about
`transform parseModel ep r` where `r.body` is a byte string: nothing about the parser is assumed
any more (C18's `ParserWF` hypothesis is discharged by `parserWF_parseModel`).

What remains trusted: that `Btc.Json.parse` is `serde_json` (the vectors), and one stated limit of the
model (`i32` wrap-around of serde_json's exponent bookkeeping, unreachable below 2^31 digits).
-/
namespace Btc.Props.Json
open Btc.Json Btc.Transform

/-- every slot of the whitespace choice holds JSON whitespace only -/
def WsOK (w : WsChoice) : Prop := ∀ p s, AllWs (w p s)

theorem wsOK_noWs : WsOK noWs := allWs_noWs

/-- A text of the value `v`: whitespace `pre` / `post` around it and `w` inside it. -/
def textOf (w : WsChoice) (pre post : List Nat) (v : JVal) : List Nat :=
  pre ++ (renderWs w [] v ++ post)

theorem textOf_noWs (v : JVal) : textOf noWs [] [] v = render v := by
  simp [textOf, render]

/-! ## (a) UTF-8 -/

/-- `String::from_utf8` fails ⇒ no value (the transform then leaves the body empty). -/
theorem parse_eq_none_of_not_utf8 {b : List Nat} (h : utf8Valid b = false) : parse b = none := by
  simp [parse, h]

theorem parseModel_eq_none_of_not_utf8 {b : List Nat} (h : utf8Valid b = false) :
    parseModel b = none := by
  simp [parseModel, parse_eq_none_of_not_utf8 h]

/-- Unicode scalar value: below `110000` and not a surrogate -/
def IsScalar (n : Nat) : Prop := n < 1114112 ∧ ¬ (55296 ≤ n ∧ n ≤ 57343)

theorem utf8Go_ascii {b : Nat} (h : b < 128) (lo hi : Nat) (bs : List Nat) :
    utf8Go 0 lo hi (b :: bs) = utf8Go 0 128 191 bs := by
  simp [utf8Go, h]

theorem utf8Go_lead2 {b : Nat} (h : 194 ≤ b ∧ b ≤ 223) (lo hi : Nat) (bs : List Nat) :
    utf8Go 0 lo hi (b :: bs) = utf8Go 1 128 191 bs := by
  have h1 : ¬ b < 128 := by omega
  simp [utf8Go, h1, h]

theorem utf8Go_lead3 {b : Nat} (h : 224 ≤ b ∧ b ≤ 239) (lo hi : Nat) (bs : List Nat) :
    utf8Go 0 lo hi (b :: bs) =
      utf8Go 2 (if b = 224 then 160 else 128) (if b = 237 then 159 else 191) bs := by
  have : b = 224 ∨ b = 225 ∨ b = 226 ∨ b = 227 ∨ b = 228 ∨ b = 229 ∨ b = 230 ∨ b = 231 ∨
      b = 232 ∨ b = 233 ∨ b = 234 ∨ b = 235 ∨ b = 236 ∨ b = 237 ∨ b = 238 ∨ b = 239 := by omega
  rcases this with rfl | rfl | rfl | rfl | rfl | rfl | rfl | rfl | rfl | rfl | rfl | rfl | rfl |
    rfl | rfl | rfl <;> rfl

theorem utf8Go_lead4 {b : Nat} (h : 240 ≤ b ∧ b ≤ 244) (lo hi : Nat) (bs : List Nat) :
    utf8Go 0 lo hi (b :: bs) =
      utf8Go 3 (if b = 240 then 144 else 128) (if b = 244 then 143 else 191) bs := by
  have : b = 240 ∨ b = 241 ∨ b = 242 ∨ b = 243 ∨ b = 244 := by omega
  rcases this with rfl | rfl | rfl | rfl | rfl <;> rfl

theorem utf8Go_cont {n lo hi b : Nat} (h : lo ≤ b ∧ b ≤ hi) (bs : List Nat) :
    utf8Go (n + 1) lo hi (b :: bs) = utf8Go n 128 191 bs := by
  simp [utf8Go, h]

/-- the encoding of one scalar value takes the validator from a boundary to a boundary -/
theorem utf8Go_utf8Enc {n : Nat} (h : IsScalar n) (X : List Nat) :
    utf8Go 0 128 191 (utf8Enc n ++ X) = utf8Go 0 128 191 X := by
  obtain ⟨h1, h2⟩ := h
  unfold utf8Enc
  split
  · next hn => exact utf8Go_ascii hn _ _ _
  split
  · next hn1 hn2 =>
    simp only [List.cons_append, List.nil_append]
    rw [utf8Go_lead2 (by omega), utf8Go_cont (by omega)]
  split
  · next hn1 hn2 hn3 =>
    simp only [List.cons_append, List.nil_append]
    have hc : (if 224 + n / 4096 = 224 then 160 else 128) ≤ 128 + n / 64 % 64 ∧
        128 + n / 64 % 64 ≤ (if 224 + n / 4096 = 237 then 159 else 191) := by
      split <;> split <;> omega
    rw [utf8Go_lead3 (by omega), utf8Go_cont hc, utf8Go_cont (by omega)]
  · next hn1 hn2 hn3 =>
    simp only [List.cons_append, List.nil_append]
    have hc : (if 240 + n / 262144 = 240 then 144 else 128) ≤ 128 + n / 4096 % 64 ∧
        128 + n / 4096 % 64 ≤ (if 240 + n / 262144 = 244 then 143 else 191) := by
      split <;> split <;> omega
    rw [utf8Go_lead4 (by omega), utf8Go_cont hc, utf8Go_cont (by omega), utf8Go_cont (by omega)]

/-- every sequence of encoded Unicode scalar values is accepted by `utf8Valid` -/
theorem utf8Valid_encode (cps : List Nat) (h : ∀ n ∈ cps, IsScalar n) :
    utf8Valid (cps.flatMap utf8Enc) = true := by
  unfold utf8Valid
  induction cps with
  | nil => rfl
  | cons n cps ih =>
    rw [List.flatMap_cons, utf8Go_utf8Enc (h n (List.mem_cons_self ..))]
    exact ih (fun m hm => h m (List.mem_cons_of_mem _ hm))

theorem utf8Go_cont_inv {k lo hi : Nat} {bs : List Nat} (h : utf8Go (k + 1) lo hi bs = true) :
    ∃ c r, bs = c :: r ∧ lo ≤ c ∧ c ≤ hi ∧ utf8Go k 128 191 r = true := by
  cases bs with
  | nil => simp [utf8Go] at h
  | cons c r =>
    simp only [utf8Go] at h
    split at h
    · next hc =>
      have hc' : lo ≤ c ∧ c ≤ hi := by simpa using hc
      exact ⟨c, r, rfl, hc'.1, hc'.2, h⟩
    · cases h

/-- conversely, every byte string accepted by `utf8Valid` is a sequence of encoded scalar values:
    `utf8Valid` is exactly well-formed UTF-8 -/
theorem utf8Go_decode : ∀ bs : List Nat, utf8Go 0 128 191 bs = true →
    ∃ cps : List Nat, (∀ n ∈ cps, IsScalar n) ∧ bs = cps.flatMap utf8Enc
  | [], _ => ⟨[], by simp, rfl⟩
  | b :: rest, h => by
    by_cases h1 : b < 128
    · rw [utf8Go_ascii h1] at h
      obtain ⟨cps, hs, he⟩ := utf8Go_decode rest h
      refine ⟨b :: cps, ?_, ?_⟩
      · intro n hn
        rcases List.mem_cons.mp hn with hn | hn
        · rw [hn]; exact ⟨by omega, by omega⟩
        · exact hs n hn
      · simp [List.flatMap_cons, utf8Enc, h1, he]
    by_cases h2 : 194 ≤ b ∧ b ≤ 223
    · rw [utf8Go_lead2 h2] at h
      obtain ⟨c1, r, rfl, l1, u1, h⟩ := utf8Go_cont_inv h
      obtain ⟨cps, hs, he⟩ := utf8Go_decode r h
      refine ⟨((b - 192) * 64 + (c1 - 128)) :: cps, ?_, ?_⟩
      · intro n hn
        rcases List.mem_cons.mp hn with hn | hn
        · rw [hn]; exact ⟨by omega, by omega⟩
        · exact hs n hn
      · have e : utf8Enc ((b - 192) * 64 + (c1 - 128)) = [b, c1] := by
          unfold utf8Enc
          rw [if_neg (by omega), if_pos (by omega)]
          have e1 : 192 + ((b - 192) * 64 + (c1 - 128)) / 64 = b := by omega
          have e2 : 128 + ((b - 192) * 64 + (c1 - 128)) % 64 = c1 := by omega
          rw [e1, e2]
        simp [List.flatMap_cons, e, he]
    by_cases h3 : 224 ≤ b ∧ b ≤ 239
    · rw [utf8Go_lead3 h3] at h
      obtain ⟨c1, r1, rfl, l1, u1, h⟩ := utf8Go_cont_inv h
      obtain ⟨c2, r, rfl, l2, u2, h⟩ := utf8Go_cont_inv h
      obtain ⟨cps, hs, he⟩ := utf8Go_decode r h
      have l1' : 128 ≤ c1 ∧ (b = 224 → 160 ≤ c1) := by
        split at l1 <;> omega
      have u1' : c1 ≤ 191 ∧ (b = 237 → c1 ≤ 159) := by
        split at u1 <;> omega
      refine ⟨((b - 224) * 4096 + (c1 - 128) * 64 + (c2 - 128)) :: cps, ?_, ?_⟩
      · intro n hn
        rcases List.mem_cons.mp hn with hn | hn
        · rw [hn]; exact ⟨by omega, by omega⟩
        · exact hs n hn
      · have e : utf8Enc ((b - 224) * 4096 + (c1 - 128) * 64 + (c2 - 128)) = [b, c1, c2] := by
          unfold utf8Enc
          rw [if_neg (by omega), if_neg (by omega), if_pos (by omega)]
          have e1 : 224 + ((b - 224) * 4096 + (c1 - 128) * 64 + (c2 - 128)) / 4096 = b := by omega
          have e2 : 128 + ((b - 224) * 4096 + (c1 - 128) * 64 + (c2 - 128)) / 64 % 64 = c1 := by
            omega
          have e3 : 128 + ((b - 224) * 4096 + (c1 - 128) * 64 + (c2 - 128)) % 64 = c2 := by omega
          rw [e1, e2, e3]
        simp [List.flatMap_cons, e, he]
    by_cases h4 : 240 ≤ b ∧ b ≤ 244
    · rw [utf8Go_lead4 h4] at h
      obtain ⟨c1, r1, rfl, l1, u1, h⟩ := utf8Go_cont_inv h
      obtain ⟨c2, r2, rfl, l2, u2, h⟩ := utf8Go_cont_inv h
      obtain ⟨c3, r, rfl, l3, u3, h⟩ := utf8Go_cont_inv h
      obtain ⟨cps, hs, he⟩ := utf8Go_decode r h
      have l1' : 128 ≤ c1 ∧ (b = 240 → 144 ≤ c1) := by
        split at l1 <;> omega
      have u1' : c1 ≤ 191 ∧ (b = 244 → c1 ≤ 143) := by
        split at u1 <;> omega
      refine ⟨((b - 240) * 262144 + (c1 - 128) * 4096 + (c2 - 128) * 64 + (c3 - 128)) :: cps,
        ?_, ?_⟩
      · intro n hn
        rcases List.mem_cons.mp hn with hn | hn
        · rw [hn]; exact ⟨by omega, by omega⟩
        · exact hs n hn
      · have e : utf8Enc ((b - 240) * 262144 + (c1 - 128) * 4096 + (c2 - 128) * 64 + (c3 - 128)) =
            [b, c1, c2, c3] := by
          unfold utf8Enc
          rw [if_neg (by omega), if_neg (by omega), if_neg (by omega)]
          have e1 : 240 + ((b - 240) * 262144 + (c1 - 128) * 4096 + (c2 - 128) * 64 + (c3 - 128)) /
              262144 = b := by omega
          have e2 : 128 + ((b - 240) * 262144 + (c1 - 128) * 4096 + (c2 - 128) * 64 + (c3 - 128)) /
              4096 % 64 = c1 := by omega
          have e3 : 128 + ((b - 240) * 262144 + (c1 - 128) * 4096 + (c2 - 128) * 64 + (c3 - 128)) /
              64 % 64 = c2 := by omega
          have e4 : 128 + ((b - 240) * 262144 + (c1 - 128) * 4096 + (c2 - 128) * 64 + (c3 - 128)) %
              64 = c3 := by omega
          rw [e1, e2, e3, e4]
        simp [List.flatMap_cons, e, he]
    · exfalso
      have : utf8Go 0 128 191 (b :: rest) = false := by
        have a1 : ¬ (194 ≤ b ∧ b ≤ 223) := h2
        have a2 : b ≠ 224 := by omega
        have a3 : ¬ ((225 ≤ b ∧ b ≤ 236) ∨ b = 238 ∨ b = 239) := by omega
        have a4 : b ≠ 237 := by omega
        have a5 : b ≠ 240 := by omega
        have a6 : ¬ (241 ≤ b ∧ b ≤ 243) := by omega
        have a7 : b ≠ 244 := by omega
        simp [utf8Go, h1, a1, a2, a4, a5, a6, a7]
        omega
      rw [this] at h; cases h
termination_by bs => bs.length

/-- **`utf8Valid` is exactly well-formed UTF-8**: the concatenation of the encodings of Unicode
    scalar values (so no overlong forms, no surrogates, nothing above `10FFFF`, nothing truncated). -/
theorem utf8Valid_iff (bs : List Nat) :
    utf8Valid bs = true ↔ ∃ cps : List Nat, (∀ n ∈ cps, IsScalar n) ∧ bs = cps.flatMap utf8Enc := by
  constructor
  · exact utf8Go_decode bs
  · rintro ⟨cps, hs, rfl⟩
    exact utf8Valid_encode cps hs

/-- overlong forms, surrogates, values above `10FFFF`, truncated and stray bytes are rejected -/
theorem utf8Valid_rejects :
    utf8Valid [192, 128] = false ∧ utf8Valid [193, 191] = false ∧
    utf8Valid [224, 128, 128] = false ∧ utf8Valid [224, 159, 191] = false ∧
    utf8Valid [240, 128, 128, 128] = false ∧ utf8Valid [240, 143, 191, 191] = false ∧
    utf8Valid [237, 160, 128] = false ∧ utf8Valid [237, 191, 191] = false ∧
    utf8Valid [244, 144, 128, 128] = false ∧ utf8Valid [245, 128, 128, 128] = false ∧
    utf8Valid [194] = false ∧ utf8Valid [226, 130] = false ∧ utf8Valid [240, 159, 152] = false ∧
    utf8Valid [128] = false ∧ utf8Valid [255] = false ∧ utf8Valid [97, 195, 98] = false := by
  decide

/-- a byte string accepted by `utf8Valid` consists of bytes -/
theorem lt_256_of_utf8Valid {s : List Nat} (h : utf8Valid s = true) : ∀ b ∈ s, b < 256 :=
  Btc.Json.lt_256_of_utf8Valid h

/-! ## (b) whitespace insensitivity, (c) round trip -/

/-- **Whitespace insensitivity.** Every text of a well-formed value parses to the same result,
    whatever whitespace is chosen: `normalize v`, or nothing if `v` is nested deeper than 127
    (serde_json's recursion limit). -/
theorem parse_textOf (w : WsChoice) (hw : WsOK w) {pre post : List Nat} (hpre : AllWs pre)
    (hpost : AllWs post) (v : JVal) (hv : v.WF = true) :
    parse (textOf w pre post v) = if depthOf v < 128 then some (normalize v) else none :=
  parse_renderWs w hw v hv hpre hpost

theorem parse_whitespace_irrelevant (w₁ w₂ : WsChoice) (h₁ : WsOK w₁) (h₂ : WsOK w₂)
    {pre₁ post₁ pre₂ post₂ : List Nat} (hp₁ : AllWs pre₁) (hq₁ : AllWs post₁) (hp₂ : AllWs pre₂)
    (hq₂ : AllWs post₂) (v : JVal) (hv : v.WF = true) :
    parse (textOf w₁ pre₁ post₁ v) = parse (textOf w₂ pre₂ post₂ v) := by
  rw [parse_textOf w₁ h₁ hp₁ hq₁ v hv, parse_textOf w₂ h₂ hp₂ hq₂ v hv]

/-- **Round trip** of the compact rendering. -/
theorem parse_render (v : JVal) (hv : v.WF = true) (hd : depthOf v < 128) :
    parse (render v) = some (normalize v) := by
  rw [← textOf_noWs, parse_textOf noWs wsOK_noWs AllWs.nil AllWs.nil v hv, if_pos hd]

theorem parse_render_too_deep (v : JVal) (hv : v.WF = true) (hd : 128 ≤ depthOf v) :
    parse (render v) = none := by
  rw [← textOf_noWs, parse_textOf noWs wsOK_noWs AllWs.nil AllWs.nil v hv, if_neg (by omega)]

/-- `normalize` is a projection: the parser's results are exactly the values it fixes. -/
theorem normalize_idem (v : JVal) : normalize (normalize v) = normalize v :=
  Btc.Json.normalize_idem v

/-- **Canonical form.** The compact rendering of what the parser returned for a text of `v` parses
    to itself: `parse ∘ render` is the identity on parser results. -/
theorem parse_render_normalize (v : JVal) (hv : v.WF = true) (hd : depthOf v < 128) :
    parse (render (normalize v)) = some (normalize v) := by
  rw [parse_render (normalize v) (WF_normalize v hv)
    (Nat.lt_of_le_of_lt (depthOf_normalize_le v) hd), normalize_idem]

theorem parse_render_of_parse_textOf (w : WsChoice) (hw : WsOK w) {pre post : List Nat}
    (hpre : AllWs pre) (hpost : AllWs post) (v : JVal) (hv : v.WF = true) {u : JVal}
    (h : parse (textOf w pre post v) = some u) : parse (render u) = some u := by
  rw [parse_textOf w hw hpre hpost v hv] at h
  split at h
  · next hd => cases h; exact parse_render_normalize v hv hd
  · cases h

/-- the same below the UTF-8 check and with an arbitrary continuation `rest` of the input: the
    value parser consumes exactly the text of the value -/
theorem parseValue_text (w : WsChoice) (hw : WsOK w) (v : JVal) (hv : v.WF = true) (p : List Nat)
    (fuel depth : Nat) {pre : List Nat} (hpre : AllWs pre) {rest : List Nat}
    (hrest : numDelim rest = true) (hd : 1 ≤ depth) (hf : cost v ≤ fuel) :
    parseValue fuel depth (pre ++ (renderWs w p v ++ rest)) =
      if depthOf v < depth then some (normalize v, rest) else none :=
  parseValue_renderWs w hw v p fuel depth pre rest hpre hrest hv hd hf

/-- the text of a well-formed value is valid UTF-8 -/
theorem utf8Valid_textOf (w : WsChoice) (hw : WsOK w) {pre post : List Nat} (hpre : AllWs pre)
    (hpost : AllWs post) (v : JVal) (hv : v.WF = true) : utf8Valid (textOf w pre post v) = true := by
  unfold textOf
  rw [utf8Valid_ascii_append (allAscii_of_allWs hpre)]
  exact utf8Valid_append (utf8Valid_renderWs w hw v [] hv)
    (utf8Valid_of_ascii (allAscii_of_allWs hpost))

/-! ## (d) member order, duplicate keys, other members -/

/-- `serde_json::Map` holds the members strictly sorted by key bytes … -/
theorem normMembers_sorted {α : Type} (ms : List (List Nat × α)) :
    (normMembers ms).Pairwise (fun a b => keyLt a.1 b.1 = true) := keysSorted_normMembers ms

/-- … a lookup in it is the lookup of the LAST source member with that key … -/
theorem lookup_normMembers {α : Type} (k : List Nat) (ms : List (List Nat × α)) :
    lookupLastP (fun q => q == k) (normMembers ms) = lookupLastP (fun q => q == k) ms := by
  apply lookupLastP_normMembers
  intro a _ b _ ha hb
  simp only [beq_iff_eq] at ha hb
  rw [ha, hb]

/-- … and it does not depend on the order of source members with pairwise distinct keys. -/
theorem normMembers_perm {α : Type} {ms₁ ms₂ : List (List Nat × α)} (hp : ms₁.Perm ms₂)
    (hnd : (ms₁.map Prod.fst).Nodup) : normMembers ms₁ = normMembers ms₂ :=
  Btc.Json.normMembers_perm hp hnd

/-- Already sorted members without duplicates are stored as they are. -/
theorem normMembers_of_sorted {α : Type} {ms : List (List Nat × α)}
    (h : ms.Pairwise (fun a b => keyLt a.1 b.1 = true)) : normMembers ms = ms :=
  Btc.Json.normMembers_of_sorted h

/-- `normalize` of any permutation (at any depth) of members with distinct keys is the same value. -/
theorem normalize_permEq {a b : JVal} (h : PermEq a b) : normalize a = normalize b :=
  h.normalize_eq

theorem depthOfMembers_perm {ms₁ ms₂ : List (List Nat × JVal)} (hp : ms₁.Perm ms₂) :
    depthOfMembers ms₁ = depthOfMembers ms₂ := by
  induction hp with
  | nil => rfl
  | cons x _ ih => obtain ⟨k, v⟩ := x; simp [depthOfMembers, ih]
  | swap x y l =>
    obtain ⟨k, v⟩ := x; obtain ⟨k', v'⟩ := y
    simp only [depthOfMembers]; omega
  | trans _ _ ih₁ ih₂ => exact ih₁.trans ih₂

theorem depthOfList_append (xs ys : List JVal) :
    depthOfList (xs ++ ys) = max (depthOfList xs) (depthOfList ys) := by
  induction xs with
  | nil => simp [depthOfList]
  | cons x xs ih => simp only [List.cons_append, depthOfList, ih]; omega

theorem depthOfMembers_append (xs ys : List (List Nat × JVal)) :
    depthOfMembers (xs ++ ys) = max (depthOfMembers xs) (depthOfMembers ys) := by
  induction xs with
  | nil => simp [depthOfMembers]
  | cons x xs ih => obtain ⟨k, v⟩ := x; simp only [List.cons_append, depthOfMembers, ih]; omega

theorem depthOf_permEq {a b : JVal} (h : PermEq a b) : depthOf a = depthOf b := by
  induction h with
  | refl j => rfl
  | symm _ ih => exact ih.symm
  | trans _ _ ih₁ ih₂ => exact ih₁.trans ih₂
  | perm hp _ => simp only [depthOf, depthOfMembers_perm hp]
  | inArr pre post _ ih => simp only [depthOf, depthOfList_append, depthOfList, ih]
  | inObj k pre post _ ih => simp only [depthOf, depthOfMembers_append, depthOfMembers, ih]

/-- **Member order.** Texts of two values that differ only in the order of members with distinct
    keys (and in whitespace) parse to the same result. -/
theorem parse_member_order_irrelevant {v₁ v₂ : JVal} (hp : PermEq v₁ v₂) (hv : v₁.WF = true)
    (w₁ w₂ : WsChoice) (h₁ : WsOK w₁) (h₂ : WsOK w₂) {pre₁ post₁ pre₂ post₂ : List Nat}
    (hp₁ : AllWs pre₁) (hq₁ : AllWs post₁) (hp₂ : AllWs pre₂) (hq₂ : AllWs post₂) :
    parse (textOf w₁ pre₁ post₁ v₁) = parse (textOf w₂ pre₂ post₂ v₂) := by
  rw [parse_textOf w₁ h₁ hp₁ hq₁ v₁ hv, parse_textOf w₂ h₂ hp₂ hq₂ v₂ (hp.wf_iff.mp hv),
    normalize_permEq hp, depthOf_permEq hp]

/-- **Only the members on the path matter.** No extraction path distinguishes the stored members
    (sorted, duplicates resolved) from the source members read with "last duplicate wins":
    `extractPath p` of the parsed value is `extractPath p` of the source tree `toModelValue v`. -/
theorem extractPath_normalize (p : List Step) {v : JVal} (hv : v.WF = true) :
    extractPath p (toModelValue (normalize v)) = extractPath p (toModelValue v) :=
  obsEq_normalize hv p

/-- `toModelValue` keeps the source structure, so the C18 relations `DeepPerm` / `EditOff` can be
    stated on `toModelValue v`: an inserted member is an inserted member. -/
theorem toModelValue_obj_insert (pre post : List (List Nat × JVal)) (k : List Nat) (x : JVal) :
    toModelValue (.obj (pre ++ (k, x) :: post)) =
      .obj (toModelMembers pre ++ (strOfBytes k, toModelValue x) :: toModelMembers post) := by
  simp [toModelValue, toModelMembers_eq_map]

theorem toModelValue_arr_append (xs ys : List JVal) :
    toModelValue (.arr (xs ++ ys)) = .arr (toModelList xs ++ toModelList ys) := by
  simp [toModelValue, toModelList_eq_map]

/-- the members of the path keys: `strOfBytes` of ASCII text is that text -/
theorem strOfBytes_height : strOfBytes (asciiBytes "height") = "height" := by decide
theorem strOfBytes_data : strOfBytes (asciiBytes "data") = "data" := by decide
theorem strOfBytes_best_block_height :
    strOfBytes (asciiBytes "best_block_height") = "best_block_height" := by decide

/-! ## End to end: the transform on body bytes -/

/-- the parser handed to `Btc.Transform.transform`: `Btc.Json.parse` followed by `toModelValue` -/
abbrev jsonParser : List Nat → Option Transform.Json := parseModel

/-- C18's only assumption about the parser holds for the model parser. -/
theorem parserWF_parseModel : C18.ParserWF jsonParser := by
  intro b j h
  simp only [parseModel, Option.map_eq_some_iff] at h
  obtain ⟨v, _, rfl⟩ := h
  exact toModelValue_WF v

/-- **Total and canonical, for every endpoint and every response (any status, headers, body bytes):**
    the transform (a total function, so no trap) returns no headers, the same status, and a body that
    is empty or the canonical `{"height":N}` (`N < 2^64`) / `{"height":null}`. -/
theorem transform_canonical (ep : Endpoint) (r : Response) :
    (transform jsonParser ep r).headers = [] ∧ (transform jsonParser ep r).status = r.status ∧
    ((transform jsonParser ep r).body = [] ∨
      ∃ h : Option Nat, (∀ n, h = some n → n < 2 ^ 64) ∧
        (transform jsonParser ep r).body = renderHeight h) :=
  ⟨rfl, rfl, C18.body_canonical jsonParser parserWF_parseModel ep r⟩

/-- the response headers never matter -/
theorem transform_headers_irrelevant (ep : Endpoint) (r : Response) (hs : List (String × String)) :
    transform jsonParser ep { r with headers := hs } = transform jsonParser ep r := rfl

/-- a body that is not UTF-8 gives the empty body, for every endpoint -/
theorem transform_not_utf8 (ep : Endpoint) (r : Response) (h : utf8Valid r.body = false) :
    (transform jsonParser ep r).body = [] := by
  cases hp : ep.path with
  | some p =>
    rw [C18.json_body jsonParser ep ((C18.isJson_iff ep).mpr ⟨p, hp⟩)]
    simp [parseModel_eq_none_of_not_utf8 h]
  | none =>
    rw [C18.text_body jsonParser ep ((C18.isText_iff ep).mpr hp)]
    have : parseU64Text r.body = none := by
      cases ht : parseU64Text r.body with
      | none => rfl
      | some n =>
        exfalso
        -- an accepted text consists of `+` and digits, which is ASCII, hence valid UTF-8
        obtain ⟨ds, hbs, _, hd, _⟩ := (C18.parseU64Text_eq_some_iff r.body n).mp ht
        have hds : AllAscii ds := by
          intro b hb
          have := hd b hb
          simp only [Transform.isDigit, Bool.and_eq_true, decide_eq_true_eq] at this
          omega
        have hv : utf8Valid r.body = true := by
          rcases hbs with e | e
          · rw [e]; exact utf8Valid_of_ascii hds
          · rw [e]
            exact utf8Valid_of_ascii (fun b hb => by
              rcases List.mem_cons.mp hb with rfl | hb
              · decide
              · exact hds b hb)
        rw [hv] at h; cases h
    simp [this]

/-- **Closed form for JSON endpoints.** If the body is a text of the value `v` (any whitespace),
    the output body is the canonical rendering of the height found by following the endpoint's path
    in the SOURCE tree of `v` (last duplicate key wins), or empty if `v` exceeds the recursion
    limit or the status is not 200. -/
theorem transform_textOf (ep : Endpoint) {p : List Step} (hpath : ep.path = some p) (status : Nat)
    (hs : List (String × String)) (w : WsChoice) (hw : WsOK w) {pre post : List Nat}
    (hpre : AllWs pre) (hpost : AllWs post) (v : JVal) (hv : v.WF = true) :
    (transform jsonParser ep ⟨status, hs, textOf w pre post v⟩).body =
      if status = 200 ∧ depthOf v < 128 then renderHeight (extractPath p (toModelValue v))
      else [] := by
  rw [C18.json_body jsonParser ep ((C18.isJson_iff ep).mpr ⟨p, hpath⟩)]
  simp only [parseModel, parse_textOf w hw hpre hpost v hv]
  by_cases h1 : status = 200
  · by_cases h2 : depthOf v < 128
    · simp [h1, h2, extract, hpath, extractPath_normalize p hv]
    · simp [h1, h2]
  · simp [h1]

/-- **Replicas agree.** Two responses with the same status whose bodies are texts (any whitespace,
    any headers) of values within the recursion limit that carry the same height on the endpoint's
    path are transformed to identical responses. -/
theorem transform_eq_of_extract_eq (ep : Endpoint) {p : List Step} (hpath : ep.path = some p)
    (status : Nat) (hs₁ hs₂ : List (String × String)) (w₁ w₂ : WsChoice) (h₁ : WsOK w₁)
    (h₂ : WsOK w₂) {pre₁ post₁ pre₂ post₂ : List Nat} (hp₁ : AllWs pre₁) (hq₁ : AllWs post₁)
    (hp₂ : AllWs pre₂) (hq₂ : AllWs post₂) {v₁ v₂ : JVal} (hv₁ : v₁.WF = true)
    (hv₂ : v₂.WF = true) (hd : depthOf v₁ < 128 ↔ depthOf v₂ < 128)
    (he : extractPath p (toModelValue v₁) = extractPath p (toModelValue v₂)) :
    transform jsonParser ep ⟨status, hs₁, textOf w₁ pre₁ post₁ v₁⟩ =
      transform jsonParser ep ⟨status, hs₂, textOf w₂ pre₂ post₂ v₂⟩ := by
  have hb := transform_textOf ep hpath status hs₁ w₁ h₁ hp₁ hq₁ v₁ hv₁
  have hb' := transform_textOf ep hpath status hs₂ w₂ h₂ hp₂ hq₂ v₂ hv₂
  have e₁ : ∀ r, transform jsonParser ep r = ⟨r.status, [], (transform jsonParser ep r).body⟩ :=
    fun _ => rfl
  rw [e₁ ⟨status, hs₁, _⟩, e₁ ⟨status, hs₂, _⟩, hb, hb', he]
  simp only [hd]

/-- **Variation 1: JSON whitespace (and headers)**, for the JSON endpoints. -/
theorem transform_whitespace_irrelevant (ep : Endpoint) (hj : ep.isJson = true) (status : Nat)
    (hs₁ hs₂ : List (String × String)) (w₁ w₂ : WsChoice) (h₁ : WsOK w₁) (h₂ : WsOK w₂)
    {pre₁ post₁ pre₂ post₂ : List Nat} (hp₁ : AllWs pre₁) (hq₁ : AllWs post₁) (hp₂ : AllWs pre₂)
    (hq₂ : AllWs post₂) (v : JVal) (hv : v.WF = true) :
    transform jsonParser ep ⟨status, hs₁, textOf w₁ pre₁ post₁ v⟩ =
      transform jsonParser ep ⟨status, hs₂, textOf w₂ pre₂ post₂ v⟩ := by
  obtain ⟨p, hpath⟩ := (C18.isJson_iff ep).mp hj
  exact transform_eq_of_extract_eq ep hpath status hs₁ hs₂ w₁ w₂ h₁ h₂ hp₁ hq₁ hp₂ hq₂ hv hv
    Iff.rfl rfl

/-- **Variation 2: member order** (members with pairwise distinct keys, at any depth; `PermEq`),
    together with any change of whitespace and headers. -/
theorem transform_member_order_irrelevant (ep : Endpoint) (hj : ep.isJson = true) (status : Nat)
    (hs₁ hs₂ : List (String × String)) (w₁ w₂ : WsChoice) (h₁ : WsOK w₁) (h₂ : WsOK w₂)
    {pre₁ post₁ pre₂ post₂ : List Nat} (hp₁ : AllWs pre₁) (hq₁ : AllWs post₁) (hp₂ : AllWs pre₂)
    (hq₂ : AllWs post₂) {v₁ v₂ : JVal} (hp : PermEq v₁ v₂) (hv : v₁.WF = true) :
    transform jsonParser ep ⟨status, hs₁, textOf w₁ pre₁ post₁ v₁⟩ =
      transform jsonParser ep ⟨status, hs₂, textOf w₂ pre₂ post₂ v₂⟩ := by
  refine C18.json_eq_of_parse_eq jsonParser ep hj _ _ rfl ?_
  simp only [parseModel]
  rw [parse_member_order_irrelevant hp hv w₁ w₂ h₁ h₂ hp₁ hq₁ hp₂ hq₂]

/-- **Variation 3: members / elements that are not on the endpoint's path** (`EditOff p` on the
    source trees: added, removed or changed members with other keys, further array elements, at
    any level of the path), together with any change of whitespace and headers. Both values must
    stay within serde_json's recursion limit: an unrelated member nested 128 deep makes the whole
    parse fail. -/
theorem transform_other_members_irrelevant (ep : Endpoint) {p : List Step}
    (hpath : ep.path = some p) (status : Nat) (hs₁ hs₂ : List (String × String))
    (w₁ w₂ : WsChoice) (h₁ : WsOK w₁) (h₂ : WsOK w₂) {pre₁ post₁ pre₂ post₂ : List Nat}
    (hp₁ : AllWs pre₁) (hq₁ : AllWs post₁) (hp₂ : AllWs pre₂) (hq₂ : AllWs post₂) {v₁ v₂ : JVal}
    (hv₁ : v₁.WF = true) (hv₂ : v₂.WF = true) (hd₁ : depthOf v₁ < 128) (hd₂ : depthOf v₂ < 128)
    (he : EditOff p (toModelValue v₁) (toModelValue v₂)) :
    transform jsonParser ep ⟨status, hs₁, textOf w₁ pre₁ post₁ v₁⟩ =
      transform jsonParser ep ⟨status, hs₂, textOf w₂ pre₂ post₂ v₂⟩ :=
  transform_eq_of_extract_eq ep hpath status hs₁ hs₂ w₁ w₂ h₁ h₂ hp₁ hq₁ hp₂ hq₂ hv₁ hv₂
    ⟨fun _ => hd₂, fun _ => hd₁⟩ he.extract_eq

/-- Variation 3, the basic edit spelled out on the text: a member whose key is not the next key of
    the path can be inserted anywhere into the object the path starts in. -/
theorem transform_insert_member (ep : Endpoint) {key : String} {p : List Step}
    (hpath : ep.path = some (Step.key key :: p)) (status : Nat) (hs₁ hs₂ : List (String × String))
    (w₁ w₂ : WsChoice) (h₁ : WsOK w₁) (h₂ : WsOK w₂) {pre₁ post₁ pre₂ post₂ : List Nat}
    (hp₁ : AllWs pre₁) (hq₁ : AllWs post₁) (hp₂ : AllWs pre₂) (hq₂ : AllWs post₂)
    (before after : List (List Nat × JVal)) (k : List Nat) (x : JVal) (hk : strOfBytes k ≠ key)
    (hv₁ : (JVal.obj (before ++ after)).WF = true)
    (hv₂ : (JVal.obj (before ++ (k, x) :: after)).WF = true)
    (hd₁ : depthOf (.obj (before ++ after)) < 128)
    (hd₂ : depthOf (.obj (before ++ (k, x) :: after)) < 128) :
    transform jsonParser ep ⟨status, hs₁, textOf w₁ pre₁ post₁ (.obj (before ++ after))⟩ =
      transform jsonParser ep
        ⟨status, hs₂, textOf w₂ pre₂ post₂ (.obj (before ++ (k, x) :: after))⟩ := by
  refine transform_other_members_irrelevant ep hpath status hs₁ hs₂ w₁ w₂ h₁ h₂ hp₁ hq₁ hp₂ hq₂
    hv₁ hv₂ hd₁ hd₂ ?_
  rw [toModelValue_obj_insert]
  have : toModelValue (.obj (before ++ after)) =
      .obj (toModelMembers before ++ toModelMembers after) := by
    simp [toModelValue, toModelMembers_eq_map]
  rw [this]
  refine EditOff.addMember _ _ _ _ _ ?_
  intro rest h
  simp only [List.cons.injEq, Step.key.injEq] at h
  exact hk h.1.symm

/-- For status 200 and values within the recursion limit the converse holds too: the outputs agree
    exactly when the heights on the path agree. -/
theorem transform_eq_iff_extract_eq (ep : Endpoint) {p : List Step} (hpath : ep.path = some p)
    (hs₁ hs₂ : List (String × String)) (w₁ w₂ : WsChoice) (h₁ : WsOK w₁) (h₂ : WsOK w₂)
    {pre₁ post₁ pre₂ post₂ : List Nat} (hp₁ : AllWs pre₁) (hq₁ : AllWs post₁) (hp₂ : AllWs pre₂)
    (hq₂ : AllWs post₂) {v₁ v₂ : JVal} (hv₁ : v₁.WF = true) (hv₂ : v₂.WF = true)
    (hd₁ : depthOf v₁ < 128) (hd₂ : depthOf v₂ < 128) :
    transform jsonParser ep ⟨200, hs₁, textOf w₁ pre₁ post₁ v₁⟩ =
        transform jsonParser ep ⟨200, hs₂, textOf w₂ pre₂ post₂ v₂⟩ ↔
      extractPath p (toModelValue v₁) = extractPath p (toModelValue v₂) := by
  constructor
  · intro h
    have hb := congrArg Response.body h
    rw [transform_textOf ep hpath 200 hs₁ w₁ h₁ hp₁ hq₁ v₁ hv₁,
      transform_textOf ep hpath 200 hs₂ w₂ h₂ hp₂ hq₂ v₂ hv₂] at hb
    simp only [hd₁, hd₂, and_self, if_true] at hb
    exact C18.renderHeight_injective hb
  · exact transform_eq_of_extract_eq ep hpath 200 hs₁ hs₂ w₁ w₂ h₁ h₂ hp₁ hq₁ hp₂ hq₂ hv₁ hv₂
      ⟨fun _ => hd₂, fun _ => hd₁⟩

/-- JSON whitespace is NOT insignificant for the four plain-text endpoints (`u64::from_str` does
    not trim): the whitespace variation is a statement about the JSON endpoints only. -/
theorem text_endpoint_whitespace_significant :
    (transform jsonParser .bitcoin_mempool ⟨200, [], asciiBytes "12"⟩).body =
      asciiBytes "{\"height\":12}" ∧
    (transform jsonParser .bitcoin_mempool ⟨200, [], asciiBytes " 12"⟩).body = [] ∧
    (transform jsonParser .bitcoin_mempool ⟨200, [], asciiBytes "12\n"⟩).body = [] := by
  decide

/-! ## Examples (the hypotheses are satisfiable; the executable parser on concrete bytes) -/

section Examples

/-- `[{"height":700000,"hash":"00ab","height":5}]` as a source tree -/
def exV : JVal :=
  .arr [.obj [(asciiBytes "hash", .str (asciiBytes "00ab")),
    (asciiBytes "height", .num (NumTok.ofNat 5)),
    (asciiBytes "height", .num (NumTok.ofNat 700000))]]

/-- one blank before every element / key / value, a line break and a tab after it -/
def exW : WsChoice := fun _ s => if s % 2 = 1 then [32] else [10, 9]

theorem exW_ok : WsOK exW := by
  intro p s b hb
  simp only [exW] at hb
  split at hb <;> simp at hb <;> rcases hb with rfl | rfl <;> rfl

example : exV.WF = true := by decide +kernel
example : depthOf exV = 2 := by decide +kernel

/-- the text with that whitespace, byte for byte -/
example : textOf exW [32] [13, 10] exV =
    asciiBytes " [ { \"hash\"\n\t: \"00ab\"\n\t, \"height\"\n\t: 5\n\t, \"height\"\n\t: 700000\n\t}\n\t]\r\n" := by
  decide +kernel

/-- members sorted by key, the last `height` wins -/
example : normalize exV =
    .arr [.obj [(asciiBytes "hash", .str (asciiBytes "00ab")),
      (asciiBytes "height", .num (NumTok.ofNat 700000))]] := by
  rfl

example : (transform jsonParser .bitcoin_mainnet_api_bitcore_io
    ⟨200, [("content-type", "application/json")], textOf exW [32] [13, 10] exV⟩).body =
    asciiBytes "{\"height\":700000}" := by
  rw [transform_textOf _ rfl 200 _ exW exW_ok (by decide) (by decide) exV (by decide +kernel)]
  decide +kernel

/-- the executable parser on concrete body bytes -/
example : (transform jsonParser .dogecoin_mainnet_api_bitcore_io
    ⟨200, [], asciiBytes "[ {\"hash\":\"00ab\",\n \"height\" : 700000} ]"⟩).body =
    asciiBytes "{\"height\":700000}" := by decide +kernel

example : (transform jsonParser .bitcoin_mainnet_api_blockchair_com
    ⟨200, [], asciiBytes "{\"context\":{},\"data\":{\"best_block_height\":812345}}"⟩).body =
    asciiBytes "{\"height\":812345}" := by decide +kernel

/-- duplicate key: the last one wins; a non-`u64` number gives `null` -/
example : (transform jsonParser .bitcoin_mainnet_api_blockcypher_com
    ⟨200, [], asciiBytes "{\"height\":1,\"height\":2}"⟩).body = asciiBytes "{\"height\":2}" := by
  decide +kernel

example : (transform jsonParser .bitcoin_mainnet_api_blockcypher_com
    ⟨200, [], asciiBytes "{\"height\":1.0}"⟩).body = asciiBytes "{\"height\":null}" := by
  decide +kernel

example : (transform jsonParser .bitcoin_mainnet_api_blockcypher_com
    ⟨200, [], asciiBytes "{\"height\":18446744073709551616}"⟩).body =
    asciiBytes "{\"height\":null}" := by
  decide +kernel

/-- not JSON (trailing characters, a float that overflows), not UTF-8: empty body -/
example : (transform jsonParser .bitcoin_mainnet_api_blockcypher_com
    ⟨200, [], asciiBytes "{\"height\":1} x"⟩).body = [] := by decide +kernel

example : (transform jsonParser .bitcoin_mainnet_api_blockcypher_com
    ⟨200, [], asciiBytes "{\"height\":1,\"x\":1e999}"⟩).body = [] := by decide +kernel

example : (transform jsonParser .bitcoin_mainnet_api_blockcypher_com
    ⟨200, [], asciiBytes "{\"height\":1,\"x\":\"" ++ [255] ++ asciiBytes "\"}"⟩).body = [] := by
  decide +kernel

/-- `PermEq` is inhabited by a non-trivial instance (a swap inside a nested object and one at the
    top level) -/
example : PermEq
    (.obj [(asciiBytes "a", .null), (asciiBytes "b", .arr [.obj [([120], .null), ([121], .bool true)]])])
    (.obj [(asciiBytes "b", .arr [.obj [([121], .bool true), ([120], .null)]]), (asciiBytes "a", .null)]) :=
  PermEq.trans
    (PermEq.inObj (asciiBytes "b") [(asciiBytes "a", .null)] []
      (PermEq.inArr [] [] (PermEq.perm (List.Perm.swap _ _ _) (by decide))))
    (PermEq.perm (List.Perm.swap _ _ _) (by decide))

end Examples

end Btc.Props.Json
