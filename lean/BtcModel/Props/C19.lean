import BtcModel.Lemmas.TxCodec

/-!
# C19 — `bitcoin_send_transaction` accepts exactly the consensus serialisations of one transaction

`canister/src/api/send_transaction.rs` accepts a payload iff
`bitcoin::consensus::deserialize::<Transaction>(payload)` succeeds. The model of that function is
`Btc.TxCodec.decodeExact` (`Model/TxCodec.lean`, 64-bit `usize`, which is what the native
differential harness runs) and `decodeExact32` (32-bit `usize`, the `wasm32-unknown-unknown`
production build).

Results (helper lemmas are in `Lemmas/TxCodec.lean`):

* `varint_roundtrip`, `varint_canonical`           — VarInt codec, minimality enforced;
* `roundtrip`                                      — `decodeTx (encodeTx t ++ rest) = some (t, rest)`:
  the Rust codec performs NO normalisation, also not for the zero-input transaction;
* `canonical`, `accept_iff_is_encoding`, `decodeExact_eq_some_iff`
                                                   — on a 64-bit target the decoder accepts a byte string
  iff it is the encoding of a well-formed transaction, and returns that transaction;
* `trailing_bytes_rejected`, `truncation_rejected` — nothing after / nothing missing;
* `encodeTx_injective`;
* `roundtrip32`, `accept32_of_accept64` and the `noncanonical32_*` examples
                                                   — on a 32-bit target every encoding is still accepted, but so
  are byte strings that are NOT encodings (length prefixes `≥ 2^32` are truncated by `as usize`).
-/
namespace Btc.Props.C19
open Btc.TxCodec

/-! ## 1. VarInt -/

/-- Decoding the encoding of a `u64` gives it back and consumes exactly the encoding. -/
theorem varint_roundtrip (n : Nat) (rest : List Nat) (h : n < 2 ^ 64) :
    decodeVarInt (encodeVarInt n ++ rest) = some (n, rest) :=
  decodeVarInt_encodeVarInt n rest h

/-- The decoder accepts only the minimal encoding (`Error::NonMinimalVarInt` otherwise). -/
theorem varint_canonical (bs : List Nat) (n : Nat) (rest : List Nat) (hb : AllBytes bs)
    (h : decodeVarInt bs = some (n, rest)) : bs = encodeVarInt n ++ rest ∧ n < 2 ^ 64 :=
  decodeVarInt_some hb h

/-! ## 2. Round trip -/

/-- `deserialize_partial(serialize(t) ++ rest) = (t, rest)`: identity, no normalisation. This
    includes transactions without inputs (serialised in the segwit format with flag 1, decoded
    through the segwit branch with zero inputs and zero witnesses). -/
theorem roundtrip (t : Tx) (rest : List Nat) (h : t.WF) :
    decodeTx (encodeTx t ++ rest) = some (t, rest) :=
  decodeTxW_encodeTx usize64 (by decide) (Nat.le_refl _) t rest h

theorem roundtrip_exact (t : Tx) (h : t.WF) : decodeExact (encodeTx t) = some t := by
  have := roundtrip t [] h
  rw [List.append_nil] at this
  unfold decodeExact decodeExactW
  unfold decodeTx at this
  rw [this]

/-- The same on a 32-bit target (all byte-vector lengths `< 2^32`). -/
theorem roundtrip32 (t : Tx) (rest : List Nat) (h : t.WFW usize32) :
    decodeTxW usize32 (encodeTx t ++ rest) = some (t, rest) :=
  decodeTxW_encodeTx usize32 (by decide) (by decide) t rest h

theorem roundtrip32_exact (t : Tx) (h : t.WFW usize32) : decodeExact32 (encodeTx t) = some t := by
  have := roundtrip32 t [] h
  rw [List.append_nil] at this
  unfold decodeExact32 decodeExactW
  rw [this]

/-- Serialisation is injective on well-formed transactions. -/
theorem encodeTx_injective (t t' : Tx) (h : t.WF) (h' : t'.WF) (he : encodeTx t = encodeTx t') :
    t = t' := by
  have h1 := roundtrip_exact t h
  have h2 := roundtrip_exact t' h'
  rw [he, h2] at h1
  exact (Option.some.inj h1).symm

/-! ## 3. Canonicity (64-bit target) -/

/-- Whatever `deserialize_partial` accepts is the serialisation of the (well-formed) transaction
    it returns, followed by the unread bytes. -/
theorem canonical (bs : List Nat) (t : Tx) (rest : List Nat) (hb : AllBytes bs)
    (h : decodeTx bs = some (t, rest)) : bs = encodeTx t ++ rest ∧ t.WF :=
  decodeTx_some hb h

theorem decodeExact_eq_some {bs : List Nat} {t : Tx} :
    decodeExact bs = some t ↔ decodeTx bs = some (t, []) := by
  unfold decodeExact decodeExactW decodeTx
  constructor
  · intro h
    split at h
    · rename_i t' heq
      rw [heq, Option.some.inj h]
    · simp at h
  · intro h
    rw [h]

/-- `deserialize` returns `t` iff the payload is exactly the serialisation of the well-formed `t`. -/
theorem decodeExact_eq_some_iff (bs : List Nat) (hb : AllBytes bs) (t : Tx) :
    decodeExact bs = some t ↔ t.WF ∧ bs = encodeTx t := by
  rw [decodeExact_eq_some]
  constructor
  · intro h
    have := canonical bs t [] hb h
    rw [List.append_nil] at this
    exact ⟨this.2, this.1⟩
  · rintro ⟨hwf, rfl⟩
    have := roundtrip t [] hwf
    rwa [List.append_nil] at this

/-- C19: the payload is accepted iff it is exactly the consensus serialisation of one
    transaction. -/
theorem accept_iff_is_encoding (bs : List Nat) (h : AllBytes bs) :
    (decodeExact bs).isSome ↔ ∃ t : Tx, t.WF ∧ bs = encodeTx t := by
  constructor
  · intro hs
    obtain ⟨t, ht⟩ := Option.isSome_iff_exists.1 hs
    exact ⟨t, (decodeExact_eq_some_iff bs h t).1 ht⟩
  · rintro ⟨t, ht⟩
    rw [(decodeExact_eq_some_iff bs h t).2 ht]
    rfl

/-- Every other payload is refused. -/
theorem reject_iff_not_encoding (bs : List Nat) (h : AllBytes bs) :
    decodeExact bs = none ↔ ¬ ∃ t : Tx, t.WF ∧ bs = encodeTx t := by
  rw [← accept_iff_is_encoding bs h]
  cases decodeExact bs <;> simp

/-! ## 4. Nothing after, nothing missing -/

/-- A serialisation followed by at least one more byte is refused. -/
theorem trailing_bytes_rejected (t : Tx) (h : t.WF) (r : List Nat) (hr : r ≠ []) :
    decodeExact (encodeTx t ++ r) = none := by
  have := roundtrip t r h
  unfold decodeExact decodeExactW
  unfold decodeTx at this
  rw [this]
  cases r with
  | nil => exact absurd rfl hr
  | cons => rfl

/-- Every strict prefix of a serialisation is refused (the code is prefix-free). -/
theorem truncation_rejected (t : Tx) (h : t.WF) (p s : List Nat) (hs : s ≠ [])
    (hp : p ++ s = encodeTx t) : decodeExact p = none := by
  have hb : AllBytes (encodeTx t) := encodeTx_allBytes (Nat.le_refl _) t h
  rw [← hp] at hb
  cases hd : decodeExact p with
  | none => rfl
  | some t' =>
    obtain ⟨hwf', rfl⟩ := (decodeExact_eq_some_iff p (allBytes_append.1 hb).1 t').1 hd
    have h1 := roundtrip t' s hwf'
    have h2 := roundtrip t [] h
    rw [List.append_nil, ← hp, h1] at h2
    simp only [Option.some.injEq, Prod.mk.injEq] at h2
    exact absurd h2.2 hs

/-! ## 32-bit target: every encoding is accepted, but not only encodings -/

/-- Whatever the 64-bit decoder accepts, the 32-bit decoder accepts too (with the same result),
    for payloads below 4 GiB. The converse fails: see `noncanonical32_*` below. -/
theorem accept32_of_accept64 (bs : List Nat) (hb : AllBytes bs) (hl : bs.length < 2 ^ 32) (t : Tx)
    (h : decodeExact bs = some t) : decodeExact32 bs = some t := by
  obtain ⟨hwf, rfl⟩ := (decodeExact_eq_some_iff bs hb t).1 h
  exact roundtrip32_exact t (wfw32_of_length t hwf hl)

/-! ## 5. Concrete instances -/

/-- A legacy transaction with one input and one output. -/
def txLegacy : Tx :=
  ⟨2, [⟨List.replicate 32 7, 1, [1, 2, 3], 0xFFFFFFFF, []⟩], [⟨5000, [0x76, 0xa9]⟩], 0⟩

/-- A segwit transaction with one witness stack of two elements. -/
def txSegwit : Tx :=
  ⟨2, [⟨List.replicate 32 7, 1, [], 0xFFFFFFFE, [[1, 2], [3]]⟩], [⟨5000, [0x00, 0x14]⟩], 101⟩

/-- The "empty transaction" of `send_transaction::test::charges_cycles`. -/
def txEmpty : Tx := ⟨0, [], [], 0⟩

example : txLegacy.WF := by decide
example : txSegwit.WF := by decide
example : txEmpty.WF := by decide

def legacyBytes : List Nat :=
  [2, 0, 0, 0, 1,
   7, 7, 7, 7, 7, 7, 7, 7, 7, 7, 7, 7, 7, 7, 7, 7, 7, 7, 7, 7, 7, 7, 7, 7, 7, 7, 7, 7, 7, 7, 7, 7,
   1, 0, 0, 0, 3, 1, 2, 3, 255, 255, 255, 255,
   1, 136, 19, 0, 0, 0, 0, 0, 0, 2, 118, 169,
   0, 0, 0, 0]

def segwitBytes : List Nat :=
  [2, 0, 0, 0, 0, 1, 1,
   7, 7, 7, 7, 7, 7, 7, 7, 7, 7, 7, 7, 7, 7, 7, 7, 7, 7, 7, 7, 7, 7, 7, 7, 7, 7, 7, 7, 7, 7, 7, 7,
   1, 0, 0, 0, 0, 254, 255, 255, 255,
   1, 136, 19, 0, 0, 0, 0, 0, 0, 2, 0, 20,
   2, 2, 1, 2, 1, 3,
   101, 0, 0, 0]

example : encodeTx txLegacy = legacyBytes := by decide
example : decodeExact legacyBytes = some txLegacy := by decide
example : encodeTx txSegwit = segwitBytes := by decide
example : decodeExact segwitBytes = some txSegwit := by decide
/-- the zero-input transaction is serialised in the segwit format and round-trips unchanged -/
example : encodeTx txEmpty = [0, 0, 0, 0, 0, 1, 0, 0, 0, 0, 0, 0] := by decide
example : decodeExact [0, 0, 0, 0, 0, 1, 0, 0, 0, 0, 0, 0] = some txEmpty := by decide
/-- `invalid_tx_error`: `vec![1, 2, 3]` -/
example : decodeExact [1, 2, 3] = none := by decide
/-- the empty payload -/
example : decodeExact [] = none := by decide
/-- a zero-input, zero-output transaction in the legacy format is not accepted -/
example : decodeExact [0, 0, 0, 0, 0, 0, 0, 0, 0, 0] = none := by decide
/-- trailing byte -/
example : decodeExact (legacyBytes ++ [0]) = none := by decide
/-- truncated by one byte -/
example : decodeExact legacyBytes.dropLast = none := by decide
/-- non-minimal varint for the input count (`fd 01 00` instead of `01`) -/
example : decodeExact ([2, 0, 0, 0, 0xFD, 1, 0] ++ legacyBytes.drop 5) = none := by decide
/-- non-minimal varint for the scriptSig length (`fd 03 00` instead of `03`) -/
example : decodeExact (legacyBytes.take 41 ++ [0xFD, 3, 0] ++ legacyBytes.drop 42) = none := by
  decide
/-- segwit flag 2 -/
example : decodeExact (segwitBytes.take 5 ++ [2] ++ segwitBytes.drop 6) = none := by decide
/-- witness flag set but every witness empty -/
example : decodeExact (segwitBytes.take 60 ++ [0] ++ segwitBytes.drop 66) = none := by decide
/-- ... whereas the same bytes with a non-empty witness are fine -/
example : (decodeExact (segwitBytes.take 60 ++ [1, 0] ++ segwitBytes.drop 66)).isSome := by decide

/-! ### Non-canonical acceptance on 32-bit targets (`wasm32-unknown-unknown`)

`Vec<u8>::consensus_decode` computes `VarInt(..).0 as usize`; `Witness::consensus_decode` does the
same for the element count and every element size. With a 32-bit `usize` a 9-byte varint
`ff xx xx xx xx hh hh hh hh` (`hh.. ≠ 0`, hence minimal) is truncated to its low 32 bits. -/

/-- `legacyBytes` with the scriptSig length `03` replaced by `ff 03 00 00 00 01 00 00 00`
    (= 2^32 + 3). -/
def nonCanonicalScriptLen : List Nat :=
  legacyBytes.take 41 ++ [0xFF, 3, 0, 0, 0, 1, 0, 0, 0] ++ legacyBytes.drop 42

/-- refused on a 64-bit target ... -/
example : decodeExact nonCanonicalScriptLen = none := by decide
/-- ... accepted on a 32-bit target, as the transaction `txLegacy`, although it is not the
    serialisation of any transaction. -/
theorem noncanonical32_script_len :
    decodeExact32 nonCanonicalScriptLen = some txLegacy ∧
      nonCanonicalScriptLen ≠ encodeTx txLegacy ∧
      ¬ ∃ t : Tx, t.WF ∧ nonCanonicalScriptLen = encodeTx t := by
  refine ⟨by decide, by decide, ?_⟩
  rw [← accept_iff_is_encoding _ (by decide)]
  decide

/-- `segwitBytes` with the witness element count `02` replaced by `ff 02 00 00 00 01 00 00 00`. -/
def nonCanonicalWitnessCount : List Nat :=
  segwitBytes.take 60 ++ [0xFF, 2, 0, 0, 0, 1, 0, 0, 0] ++ segwitBytes.drop 61

theorem noncanonical32_witness_count :
    decodeExact32 nonCanonicalWitnessCount = some txSegwit ∧
      decodeExact nonCanonicalWitnessCount = none := by
  constructor <;> decide

/-- `segwitBytes` with the first witness element size `02` replaced by
    `ff 02 00 00 00 01 00 00 00`. -/
def nonCanonicalWitnessElem : List Nat :=
  segwitBytes.take 61 ++ [0xFF, 2, 0, 0, 0, 1, 0, 0, 0] ++ segwitBytes.drop 62

theorem noncanonical32_witness_elem :
    decodeExact32 nonCanonicalWitnessElem = some txSegwit ∧
      decodeExact nonCanonicalWitnessElem = none := by
  constructor <;> decide

/-- A witness count of exactly `2^32` is read as "no witness" on a 32-bit target; here the only
    input then has an empty witness, so the "witness flag set but no witnesses" rule refuses it. -/
example : decodeExact32
    (segwitBytes.take 60 ++ [0xFF, 0, 0, 0, 0, 1, 0, 0, 0] ++ segwitBytes.drop 66) = none := by
  decide

/-- Two inputs, the second one with the witness `[[9]]`. -/
def txTwoIn : Tx :=
  ⟨2, [⟨List.replicate 32 7, 1, [], 0xFFFFFFFE, []⟩, ⟨List.replicate 32 7, 2, [], 0xFFFFFFFE, [[9]]⟩],
    [⟨5000, [0x00, 0x14]⟩], 101⟩

/-- `encodeTx txTwoIn` with the (empty) first witness `00` replaced by
    `ff 00 00 00 00 01 00 00 00` (count = 2^32, read as 0 on a 32-bit target). -/
def nonCanonicalWitnessZero : List Nat :=
  [2, 0, 0, 0, 0, 1, 2,
   7, 7, 7, 7, 7, 7, 7, 7, 7, 7, 7, 7, 7, 7, 7, 7, 7, 7, 7, 7, 7, 7, 7, 7, 7, 7, 7, 7, 7, 7, 7, 7,
   1, 0, 0, 0, 0, 254, 255, 255, 255,
   7, 7, 7, 7, 7, 7, 7, 7, 7, 7, 7, 7, 7, 7, 7, 7, 7, 7, 7, 7, 7, 7, 7, 7, 7, 7, 7, 7, 7, 7, 7, 7,
   2, 0, 0, 0, 0, 254, 255, 255, 255,
   1, 136, 19, 0, 0, 0, 0, 0, 0, 2, 0, 20,
   0xFF, 0, 0, 0, 0, 1, 0, 0, 0,
   1, 1, 9,
   101, 0, 0, 0]

set_option maxRecDepth 4096 in
theorem noncanonical32_witness_zero :
    decodeExact32 nonCanonicalWitnessZero = some txTwoIn ∧
      decodeExact nonCanonicalWitnessZero = none ∧
      nonCanonicalWitnessZero =
        (encodeTx txTwoIn).take 101 ++ [0xFF, 0, 0, 0, 0, 1, 0, 0, 0] ++ (encodeTx txTwoIn).drop 102 := by
  refine ⟨by decide, by decide, by decide⟩

end Btc.Props.C19
