import BtcModel.Lemmas.Ingest
import BtcModel.Lemmas.Pop
import BtcModel.Props.C03

/-!
# The global invariant is preserved when the anchor stabilises

`ingest_stable_blocks_into_utxoset` (model: `State.ingestStable` / `ingestNewStable`) repeatedly
takes the anchor `A` of the unstable block tree (as long as `get_stable_child` names a stable
child), ingests it into the stable UTXO set (`UtxoSet.ingestBlock`, time-sliced) and pops it
(`Unstable.pop`).  This file proves that `Spec.Inv s G` becomes `Spec.Inv s' (G ++ [A])`.

1. `ingest_one_block` — one block with enough budget (and `ingest_one_block_any_budget`).
2. `pop_preserves` — `pop` on the unstable part.
3. `ingest_step_preserves_inv`, `ingestNewStable_preserves_inv`, `ingest_stable_preserves_inv`.
4. `ingest_stable_never_traps`.
-/
namespace Btc.Props.InvIngest
open Btc Btc.Spec Btc.UtxoSet

/-! ## 1. One block -/

/-- the number of budgeted steps of a block: inputs of non-coinbase transactions plus outputs -/
theorem blockWork_def (b : Block) :
    blockWork b = (b.txs.map (fun tx => (if tx.coinbase then 0 else tx.ins.length) + tx.outs.length)).sum :=
  rfl

/-- the loop's fuel (`blockSteps b + 2`) covers the work plus one unit per transaction boundary -/
theorem blockWork_lt_blockSteps (b : Block) : blockWork b + b.txs.length + 1 ≤ blockSteps b :=
  blockWork_le b

/-- **Any budget**: ingestion of a valid block into a stable set that holds the ledger map `l`
    never traps. It pauses iff the budget is smaller than the block's work; otherwise it finishes,
    the stable set holds `applyBlock l h b`, the height is bumped and exactly `blockWork b` units
    of budget are consumed. -/
theorem ingest_one_block_any_budget (u : UtxoSet) (l : LedgerMap) (b : Block) (budget : Nat)
    (hS : StableIs u l) (hnd : (l.map (·.1)).Nodup) (hwf : BlockWF b)
    (hfresh : ∀ tx ∈ b.txs, ∀ e ∈ l, e.1.txid ≠ tx.txid)
    (hv : TxValidFrom.TxsValid l u.nextHeight b.txs) :
    (budget < blockWork b ∧ (u.ingestBlock b budget).isPaused) ∨
    (blockWork b ≤ budget ∧ ∃ u', u.ingestBlock b budget = .done u' (budget - blockWork b) ∧
      StableIs u' (applyBlock l u.nextHeight b) ∧ u'.nextHeight = u.nextHeight + 1) :=
  ingestBlock_spec u l b budget hS hnd hwf.coinbaseNoIns hwf.txidsNodup hfresh hv

/-- **One block, enough budget** (deliverable 1). -/
theorem ingest_one_block (u : UtxoSet) (l : LedgerMap) (b : Block) (budget h : Nat)
    (hS : StableIs u l) (hh : u.nextHeight = h) (hnd : (l.map (·.1)).Nodup) (hwf : BlockWF b)
    (hfresh : ∀ tx ∈ b.txs, ∀ e ∈ l, e.1.txid ≠ tx.txid)
    (hv : TxValidFrom.TxsValid l h b.txs) (hbudget : blockWork b ≤ budget) :
    ∃ u', u.ingestBlock b budget = .done u' (budget - blockWork b) ∧
      StableIs u' (applyBlock l h b) ∧ u'.nextHeight = h + 1 := by
  subst hh
  rcases ingest_one_block_any_budget u l b budget hS hnd hwf hfresh hv with ⟨h1, _⟩ | ⟨_, h2⟩
  · omega
  · exact h2

/-- The ledger maps the invariant talks about always have pairwise distinct keys, so the
    `Nodup` hypothesis above is free for `l = ledger G`. -/
theorem ledger_nodup (G : List Block) : ((ledger G).map (·.1)).Nodup := ledger_keys_nodup G

/-- concrete instance of the hypotheses of `ingest_one_block`: a coinbase creating two outputs
    (one of them to an address) on the empty ledger -/
def exBlock : Block :=
  { hash := 7, prev := 0, diff := 1, time := 0, bits := 0, header := "",
    txs := [{ txid := 5, coinbase := true, vsize := 1, ins := [],
              outs := [⟨50, some [1, 2], false⟩, ⟨0, none, true⟩] }] }

example : StableIs {} [] := by
  refine ⟨rfl, by simp, fun _ => rfl, by simp, ?_, by simp, fun _ => rfl⟩
  intro e; simp

example : BlockWF exBlock := by
  refine ⟨?_, ?_, by simp [exBlock]⟩ <;> simp [exBlock]

example : TxValidFrom.TxsValid [] 0 exBlock.txs := by
  simp [exBlock, TxValidFrom.TxsValid]

example : blockWork exBlock = 2 := by decide

/-- observable part of a finished round -/
def doneView : RoundResult → Option (List (OutPoint × (TxOut × Nat)) × List (Addr × Nat) × Nat × Nat)
  | .done u' w => some (u'.utxos, u'.balances, u'.nextHeight, w)
  | _ => none

example : doneView (({} : UtxoSet).ingestBlock exBlock 5) =
    some ([(⟨5, 0⟩, (⟨50, some [1, 2], false⟩, 0))], [([1, 2], 50)], 1, 3) := by decide

example : (({} : UtxoSet).ingestBlock exBlock 1).isPaused := by
  simp [ingestBlock, ingestLoop, exBlock, insertOutput, Delta.insert, AList.contains,
    AList.find?, AList.insert, AList.erase, RoundResult.isPaused]

/-! ## 2. `pop` -/

theorem stableChildIdx_valid (bound : Unstable.BoundFn) (u : Unstable) (r : CBlock)
    (cs : List (Tree CBlock)) (idx : Nat) (htree : u.tree = .node r cs)
    (h : Unstable.stableChildIdx bound u = some idx) : ∃ child, cs[idx]? = some child := by
  unfold Unstable.stableChildIdx at h
  rw [htree] at h
  exact Btc.Props.C03.stableChild_index_valid _ _ _ _ _ _ _ h

theorem linked_child (r : CBlock) : ∀ (cs : List (Tree CBlock)) (i : Nat) (c : Tree CBlock),
    LinkedList r.hash cs → cs[i]? = some c → c.root.blk.prev = r.hash ∧ Linked c
  | [], _, _, _, h => by simp at h
  | x :: xs, 0, c, hl, h => by
    simp at h; subst h
    simp only [LinkedList] at hl
    exact ⟨hl.1, hl.2.1⟩
  | x :: xs, i + 1, c, hl, h => by
    simp at h
    simp only [LinkedList] at hl
    exact linked_child r xs i c hl.2.2 h

/-- **`pop`** (deliverable 2), on the unstable part only: with `G` the stable chain that already
    contains everything below the anchor, popping the anchor `r` never traps, returns `r`, makes
    the stable child the new tree and re-establishes, w.r.t. `G ++ [r]`, exactness of all caches,
    distinctness of hashes, consistency of txids, hash-linking and validity of all root paths. -/
theorem pop_preserves (bound : Unstable.BoundFn) (u : Unstable) (G : List Block) (sh : Nat)
    (r : CBlock) (cs : List (Tree CBlock)) (idx : Nat)
    (htree : u.tree = .node r cs) (hidx : Unstable.stableChildIdx bound u = some idx)
    (hlinked : Linked u.tree) (hpre : PopPre u G) :
    ∃ u' child, cs[idx]? = some child ∧ Unstable.pop bound u sh = .ok u' r.blk ∧
      u'.tree = child ∧ u'.thr = u.thr ∧ u'.net = u.net ∧
      PopPre u' (G ++ [r.blk]) ∧ Linked u'.tree ∧ u'.tree.root.blk.prev = r.blk.hash := by
  obtain ⟨child, hchild⟩ := stableChildIdx_valid bound u r cs idx htree hidx
  obtain ⟨u', hpop, ht, hthr, hnet, hC⟩ := pop_caches bound u G sh r cs idx child htree hidx hchild hpre
  rw [htree] at hlinked
  simp only [Linked] at hlinked
  obtain ⟨hprev, hlc⟩ := linked_child r cs idx child hlinked hchild
  refine ⟨u', child, hchild, hpop, ht, hthr, hnet, ?_, by rw [ht]; exact hlc, by rw [ht]; exact hprev⟩
  obtain ⟨hnd, _, hcons, hvalid⟩ := hpre
  rw [htree] at hnd hcons hvalid
  have hsubl : ((G ++ [r.blk]) ++ child.blocks.map (·.blk)).Sublist
      (G ++ (Tree.node r cs).blocks.map (·.blk)) := by
    rw [List.append_assoc]
    apply List.Sublist.append (List.Sublist.refl _)
    simp only [Tree.blocks, List.map_cons, List.singleton_append]
    exact ((Tree.blocks_child_sublist cs idx child hchild).map _).cons_cons _
  have hTnd : (((Tree.node r cs).blocks).map CBlock.hash).Nodup := by
    rw [List.map_append, List.nodup_append] at hnd
    have := hnd.2.1
    rw [List.map_map] at this
    exact this
  refine ⟨?_, ?_, ?_, ?_⟩
  · rw [ht]; exact (hsubl.map _).nodup hnd
  · rw [ht]; exact hC
  · rw [ht]
    intro t1 h1 t2 h2
    have hm : ∀ t, t ∈ txsOf ((G ++ [r.blk]) ++ child.blocks.map (·.blk)) →
        t ∈ txsOf (G ++ (Tree.node r cs).blocks.map (·.blk)) := by
      intro t htm
      rw [mem_txsOf] at htm ⊢
      obtain ⟨B, hB, h⟩ := htm
      exact ⟨B, hsubl.subset hB, h⟩
    exact hcons t1 (hm t1 h1) t2 (hm t2 h2)
  · rw [ht]
    intro tip p hp
    have := hvalid tip _ (pathBlocks_of_child r cs idx child tip p hTnd hchild hp)
    simpa using this

/-! ## 3. The state level -/

/-- what the ingestion of stable blocks leaves untouched -/
structure Frame (s s' : State) : Prop where
  syncing : s'.syncing = s.syncing
  feeCache : s'.feeCache = s.feeCache
  fees : s'.fees = s.fees
  apiAccess : s'.apiAccess = s.apiAccess
  disableApi : s'.disableApiIfNotSynced = s.disableApiIfNotSynced
  lazyFees : s'.lazyFees = s.lazyFees
  sendTxCount : s'.sendTxCount = s.sendTxCount
  thr : s'.unstable.thr = s.unstable.thr
  net : s'.unstable.net = s.unstable.net

theorem Frame.refl (s : State) : Frame s s := ⟨rfl, rfl, rfl, rfl, rfl, rfl, rfl, rfl, rfl⟩

theorem Frame.trans {a b c : State} (h1 : Frame a b) (h2 : Frame b c) : Frame a c :=
  ⟨h2.syncing.trans h1.syncing, h2.feeCache.trans h1.feeCache, h2.fees.trans h1.fees,
   h2.apiAccess.trans h1.apiAccess, h2.disableApi.trans h1.disableApi,
   h2.lazyFees.trans h1.lazyFees, h2.sendTxCount.trans h1.sendTxCount, h2.thr.trans h1.thr,
   h2.net.trans h1.net⟩

/-- the header store after recording `bs` at consecutive heights starting at `h` -/
def insertHeaders (hs : HeaderStore) : List Block → Nat → HeaderStore
  | [], _ => hs
  | b :: bs, h => insertHeaders (hs.insert b h) bs (h + 1)

theorem insertHeaders_snoc (hs : HeaderStore) : ∀ (bs : List Block) (h : Nat) (b : Block),
    insertHeaders hs (bs ++ [b]) h = (insertHeaders hs bs h).insert b (h + bs.length)
  | [], h, b => by simp [insertHeaders]
  | x :: xs, h, b => by
    simp only [List.cons_append, insertHeaders, List.length_cons]
    rw [insertHeaders_snoc _ xs (h + 1) b]
    have : h + 1 + xs.length = h + (xs.length + 1) := by omega
    rw [this]

theorem peek_eq (bound : Unstable.BoundFn) (u : Unstable) (anchor : CBlock)
    (h : Unstable.peek bound u = some anchor) :
    ∃ idx, Unstable.stableChildIdx bound u = some idx ∧ anchor = u.tree.root := by
  unfold Unstable.peek at h
  cases hi : Unstable.stableChildIdx bound u with
  | none => rw [hi] at h; cases h
  | some idx => rw [hi] at h; simp at h; exact ⟨idx, rfl, h.symm⟩

theorem pathBlocks_root (r : CBlock) (cs : List (Tree CBlock)) :
    pathBlocks (.node r cs) r.hash = some [r.blk] := by
  simp [pathBlocks, Tree.chainWithTip, CBlock.hash]

/-- **One iteration** of the `while let Some(..) = peek()` loop: the anchor is recorded in the
    header store, ingested (unless the budget runs out, which pauses) and popped; the invariant
    moves from `G` to `G ++ [anchor]`. -/
theorem ingest_step_preserves_inv (bound : Unstable.BoundFn) (s : State) (G : List Block)
    (budget : Nat) (anchor : CBlock) (hI : Inv s G)
    (hpeek : Unstable.peek bound s.unstable = some anchor) :
    (budget < blockWork anchor.blk ∧ (s.utxos.ingestBlock anchor.blk budget).isPaused) ∨
    (blockWork anchor.blk ≤ budget ∧ ∃ u' s2,
      s.utxos.ingestBlock anchor.blk budget = .done u' (budget - blockWork anchor.blk) ∧
      State.popBlock bound
        { s with headers := s.headers.insert anchor.blk s.utxos.nextHeight, utxos := u' }
        anchor.blk.hash = some s2 ∧
      Inv s2 (G ++ [anchor.blk]) ∧ Frame s s2 ∧
      s2.headers = s.headers.insert anchor.blk G.length ∧
      s2.unstable.tree.blocksCount < s.unstable.tree.blocksCount) := by
  obtain ⟨idx, hidx, hanchor⟩ := peek_eq bound s.unstable anchor hpeek
  cases htree : s.unstable.tree with
  | node r cs =>
  have hr : anchor = r := by rw [hanchor, htree]; rfl
  subst hr
  -- validity of the anchor on top of `G`
  have hvA : TxValid (G ++ [anchor.blk]) := hI.valid anchor.hash [anchor.blk] (by
    rw [htree]; exact pathBlocks_root anchor cs)
  unfold TxValid at hvA
  rw [TxValidFrom_append] at hvA
  obtain ⟨_, hwf, hfresh, hv, _⟩ := hvA
  simp only [Nat.zero_add] at hv
  rw [← hI.heightEq] at hv
  rcases ingest_one_block_any_budget s.utxos (ledger G) anchor.blk budget hI.stable (ledger_nodup G)
      hwf hfresh hv with h1 | ⟨h1, u', hu', hS', hh'⟩
  · exact Or.inl h1
  · right
    have hpre : PopPre s.unstable G := ⟨hI.hashesNodup, hI.caches, hI.txids, hI.valid⟩
    obtain ⟨un', child, hchild, hpop, ht, hthr, hnet, hpre', hlinked', hprev'⟩ :=
      pop_preserves bound s.unstable G u'.nextHeight anchor cs idx htree hidx hI.linked hpre
    refine ⟨h1, u', { s with headers := s.headers.insert anchor.blk s.utxos.nextHeight,
                              utxos := u', unstable := un' }, hu', ?_, ?_, ?_, ?_, ?_⟩
    · simp only [State.popBlock, hpop, if_true]
    · obtain ⟨hnd', hC', hcons', hvalid'⟩ := hpre'
      have hhashes := hI.hashesNodup
      rw [htree] at hhashes
      refine ⟨?_, ?_, hlinked', ?_, hnd', hC', hcons', hvalid', ?_, ?_, ?_, ?_⟩
      · simp only [hh', hI.heightEq, List.length_append, List.length_singleton]
      · show StableIs u' (ledger (G ++ [anchor.blk]))
        rw [ledger_snoc, ← hI.heightEq]; exact hS'
      · simp only [List.getLast?_append, List.getLast?_singleton, Option.some_or]
        exact hprev'
      · -- the stable chain stays linked
        intro i hi
        simp only [List.length_append, List.length_singleton] at hi
        by_cases hlt : i + 1 < G.length
        · rw [List.getElem_append_left hlt, List.getElem_append_left (by omega)]
          exact hI.stableLinked i hlt
        · have hiG : i + 1 = G.length := by omega
          rw [List.getElem_append_right (by omega), List.getElem_append_left (by omega)]
          simp only [hiG, Nat.sub_self, List.getElem_singleton]
          have hrl := hI.rootLinked
          have hlast : G.getLast? = some G[i] := by
            rw [List.getLast?_eq_getElem?]
            have : G.length - 1 = i := by omega
            rw [this]
            exact List.getElem?_eq_getElem (by omega)
          rw [hlast, htree] at hrl
          exact hrl
      · -- headers by height
        intro i hi
        simp only [List.length_append, List.length_singleton] at hi
        show AList.find? (AList.insert s.headers.byHeight s.utxos.nextHeight anchor.blk.hash) i = _
        rw [AList.find?_insert, hI.heightEq]
        by_cases hlt : i < G.length
        · have : ¬ G.length = i := by omega
          simp only [beq_iff_eq, this, if_false]
          rw [List.getElem_append_left hlt]
          exact hI.headers i hlt
        · have : G.length = i := by omega
          subst this
          simp
      · intro i hi
        simp only [List.length_append, List.length_singleton] at hi
        show AList.find? (AList.insert s.headers.byHeight s.utxos.nextHeight anchor.blk.hash) i = _
        rw [AList.find?_insert, hI.heightEq]
        have : ¬ G.length = i := by omega
        simp only [beq_iff_eq, this, if_false]
        exact hI.headersOnly i (by omega)
      · intro g hg
        show AList.find? (AList.insert s.headers.byHash anchor.blk.hash _) g.hash = _
        rw [AList.find?_insert]
        rcases List.mem_append.1 hg with hg' | hg'
        · have hne : ¬ anchor.blk.hash = g.hash := by
            intro e
            rw [List.map_append, List.nodup_append] at hhashes
            exact hhashes.2.2 g.hash (List.mem_map.2 ⟨g, hg', rfl⟩) anchor.blk.hash
              (List.mem_map.2 ⟨anchor.blk, by simp [Tree.blocks], rfl⟩) e.symm
          simp only [beq_iff_eq, hne, if_false]
          exact hI.headersByHash g hg'
        · simp only [List.mem_singleton] at hg'
          subst hg'
          simp
    · exact ⟨rfl, rfl, rfl, rfl, rfl, rfl, rfl, hthr, hnet⟩
    · show HeaderStore.insert s.headers anchor.blk s.utxos.nextHeight = _
      rw [hI.heightEq]
    · show un'.tree.blocksCount < _
      rw [ht]
      have hlen : ∀ t : Tree CBlock, t.blocksCount = t.blocks.length := by
        intro t
        exact (Tree.rec (motive_1 := fun t => t.blocksCount = t.blocks.length)
          (motive_2 := fun cs => Tree.blocksCountList cs = (Tree.blocksList cs).length)
          (fun r cs ih => by simp [Tree.blocksCount, Tree.blocks, ih]; omega)
          (by simp [Tree.blocksCountList, Tree.blocksList])
          (fun c cs ih1 ih2 => by simp [Tree.blocksCountList, Tree.blocksList, ih1, ih2]) t)
      rw [hlen, hlen]
      simp only [Tree.blocks, List.length_cons]
      have := (Tree.blocks_child_sublist cs idx child hchild).length_le
      omega


/-- the result of the loop, as a predicate on the three possible outcomes -/
def LoopPost (bound : Unstable.BoundFn) (s : State) (G : List Block) (w : Bool) (fuelOk : Prop) :
    State.IngestResult → Prop
  | .trap _ => False
  | .paused _ => True
  | .done s' w' => ∃ popped : List Block, Inv s' (G ++ popped) ∧
      s'.utxos.nextHeight = G.length + popped.length ∧
      s'.headers = insertHeaders s.headers popped G.length ∧
      Frame s s' ∧ w' = (w || !popped.isEmpty) ∧
      (fuelOk → Unstable.peek bound s'.unstable = none)

/-- **The loop** `while let Some(..) = peek()`: by induction on the fuel. -/
theorem ingestNewStable_preserves_inv (bound : Unstable.BoundFn) :
    ∀ (fuel : Nat) (s : State) (G : List Block) (budget : Nat) (w : Bool), Inv s G →
      LoopPost bound s G w (s.unstable.tree.blocksCount < fuel)
        (State.ingestNewStable bound fuel s budget w)
  | 0, s, G, budget, w, hI => by
    simp only [State.ingestNewStable, LoopPost]
    exact ⟨[], by simpa using hI, by simp [hI.heightEq], rfl, Frame.refl s, by simp, by omega⟩
  | fuel + 1, s, G, budget, w, hI => by
    cases hpeek : Unstable.peek bound s.unstable with
    | none =>
      simp only [State.ingestNewStable, hpeek, LoopPost]
      exact ⟨[], by simpa using hI, by simp [hI.heightEq], rfl, Frame.refl s, by simp,
        by intro _; first | trivial | exact hpeek⟩
    | some anchor =>
      simp only [State.ingestNewStable, hpeek]
      rcases ingest_step_preserves_inv bound s G budget anchor hI hpeek with
        ⟨_, h2⟩ | ⟨_, u', s2, hu', hpop, hI2, hF, hH, hlt⟩
      · cases hr : s.utxos.ingestBlock anchor.blk budget with
        | paused up => simp only [LoopPost]
        | done a b => rw [hr] at h2; cases h2
        | trap m => rw [hr] at h2; cases h2
      · rw [hu']
        simp only
        rw [hpop]
        simp only
        have ih := ingestNewStable_preserves_inv bound fuel s2 (G ++ [anchor.blk])
          (budget - blockWork anchor.blk) true hI2
        cases hres : State.ingestNewStable bound fuel s2 (budget - blockWork anchor.blk) true with
        | trap m => rw [hres] at ih; exact ih
        | paused sp => simp only [LoopPost]
        | done s' w' =>
          rw [hres] at ih
          obtain ⟨popped, i1, i2, i3, i4, i5, i6⟩ := ih
          refine ⟨anchor.blk :: popped, by simpa using i1, ?_, ?_, hF.trans i4, ?_, ?_⟩
          · rw [i2]; simp only [List.length_append, List.length_cons, List.length_nil]; omega
          · rw [i3, hH]
            simp [insertHeaders]
          · simp [i5]
          · intro hf
            exact i6 (by omega)

/-- **`ingest_stable_blocks_into_utxoset` preserves the invariant** (deliverable 3), for every
    budget: the call never traps; if it does not pause, the invariant holds for the stable chain
    extended by the successively popped anchors `popped`, the stable height and the header store
    advance by exactly those blocks, nothing else of the state changes, and no further block is
    stable (`peek = none`). -/
theorem ingest_stable_preserves_inv (bound : Unstable.BoundFn) (s : State) (G : List Block)
    (budget : Nat) (hI : Inv s G) :
    match s.ingestStable bound budget with
    | .trap _ => False
    | .paused _ => True
    | .done s' w => ∃ popped : List Block, Inv s' (G ++ popped) ∧
        s'.utxos.nextHeight = G.length + popped.length ∧
        s'.headers = insertHeaders s.headers popped G.length ∧
        Frame s s' ∧ w = !popped.isEmpty ∧ Unstable.peek bound s'.unstable = none := by
  have hni : s.utxos.ingestContinue budget = none := by
    simp [UtxoSet.ingestContinue, hI.stable.notIngesting]
  have h := ingestNewStable_preserves_inv bound (s.unstable.tree.blocksCount + 1) s G budget false hI
  unfold State.ingestStable
  simp only [hni]
  cases hres : State.ingestNewStable bound (s.unstable.tree.blocksCount + 1) s budget false with
  | trap m => rw [hres] at h; exact h
  | paused sp => trivial
  | done s' w =>
    rw [hres] at h
    obtain ⟨popped, i1, i2, i3, i4, i5, i6⟩ := h
    exact ⟨popped, i1, i2, i3, i4, by simpa using i5, i6 (by omega)⟩

/-- **Trap freedom** (deliverable 4): under the invariant, ingesting stable blocks never traps,
    whatever the budget (it may pause). -/
theorem ingest_stable_never_traps (bound : Unstable.BoundFn) (s : State) (G : List Block)
    (budget : Nat) (hI : Inv s G) : ∀ m, s.ingestStable bound budget ≠ .trap m := by
  intro m hm
  have := ingest_stable_preserves_inv bound s G budget hI
  rw [hm] at this
  exact this


/-! ## 5. A concrete instance (the hypotheses are satisfiable, the conclusion is non-trivial) -/

namespace Example

def outA : TxOut := ⟨50, some [1], false⟩
def outB : TxOut := ⟨25, some [2], false⟩
def txA : Tx := { txid := 10, coinbase := true, vsize := 1, ins := [], outs := [outA] }
def txB : Tx := { txid := 11, coinbase := true, vsize := 1, ins := [], outs := [outB] }
def blkA : Block := { hash := 1, prev := 0, diff := 1, time := 0, bits := 0, header := "a", txs := [txA] }
def blkB : Block := { hash := 2, prev := 1, diff := 1, time := 0, bits := 0, header := "b", txs := [txB] }
def cA : CBlock := ⟨blkA, some [], 1⟩
def cB : CBlock := ⟨blkB, some [], 1⟩

/-- genesis `A` (anchor) with one child `B`, stability threshold 1: `B` makes `A` stable -/
def st : State :=
  { utxos := {},
    unstable :=
      { thr := 1, tree := .node cA [.node cB []], net := .mainnet,
        cache := { txOuts := [(⟨10, 0⟩, ⟨outA, 0, 1⟩), (⟨11, 0⟩, ⟨outB, 1, 1⟩)],
                   added := [(1, [([1], [⟨10, 0⟩])]), (2, [([2], [⟨11, 0⟩])])],
                   removed := [(1, []), (2, [])] },
        tipDepthsCache := [2], blockCache := [1, 2] } }

def bound0 : Unstable.BoundFn := fun _ _ => 0

example : (Unstable.peek bound0 st.unstable).map CBlock.hash = some 1 := by decide

theorem st_inv : Inv st [] := by
  refine ⟨rfl, ?_, ?_, trivial, by decide, ?_, ?_, ?_, ?_, ?_, ?_, ?_⟩
  · refine ⟨rfl, by simp [st], fun _ => rfl, by simp [st], ?_, by simp [st], fun _ => rfl⟩
    intro e; simp [st, ledger, ledgerFrom]
  · simp [st, Linked, LinkedList, cB, blkB, cA, blkA, CBlock.hash, Tree.root]
  · -- caches
    have hblocks : st.unstable.tree.blocks = [cA, cB] := rfl
    refine ⟨?_, ?_, ?_, ?_, by decide, ?_, ?_, rfl⟩
    · intro b hb a
      rw [hblocks] at hb
      simp only [List.mem_cons, List.not_mem_nil, or_false] at hb
      rcases hb with rfl | rfl
      · by_cases ha : a = [1]
        · subst ha; decide
        · have ha' : ¬ [1] = a := fun e => ha e.symm
          simp [OutPointsCache.getAdded, st, cA, blkA, CBlock.hash, AList.find?, addedSpec, txA,
            createdBy, outA, ha']
      · by_cases ha : a = [2]
        · subst ha; decide
        · have ha' : ¬ [2] = a := fun e => ha e.symm
          simp [OutPointsCache.getAdded, st, cB, blkB, CBlock.hash, AList.find?, addedSpec, txB,
            createdBy, outB, ha']
    · intro b hb a
      rw [hblocks] at hb
      simp only [List.mem_cons, List.not_mem_nil, or_false] at hb
      rcases hb with rfl | rfl <;>
        simp [OutPointsCache.getRemoved, st, cA, cB, blkA, blkB, CBlock.hash, AList.find?,
          removedSpec, txA, txB]
    · intro h
      rw [hblocks]
      by_cases h1 : h = 1
      · subst h1; decide
      · by_cases h2 : h = 2
        · subst h2; decide
        · have h1' : ¬ 1 = h := fun e => h1 e.symm
          have h2' : ¬ 2 = h := fun e => h2 e.symm
          simp [AList.contains, AList.find?, st, cA, cB, blkA, blkB, CBlock.hash, h1, h2, h1', h2']
    · intro h
      rw [hblocks]
      by_cases h1 : h = 1
      · subst h1; decide
      · by_cases h2 : h = 2
        · subst h2; decide
        · have h1' : ¬ 1 = h := fun e => h1 e.symm
          have h2' : ¬ 2 = h := fun e => h2 e.symm
          simp [AList.contains, AList.find?, st, cA, cB, blkA, blkB, CBlock.hash, h1, h2, h1', h2']
    · intro o
      have href : ∀ o, refCount st.unstable.tree o = [(⟨10, 0⟩ : OutPoint), ⟨11, 0⟩].count o := by
        intro o; rfl
      by_cases h1 : o = ⟨10, 0⟩
      · subst h1
        have : AList.find? st.unstable.cache.txOuts ⟨10, 0⟩ = some ⟨outA, 0, 1⟩ := rfl
        rw [this, href]
        exact ⟨by decide, by decide, by decide⟩
      · by_cases h2 : o = ⟨11, 0⟩
        · subst h2
          have : AList.find? st.unstable.cache.txOuts ⟨11, 0⟩ = some ⟨outB, 1, 1⟩ := rfl
          rw [this, href]
          exact ⟨by decide, by decide, by decide⟩
        · have h1' : ¬ (⟨10, 0⟩ : OutPoint) = o := fun e => h1 e.symm
          have h2' : ¬ (⟨11, 0⟩ : OutPoint) = o := fun e => h2 e.symm
          have : AList.find? st.unstable.cache.txOuts o = none := by
            simp [st, AList.find?, h1', h2']
          rw [this, href]
          simp [h1', h2']
    · intro h
      have hbc : st.unstable.blockCache = [1, 2] := rfl
      have hh : st.unstable.tree.blocks.map CBlock.hash = [1, 2] := rfl
      rw [hbc, hh]
  · intro t1 h1 t2 h2 _
    have : txsOf ([] ++ st.unstable.tree.blocks.map (·.blk)) = [txA, txB] := rfl
    rw [this] at h1 h2
    simp only [List.mem_cons, List.not_mem_nil, or_false] at h1 h2
    rcases h1 with rfl | rfl <;> rcases h2 with rfl | rfl <;> first | rfl | (rename_i h; cases h)
  · intro tip p hp
    have wfA : BlockWF blkA := by
      refine ⟨?_, ?_, ?_⟩ <;> simp [blkA, txA, outA]
    have wfB : BlockWF blkB := by
      refine ⟨?_, ?_, ?_⟩ <;> simp [blkB, txB, outB]
    have h1 : TxValid [blkA] := by
      refine ⟨wfA, ?_, ?_, trivial⟩ <;> simp [TxValidFrom.TxsValid, blkA, txA]
    have h2 : TxValid [blkA, blkB] := by
      refine ⟨wfA, ?_, ?_, wfB, ?_, ?_, trivial⟩ <;>
        simp [TxValidFrom.TxsValid, blkA, blkB, txA, txB, applyBlock, applyTx, outA]
    by_cases ht1 : tip = 1
    · subst ht1
      have : pathBlocks st.unstable.tree 1 = some [blkA] := by decide
      rw [this] at hp; cases hp; exact h1
    · by_cases ht2 : tip = 2
      · subst ht2
        have : pathBlocks st.unstable.tree 2 = some [blkA, blkB] := by decide
        rw [this] at hp; cases hp; exact h2
      · exfalso
        have h1' : ¬ 1 = tip := fun e => ht1 e.symm
        have h2' : ¬ 2 = tip := fun e => ht2 e.symm
        simp [pathBlocks, st, Tree.chainWithTip, Tree.chainWithTipList, cA, cB, blkA, blkB,
          CBlock.hash, h1', h2'] at hp
  · intro i hi; simp at hi
  · intro i hi; simp at hi
  · intro i _; rfl
  · intro g hg; simp at hg

/-- observable part of the result -/
def view : State.IngestResult → Option (List (OutPoint × (TxOut × Nat)) × Nat × List (Nat × Nat) × Bool)
  | .done s' w => some (s'.utxos.utxos, s'.utxos.nextHeight, s'.headers.byHeight, w)
  | _ => none

/-- with enough budget the anchor `A` is ingested and popped, `B` stays unstable -/
example : view (st.ingestStable bound0 10) = some ([(⟨10, 0⟩, (outA, 0))], 1, [(0, 1)], true) := by
  decide

/-- what the theorem gives for this state -/
example : ∀ m, st.ingestStable bound0 10 ≠ .trap m := ingest_stable_never_traps bound0 st [] 10 st_inv

end Example

end Btc.Props.InvIngest
