import BtcModel.Lemmas.Headers
import BtcModel.Props.C01
import BtcModel.Props.InvIngest

/-!
# C07 — `get_block_headers` returns the headers of the best chain, one per height, hash-linked

Specification: `fullBest s G` — the raw header of every block of the best chain by height: the
stable chain `G` (ghost history of `Spec.Inv`) followed by the main chain of the unstable tree.

* `getBlockHeaders_eq`: under `Inv s G` (plus `HeightsNodup`, see below) every request whose range
  passes `verify_and_return_effective_range` is answered by the slice `lo..hi` of `fullBest`,
  `hi` being the reported tip height; `range_spec`/`error_spec` characterise the effective range
  and the three documented errors with the precedence of the code.
* `one_header_per_height`: the `i`-th returned header is the header of height `lo + i`; exactly
  `hi - lo + 1` headers are returned.
* `bestBlocks_linked`, `answer_linked`: consecutive blocks of the best chain (hence the blocks
  whose headers are returned) are hash-linked.
* `same_answer_while_ingesting` (the fixed bug F6): while the anchor is being ingested (its header
  is already in the stable store at the stable height, the UTXO set is mid-block) the answer is
  the same as before.

Extra hypothesis: `HeightsNodup s.headers` — the height index has pairwise distinct keys. It holds
for every store built by `HeaderStore.insert` from the empty store (`HeightsNodup.insert`,
`HeightsNodup.empty`) but is not a field of `Spec.Inv` (which only speaks about lookups).
-/
namespace Btc.Props.C07
open Btc Btc.Spec Btc.State

/-- the blocks of the best chain by height: the stable chain, then the unstable main chain -/
def bestBlocks (s : State) (G : List Block) : List Block := G ++ s.unstable.mainChain.map (·.blk)

/-- the header of every block of the best chain, by height -/
def fullBest (s : State) (G : List Block) : List String :=
  G.map (·.header) ++ s.unstable.mainChain.map (·.blk.header)

theorem fullBest_eq (s : State) (G : List Block) : fullBest s G = (bestBlocks s G).map (·.header) := by
  simp [fullBest, bestBlocks, List.map_map, Function.comp_def]

theorem mainChain_length_pos (s : State) : 0 < s.unstable.mainChain.length := by
  have h := C02.bestPath_head CBlock.diff s.unstable.tree
  unfold Unstable.mainChain
  rw [C02.mainChain_eq_bestPath]
  cases hb : bestPath CBlock.diff s.unstable.tree with
  | nil => rw [hb] at h; simp at h
  | cons x xs => simp

/-- the best chain has exactly one block per height `0..main_chain_height` -/
theorem fullBest_length {s : State} {G : List Block} (hinv : Inv s G) :
    (fullBest s G).length = s.mainChainHeight + 1 := by
  have hpos := mainChain_length_pos s
  unfold fullBest State.mainChainHeight
  rw [C02.mainChainLen_eq_length, ← C02.mainChain_eq_bestPath, hinv.heightEq]
  simp only [List.length_append, List.length_map]
  unfold Unstable.mainChain at hpos ⊢
  omega

/-! ### the effective range and the errors (`verify_and_return_effective_range`) -/

/-- A request passes exactly when `start ≤ tip` and the optional end lies in `[start, tip]`; the
    effective range then starts at `start` and ends at the requested end (or the tip), capped to
    `maxHeaders` heights. -/
theorem range_spec (tip maxHeaders start : Nat) (end_ : Option Nat) (lo hi : Nat) :
    effectiveRange tip maxHeaders start end_ = .ok (lo, hi) ↔
      start ≤ tip ∧ (∀ e, end_ = some e → start ≤ e ∧ e ≤ tip) ∧
      lo = start ∧ hi = min (end_.getD tip) (start + maxHeaders - 1) := by
  unfold effectiveRange
  cases end_ with
  | none =>
    by_cases h : start > tip
    · simp [h]; omega
    · simp only [h, if_false, Except.ok.injEq, Prod.mk.injEq, Option.getD_none]
      constructor
      · rintro ⟨rfl, rfl⟩; exact ⟨by omega, by simp, rfl, rfl⟩
      · rintro ⟨_, _, rfl, rfl⟩; exact ⟨rfl, rfl⟩
  | some e =>
    by_cases h : start > tip
    · simp [h]; omega
    · by_cases h2 : e < start
      · simp only [h, if_false, h2, if_true]
        constructor
        · intro hc; cases hc
        · rintro ⟨_, h3, _⟩; have := h3 e rfl; omega
      · by_cases h3 : e > tip
        · simp only [h, if_false, h2, h3, if_true]
          constructor
          · intro hc; cases hc
          · rintro ⟨_, h4, _⟩; have := h4 e rfl; omega
        · simp only [h, if_false, h2, h3, Except.ok.injEq, Prod.mk.injEq, Option.getD_some]
          constructor
          · rintro ⟨rfl, rfl⟩
            refine ⟨by omega, ?_, rfl, rfl⟩
            intro e' he'; cases he'; omega
          · rintro ⟨_, _, rfl, rfl⟩; exact ⟨rfl, rfl⟩

/-- The three documented errors, exactly when (start > tip), (end < start), (end > tip), with the
    precedence of the code: a start beyond the tip wins over everything, an end below the start
    wins over an end beyond the tip. -/
theorem error_spec (tip maxHeaders start : Nat) (end_ : Option Nat) (err : HeadersError) :
    effectiveRange tip maxHeaders start end_ = .error err ↔
      (start > tip ∧ err = .startHeightDoesNotExist start tip) ∨
      (start ≤ tip ∧ ∃ e, end_ = some e ∧ e < start ∧ err = .startLargerThanEnd start e) ∨
      (start ≤ tip ∧ ∃ e, end_ = some e ∧ start ≤ e ∧ tip < e ∧ err = .endHeightDoesNotExist e tip) := by
  unfold effectiveRange
  by_cases h : start > tip
  · simp only [h, if_true, Except.error.injEq]
    constructor
    · intro he; exact Or.inl ⟨trivial, he.symm⟩
    · rintro (⟨_, rfl⟩ | ⟨h', _⟩ | ⟨h', _⟩)
      · rfl
      · omega
      · omega
  · simp only [h, if_false]
    cases end_ with
    | none =>
      simp only [reduceCtorEq, false_iff]
      rintro (⟨h', _⟩ | ⟨_, e, he, _⟩ | ⟨_, e, he, _⟩)
      · first | exact absurd h' h | exact h'.elim
      · cases he
      · cases he
    | some e =>
      by_cases h2 : e < start
      · simp only [h2, if_true, Except.error.injEq]
        constructor
        · intro he; exact Or.inr (Or.inl ⟨by omega, e, rfl, h2, he.symm⟩)
        · rintro (⟨h', _⟩ | ⟨_, e', he', _, rfl⟩ | ⟨_, e', he', h3, _⟩)
          · first | exact absurd h' h | exact h'.elim
          · cases he'; rfl
          · cases he'; omega
      · by_cases h3 : e > tip
        · simp only [h2, if_false, h3, if_true, Except.error.injEq]
          constructor
          · intro he; exact Or.inr (Or.inr ⟨by omega, e, rfl, by omega, h3, he.symm⟩)
          · rintro (⟨h', _⟩ | ⟨_, e', he', h4, _⟩ | ⟨_, e', he', _, _, rfl⟩)
            · first | exact absurd h' h | exact h'.elim
            · cases he'; omega
            · cases he'; rfl
        · simp only [h2, if_false, h3, reduceCtorEq, false_iff]
          rintro (⟨h', _⟩ | ⟨_, e', he', h4, _⟩ | ⟨_, e', he', _, h4, _⟩)
          · first | exact absurd h' h | exact h'.elim
          · cases he'; omega
          · cases he'; omega

/-- an error of the range check is the answer of the endpoint -/
theorem getBlockHeaders_error (s : State) (maxHeaders start : Nat) (end_ : Option Nat)
    (err : HeadersError)
    (h : effectiveRange s.mainChainHeight maxHeaders start end_ = .error err) :
    s.getBlockHeaders maxHeaders start end_ = .error err := by
  unfold getBlockHeaders; rw [h]

/-- the endpoint fails exactly when the range check fails (with the same error) -/
theorem getBlockHeaders_error_iff (s : State) (maxHeaders start : Nat) (end_ : Option Nat)
    (err : HeadersError) :
    s.getBlockHeaders maxHeaders start end_ = .error err ↔
      effectiveRange s.mainChainHeight maxHeaders start end_ = .error err := by
  constructor
  · intro h
    unfold getBlockHeaders at h
    split at h
    · rename_i e he; cases h; exact he
    · cases h
  · exact getBlockHeaders_error s maxHeaders start end_ err

/-! ### the answer is the slice of the best chain -/

/-- splitting a window `[lo, hi]` of `A ++ B` at `|A| = n` as the code does -/
theorem window_split {α : Type} (A B : List α) (lo hi : Nat) (hle : lo ≤ hi) :
    ((A ++ B).drop lo).take (hi - lo + 1) =
      (if lo ≥ A.length then [] else (A.drop lo).take (min hi (A.length - 1) + 1 - lo)) ++
      (if hi < A.length then [] else
        (B.drop (lo - A.length)).take (hi - A.length + 1 - (lo - A.length))) := by
  by_cases h1 : lo ≥ A.length
  · have h2 : ¬ hi < A.length := by omega
    simp only [h1, if_true, h2, if_false, List.nil_append]
    rw [List.drop_append, List.drop_eq_nil_of_le h1, List.nil_append]
    congr 1; omega
  · simp only [h1, if_false]
    have hlo : lo ≤ A.length := by omega
    rw [List.drop_append_of_le_length hlo]
    by_cases h2 : hi < A.length
    · simp only [h2, if_true, List.append_nil]
      have : min hi (A.length - 1) = hi := by omega
      rw [this, List.take_append_of_le_length (by simp; omega)]
      congr 1; omega
    · simp only [h2, if_false]
      have : min hi (A.length - 1) = A.length - 1 := by omega
      rw [this, List.take_append]
      have hl : (A.drop lo).length = A.length - lo := by simp
      rw [hl]
      have e1 : lo - A.length = 0 := by omega
      rw [e1, List.drop_zero]
      have e2 : (A.drop lo).take (hi - lo + 1) = A.drop lo := by
        rw [List.take_of_length_le]; rw [hl]; omega
      have e3 : (A.drop lo).take (A.length - 1 + 1 - lo) = A.drop lo := by
        rw [List.take_of_length_le]; rw [hl]; omega
      rw [e2, e3]
      congr 2; omega

/-- the stable store serves every window below the stable height from `G` -/
theorem stable_range {s : State} {G : List Block} (hinv : Inv s G) (hnd : HeightsNodup s.headers)
    (lo hi : Nat) (hhi : hi < G.length) :
    s.headers.range lo hi = ((G.drop lo).take (hi + 1 - lo)).map (·.header) :=
  HeaderStore.range_eq s.headers G hnd hinv.headers
    (fun g hg => ⟨_, hinv.headersByHash g hg, rfl⟩) lo hi hhi

/-- the shape of the answer, for any state whose stable store answers windows below the stable
    height from `G` -/
theorem getBlockHeaders_core (s : State) (G : List Block) (hlen : s.utxos.nextHeight = G.length)
    (hrange : ∀ lo hi, hi < G.length →
      s.headers.range lo hi = ((G.drop lo).take (hi + 1 - lo)).map (·.header))
    (maxHeaders start : Nat) (end_ : Option Nat) (lo hi : Nat) (hle : lo ≤ hi)
    (hr : effectiveRange s.mainChainHeight maxHeaders start end_ = .ok (lo, hi)) :
    s.getBlockHeaders maxHeaders start end_ =
      .ok (hi, ((fullBest s G).drop lo).take (hi - lo + 1)) := by
  unfold getBlockHeaders
  rw [hr]
  simp only [State.stableHeight, hlen]
  unfold fullBest
  rw [window_split _ _ lo hi hle]
  simp only [List.length_map]
  congr 3
  · by_cases h1 : lo ≥ G.length
    · simp [h1]
    · simp only [h1, if_false]
      rw [hrange lo (min hi (G.length - 1)) (by omega), List.map_take, List.map_drop]
  · by_cases h2 : hi < G.length
    · simp [h2]
    · simp only [h2, if_false, List.map_take, List.map_drop]

/-- a passing range is non-empty when at least one header may be returned -/
theorem range_le {tip maxHeaders start : Nat} {end_ : Option Nat} {lo hi : Nat}
    (hm : 1 ≤ maxHeaders) (hr : effectiveRange tip maxHeaders start end_ = .ok (lo, hi)) :
    lo ≤ hi ∧ hi ≤ tip ∧ hi < lo + maxHeaders := by
  obtain ⟨h1, h2, rfl, rfl⟩ := (range_spec tip maxHeaders start end_ lo hi).mp hr
  cases end_ with
  | none => simp only [Option.getD_none]; omega
  | some e => have := h2 e rfl; simp only [Option.getD_some]; omega

/-- **C07.1**: under the invariant, a request whose range passes the check is answered with the
    tip height `hi` and the headers of the best chain at the heights `lo, lo+1, …, hi`, in this
    order — the stable part from the header store, the rest from the unstable main chain. -/
theorem getBlockHeaders_eq {s : State} {G : List Block} (hinv : Inv s G)
    (hnd : HeightsNodup s.headers) (maxHeaders start : Nat) (end_ : Option Nat) (lo hi : Nat)
    (hm : 1 ≤ maxHeaders)
    (hr : effectiveRange s.mainChainHeight maxHeaders start end_ = .ok (lo, hi)) :
    s.getBlockHeaders maxHeaders start end_ =
      .ok (hi, ((fullBest s G).drop lo).take (hi - lo + 1)) :=
  getBlockHeaders_core s G hinv.heightEq (stable_range hinv hnd) maxHeaders start end_ lo hi
    (range_le hm hr).1 hr

/-- the whole endpoint in one statement: start/end are validated against the height of the best
    chain `|fullBest| - 1`; the answer is the slice of `fullBest` -/
theorem getBlockHeaders_spec {s : State} {G : List Block} (hinv : Inv s G)
    (hnd : HeightsNodup s.headers) (maxHeaders start : Nat) (end_ : Option Nat) (hm : 1 ≤ maxHeaders) :
    let tip := (fullBest s G).length - 1
    s.getBlockHeaders maxHeaders start end_ =
      match effectiveRange tip maxHeaders start end_ with
      | .error e => .error e
      | .ok (lo, hi) => .ok (hi, ((fullBest s G).drop lo).take (hi - lo + 1)) := by
  intro tip
  have htip : tip = s.mainChainHeight := by
    show (fullBest s G).length - 1 = _
    rw [fullBest_length hinv]; rfl
  rw [htip]
  cases hr : effectiveRange s.mainChainHeight maxHeaders start end_ with
  | error e => exact getBlockHeaders_error s _ _ _ e hr
  | ok p =>
    obtain ⟨lo, hi⟩ := p
    exact getBlockHeaders_eq hinv hnd maxHeaders start end_ lo hi hm hr

/-- **exactly one header per height `lo..hi`**: `hi - lo + 1` headers are returned and the `i`-th
    is the header of the best-chain block at height `lo + i` -/
theorem one_header_per_height {s : State} {G : List Block} (hinv : Inv s G)
    (hnd : HeightsNodup s.headers) (maxHeaders start : Nat) (end_ : Option Nat) (lo hi : Nat)
    (hm : 1 ≤ maxHeaders)
    (hr : effectiveRange s.mainChainHeight maxHeaders start end_ = .ok (lo, hi)) :
    ∃ hs, s.getBlockHeaders maxHeaders start end_ = .ok (hi, hs) ∧
      hs.length = hi - lo + 1 ∧ hi - lo + 1 ≤ maxHeaders ∧
      ∀ i, i ≤ hi - lo → ∃ b, (bestBlocks s G)[lo + i]? = some b ∧ hs[i]? = some b.header := by
  have hrl := range_le hm hr
  have hlen := fullBest_length hinv
  refine ⟨_, getBlockHeaders_eq hinv hnd maxHeaders start end_ lo hi hm hr, ?_, by omega, ?_⟩
  · simp only [List.length_take, List.length_drop, hlen]; omega
  · intro i hi'
    have hlt : lo + i < (bestBlocks s G).length := by
      have : (bestBlocks s G).length = (fullBest s G).length := by rw [fullBest_eq]; simp
      omega
    refine ⟨(bestBlocks s G)[lo + i], List.getElem?_eq_getElem hlt, ?_⟩
    rw [List.getElem?_take_of_lt (by omega), List.getElem?_drop, fullBest_eq, List.getElem?_map,
      List.getElem?_eq_getElem hlt]
    rfl

/-! ### linkedness -/

/-- **C07.2**: the best chain — stable chain followed by the unstable main chain — is hash-linked:
    every block's `prev` is the hash of the block one height below. -/
theorem bestBlocks_linked {s : State} {G : List Block} (hinv : Inv s G) :
    LinkedChain (bestBlocks s G) := by
  obtain ⟨tip, sib, _, hroot⟩ := C01.mainChain_isRootPath hinv
  obtain ⟨hl, hhead⟩ := chainWithTip_linked tip.hash s.unstable.tree _ _ hinv.linked hroot
  unfold bestBlocks
  apply LinkedChain.append (LinkedChain.of_getElem hinv.stableLinked) hl
  intro x y hx hy
  have hrl := hinv.rootLinked
  rw [hx] at hrl
  simp only at hrl
  rw [List.head?_map, hhead] at hy
  simp only [Option.map_some, Option.some.injEq] at hy
  subst hy
  exact hrl

theorem bestBlocks_linked_getElem {s : State} {G : List Block} (hinv : Inv s G) (i : Nat)
    (hi : i + 1 < (bestBlocks s G).length) :
    ((bestBlocks s G)[i + 1]).prev = ((bestBlocks s G)[i]).hash :=
  (bestBlocks_linked hinv).getElem i hi

/-- the returned headers are the headers of a hash-linked run of blocks of the best chain -/
theorem answer_linked {s : State} {G : List Block} (hinv : Inv s G)
    (hnd : HeightsNodup s.headers) (maxHeaders start : Nat) (end_ : Option Nat) (lo hi : Nat)
    (hm : 1 ≤ maxHeaders)
    (hr : effectiveRange s.mainChainHeight maxHeaders start end_ = .ok (lo, hi)) :
    ∃ bs : List Block, bs = ((bestBlocks s G).drop lo).take (hi - lo + 1) ∧ LinkedChain bs ∧
      s.getBlockHeaders maxHeaders start end_ = .ok (hi, bs.map (·.header)) := by
  refine ⟨_, rfl, ((bestBlocks_linked hinv).drop lo).take _, ?_⟩
  rw [getBlockHeaders_eq hinv hnd maxHeaders start end_ lo hi hm hr, fullBest_eq, List.map_take,
    List.map_drop]

/-! ### the same answer while a block is being ingested (F6) -/

/-- **C07.3**: let `s'` differ from an `Inv` state `s` only by the anchor's header having been
    stored at the stable height (`headers := s.headers.insert A G.length`) and by the UTXO set being
    in the middle of ingesting that block (`utxos := u'` with the stable height unchanged). Then
    every `get_block_headers` request has the same answer in `s'` as in `s`: the stable store is
    only consulted below the stable height. `A` may be any block whose hash is not in `G` — in
    particular the anchor (`same_answer_anchor`). -/
theorem same_answer_while_ingesting {s : State} {G : List Block} (hinv : Inv s G)
    (hnd : HeightsNodup s.headers) (A : Block) (hA : A.hash ∉ G.map (·.hash)) (u' : UtxoSet)
    (hu' : u'.nextHeight = s.utxos.nextHeight) (maxHeaders start : Nat) (end_ : Option Nat) :
    ({ s with headers := s.headers.insert A G.length, utxos := u' } : State).getBlockHeaders
        maxHeaders start end_ = s.getBlockHeaders maxHeaders start end_ := by
  unfold getBlockHeaders State.mainChainHeight State.stableHeight
  simp only [hu']
  cases hr : effectiveRange (Tree.mainChainLen CBlock.diff s.unstable.tree + s.utxos.nextHeight - 1)
      maxHeaders start end_ with
  | error e => rfl
  | ok p =>
    obtain ⟨lo, hi⟩ := p
    simp only
    congr 3
    by_cases h1 : lo ≥ s.utxos.nextHeight
    · simp [h1]
    · simp only [h1, if_false]
      have hlt : min hi (s.utxos.nextHeight - 1) < G.length := by rw [← hinv.heightEq]; omega
      apply HeaderStore.range_insert _ _ _ _ _ hlt
      intro p hp hple heq
      have hp1 : p.1 < G.length := by omega
      have hf := AList.find?_of_mem s.headers.byHeight hnd p.1 p.2 hp
      rw [hinv.headers p.1 hp1] at hf
      simp only [Option.some.injEq] at hf
      apply hA
      rw [← heq, ← hf]
      exact List.mem_map.mpr ⟨G[p.1], List.getElem_mem hp1, rfl⟩

/-- the anchor's hash is not the hash of a stable block -/
theorem anchor_fresh {s : State} {G : List Block} (hinv : Inv s G) :
    s.unstable.tree.root.blk.hash ∉ G.map (·.hash) := by
  have h := hinv.hashesNodup
  rw [List.map_append, List.nodup_append] at h
  intro hm
  refine h.2.2 _ hm _ ?_ rfl
  rw [List.map_map]
  refine List.mem_map.mpr ⟨s.unstable.tree.root, ?_, rfl⟩
  cases s.unstable.tree with
  | node r cs => simp [Tree.root, Tree.blocks]

/-- C07.3 for the anchor: the state in which `ingest_stable_blocks_into_utxoset` pauses -/
theorem same_answer_anchor {s : State} {G : List Block} (hinv : Inv s G)
    (hnd : HeightsNodup s.headers) (u' : UtxoSet) (hu' : u'.nextHeight = s.utxos.nextHeight)
    (maxHeaders start : Nat) (end_ : Option Nat) :
    ({ s with headers := s.headers.insert s.unstable.tree.root.blk s.utxos.nextHeight,
              utxos := u' } : State).getBlockHeaders maxHeaders start end_ =
      s.getBlockHeaders maxHeaders start end_ := by
  rw [hinv.heightEq]
  exact same_answer_while_ingesting hinv hnd _ (anchor_fresh hinv) u' hu' maxHeaders start end_

/-- ... and this is the state a heartbeat leaves behind when the ingestion of the anchor pauses:
    every `get_block_headers` request is answered as before the heartbeat. -/
theorem paused_ingestion_same_headers {s : State} {G : List Block} (hinv : Inv s G)
    (hnd : HeightsNodup s.headers) (bound : Unstable.BoundFn) (fuel budget : Nat) (w : Bool)
    (anchor : CBlock) (u : UtxoSet) (hpeek : Unstable.peek bound s.unstable = some anchor)
    (hp : s.utxos.ingestBlock anchor.blk budget = .paused u) :
    ∃ s', State.ingestNewStable bound (fuel + 1) s budget w = .paused s' ∧
      s'.headers = s.headers.insert anchor.blk G.length ∧
      ∀ maxHeaders start end_,
        s'.getBlockHeaders maxHeaders start end_ = s.getBlockHeaders maxHeaders start end_ := by
  have ha : anchor = s.unstable.tree.root := by
    unfold Unstable.peek at hpeek
    cases hi : Unstable.stableChildIdx bound s.unstable with
    | none => rw [hi] at hpeek; cases hpeek
    | some i => rw [hi] at hpeek; exact (Option.some.inj hpeek).symm
  refine ⟨{ s with headers := s.headers.insert anchor.blk s.utxos.nextHeight, utxos := u },
    by simp only [State.ingestNewStable, hpeek, hp], by simp only [hinv.heightEq], ?_⟩
  intro maxHeaders start end_
  subst ha
  exact same_answer_anchor hinv hnd u (ingestBlock_paused_nextHeight _ _ _ _ hp) maxHeaders start end_

/-! ### `HeightsNodup` is an invariant of the header store -/

theorem heightsNodup_insertHeaders (hs : HeaderStore) (h : HeightsNodup hs) :
    ∀ (bs : List Block) (n : Nat), HeightsNodup (InvIngest.insertHeaders hs bs n)
  | [], _ => h
  | b :: bs, n => heightsNodup_insertHeaders (hs.insert b n) (h.insert b n) bs (n + 1)

/-- the only code that writes the header store is the ingestion of stable blocks, and it keeps the
    height keys distinct (every other transition of the model leaves `headers` untouched) -/
theorem ingest_preserves_heightsNodup (bound : Unstable.BoundFn) (s : State) (G : List Block)
    (budget : Nat) (hinv : Inv s G) (hnd : HeightsNodup s.headers) (s' : State) (w : Bool)
    (h : s.ingestStable bound budget = .done s' w) : HeightsNodup s'.headers := by
  have := InvIngest.ingest_stable_preserves_inv bound s G budget hinv
  rw [h] at this
  obtain ⟨popped, _, _, hh, _⟩ := this
  rw [hh]
  exact heightsNodup_insertHeaders _ hnd _ _

/-! ### Non-vacuity -/

theorem exNodup : HeightsNodup C01.exS.headers := by unfold HeightsNodup; decide

/-- the theorem applies to the example state of C01 (one stable block, one unstable block) and
    pins the answer down -/
example : C01.exS.getBlockHeaders 100 0 none =
    .ok (1, ((fullBest C01.exS [exG]).drop 0).take (1 - 0 + 1)) :=
  getBlockHeaders_eq C01.exInv exNodup 100 0 none 0 1 (by decide) rfl

example : fullBest C01.exS [exG] = ["", ""] := by decide
example : LinkedChain (bestBlocks C01.exS [exG]) := bestBlocks_linked C01.exInv
example : (bestBlocks C01.exS [exG]).map (fun b => (b.hash, b.prev)) = [(100, 0), (101, 100)] := by
  decide
example : C01.exS.getBlockHeaders 100 2 none = .error (.startHeightDoesNotExist 2 1) := rfl
example : C01.exS.getBlockHeaders 100 1 (some 0) = .error (.startLargerThanEnd 1 0) := rfl
example : C01.exS.getBlockHeaders 100 1 (some 5) = .error (.endHeightDoesNotExist 5 1) := rfl
/-- precedence: start beyond the tip wins over end < start -/
example : C01.exS.getBlockHeaders 100 7 (some 3) = .error (.startHeightDoesNotExist 7 1) := rfl

end Btc.Props.C07
