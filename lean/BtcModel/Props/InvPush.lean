import BtcModel.Lemmas.TreeExtend
import BtcModel.Lemmas.InsertOutpoints

/-!
  The global invariant `Spec.Inv` is established by `State.new` and preserved by
  `Unstable.push` (`unstable_blocks::push`, called from `state::insert_block`).
-/
namespace Btc.Props.InvPush
open Btc Spec Tree TreeExtend InsertOutpoints

/-! ### Histories with the same blocks -/

/-- `outAt` only depends on the set of blocks of a history with consistent txids. -/
theorem outAt_congr {h1 h2 : List Block} (hc : TxidsConsistent h2) (hmem : ∀ x, x ∈ h1 ↔ x ∈ h2)
    (o : OutPoint) : outAt h1 o = outAt h2 o := by
  have hc1 : TxidsConsistent h1 := TxidsConsistent.of_subset hc (fun x hx => (hmem x).mp hx)
  cases e1 : outAt h1 o with
  | some t => exact (outAt_mono hc (fun x hx => (hmem x).mp hx) e1).symm
  | none =>
    cases e2 : outAt h2 o with
    | none => rfl
    | some t =>
      have := outAt_mono hc1 (fun x hx => (hmem x).mpr hx) e2
      rw [e1] at this
      cases this

theorem flatMap_congr' {β γ : Type} (l : List β) (f g : β → List γ) (h : ∀ x ∈ l, f x = g x) :
    l.flatMap f = l.flatMap g := by
  induction l with
  | nil => rfl
  | cons x xs ih =>
    simp only [List.flatMap_cons]
    rw [h x (by simp), ih (fun y hy => h y (by simp [hy]))]

/-- `removedSpec` only looks at the outputs designated by the block's own inputs -/
theorem removedSpec_congr {h1 h2 : List Block} (b : Block)
    (h : ∀ tx ∈ b.txs, ∀ o ∈ tx.ins, outAt h1 o = outAt h2 o) (a : Addr) :
    removedSpec h1 b a = removedSpec h2 b a := by
  unfold removedSpec
  apply flatMap_congr'
  intro tx htx
  apply List.filter_congr
  intro o ho
  rw [h tx htx o ho]

/-! ### Reference counts of the extended tree -/

theorem refCount_extend {t t' : Tree CBlock} {prev : Nat} {cb : CBlock}
    (he : Tree.extend CBlock.hash prev cb t = some t') (o : OutPoint) :
    refCount t' o = refCount t o + (blockRefs cb.blk).count o := by
  obtain ⟨l1, l2, e1, e2⟩ := extend_blocks_split CBlock.hash prev cb t t' he
  unfold refCount
  rw [e1, e2]
  simp only [List.flatMap_append, List.flatMap_cons, List.count_append]
  omega

theorem refCount_pos_of_mem {t : Tree CBlock} {c : CBlock} (hc : c ∈ t.blocks) {o : OutPoint}
    (ho : o ∈ blockRefs c.blk) : 0 < refCount t o := by
  unfold refCount
  apply List.count_pos_iff.mpr
  rw [List.mem_flatMap]
  exact ⟨c, hc, ho⟩

/-- with an exact cache, every outpoint referenced by a tree block has an entry holding the
    output designated by the history -/
theorem cache_entry_of_ref {u : Unstable} {hist : List Block} (hc : CachesExact u hist)
    {c : CBlock} (hm : c ∈ u.tree.blocks) {o : OutPoint} (ho : o ∈ blockRefs c.blk) :
    ∃ i, AList.find? u.cache.txOuts o = some i ∧ outAt hist o = some i.txout := by
  have hpos := refCount_pos_of_mem hm ho
  have := hc.txOuts o
  cases hf : AList.find? u.cache.txOuts o with
  | none =>
    simp only [hf] at this
    omega
  | some i =>
    simp only [hf] at this
    exact ⟨i, rfl, this.2.2⟩

theorem cache_true {u : Unstable} {hist : List Block} (hc : CachesExact u hist)
    {o : OutPoint} {i : TxOutInfo} (hf : AList.find? u.cache.txOuts o = some i) :
    refCount u.tree o = i.count ∧ 0 < i.count ∧ outAt hist o = some i.txout := by
  have := hc.txOuts o
  simp only [hf] at this
  exact this

theorem cache_none {u : Unstable} {hist : List Block} (hc : CachesExact u hist)
    {o : OutPoint} (hf : AList.find? u.cache.txOuts o = none) : refCount u.tree o = 0 := by
  have := hc.txOuts o
  simp only [hf] at this
  exact this

/-! ### `push`: when it fails -/

/-- `push` reports `BlockDoesNotExtendTree` exactly when the parent is not in the tree. -/
theorem push_doesNotExtend_iff (u : Unstable) (utxos : UtxoSet) (b : Block) :
    u.push utxos b = .doesNotExtend ↔ Tree.contains CBlock.hash b.prev u.tree = false := by
  unfold Unstable.push
  have h1 := findDepth_isSome_iff_contains CBlock.hash b.prev u.tree
  cases hd : Tree.findDepth CBlock.hash b.prev u.tree with
  | none =>
    rw [hd] at h1
    simp only [Option.isSome_none] at h1
    simp [← h1]
  | some d =>
    rw [hd] at h1
    simp only [Option.isSome_some] at h1
    simp only [← h1, Bool.true_eq_false, iff_false]
    cases hi : insertOutpoints u.cache utxos b (utxos.nextHeight + d + 1) with
    | none => simp
    | some v =>
      obtain ⟨cache, m⟩ := v
      simp only
      have h2 := extend_isSome_eq_contains CBlock.hash b.prev
        (CBlock.mk b (some m.feeRates) m.utxoDelta) u.tree
      rw [← h1] at h2
      cases he : Tree.extend CBlock.hash b.prev (CBlock.mk b (some m.feeRates) m.utxoDelta) u.tree with
      | none => rw [he] at h2; simp at h2
      | some t' => simp


/-! ### `push` preserves the invariant -/

theorem map_hash_blk (l : List CBlock) : (l.map (·.blk)).map (·.hash) = l.map CBlock.hash := by
  rw [List.map_map]
  rfl

/-- The three steps of `push` under the hypotheses of `push_preserves_inv`: the parent is found,
    `insert_outpoints` succeeds and is exact for the history extended by `b`, `extend` succeeds.
    The stored metrics are the specified ones. -/
theorem push_steps (s : State) (G : List Block) (b : Block)
    (hinv : Inv s G)
    (hfresh : b.hash ∉ (G ++ s.unstable.tree.blocks.map (·.blk)).map (·.hash))
    (hparent : Tree.contains CBlock.hash b.prev s.unstable.tree = true)
    (hvalid : ∀ p, pathBlocks s.unstable.tree b.prev = some p → TxValid (G ++ p ++ [b]))
    (htxids : TxidsConsistent (G ++ s.unstable.tree.blocks.map (·.blk) ++ [b])) :
    ∃ pc sc cache' m tree',
      Tree.chainWithTip CBlock.hash b.prev s.unstable.tree = some (pc, sc) ∧
      insertOutpoints s.unstable.cache s.utxos b (s.utxos.nextHeight + (pc.length - 1) + 1) =
        some (cache', m) ∧
      InsertResult s.unstable.cache (G ++ s.unstable.tree.blocks.map (·.blk) ++ [b]) b cache' m ∧
      Tree.extend CBlock.hash b.prev (CBlock.mk b (some m.feeRates) m.utxoDelta) s.unstable.tree =
        some tree' ∧
      s.unstable.push s.utxos b =
        .ok { s.unstable with
              tree := tree', cache := cache', next := s.unstable.next.remove b.hash,
              tipDepthsCache := tree'.tipDepths,
              blockCache := if s.unstable.blockCache.contains b.hash then s.unstable.blockCache
                else s.unstable.blockCache ++ [b.hash] } := by
  -- the root path to the parent
  unfold Tree.contains at hparent
  cases hcw : Tree.chainWithTip CBlock.hash b.prev s.unstable.tree with
  | none => simp [hcw] at hparent
  | some v =>
  obtain ⟨pc, sc⟩ := v
  have hP : pathBlocks s.unstable.tree b.prev = some (pc.map (·.blk)) := by
    simp [pathBlocks, hcw]
  have hval := hvalid _ hP
  have hfacts := chainWithTip_facts CBlock.hash b.prev _ pc sc hcw
  have hdepth : Tree.findDepth CBlock.hash b.prev s.unstable.tree = some (pc.length - 1) := by
    simp [Tree.findDepth, hcw]
  have hfreshT : b.hash ∉ s.unstable.tree.blocks.map CBlock.hash := by
    intro hm
    apply hfresh
    rw [List.map_append, map_hash_blk]
    exact List.mem_append_right _ hm
  -- `insert_outpoints` succeeds and is exact
  have hstable : ∀ o, s.utxos.getUtxo o = AList.find? (ledger G) o := by
    intro o
    unfold UtxoSet.getUtxo
    rw [hinv.stable.notIngesting]
    exact hinv.stable.utxosEq o
  have hcache : ∀ o i, AList.find? s.unstable.cache.txOuts o = some i →
      outAt (G ++ s.unstable.tree.blocks.map (·.blk) ++ [b]) o = some i.txout :=
    fun o i hf => outAt_mono htxids (fun x hx => List.mem_append_left _ hx)
      (cache_true hinv.caches hf).2.2
  have hpath : ∀ c ∈ pc.map (·.blk), ∀ o ∈ blockRefs c,
      (AList.find? s.unstable.cache.txOuts o).isSome = true := by
    intro c hc o ho
    obtain ⟨cb0, hcb0, rfl⟩ := List.mem_map.mp hc
    obtain ⟨i, hi, _⟩ := cache_entry_of_ref hinv.caches (hfacts.1 cb0 hcb0) ho
    simp [hi]
  obtain ⟨cache', m, hio, hres⟩ := insertOutpoints_spec
    (hist := G ++ s.unstable.tree.blocks.map (·.blk) ++ [b]) (G := G) (P := pc.map (·.blk)) (b := b)
    (s.utxos.nextHeight + (pc.length - 1) + 1) hstable hcache hpath htxids
    (by intro g hg; simp [hg]) (by simp) hval
  -- `extend` succeeds
  have hext : (Tree.extend CBlock.hash b.prev (CBlock.mk b (some m.feeRates) m.utxoDelta)
      s.unstable.tree).isSome = true := by
    rw [extend_isSome, hcw]; rfl
  cases he : Tree.extend CBlock.hash b.prev (CBlock.mk b (some m.feeRates) m.utxoDelta)
      s.unstable.tree with
  | none => simp [he] at hext
  | some tree' =>
  have hpush : s.unstable.push s.utxos b =
      .ok { s.unstable with
            tree := tree', cache := cache', next := s.unstable.next.remove b.hash,
            tipDepthsCache := tree'.tipDepths,
            blockCache := if s.unstable.blockCache.contains b.hash then s.unstable.blockCache
              else s.unstable.blockCache ++ [b.hash] } := by
    simp only [Unstable.push, hdepth, hio, he]
  exact ⟨pc, sc, cache', m, tree', rfl, hio, hres, he, hpush⟩

/-- **`unstable_blocks::push` preserves the global invariant.** For a block `b` with a fresh hash
    whose parent is in the tree, that is transaction-valid on its own chain and does not break
    txid consistency, `push` succeeds (no `BlockDoesNotExtendTree`, no trap) and the invariant
    holds again for the same stable chain `G`. -/
theorem push_preserves_inv (s : State) (G : List Block) (b : Block)
    (hinv : Inv s G)
    (hfresh : b.hash ∉ (G ++ s.unstable.tree.blocks.map (·.blk)).map (·.hash))
    (hparent : Tree.contains CBlock.hash b.prev s.unstable.tree = true)
    (hvalid : ∀ p, pathBlocks s.unstable.tree b.prev = some p → TxValid (G ++ p ++ [b]))
    (htxids : TxidsConsistent (G ++ s.unstable.tree.blocks.map (·.blk) ++ [b])) :
    ∃ u', s.unstable.push s.utxos b = .ok u' ∧ Inv { s with unstable := u' } G := by
  obtain ⟨pc, sc, cache', m, tree', hcw, hio, hres, he, hpush⟩ :=
    push_steps s G b hinv hfresh hparent hvalid htxids
  have hP : pathBlocks s.unstable.tree b.prev = some (pc.map (·.blk)) := by
    simp [pathBlocks, hcw]
  have hval := hvalid _ hP
  have hfreshT : b.hash ∉ s.unstable.tree.blocks.map CBlock.hash := by
    intro hm
    apply hfresh
    rw [List.map_append, map_hash_blk]
    exact List.mem_append_right _ hm
  refine ⟨_, hpush, ?_⟩
  -- the blocks of the new tree
  have hmemT : ∀ x, x ∈ tree'.blocks ↔
      x = CBlock.mk b (some m.feeRates) m.utxoDelta ∨ x ∈ s.unstable.tree.blocks :=
    extend_mem_blocks CBlock.hash b.prev _ _ _ he
  have hperm := extend_blocks_perm CBlock.hash b.prev _ _ _ he
  have hmemH : ∀ x, x ∈ G ++ tree'.blocks.map (·.blk) ↔
      x ∈ G ++ s.unstable.tree.blocks.map (·.blk) ++ [b] := by
    intro x
    simp only [List.mem_append, List.mem_map, List.mem_singleton, hmemT]
    constructor
    · rintro (h | ⟨c, (rfl | hc), rfl⟩)
      · exact Or.inl (Or.inl h)
      · exact Or.inr rfl
      · exact Or.inl (Or.inr ⟨c, hc, rfl⟩)
    · rintro ((h | ⟨c, hc, rfl⟩) | rfl)
      · exact Or.inl h
      · exact Or.inr ⟨c, Or.inr hc, rfl⟩
      · exact Or.inr ⟨_, Or.inl rfl, rfl⟩
  have htx'' : TxidsConsistent (G ++ tree'.blocks.map (·.blk)) :=
    TxidsConsistent.of_subset htxids (fun x hx => (hmemH x).mp hx)
  have hout : ∀ o, outAt (G ++ s.unstable.tree.blocks.map (·.blk) ++ [b]) o =
      outAt (G ++ tree'.blocks.map (·.blk)) o :=
    fun o => (outAt_congr htxids hmemH o).symm
  have hmono : ∀ o t, outAt (G ++ s.unstable.tree.blocks.map (·.blk)) o = some t →
      outAt (G ++ tree'.blocks.map (·.blk)) o = some t := by
    intro o t h
    rw [← hout]
    exact outAt_mono htxids (fun x hx => List.mem_append_left _ hx) h
  have hne_hash : ∀ c ∈ s.unstable.tree.blocks, (b.hash == c.hash) = false := by
    intro c hc
    simp only [beq_eq_false_iff_ne, ne_eq]
    intro e
    exact hfreshT (List.mem_map.mpr ⟨c, hc, e.symm⟩)
  have hhashes : ∀ h, h ∈ tree'.blocks.map CBlock.hash ↔
      h = b.hash ∨ h ∈ s.unstable.tree.blocks.map CBlock.hash := by
    intro h
    simp only [List.mem_map, hmemT]
    constructor
    · rintro ⟨c, (rfl | hc), rfl⟩
      · exact Or.inl rfl
      · exact Or.inr ⟨c, hc, rfl⟩
    · rintro (rfl | ⟨c, hc, rfl⟩)
      · exact ⟨_, Or.inl rfl, rfl⟩
      · exact ⟨c, Or.inr hc, rfl⟩
  refine ⟨hinv.heightEq, hinv.stable, ?_, ?_, ?_, ?_, htx'', ?_, hinv.stableLinked, hinv.headers,
    hinv.headersOnly, hinv.headersByHash⟩
  · -- linked
    exact extend_linked b.prev _ rfl _ _ he hinv.linked
  · -- rootLinked
    have hr := extend_root CBlock.hash b.prev _ _ _ he
    have := hinv.rootLinked
    simp only [hr]
    exact this
  · -- hashesNodup
    have hp : ((G ++ tree'.blocks.map (·.blk)).map (·.hash)).Perm
        (b.hash :: (G ++ s.unstable.tree.blocks.map (·.blk)).map (·.hash)) := by
      have h1 : (G ++ tree'.blocks.map (·.blk)).Perm
          (G ++ b :: s.unstable.tree.blocks.map (·.blk)) :=
        List.Perm.append_left G (hperm.map (·.blk))
      exact (h1.trans List.perm_middle).map (·.hash)
    rw [hp.nodup_iff, List.nodup_cons]
    exact ⟨hfresh, hinv.hashesNodup⟩
  · -- caches
    refine ⟨?_, ?_, ?_, ?_, ?_, ?_, ?_, rfl⟩
    · -- added
      intro c hc a
      rcases (hmemT c).mp hc with rfl | hc'
      · exact hres.addedNew a
      · have := hinv.caches.added c hc' a
        simp only [OutPointsCache.getAdded] at this ⊢
        rw [hres.addedFind c.hash, hne_hash c hc']
        exact this
    · -- removed
      intro c hc a
      rcases (hmemT c).mp hc with rfl | hc'
      · have := hres.removedNew a
        rw [removedSpec_congr b (fun _ _ o _ => hout o) a] at this
        exact this
      · have := hinv.caches.removed c hc' a
        simp only [OutPointsCache.getRemoved] at this ⊢
        rw [hres.removedFind c.hash, hne_hash c hc']
        simp only [Bool.false_eq_true, if_false]
        rw [this]
        apply removedSpec_congr
        intro tx htx o ho
        obtain ⟨i, _, hi⟩ := cache_entry_of_ref hinv.caches hc' (mem_blockRefs_of_input htx ho)
        rw [hi, hmono o _ hi]
    · -- addedKeys
      intro h
      have := hinv.caches.addedKeys h
      simp only [AList.contains_eq] at this ⊢
      rw [hres.addedFind h]
      rw [Bool.eq_iff_iff, List.contains_iff_mem, hhashes]
      rw [Bool.eq_iff_iff, List.contains_iff_mem] at this
      by_cases e : b.hash = h
      · subst e
        simp [hres.addedKey]
      · have e' : (b.hash == h) = false := by simp [e]
        simp only [e', Bool.false_eq_true, if_false, this]
        constructor
        · exact Or.inr
        · rintro (rfl | h2)
          · exact absurd rfl e
          · exact h2
    · -- removedKeys
      intro h
      have := hinv.caches.removedKeys h
      simp only [AList.contains_eq] at this ⊢
      rw [hres.removedFind h]
      rw [Bool.eq_iff_iff, List.contains_iff_mem, hhashes]
      rw [Bool.eq_iff_iff, List.contains_iff_mem] at this
      by_cases e : b.hash = h
      · subst e
        simp [hres.removedKey]
      · have e' : (b.hash == h) = false := by simp [e]
        simp only [e', Bool.false_eq_true, if_false, this]
        constructor
        · exact Or.inr
        · rintro (rfl | h2)
          · exact absurd rfl e
          · exact h2
    · -- txOutsNodup
      exact hres.txOutsNodup hinv.caches.txOutsNodup
    · -- txOuts
      intro o
      have hrc := refCount_extend he o
      simp only at hrc
      cases hold : AList.find? s.unstable.cache.txOuts o with
      | some old =>
        obtain ⟨h1, h2, h3⟩ := cache_true hinv.caches hold
        have hn := hres.txOutsOld o old hold
        simp only [hn]
        exact ⟨by rw [hrc, h1], by omega, hmono o _ h3⟩
      | none =>
        have h0 := cache_none hinv.caches hold
        by_cases hk : (blockRefs b).count o = 0
        · have hn := hres.txOutsNone o hold hk
          simp only [hn]
          omega
        · obtain ⟨i, hn, hi1, hi2⟩ := hres.txOutsNew o hold (by omega)
          simp only [hn]
          exact ⟨by omega, by omega, by rw [← hout]; exact hi2⟩
    · -- blockCache
      intro h
      have := hinv.caches.blockCache h
      rw [Bool.eq_iff_iff, List.contains_iff_mem, List.contains_iff_mem] at this
      show (if s.unstable.blockCache.contains b.hash then s.unstable.blockCache
          else s.unstable.blockCache ++ [b.hash]).contains h =
        (tree'.blocks.map CBlock.hash).contains h
      have hr : (tree'.blocks.map CBlock.hash).contains h = true ↔
          (h = b.hash ∨ h ∈ s.unstable.tree.blocks.map CBlock.hash) := by
        rw [List.contains_iff_mem, hhashes]
      rw [Bool.eq_iff_iff, hr]
      split
      · rename_i hcon
        rw [List.contains_iff_mem] at hcon ⊢
        constructor
        · intro hm; exact Or.inr (this.mp hm)
        · rintro (rfl | h2)
          · exact hcon
          · exact this.mpr h2
      · rw [List.contains_iff_mem, List.mem_append, List.mem_singleton]
        constructor
        · rintro (hm | rfl)
          · exact Or.inr (this.mp hm)
          · exact Or.inl rfl
        · rintro (rfl | h2)
          · exact Or.inr rfl
          · exact Or.inl (this.mpr h2)
  · -- valid
    intro tip p hp
    by_cases ht : tip = b.hash
    · subst ht
      obtain ⟨p0, s0, e1, e2⟩ := chainWithTip_extend_new CBlock.hash b.prev
        (CBlock.mk b (some m.feeRates) m.utxoDelta) _ _ he hfreshT
      rw [hcw] at e1
      simp only [Option.some.injEq, Prod.mk.injEq] at e1
      obtain ⟨rfl, -⟩ := e1
      have e2' : Tree.chainWithTip CBlock.hash b.hash tree' =
          some (pc ++ [CBlock.mk b (some m.feeRates) m.utxoDelta], []) := e2
      simp only [pathBlocks, e2', Option.map_some, Option.some.injEq] at hp
      subst hp
      simpa using hval
    · have := chainWithTip_extend_ne CBlock.hash b.prev
        (CBlock.mk b (some m.feeRates) m.utxoDelta) tip ht _ _ he
      apply hinv.valid tip p
      simp only [pathBlocks] at hp ⊢
      rw [← hp]
      have e : ∀ (x : Option (List CBlock × List CBlock)),
          x.map (fun p => p.1.map (·.blk)) = (x.map (·.1)).map (List.map (·.blk)) := by
        intro x; cases x <;> rfl
      rw [e, e, this]


/-- The block is stored with the specified metrics: fee rates of its non-coinbase transactions
    (inputs resolved in the history) and its UTXO delta (used by C15 and by `utxos_length`). -/
theorem push_metrics (s : State) (G : List Block) (b : Block)
    (hinv : Inv s G)
    (hfresh : b.hash ∉ (G ++ s.unstable.tree.blocks.map (·.blk)).map (·.hash))
    (hparent : Tree.contains CBlock.hash b.prev s.unstable.tree = true)
    (hvalid : ∀ p, pathBlocks s.unstable.tree b.prev = some p → TxValid (G ++ p ++ [b]))
    (htxids : TxidsConsistent (G ++ s.unstable.tree.blocks.map (·.blk) ++ [b])) :
    ∃ u', s.unstable.push s.utxos b = .ok u' ∧
      Tree.extend CBlock.hash b.prev
        (CBlock.mk b
          (some (feeRatesSpec (G ++ s.unstable.tree.blocks.map (·.blk) ++ [b]) b.txs))
          (utxoDeltaSpec b.txs)) s.unstable.tree = some u'.tree := by
  obtain ⟨pc, sc, cache', m, tree', hcw, hio, hres, he, hpush⟩ :=
    push_steps s G b hinv hfresh hparent hvalid htxids
  refine ⟨_, hpush, ?_⟩
  rw [← hres.feeRates, ← hres.utxoDelta]
  exact he

/-! ### Initialisation -/

/-- the tree of a freshly created state is the single genesis block, and nothing is stable -/
theorem new_shape {thr : Nat} {net : Tree.Net} {genesis : Block} {s0 : State}
    (h : State.new thr net genesis = some s0) :
    s0.utxos = {} ∧ ∃ fr d, s0.unstable.tree = Tree.leaf ⟨genesis, fr, d⟩ := by
  unfold State.new Unstable.new at h
  cases hi : insertOutpoints {} ({} : UtxoSet) genesis ({} : UtxoSet).nextHeight with
  | none => simp [hi] at h
  | some v =>
    obtain ⟨cache, m⟩ := v
    simp only [hi, Option.some.injEq] at h
    subst h
    exact ⟨rfl, _, _, rfl⟩

/-- **`State::new` establishes the invariant** with nothing ingested (`G = []`): the genesis
    block is the anchor of the tree, at height 0. (`TxValid [genesis]` contains
    `BlockWF genesis`.) -/
theorem init_establishes_inv (thr : Nat) (net : Tree.Net) (genesis : Block)
    (hvalid : TxValid [genesis]) :
    ∃ s0, State.new thr net genesis = some s0 ∧ Inv s0 [] := by
  have hwf : BlockWF genesis := by
    unfold TxValid at hvalid
    simp only [TxValidFrom] at hvalid
    exact hvalid.1
  have htx : TxidsConsistent [genesis] := txidsConsistent_single hwf
  obtain ⟨cache', m, hio, hres⟩ := insertOutpoints_spec
    (cache := {}) (utxos := {}) (hist := [genesis]) (G := []) (P := []) (b := genesis)
    ({} : UtxoSet).nextHeight (fun _ => rfl) (by intro o i h; simp at h) (by simp) htx (by simp)
    (by simp) (by simpa using hvalid)
  have hnew : State.new thr net genesis =
      some { utxos := {},
             unstable :=
              { thr := thr,
                tree := Tree.leaf (CBlock.mk genesis (some m.feeRates) m.utxoDelta),
                cache := cache', net := net,
                tipDepthsCache :=
                  (Tree.leaf (CBlock.mk genesis (some m.feeRates) m.utxoDelta)).tipDepths,
                blockCache := [genesis.hash] } } := by
    simp only [State.new, Unstable.new, hio]
  refine ⟨_, hnew, ?_⟩
  refine ⟨rfl, ?_, ?_, ?_, ?_, ?_, ?_, ?_, ?_, ?_, ?_, ?_⟩
  · -- stable
    refine ⟨rfl, by simp, fun _ => rfl, by simp, ?_, by simp, ?_⟩
    · intro e
      simp [ledger, ledgerFrom]
    · intro a
      simp [ledger, ledgerFrom]
  · -- linked
    simp [Tree.leaf, Linked, LinkedList]
  · -- rootLinked
    simp
  · -- hashesNodup
    simp [Tree.leaf, Tree.blocks, Tree.blocksList]
  · -- caches
    refine ⟨?_, ?_, ?_, ?_, ?_, ?_, ?_, rfl⟩
    · intro c hc a
      simp only [Tree.leaf, Tree.blocks, Tree.blocksList, List.mem_singleton] at hc
      subst hc
      exact hres.addedNew a
    · intro c hc a
      simp only [Tree.leaf, Tree.blocks, Tree.blocksList, List.mem_singleton] at hc
      subst hc
      exact hres.removedNew a
    · intro h
      simp only [AList.contains_eq, Tree.leaf, Tree.blocks, Tree.blocksList, List.map_cons,
        List.map_nil, CBlock.hash]
      rw [hres.addedFind h]
      by_cases e : genesis.hash = h
      · subst e
        simp [hres.addedKey]
      · have e' : (genesis.hash == h) = false := by simp [e]
        simp [e', Ne.symm e]
    · intro h
      simp only [AList.contains_eq, Tree.leaf, Tree.blocks, Tree.blocksList, List.map_cons,
        List.map_nil, CBlock.hash]
      rw [hres.removedFind h]
      by_cases e : genesis.hash = h
      · subst e
        simp [hres.removedKey]
      · have e' : (genesis.hash == h) = false := by simp [e]
        simp [e', Ne.symm e]
    · exact hres.txOutsNodup (by simp)
    · intro o
      have hrc : refCount (Tree.leaf (CBlock.mk genesis (some m.feeRates) m.utxoDelta)) o =
          (blockRefs genesis).count o := by
        simp [refCount, Tree.leaf, Tree.blocks, Tree.blocksList]
      simp only [hrc]
      by_cases hk : (blockRefs genesis).count o = 0
      · have hn := hres.txOutsNone o rfl hk
        simp only [hn]
        exact hk
      · obtain ⟨i, hn, hi1, hi2⟩ := hres.txOutsNew o rfl (by omega)
        simp only [hn]
        exact ⟨hi1.symm, by omega, hi2⟩
    · intro h
      rfl
  · -- txids
    exact htx
  · -- valid
    intro tip p hp
    simp only [pathBlocks, Tree.leaf, Tree.chainWithTip, Tree.chainWithTipList] at hp
    split at hp
    · simp only [Option.map_some, List.map_cons, List.map_nil, Option.some.injEq] at hp
      subst hp
      simpa using hvalid
    · simp at hp
  · intro i h; simp at h
  · intro i h; simp at h
  · intro i _; rfl
  · intro g hg; simp at hg


/-! ### Decision procedures for the hypotheses (concrete chains) -/

theorem blockWF_iff (b : Block) : BlockWF b ↔
    (∀ tx ∈ b.txs, ∀ t ∈ tx.outs, t.opret = true → t.addr = none) ∧
    (∀ tx ∈ b.txs, tx.coinbase = true → tx.ins = []) ∧ (b.txs.map (·.txid)).Nodup :=
  ⟨fun h => ⟨h.1, h.2, h.3⟩, fun h => ⟨h.1, h.2.1, h.2.2⟩⟩

instance (b : Block) : Decidable (BlockWF b) := decidable_of_iff _ (blockWF_iff b).symm

instance decTxsValid : ∀ (l : LedgerMap) (h : Nat) (txs : List Tx),
    Decidable (TxValidFrom.TxsValid l h txs)
  | _, _, [] => isTrue trivial
  | l, h, tx :: txs =>
    have := decTxsValid (applyTx l h tx) h txs
    inferInstanceAs (Decidable ((∀ o ∈ tx.ins, (AList.find? l o).isSome) ∧ tx.ins.Nodup ∧
      TxValidFrom.TxsValid (applyTx l h tx) h txs))

instance decTxValidFrom : ∀ (l : LedgerMap) (h : Nat) (bs : List Block),
    Decidable (TxValidFrom l h bs)
  | _, _, [] => isTrue trivial
  | l, h, b :: bs =>
    have := decTxValidFrom (applyBlock l h b) (h + 1) bs
    inferInstanceAs (Decidable (BlockWF b ∧ (∀ tx ∈ b.txs, ∀ e ∈ l, e.1.txid ≠ tx.txid) ∧
      TxValidFrom.TxsValid l h b.txs ∧ TxValidFrom (applyBlock l h b) (h + 1) bs))

instance (chain : List Block) : Decidable (TxValid chain) := decTxValidFrom [] 0 chain

instance (bs : List Block) : Decidable (TxidsConsistent bs) :=
  inferInstanceAs (Decidable (∀ t1 ∈ txsOf bs, ∀ t2 ∈ txsOf bs, t1.txid = t2.txid → t1 = t2))

/-! ### A concrete instance: genesis, then one block spending from the tree and from itself -/

/-- a genesis block: a single coinbase paying 50 to address `[1]` -/
def g0 : Block :=
  { hash := 1, prev := 0, diff := 1, time := 0, bits := 0, header := "g0",
    txs := [{ txid := 100, coinbase := true, vsize := 100, ins := [],
              outs := [⟨50, some [1], false⟩] }] }

/-- a child of `g0`: a coinbase (with an `OP_RETURN` output), a transaction spending the genesis
    output (resolved through the cache) and one spending an output created earlier in the same
    block (resolved through the block-local map) -/
def b1 : Block :=
  { hash := 2, prev := 1, diff := 1, time := 1, bits := 0, header := "b1",
    txs := [{ txid := 101, coinbase := true, vsize := 100, ins := [],
              outs := [⟨50, some [2], false⟩, ⟨0, none, true⟩] },
            { txid := 102, coinbase := false, vsize := 200, ins := [⟨100, 0⟩],
              outs := [⟨30, some [2], false⟩, ⟨15, some [1], false⟩] },
            { txid := 103, coinbase := false, vsize := 100, ins := [⟨102, 0⟩],
              outs := [⟨29, some [3], false⟩] }] }

example : TxValid [g0] := by decide
example : TxValid [g0, b1] := by decide
example : TxidsConsistent [g0, b1] := by decide

/-- a block spending an output that does not exist -/
def bad : Block :=
  { b1 with txs := [{ txid := 104, coinbase := false, vsize := 1, ins := [⟨999, 0⟩], outs := [] }] }

/-- spending a missing output is rejected by the hypothesis -/
example : ¬ TxValid [g0, bad] := by decide

/-- The hypotheses of `init_establishes_inv` and `push_preserves_inv` hold for `g0`, `b1`. -/
example : ∃ s0 u1, State.new 2 .regtest g0 = some s0 ∧ Inv s0 [] ∧
    s0.unstable.push s0.utxos b1 = .ok u1 ∧ Inv { s0 with unstable := u1 } [] := by
  obtain ⟨s0, h0, hinv⟩ := init_establishes_inv 2 .regtest g0 (by decide)
  obtain ⟨_, fr, d, ht⟩ := new_shape h0
  have hblocks : s0.unstable.tree.blocks.map (·.blk) = [g0] := by rw [ht]; rfl
  obtain ⟨u1, hp, hinv1⟩ := push_preserves_inv s0 [] b1 hinv
    (by rw [hblocks]; decide)
    (by rw [ht]; simp [Tree.contains, Tree.leaf, Tree.chainWithTip, CBlock.hash, g0, b1])
    (by
      intro p hp
      rw [ht] at hp
      simp only [pathBlocks, Tree.leaf, Tree.chainWithTip] at hp
      split at hp
      · simp only [Option.map_some, List.map_cons, List.map_nil, Option.some.injEq] at hp
        subst hp
        decide
      · rename_i hn; exact absurd rfl hn)
    (by rw [hblocks]; decide)
  exact ⟨s0, u1, h0, hinv, hp, hinv1⟩

/-- the model by evaluation on the same data: per-address lists of `b1`, fee rates
    (`1000·5/200`, `1000·1/100`), UTXO delta and reference counts (`102:0` and `100:0` are
    referenced twice) -/
example : ((insertOutpoints {} {} g0 0).bind (fun r => insertOutpoints r.1 {} b1 1)).map
    (fun r => (r.1.getAdded 2 [2], r.1.getRemoved 2 [1], r.2.feeRates, r.2.utxoDelta,
      r.1.txOuts.map (fun e => (e.1.txid, e.1.vout, e.2.count)))) =
    some ([⟨101, 0⟩, ⟨102, 0⟩], [⟨100, 0⟩], [25, 10], 3,
      [(103, 0, 1), (102, 1, 1), (102, 0, 2), (100, 0, 2), (101, 1, 1), (101, 0, 1)]) := by rfl

end Btc.Props.InvPush
