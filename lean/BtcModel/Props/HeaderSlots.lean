import BtcModel.Lemmas.FullSys
import BtcModel.Props.C14

/-!
# The instruction check of `insert_next_block_headers`

`canister/src/state.rs`:

```rust
for block_header_blob in next_block_headers.iter() {
    if inc_performance_counter() > MAX_INSTRUCTIONS_THRESHOLD { print(..); break; }   // 30e9
    let block_header = match Header::consensus_decode(..) { Ok(h) => h, Err(_) => return };
    if state.unstable_blocks.has_next_block_header(&block_header) { continue; }
    .. validate (Err => return) .. insert (Err => return)
}
```

The check is the first thing in every iteration and the counter never decreases within a message,
so the iterations that run are an initial segment: the model (`State.insertNextHeaders`) looks at
the first `env.headerSlots` blobs only; the announced headers behind them are dropped silently.

* `loop_eq`: the model is the loop with an explicit countdown (`insertNextHeadersLoop`, a literal
  transcription of the Rust loop);
* `iteration_runs_iff`: how `headerSlots` is obtained from the counter value and its step;
* `prefix_semantics`, `slots_ge_length`: (a) prefix semantics;
* `nextInv_insertNextHeaders`, `nextInv_any_slots`: (b) the invariant of the announced headers is
  kept whatever the number of slots;
* `maxHeight_mono_slots`, `isSynced_antitone_slots`, `guard_antitone_slots`: (c) fewer slots =
  lower (or equal) maximum announced height, hence `is_synced` can only flip to `true`: **a
  canister that drops announced headers may consider itself synced while a canister that stored
  them all would not** — the sync gate of C14 lags behind by the dropped headers;
* `no_trap_mono`: fewer slots cannot introduce a trap;
* `Example`: (d) non-vacuity.
-/
namespace Btc.Props.HeaderSlots
open Btc Btc.State Btc.Spec Btc.Spec.Full Btc.Lemmas.NextHeaders Btc.Lemmas.ReachNext
  Btc.Lemmas.Fetch

/-! ## One iteration of the loop (after the instruction check) -/

/-- what one iteration does with a blob -/
inductive Step where
  /-- `return`: undecodable, not connected, invalid, or the insertion failed -/
  | stop
  /-- the header validation library panics -/
  | trap
  /-- `continue`: already stored -/
  | skip
  /-- the header is stored -/
  | store (h : NextHeader) (u : Unstable)

def hdrStep (env : Env) (s : State) (raw : String) : Step :=
  match env.dec.header raw with
  | none => .stop
  | some h =>
    if (s.unstable.next.getHeader h.hash).isSome then .skip
    else
      match validationContextWithNext s (hdrOfNext h) with
      | .error _ => .stop
      | .ok chain =>
        match Header.validateHeader s.network (validationStore s chain) (hdrOfNext h) env.now with
        | .trap => .trap
        | .err _ => .stop
        | .ok =>
          match s.unstable.insertNextHeader h s.stableHeight with
          | none => .stop
          | some u => .store h u

theorem all_cons (env : Env) (s : State) (raw : String) (rest : List String) :
    insertNextHeadersAll env s (raw :: rest) =
      match hdrStep env s raw with
      | .stop => some s
      | .trap => none
      | .skip => insertNextHeadersAll env s rest
      | .store _ u => insertNextHeadersAll env { s with unstable := u } rest := by
  rw [insertNextHeadersAll]
  unfold hdrStep
  cases env.dec.header raw with
  | none => rfl
  | some h =>
    simp only
    by_cases hs : (s.unstable.next.getHeader h.hash).isSome = true
    · simp only [hs, if_true]
    · simp only [hs]
      cases validationContextWithNext s (hdrOfNext h) with
      | error e => rfl
      | ok chain =>
        simp only
        cases Header.validateHeader s.network (validationStore s chain) (hdrOfNext h) env.now with
        | trap => rfl
        | err e => rfl
        | ok =>
          simp only
          cases s.unstable.insertNextHeader h s.stableHeight <;> rfl

theorem inserted_cons (env : Env) (s : State) (raw : String) (rest : List String) :
    insertedHeadersAll env s (raw :: rest) =
      match hdrStep env s raw with
      | .stop => []
      | .trap => []
      | .skip => insertedHeadersAll env s rest
      | .store h u => h :: insertedHeadersAll env { s with unstable := u } rest := by
  rw [insertedHeadersAll]
  unfold hdrStep
  cases env.dec.header raw with
  | none => rfl
  | some h =>
    simp only
    by_cases hs : (s.unstable.next.getHeader h.hash).isSome = true
    · simp only [hs, if_true]
    · simp only [hs]
      cases validationContextWithNext s (hdrOfNext h) with
      | error e => rfl
      | ok chain =>
        simp only
        cases Header.validateHeader s.network (validationStore s chain) (hdrOfNext h) env.now with
        | trap => rfl
        | err e => rfl
        | ok =>
          simp only
          cases s.unstable.insertNextHeader h s.stableHeight <;> rfl

/-- an iteration does not read the number of slots -/
theorem hdrStep_slots (env : Env) (k : Nat) (s : State) (raw : String) :
    hdrStep { env with headerSlots := k } s raw = hdrStep env s raw := rfl

/-- a header is stored only if it is not stored yet, and by `insert_next_block_header` -/
theorem hdrStep_store {env : Env} {s : State} {raw : String} {h : NextHeader} {u : Unstable}
    (hst : hdrStep env s raw = .store h u) :
    ¬ (s.unstable.next.getHeader h.hash).isSome = true ∧
      s.unstable.insertNextHeader h s.stableHeight = some u := by
  unfold hdrStep at hst
  split at hst
  · cases hst
  · split at hst
    · cases hst
    · rename_i hs
      split at hst
      · cases hst
      · split at hst
        · cases hst
        · cases hst
        · split at hst
          · cases hst
          · rename_i hi
            cases hst
            exact ⟨hs, hi⟩

/-- what a stored header changes: one entry in the announced headers -/
theorem store_eq {s : State} {h : NextHeader} {u : Unstable}
    (hi : s.unstable.insertNextHeader h s.stableHeight = some u) :
    ∃ ht, u = { s.unstable with next := s.unstable.next.insert h ht } := by
  unfold Unstable.insertNextHeader at hi
  dsimp only at hi
  split at hi
  · cases hi
  · cases hi
    exact ⟨_, rfl⟩

/-! ## The loop with an explicit countdown -/

/-- `MAX_INSTRUCTIONS_THRESHOLD` -/
def maxInstructionsThreshold : Nat := 30000000000

/-- With counter value `c` when the loop is entered and `st > 0` added by every
    `inc_performance_counter()`, the `i`-th reading (1-based) is `c + i * st`; iteration `i` runs
    iff this is not above the threshold, i.e. iff `i ≤ (30e9 - c) / st` (and `c ≤ 30e9`). -/
theorem iteration_runs_iff (c st i : Nat) (hst : 0 < st) :
    ¬ (c + i * st > maxInstructionsThreshold) ↔
      c ≤ maxInstructionsThreshold ∧ i ≤ (maxInstructionsThreshold - c) / st := by
  rw [Nat.le_div_iff_mul_le hst]
  omega

/-- the Rust loop, literally: `k` = how many more readings of the counter stay under the
    threshold. `k = 0` with a blob left is the `break`. -/
def insertNextHeadersLoop (env : Env) : Nat → State → List String → Option State
  | _, s, [] => some s
  | 0, s, _ :: _ => some s
  | k + 1, s, raw :: rest =>
    match env.dec.header raw with
    | none => some s
    | some h =>
      if (s.unstable.next.getHeader h.hash).isSome then insertNextHeadersLoop env k s rest
      else
        match validationContextWithNext s (hdrOfNext h) with
        | .error _ => some s
        | .ok chain =>
          match Header.validateHeader s.network (validationStore s chain) (hdrOfNext h) env.now with
          | .trap => none
          | .err _ => some s
          | .ok =>
            match s.unstable.insertNextHeader h s.stableHeight with
            | none => some s
            | some u => insertNextHeadersLoop env k { s with unstable := u } rest

theorem loop_cons (env : Env) (k : Nat) (s : State) (raw : String) (rest : List String) :
    insertNextHeadersLoop env (k + 1) s (raw :: rest) =
      match hdrStep env s raw with
      | .stop => some s
      | .trap => none
      | .skip => insertNextHeadersLoop env k s rest
      | .store _ u => insertNextHeadersLoop env k { s with unstable := u } rest := by
  rw [insertNextHeadersLoop]
  unfold hdrStep
  cases env.dec.header raw with
  | none => rfl
  | some h =>
    simp only
    by_cases hs : (s.unstable.next.getHeader h.hash).isSome = true
    · simp only [hs, if_true]
    · simp only [hs]
      cases validationContextWithNext s (hdrOfNext h) with
      | error e => rfl
      | ok chain =>
        simp only
        cases Header.validateHeader s.network (validationStore s chain) (hdrOfNext h) env.now with
        | trap => rfl
        | err e => rfl
        | ok =>
          simp only
          cases s.unstable.insertNextHeader h s.stableHeight <;> rfl

theorem loop_eq_take (env : Env) : ∀ (blobs : List String) (k : Nat) (s : State),
    insertNextHeadersLoop env k s blobs = insertNextHeadersAll env s (blobs.take k)
  | [], k, s => by simp [insertNextHeadersLoop, insertNextHeadersAll]
  | _ :: _, 0, s => by simp [insertNextHeadersLoop, insertNextHeadersAll]
  | raw :: rest, k + 1, s => by
    rw [List.take_succ_cons, loop_cons, all_cons]
    cases hdrStep env s raw with
    | stop => rfl
    | trap => rfl
    | skip => exact loop_eq_take env rest k s
    | store h u => exact loop_eq_take env rest k _

/-- **the model is the loop with the countdown** started at `env.headerSlots` -/
theorem loop_eq (env : Env) (s : State) (blobs : List String) :
    insertNextHeadersLoop env env.headerSlots s blobs = insertNextHeaders env s blobs :=
  loop_eq_take env blobs env.headerSlots s

/-! ## (a) Prefix semantics -/

/-- the loop body does not read the number of slots -/
theorem insertNextHeadersAll_slots (env : Env) (k : Nat) : ∀ (blobs : List String) (s : State),
    insertNextHeadersAll { env with headerSlots := k } s blobs = insertNextHeadersAll env s blobs
  | [], s => by simp [insertNextHeadersAll]
  | raw :: rest, s => by
    rw [all_cons, all_cons, hdrStep_slots]
    cases hdrStep env s raw with
    | stop => rfl
    | trap => rfl
    | skip => exact insertNextHeadersAll_slots env k rest s
    | store h u => exact insertNextHeadersAll_slots env k rest _

theorem insertedHeadersAll_slots (env : Env) (k : Nat) : ∀ (blobs : List String) (s : State),
    insertedHeadersAll { env with headerSlots := k } s blobs = insertedHeadersAll env s blobs
  | [], s => by simp [insertedHeadersAll]
  | raw :: rest, s => by
    rw [inserted_cons, inserted_cons, hdrStep_slots]
    cases hdrStep env s raw with
    | stop => rfl
    | trap => rfl
    | skip => exact insertedHeadersAll_slots env k rest s
    | store h u => simp only; rw [insertedHeadersAll_slots env k rest _]

/-- with `k` slots: the body run over the first `k` blobs -/
theorem insertNextHeaders_slots (env : Env) (k : Nat) (s : State) (blobs : List String) :
    insertNextHeaders { env with headerSlots := k } s blobs =
      insertNextHeadersAll env s (blobs.take k) := by
  unfold insertNextHeaders
  exact insertNextHeadersAll_slots env k _ s

theorem insertedHeaders_slots (env : Env) (k : Nat) (s : State) (blobs : List String) :
    insertedHeaders { env with headerSlots := k } s blobs =
      insertedHeadersAll env s (blobs.take k) := by
  unfold insertedHeaders
  exact insertedHeadersAll_slots env k _ s

/-- **Prefix semantics**: processing a response with `env.headerSlots` slots is processing its
    first `env.headerSlots` announced headers with any number `big ≥ env.headerSlots` of slots
    (in particular with the default, which no response reaches). -/
theorem prefix_semantics (env : Env) (s : State) (blobs : List String) (big : Nat)
    (hbig : env.headerSlots ≤ big) :
    insertNextHeaders env s blobs =
      insertNextHeaders { env with headerSlots := big } s (blobs.take env.headerSlots) := by
  rw [insertNextHeaders_slots env big, List.take_take, Nat.min_eq_right hbig]
  rfl

/-- the same for the list of headers that are stored -/
theorem prefix_semantics_inserted (env : Env) (s : State) (blobs : List String) (big : Nat)
    (hbig : env.headerSlots ≤ big) :
    insertedHeaders env s blobs =
      insertedHeaders { env with headerSlots := big } s (blobs.take env.headerSlots) := by
  rw [insertedHeaders_slots env big, List.take_take, Nat.min_eq_right hbig]
  rfl

/-- at least as many slots as announced headers: nothing is dropped -/
theorem slots_ge_length (env : Env) (s : State) (blobs : List String)
    (h : blobs.length ≤ env.headerSlots) :
    insertNextHeaders env s blobs = insertNextHeadersAll env s blobs := by
  unfold insertNextHeaders
  rw [List.take_of_length_le h]

/-- no slot at all (the message is already above the threshold when the loop is entered):
    nothing is stored -/
theorem no_slots (env : Env) (s : State) (blobs : List String) (h : env.headerSlots = 0) :
    insertNextHeaders env s blobs = some s := by
  unfold insertNextHeaders
  rw [h, List.take_zero]
  rfl

/-! ## What the loop changes -/

/-- the loop writes the announced headers and nothing else -/
theorem insertNextHeadersAll_only_next (env : Env) : ∀ (blobs : List String) (s s' : State),
    insertNextHeadersAll env s blobs = some s' →
      ∃ n, s' = { s with unstable := { s.unstable with next := n } }
  | [], s, s', h => by
    simp only [insertNextHeadersAll, Option.some.injEq] at h
    exact ⟨s.unstable.next, h ▸ rfl⟩
  | raw :: rest, s, s', h => by
    rw [all_cons] at h
    cases hst : hdrStep env s raw with
    | stop => rw [hst] at h; cases h; exact ⟨s.unstable.next, rfl⟩
    | trap => rw [hst] at h; cases h
    | skip => rw [hst] at h; exact insertNextHeadersAll_only_next env rest s s' h
    | store hd u =>
      rw [hst] at h
      obtain ⟨n, hn⟩ := insertNextHeadersAll_only_next env rest _ s' h
      obtain ⟨ht, rfl⟩ := store_eq (hdrStep_store hst).2
      exact ⟨n, hn⟩

theorem insertNextHeaders_only_next (env : Env) (blobs : List String) (s s' : State)
    (h : insertNextHeaders env s blobs = some s') :
    ∃ n, s' = { s with unstable := { s.unstable with next := n } } :=
  insertNextHeadersAll_only_next env _ s s' h

/-! ## (b) The invariant of the announced headers -/

/-- fewer slots: the headers that are stored are an initial segment of those stored with more -/
theorem insertedHeadersAll_take_prefix (env : Env) : ∀ (blobs : List String) (k : Nat) (s : State),
    insertedHeadersAll env s (blobs.take k) <+: insertedHeadersAll env s blobs
  | [], k, s => by simp [insertedHeadersAll]
  | raw :: rest, 0, s => by simp [insertedHeadersAll]
  | raw :: rest, k + 1, s => by
    rw [List.take_succ_cons, inserted_cons, inserted_cons]
    cases hdrStep env s raw with
    | stop => exact List.prefix_refl _
    | trap => exact List.prefix_refl _
    | skip => exact insertedHeadersAll_take_prefix env rest k s
    | store h u =>
      exact (List.prefix_cons_inj _).mpr (insertedHeadersAll_take_prefix env rest k _)

/-- **the body of the loop keeps `NextInv`** — provided that the headers it stores do not carry
    the hash of an unstable block (the freshness part of the environment assumption
    `Spec.Full.TrustedResponse`; in the code a hash is the SHA-256d of the header) -/
theorem nextInv_insertNextHeadersAll (env : Env) : ∀ (blobs : List String) (s s' : State),
    NextInv s →
    (∀ h ∈ insertedHeadersAll env s blobs, h.hash ∉ s.unstable.tree.blocks.map CBlock.hash) →
    insertNextHeadersAll env s blobs = some s' → NextInv s'
  | [], s, s', hI, _, h => by
    simp only [insertNextHeadersAll, Option.some.injEq] at h
    exact h ▸ hI
  | raw :: rest, s, s', hI, hf, h => by
    rw [all_cons] at h
    rw [inserted_cons] at hf
    cases hst : hdrStep env s raw with
    | stop => rw [hst] at h; cases h; exact hI
    | trap => rw [hst] at h; cases h
    | skip =>
      rw [hst] at h hf
      exact nextInv_insertNextHeadersAll env rest s s' hI hf h
    | store hd u =>
      rw [hst] at h hf
      simp only at h hf
      obtain ⟨hk, hi⟩ := hdrStep_store hst
      have htree : u.tree = s.unstable.tree := Lemmas.Reach2.insertNextHeader_tree hi
      have hI' : NextInv { s with unstable := u } :=
        nextInvAt_insert hI hk (hf hd List.mem_cons_self) hi
      refine nextInv_insertNextHeadersAll env rest _ s' hI' ?_ h
      intro x hx
      show x.hash ∉ u.tree.blocks.map CBlock.hash
      rw [htree]
      exact hf x (List.mem_cons_of_mem _ hx)

/-- **`insert_next_block_headers` keeps `NextInv`**, for the number of slots of `env` -/
theorem nextInv_insertNextHeaders (env : Env) (blobs : List String) (s s' : State)
    (hI : NextInv s)
    (hf : ∀ h ∈ insertedHeaders env s blobs, h.hash ∉ s.unstable.tree.blocks.map CBlock.hash)
    (h : insertNextHeaders env s blobs = some s') : NextInv s' :=
  nextInv_insertNextHeadersAll env _ s s' hI hf h

/-- **… whatever the number of slots**: if the headers that are stored when nothing is dropped
    are fresh, `NextInv` is kept for every instruction budget -/
theorem nextInv_any_slots (env : Env) (blobs : List String) (s : State) (hI : NextInv s)
    (hf : ∀ h ∈ insertedHeadersAll env s blobs, h.hash ∉ s.unstable.tree.blocks.map CBlock.hash)
    (k : Nat) (s' : State)
    (h : insertNextHeaders { env with headerSlots := k } s blobs = some s') : NextInv s' := by
  rw [insertNextHeaders_slots] at h
  refine nextInv_insertNextHeadersAll env _ s s' hI ?_ h
  intro x hx
  exact hf x ((insertedHeadersAll_take_prefix env blobs k s).subset hx)

/-! ## (c) Fewer slots: lower maximum announced height, `is_synced` more often -/

theorem keys_insert_superset {ν : Type} (m : List (Nat × ν)) (k : Nat) (v : ν) (x : Nat)
    (hx : x ∈ m.map (·.1)) : x ∈ (AList.insert m k v).map (·.1) := by
  rw [← AList.find?_isSome_iff_mem_keys] at hx ⊢
  rw [AList.find?_insert]
  split
  · rfl
  · exact hx

/-- the stored heights only grow along the loop -/
theorem heights_grow (env : Env) : ∀ (blobs : List String) (s s' : State),
    insertNextHeadersAll env s blobs = some s' →
      ∀ x ∈ s.unstable.next.byHeight.map (·.1), x ∈ s'.unstable.next.byHeight.map (·.1)
  | [], s, s', h => by
    simp only [insertNextHeadersAll, Option.some.injEq] at h
    subst h
    exact fun _ hx => hx
  | raw :: rest, s, s', h => by
    rw [all_cons] at h
    cases hst : hdrStep env s raw with
    | stop => rw [hst] at h; cases h; exact fun _ hx => hx
    | trap => rw [hst] at h; cases h
    | skip => rw [hst] at h; exact heights_grow env rest s s' h
    | store hd u =>
      rw [hst] at h
      intro x hx
      refine heights_grow env rest _ s' h x ?_
      obtain ⟨ht, rfl⟩ := store_eq (hdrStep_store hst).2
      exact keys_insert_superset _ _ _ x hx

/-- `get_max_height` is monotone in the set of stored heights -/
theorem maxHeight_le_of_subset (n n' : NextBlockHeaders)
    (h : ∀ x ∈ n.byHeight.map (·.1), x ∈ n'.byHeight.map (·.1)) :
    n.maxHeight.getD 0 ≤ n'.maxHeight.getD 0 := by
  cases hm : n.maxHeight with
  | none => exact Nat.zero_le _
  | some m =>
    obtain ⟨hin, _⟩ := (maxHeight_spec n).2 m hm
    have hin' := h m hin
    cases hm' : n'.maxHeight with
    | none =>
      rw [(maxHeight_spec n').1.mp hm'] at hin'
      cases hin'
    | some m' => exact ((maxHeight_spec n').2 m' hm').2 m hin'

/-- the two runs of the loop body over a shorter and a longer initial segment of the same
    response, from the same state -/
theorem heights_take_mono (env : Env) : ∀ (blobs : List String) (k k' : Nat) (s s1 s2 : State),
    k ≤ k' → insertNextHeadersAll env s (blobs.take k) = some s1 →
    insertNextHeadersAll env s (blobs.take k') = some s2 →
      ∀ x ∈ s1.unstable.next.byHeight.map (·.1), x ∈ s2.unstable.next.byHeight.map (·.1)
  | [], k, k', s, s1, s2, _, h1, h2 => by
    simp only [List.take_nil, insertNextHeadersAll, Option.some.injEq] at h1 h2
    subst h1 h2
    exact fun _ hx => hx
  | raw :: rest, 0, k', s, s1, s2, _, h1, h2 => by
    simp only [List.take_zero, insertNextHeadersAll, Option.some.injEq] at h1
    subst h1
    exact heights_grow env _ s s2 h2
  | raw :: rest, k + 1, 0, s, s1, s2, hk, _, _ => by omega
  | raw :: rest, k + 1, k' + 1, s, s1, s2, hk, h1, h2 => by
    rw [List.take_succ_cons, all_cons] at h1 h2
    have hk' : k ≤ k' := by omega
    cases hst : hdrStep env s raw with
    | stop => rw [hst] at h1 h2; cases h1; cases h2; exact fun _ hx => hx
    | trap => rw [hst] at h1; cases h1
    | skip => rw [hst] at h1 h2; exact heights_take_mono env rest k k' s s1 s2 hk' h1 h2
    | store hd u => rw [hst] at h1 h2; exact heights_take_mono env rest k k' _ s1 s2 hk' h1 h2

/-- **The maximum announced height is monotone in the number of slots**: from the same state, on
    the same response, with `k ≤ k'` slots (neither run trapping), the highest announced header
    after the run with `k` slots is not above the one after the run with `k'` slots. -/
theorem maxHeight_mono_slots (env : Env) (s : State) (blobs : List String) (k k' : Nat)
    (s1 s2 : State) (hk : k ≤ k')
    (h1 : insertNextHeaders { env with headerSlots := k } s blobs = some s1)
    (h2 : insertNextHeaders { env with headerSlots := k' } s blobs = some s2) :
    s1.unstable.next.maxHeight.getD 0 ≤ s2.unstable.next.maxHeight.getD 0 := by
  rw [insertNextHeaders_slots] at h1 h2
  exact maxHeight_le_of_subset _ _ (heights_take_mono env blobs k k' s s1 s2 hk h1 h2)

/-- in particular nothing is ever lost with respect to the state before -/
theorem maxHeight_le_after (env : Env) (s s' : State) (blobs : List String)
    (h : insertNextHeaders env s blobs = some s') :
    s.unstable.next.maxHeight.getD 0 ≤ s'.unstable.next.maxHeight.getD 0 :=
  maxHeight_le_of_subset _ _ (heights_grow env _ s s' h)

/-- the best-chain height is not touched by the loop -/
theorem mainChainHeight_insertNextHeaders (env : Env) (s s' : State) (blobs : List String)
    (h : insertNextHeaders env s blobs = some s') : s'.mainChainHeight = s.mainChainHeight := by
  obtain ⟨ht, hu⟩ := insertNextHeaders_tree env s blobs s' h
  unfold mainChainHeight
  rw [ht, hu]

/-- **Dropping announced headers can only turn `is_synced` on**: if the canister is synced after
    the run with `k'` slots, it is synced after the run with `k ≤ k'` slots. (The converse fails:
    `Example.sync_gate_lags`.) The sync gate of C14 is therefore only as good as the announced
    headers that made it into the store: a message that has burnt its instruction budget before
    the header loop leaves the canister "synced" however far the announced chain is ahead. -/
theorem isSynced_antitone_slots (env : Env) (s : State) (blobs : List String) (k k' : Nat)
    (s1 s2 : State) (thr : Nat) (hk : k ≤ k')
    (h1 : insertNextHeaders { env with headerSlots := k } s blobs = some s1)
    (h2 : insertNextHeaders { env with headerSlots := k' } s blobs = some s2)
    (hsync : s2.isSynced thr = true) : s1.isSynced thr = true := by
  rw [C14.isSynced_iff] at hsync ⊢
  have hm := maxHeight_mono_slots env s blobs k k' s1 s2 hk h1 h2
  rw [mainChainHeight_insertNextHeaders _ s s1 blobs h1]
  rw [mainChainHeight_insertNextHeaders _ s s2 blobs h2] at hsync
  omega

/-- the same for the whole guard of the data endpoints: a request that passes after the run with
    more slots passes after the run with fewer -/
theorem guard_antitone_slots (env genv : Env) (s : State) (blobs : List String) (k k' : Nat)
    (s1 s2 : State) (reqNet : Tree.Net) (syncRule : Bool) (hk : k ≤ k')
    (h1 : insertNextHeaders { env with headerSlots := k } s blobs = some s1)
    (h2 : insertNextHeaders { env with headerSlots := k' } s blobs = some s2)
    (hg : s2.guard genv reqNet syncRule = none) : s1.guard genv reqNet syncRule = none := by
  rw [C14.guard_passes_iff] at hg ⊢
  obtain ⟨n1, e1⟩ := insertNextHeaders_only_next _ blobs s s1 h1
  obtain ⟨n2, e2⟩ := insertNextHeaders_only_next _ blobs s s2 h2
  obtain ⟨ga, gn, gs⟩ := hg
  have ea : s1.apiAccess = s2.apiAccess := by rw [e1, e2]
  have en : s1.network = s2.network := by rw [e1, e2]; rfl
  have ed : s1.disableApiIfNotSynced = s2.disableApiIfNotSynced := by rw [e1, e2]
  refine ⟨ea ▸ ga, en ▸ gn, fun hr hd => ?_⟩
  exact isSynced_antitone_slots env s blobs k k' s1 s2 _ hk h1 h2 (gs hr (ed ▸ hd))

/-- **fewer slots cannot introduce a trap** (the only trap of the loop is inside the header
    validation library; fewer headers are validated) -/
theorem no_trap_mono (env : Env) : ∀ (blobs : List String) (k k' : Nat) (s : State),
    k ≤ k' → insertNextHeadersAll env s (blobs.take k') ≠ none →
    insertNextHeadersAll env s (blobs.take k) ≠ none
  | [], k, k', s, _, _ => by simp [insertNextHeadersAll]
  | raw :: rest, 0, k', s, _, _ => by simp [insertNextHeadersAll]
  | raw :: rest, k + 1, 0, s, hk, _ => by omega
  | raw :: rest, k + 1, k' + 1, s, hk, h => by
    rw [List.take_succ_cons, all_cons] at h ⊢
    have hk' : k ≤ k' := by omega
    cases hst : hdrStep env s raw with
    | stop => simp
    | trap => rw [hst] at h; exact absurd rfl h
    | skip => rw [hst] at h; exact no_trap_mono env rest k k' s hk' h
    | store hd u => rw [hst] at h; exact no_trap_mono env rest k k' _ hk' h

theorem no_trap_mono_slots (env : Env) (s : State) (blobs : List String) (k k' : Nat)
    (hk : k ≤ k') (h : insertNextHeaders { env with headerSlots := k' } s blobs ≠ none) :
    insertNextHeaders { env with headerSlots := k } s blobs ≠ none := by
  rw [insertNextHeaders_slots] at h ⊢
  exact no_trap_mono env blobs k k' s hk h

/-! ## (d) Non-vacuity -/

namespace Example

def coinbase (id : Nat) : Tx :=
  { txid := id, ntxid := id, coinbase := true, vsize := 100, ins := [], outs := [⟨50, none, false⟩] }
def gen : Block :=
  { hash := 1, prev := 0, diff := 1, time := 100, bits := 0x207fffff, header := "g", txs := [coinbase 100] }

/-- a regtest canister holding only the anchor, nothing announced -/
def s0 : State :=
  { utxos := {},
    unstable := { thr := 2, tree := .leaf ⟨gen, some [], 1⟩, net := .regtest, blockCache := [1] } }

/-- three announced headers, one on top of the other, on top of the anchor -/
def h2 : NextHeader := ⟨2, 1, 101, 0x207fffff, "H2"⟩
def h3 : NextHeader := ⟨3, 2, 102, 0x207fffff, "H3"⟩
def h4 : NextHeader := ⟨4, 3, 103, 0x207fffff, "H4"⟩

def dec : Decoders :=
  { block := fun _ => none
    header := fun raw =>
      if raw = "H2" then some h2 else if raw = "H3" then some h3
      else if raw = "H4" then some h4 else none }

/-- an environment with `k` slots -/
def env (k : Nat) : Env :=
  { now := 200, dec := dec, bound := fun _ _ => 1000, syncedThreshold := 2, maxHeaders := 100,
    numTransactions := 1000, headerSlots := k }

/-- the default number of slots is large -/
example : ({ now := 200, dec := dec, bound := fun _ _ => 1000, syncedThreshold := 2,
             maxHeaders := 100, numTransactions := 1000 } : Env).headerSlots = 1000000000 := rfl

def announced : List String := ["H2", "H3", "H4"]

/-- what is observed: the stored hashes, `get_max_height`, `is_synced` -/
def obs (o : Option State) : Option (List Nat × Option Nat × Bool) :=
  o.map (fun s => (s.unstable.next.byHash.map (·.1), s.unstable.next.maxHeight, s.isSynced 2))

/-- all three are valid and stored when there are enough slots: the canister is not synced (the
    announced chain is 3 above the best chain, more than the threshold 2) -/
theorem run_all : obs (insertNextHeaders (env 1000000000) s0 announced) =
    some ([4, 3, 2], some 3, false) := by decide +kernel
example : obs (insertNextHeaders (env 3) s0 announced) = some ([4, 3, 2], some 3, false) := by
  decide +kernel
/-- two slots: `H4` is dropped -/
theorem run_two : obs (insertNextHeaders (env 2) s0 announced) = some ([3, 2], some 2, true) := by
  decide +kernel
/-- one slot -/
example : obs (insertNextHeaders (env 1) s0 announced) = some ([2], some 1, true) := by
  decide +kernel
/-- no slot -/
example : obs (insertNextHeaders (env 0) s0 announced) = some ([], none, true) := by
  decide +kernel
/-- an undecodable blob uses up a slot like any other and ends the loop -/
example : obs (insertNextHeaders (env 2) s0 ["H2", "garbage", "H3"]) = some ([2], some 1, true) := by
  decide +kernel
/-- an already stored header uses up a slot and is skipped: `H2 H2 H3` with two slots stores `H2`
    only, with three slots `H3` as well -/
example : obs (insertNextHeaders (env 2) s0 ["H2", "H2", "H3"]) = some ([2], some 1, true) ∧
    obs (insertNextHeaders (env 3) s0 ["H2", "H2", "H3"]) = some ([3, 2], some 2, true) := by
  decide +kernel
/-- the countdown loop on the same inputs -/
example : obs (insertNextHeadersLoop (env 2) 2 s0 announced) = some ([3, 2], some 2, true) := by
  decide +kernel
/-- the stored headers, as the specification lists them -/
example : (insertedHeaders (env 2) s0 announced).map (·.hash) = [2, 3] ∧
    (insertedHeaders (env 5) s0 announced).map (·.hash) = [2, 3, 4] := by decide +kernel

/-- **the sync gate lags**: on the same response from the same state, the canister with two
    slots ends up "synced", the canister with three does not — the converse of
    `isSynced_antitone_slots` fails -/
theorem sync_gate_lags :
    ∃ s1 s2, insertNextHeaders (env 2) s0 announced = some s1 ∧
      insertNextHeaders (env 3) s0 announced = some s2 ∧
      s1.isSynced 2 = true ∧ s2.isSynced 2 = false := by
  have a : (insertNextHeaders (env 2) s0 announced).isSome = true := by decide +kernel
  have b : (insertNextHeaders (env 3) s0 announced).isSome = true := by decide +kernel
  cases h1 : insertNextHeaders (env 2) s0 announced with
  | none => rw [h1] at a; cases a
  | some s1 =>
    cases h2 : insertNextHeaders (env 3) s0 announced with
    | none => rw [h2] at b; cases b
    | some s2 =>
      refine ⟨s1, s2, rfl, rfl, ?_, ?_⟩
      · have : ((insertNextHeaders (env 2) s0 announced).map (·.isSynced 2)) = some true := by
          decide +kernel
        rw [h1] at this; exact Option.some.inj this
      · have : ((insertNextHeaders (env 3) s0 announced).map (·.isSynced 2)) = some false := by
          decide +kernel
        rw [h2] at this; exact Option.some.inj this

/-- the hypotheses of `nextInv_any_slots` hold here -/
theorem nextInv_s0 : NextInv s0 :=
  { ok := nextOk_empty
    above := by intro h ht hg; cases hg
    notInTree := by intro c _; rfl }

theorem fresh_s0 : ∀ h ∈ insertedHeadersAll (env 0) s0 announced,
    h.hash ∉ s0.unstable.tree.blocks.map CBlock.hash := by decide +kernel

/-- … so `NextInv` holds after the run, for every number of slots -/
example (k : Nat) (s' : State) (h : insertNextHeaders (env k) s0 announced = some s') :
    NextInv s' :=
  nextInv_any_slots (env 0) announced s0 nextInv_s0 fresh_s0 k s' h

/-- the hypotheses of `maxHeight_mono_slots` / `isSynced_antitone_slots` hold for `2 ≤ 3` -/
example : ∃ s1 s2, insertNextHeaders { env 0 with headerSlots := 2 } s0 announced = some s1 ∧
    insertNextHeaders { env 0 with headerSlots := 3 } s0 announced = some s2 ∧
    s1.unstable.next.maxHeight.getD 0 ≤ s2.unstable.next.maxHeight.getD 0 := by
  obtain ⟨s1, s2, h1, h2, _⟩ := sync_gate_lags
  exact ⟨s1, s2, h1, h2, maxHeight_mono_slots (env 0) s0 announced 2 3 s1 s2 (by omega) h1 h2⟩

/-- the threshold arithmetic: counter at 29.9e9 when the loop is entered, 40e6 per reading: two
    iterations run (29.94e9, 29.98e9), the third reading (30.02e9) breaks -/
example : (maxInstructionsThreshold - 29900000000) / 40000000 = 2 := by decide
example : ¬ (29900000000 + 2 * 40000000 > maxInstructionsThreshold) ∧
    29900000000 + 3 * 40000000 > maxInstructionsThreshold := by decide

end Example

end Btc.Props.HeaderSlots
