import BtcModel.Lemmas.Watchdog
import BtcModel.Gen.Constants

/-!
# C17 — the watchdog changes API access only on a quorum of agreeing explorers

Property theorems only (helper lemmas live in `Lemmas/Watchdog.lean`).
The model (`Model/Watchdog.lean`) is tied to `watchdog/src/{health,api_access,fetch,storage}.rs`
by the correspondence stream `wd`.
-/
namespace Btc.Props.C17
open Btc.Watchdog List

/-- The band `[m - behind, m + ahead]` around a median `m` (for `behind ≤ m`). -/
def InBand (cfg : Cfg) (m x : Nat) : Prop := m - cfg.behind ≤ x ∧ x ≤ m + cfg.ahead

instance (cfg : Cfg) (m x : Nat) : Decidable (InBand cfg m x) := by unfold InBand; infer_instance

/-- The quorum condition of the property: at least `min_explorers` heights, and at least
    `min_explorers` of them inside the band around their median `m`. -/
def Quorum (cfg : Cfg) (hs : List Nat) (m : Nat) : Prop :=
  median hs = some m ∧ cfg.minExplorers ≤ hs.length ∧
    cfg.minExplorers ≤ (hs.filter (fun x => decide (InBand cfg m x))).length

/-- The domain the property names: heights above the configured thresholds (and below 2^63,
    the range of the `as i64` casts). -/
def InDomain (cfg : Cfg) (m : Nat) : Prop := cfg.behind ≤ m ∧ m + cfg.ahead < two63

instance (cfg : Cfg) (hs : List Nat) (m : Nat) : Decidable (Quorum cfg hs m) := by
  unfold Quorum; infer_instance

instance (cfg : Cfg) (m : Nat) : Decidable (InDomain cfg m) := by unfold InDomain; infer_instance

private theorem asU64_lo (m b : Nat) (hb : b ≤ m) (hm : m < two63) :
    asU64 (satAddI64 (m : Int) (-(b : Int))) = m - b := by
  have h1 : satAddI64 (m : Int) (-(b : Int)) = ((m - b : Nat) : Int) := by
    unfold satAddI64 two63 at *
    simp only
    split
    · omega
    · split <;> omega
  rw [h1]
  unfold asU64
  split <;> omega

private theorem asU64_hi (m a : Nat) (hm : m + a < two63) :
    asU64 (satAddI64 (m : Int) (a : Int)) = m + a := by
  have h1 : satAddI64 (m : Int) (a : Int) = ((m + a : Nat) : Int) := by
    unfold satAddI64 two63 at *
    simp only
    split
    · omega
    · split <;> omega
  rw [h1]
  unfold asU64
  split <;> omega

/-- `calculate_height_target` is exactly the quorum rule. -/
theorem heightTarget_spec (cfg : Cfg) (hs : List Nat) (m : Nat)
    (hmed : median hs = some m) (hd : InDomain cfg m) :
    heightTarget hs cfg = if Quorum cfg hs m then some m else none := by
  obtain ⟨hb, hr⟩ := hd
  have hm : m < two63 := by omega
  have hq : Quorum cfg hs m ↔ (cfg.minExplorers ≤ hs.length ∧ cfg.minExplorers ≤
      (hs.filter (fun x => decide (m - cfg.behind ≤ x ∧ x ≤ m + cfg.ahead))).length) := by
    unfold Quorum InBand; simp [hmed]
  unfold heightTarget
  rw [hmed]
  simp only [asU64_lo m cfg.behind hb hm, asU64_hi m cfg.ahead hr]
  have hf : (hs.filter (fun x => decide (m - cfg.behind ≤ x) && decide (x ≤ m + cfg.ahead)))
      = hs.filter (fun x => decide (m - cfg.behind ≤ x ∧ x ≤ m + cfg.ahead)) := by
    congr 1; funext x; simp
  rw [hf]
  by_cases h1 : hs.length < cfg.minExplorers
  · rw [if_pos h1, if_neg]
    intro h; have := (hq.mp h).1; omega
  · rw [if_neg h1]
    by_cases h2 : cfg.minExplorers ≤ (hs.filter (fun x => decide (m - cfg.behind ≤ x ∧ x ≤ m + cfg.ahead))).length
    · rw [if_pos (hq.mpr ⟨by omega, h2⟩), if_pos (by omega)]
    · rw [if_neg (fun h => h2 (hq.mp h).2), if_neg (by omega)]

/-- With no successful fetch at all there is never a decision. -/
theorem no_heights_no_action (can : Option Nat) (es : List (Option Nat)) (cfg : Cfg)
    (h : es.filterMap id = []) : decision can es cfg = none := by
  have ht : heightTarget [] cfg = none := by
    unfold heightTarget; split <;> simp [median]
  unfold decision compareHeights
  simp only [h, ht]
  cases can <;> simp [heightDiff, statusOf, apiTarget]

/-- **Decision = specification.** For explorer heights in the domain: no action unless the
    canister height is known and the quorum holds; given that, access is enabled exactly when
    the canister height lies in the band around the median. -/
theorem decision_spec (can : Option Nat) (es : List (Option Nat)) (cfg : Cfg) (m : Nat)
    (hmed : median (es.filterMap id) = some m) (hd : InDomain cfg m) :
    decision can es cfg =
      match can with
      | none => none
      | some c => if Quorum cfg (es.filterMap id) m then some (decide (InBand cfg m c)) else none := by
  unfold decision compareHeights
  simp only [heightTarget_spec cfg _ m hmed hd]
  obtain ⟨hb, hr⟩ := hd
  cases can with
  | none => split <;> simp [heightDiff, statusOf, apiTarget]
  | some c =>
    by_cases hq : Quorum cfg (es.filterMap id) m
    · simp only [hq, if_true, heightDiff, statusOf]
      unfold InBand
      by_cases h1 : ((c : Int) - (m : Int)) < -(cfg.behind : Int)
      · rw [if_pos h1]
        simp [apiTarget]; omega
      · rw [if_neg h1]
        by_cases h2 : ((c : Int) - (m : Int)) > (cfg.ahead : Int)
        · rw [if_pos h2]
          simp [apiTarget]; omega
        · rw [if_neg h2]
          simp [apiTarget]; omega
    · simp [hq, heightDiff, statusOf, apiTarget]

/-- The order of the explorers is irrelevant: the whole outcome (status, target height,
    difference) depends only on the multiset of results. -/
theorem order_irrelevant (can : Option Nat) (es es' : List (Option Nat)) (cfg : Cfg)
    (h : es.Perm es') : compareHeights can es cfg = compareHeights can es' cfg := by
  unfold compareHeights
  rw [heightTarget_congr cfg (h.filterMap id)]

/-- Failed fetches contribute nothing: dropping them does not change the outcome. -/
theorem failures_contribute_nothing (can : Option Nat) (es : List (Option Nat)) (cfg : Cfg) :
    compareHeights can es cfg = compareHeights can (es.filter Option.isSome) cfg := by
  have : (es.filter Option.isSome).filterMap id = es.filterMap id := by
    induction es with
    | nil => rfl
    | cons x xs ih => cases x <;> simp [List.filter, ih]
  unfold compareHeights
  rw [this]

/-- Stale heights are never reused: after a round in which every configured provider
    reported (a height or a failure), the stored data, and hence the decision, is that of
    this round alone, whatever was stored before. -/
theorem latest_round_only (s : Store) (results : List (Option Nat)) (can : Option Nat) (cfg : Cfg)
    (hlen : results.length = s.slots.length) :
    (s.round results can).decision cfg =
      let r := compareHeights can results cfg
      (r.1, r.2.1, r.2.2, apiTarget r.1) := by
  have hexp : (s.round results can).explorers = results := by
    unfold Store.round Store.explorers
    simp only
    have hdrop : s.slots.drop results.length = [] := by
      rw [hlen]; simp
    rw [hdrop, List.append_nil]
    have : ∀ (a : List (Option (Option Nat))) (b : List (Option Nat)), a.length = b.length →
        ((a.zip b).map (fun p => some p.2)).filterMap id = b := by
      intro a b
      induction a generalizing b with
      | nil => intro h; cases b <;> simp_all
      | cons x xs ih =>
        intro h
        cases b with
        | nil => simp at h
        | cons y ys => simp at h; simp [ih ys h]
    exact this _ _ hlen.symm
  unfold Store.decision
  rw [hexp]
  rfl

/-- The five target configurations currently in `watchdog/src/config.rs` (regenerated from the
    source on every run) ask for a real quorum: at least one explorer, and no more explorers
    than are configured, so the quorum is attainable. -/
theorem generated_configs_have_attainable_quorum :
    ∀ r ∈ Btc.Gen.watchdogConfigs, 1 ≤ r.2.2.1 ∧ r.2.2.1 ≤ r.2.2.2 := by decide

/-! Non-vacuity: concrete states that meet the hypotheses. -/

example : median [100, 101, 99, 100] = some 100 ∧ InDomain ⟨2, 2, 3⟩ 100 ∧
    Quorum ⟨2, 2, 3⟩ [100, 101, 99, 100] 100 := by decide

example : decision (some 103) [some 100, some 101, none, some 99, some 100] ⟨2, 2, 3⟩ = some false := by
  decide

example : decision (some 101) [some 100, none, some 101, some 99, some 100] ⟨2, 2, 3⟩ = some true := by
  decide

example : decision (some 100) [some 100, none, some 150, none, some 50] ⟨2, 2, 3⟩ = none := by decide

end Btc.Props.C17
