import BtcModel.Lemmas.Fetch

/-!
# C10 — acceptance of blocks delivered by the block source

* A1 `accepted_iff`, `rejected_iff`, `trapped_iff`, `push_ok_iff`: a block becomes part of the
  canister's view iff its parent is the anchor or an unstable block, it is not already a child of
  that parent, and it passes header and body validation at the current time.
* A2 `acceptance_is_atomic`, `processBlocks_stops_at_bad`, `processBlocks_rest_irrelevant`: a
  refused block leaves nothing behind except one error counter; the rest of the response is dropped.
* A3 `garbage_block_never_traps`, `garbage_header_never_traps`, `processResponse_noncomplete`.
* A4 `processResponse_consumes`.
-/
namespace Btc.Props.C10
open Btc Btc.State Btc.Lemmas.Fetch

/-! ## A1: when is a block accepted -/

/-- `unstable_blocks::push` succeeds iff the parent is in the tree and the outpoints of the block
    can be processed; the new tree is the old one extended by the block under its parent -/
theorem push_ok_iff (u : Unstable) (utxos : UtxoSet) (b : Block) (u' : Unstable) :
    u.push utxos b = .ok u' ↔
      ∃ depth cache m tree,
        Tree.findDepth CBlock.hash b.prev u.tree = some depth ∧
        insertOutpoints u.cache utxos b (utxos.nextHeight + depth + 1) = some (cache, m) ∧
        Tree.extend CBlock.hash b.prev (CBlock.mk b (some m.feeRates) m.utxoDelta) u.tree = some tree ∧
        u' = { u with tree := tree, cache := cache, next := u.next.remove b.hash,
                      tipDepthsCache := tree.tipDepths,
                      blockCache := if u.blockCache.contains b.hash then u.blockCache
                                    else u.blockCache ++ [b.hash] } := by
  unfold Unstable.push
  constructor
  · intro h
    split at h
    · cases h
    · rename_i depth hd
      dsimp only at h
      split at h
      · cases h
      · rename_i cache m hi
        split at h
        · cases h
        · rename_i tree ht
          cases h
          exact ⟨depth, cache, m, tree, hd, hi, ht, rfl⟩
  · rintro ⟨depth, cache, m, tree, hd, hi, ht, rfl⟩
    simp only [hd, hi, ht]

/-- `insert_block` in terms of the quantities the property talks about -/
theorem insertBlock_eq (env : Env) (s : State) (b : Block) :
    insertBlock env s b =
      match Tree.chainWithTip CBlock.hash b.prev s.unstable.tree with
      | none => .rejected "BlockDoesNotExtendTree"
      | some (chain, succ) =>
        if succ.any (fun c => c.hash == b.hash) then .rejected "AlreadyKnown"
        else
          match Header.validateHeader s.network
              (validationStore s (chain.map (fun c => hdrOfBlock c.blk))) (hdrOfBlock b) env.now with
          | .trap => .trap
          | .err e => .rejected s!"InvalidBlockHeader({repr e})"
          | .ok =>
            match validateBody b with
            | some e => .rejected s!"{repr e}"
            | none =>
              match s.unstable.push s.utxos b with
              | .ok u => .ok { s with unstable := u }
              | _ => .trap := by
  unfold insertBlock validationContext
  simp only [show (hdrOfBlock b).prev = b.prev from rfl, show (hdrOfBlock b).hash = b.hash from rfl]
  cases hc : Tree.chainWithTip CBlock.hash b.prev s.unstable.tree with
  | none => rfl
  | some x =>
    obtain ⟨chain, succ⟩ := x
    dsimp only
    by_cases hany : succ.any (fun c => c.hash == b.hash) = true
    · simp only [hany, if_true]
    · simp only [hany, Bool.false_eq_true, if_false]
      rfl

/-- **A1**: `insert_block` accepts a block iff its parent is the anchor or an unstable block
    (`get_chain_with_tip` finds it), the block is not already a child of that parent, its header is
    valid at the current time against the chain to the parent, its body is valid, and
    `unstable_blocks::push` succeeds; the only thing that changes is `unstable_blocks`. -/
theorem accepted_iff (env : Env) (s s' : State) (b : Block) :
    insertBlock env s b = .ok s' ↔
      ∃ chain succ u,
        Tree.chainWithTip CBlock.hash b.prev s.unstable.tree = some (chain, succ) ∧
        succ.any (fun c => c.hash == b.hash) = false ∧
        Header.validateHeader s.network
          (validationStore s (chain.map (fun c => hdrOfBlock c.blk))) (hdrOfBlock b) env.now = .ok ∧
        validateBody b = none ∧
        s.unstable.push s.utxos b = .ok u ∧
        s' = { s with unstable := u } := by
  rw [insertBlock_eq]
  constructor
  · intro h
    split at h
    · cases h
    · rename_i chain succ hc
      split at h
      · cases h
      · rename_i hany
        split at h
        · cases h
        · cases h
        · rename_i hv
          split at h
          · cases h
          · rename_i hb
            split at h
            · rename_i u hu
              cases h
              exact ⟨chain, succ, u, hc, by simpa using hany, hv, hb, hu, rfl⟩
            · cases h
  · rintro ⟨chain, succ, u, hc, hany, hv, hb, hu, rfl⟩
    simp only [hc, hany, Bool.false_eq_true, if_false, hv, hb, hu]

/-- **A1, refusals**: a block is refused (with an `InsertBlockError`) iff its parent is unknown, or
    it is already a child of its parent, or its header is invalid, or its body is invalid -/
theorem rejected_iff (env : Env) (s : State) (b : Block) :
    (∃ why, insertBlock env s b = .rejected why) ↔
      Tree.chainWithTip CBlock.hash b.prev s.unstable.tree = none ∨
      ∃ chain succ, Tree.chainWithTip CBlock.hash b.prev s.unstable.tree = some (chain, succ) ∧
        (succ.any (fun c => c.hash == b.hash) = true ∨
         succ.any (fun c => c.hash == b.hash) = false ∧
          ((∃ e, Header.validateHeader s.network
              (validationStore s (chain.map (fun c => hdrOfBlock c.blk))) (hdrOfBlock b) env.now = .err e) ∨
           (Header.validateHeader s.network
              (validationStore s (chain.map (fun c => hdrOfBlock c.blk))) (hdrOfBlock b) env.now = .ok ∧
            ∃ e, validateBody b = some e))) := by
  rw [insertBlock_eq]
  cases hc : Tree.chainWithTip CBlock.hash b.prev s.unstable.tree with
  | none => exact ⟨fun _ => .inl rfl, fun _ => ⟨_, rfl⟩⟩
  | some x =>
    obtain ⟨chain, succ⟩ := x
    dsimp only
    by_cases hany : succ.any (fun c => c.hash == b.hash) = true
    · simp only [hany, if_true]
      exact ⟨fun _ => .inr ⟨chain, succ, rfl, .inl hany⟩, fun _ => ⟨_, rfl⟩⟩
    · have hany' : succ.any (fun c => c.hash == b.hash) = false := by simpa using hany
      simp only [hany', Bool.false_eq_true, if_false]
      constructor
      · rintro ⟨why, h⟩
        refine .inr ⟨chain, succ, rfl, .inr ⟨hany', ?_⟩⟩
        split at h
        · cases h
        · rename_i e hv; exact .inl ⟨e, hv⟩
        · rename_i hv
          split at h
          · rename_i e hb; exact .inr ⟨hv, e, hb⟩
          · split at h <;> cases h
      · rintro (h | ⟨c, su, h, hr⟩)
        · cases h
        · cases h
          rcases hr with h | ⟨_, ⟨e, hv⟩ | ⟨hv, e, hb⟩⟩
          · rw [hany'] at h; cases h
          · simp only [hv]; exact ⟨_, rfl⟩
          · simp only [hv, hb]; exact ⟨_, rfl⟩

/-- the reasons are reported as in the code -/
theorem rejected_unknown_parent (env : Env) (s : State) (b : Block)
    (h : Tree.chainWithTip CBlock.hash b.prev s.unstable.tree = none) :
    insertBlock env s b = .rejected "BlockDoesNotExtendTree" := by
  rw [insertBlock_eq, h]

theorem rejected_already_known (env : Env) (s : State) (b : Block) (chain succ : List CBlock)
    (h : Tree.chainWithTip CBlock.hash b.prev s.unstable.tree = some (chain, succ))
    (hany : succ.any (fun c => c.hash == b.hash) = true) :
    insertBlock env s b = .rejected "AlreadyKnown" := by
  rw [insertBlock_eq, h]
  simp only [hany, if_true]

/-- **A1, traps**: `insert_block` traps only if header validation does (an `expect` inside the
    validation library) or if `push` fails after validation succeeded -/
theorem trapped_iff (env : Env) (s : State) (b : Block) :
    insertBlock env s b = .trap ↔
      ∃ chain succ, Tree.chainWithTip CBlock.hash b.prev s.unstable.tree = some (chain, succ) ∧
        succ.any (fun c => c.hash == b.hash) = false ∧
        (Header.validateHeader s.network
            (validationStore s (chain.map (fun c => hdrOfBlock c.blk))) (hdrOfBlock b) env.now = .trap ∨
         (Header.validateHeader s.network
            (validationStore s (chain.map (fun c => hdrOfBlock c.blk))) (hdrOfBlock b) env.now = .ok ∧
          validateBody b = none ∧ ∀ u, s.unstable.push s.utxos b ≠ .ok u)) := by
  rw [insertBlock_eq]
  cases hc : Tree.chainWithTip CBlock.hash b.prev s.unstable.tree with
  | none => exact ⟨fun h => (by cases h), fun ⟨_, _, h, _⟩ => (by cases h)⟩
  | some x =>
    obtain ⟨chain, succ⟩ := x
    dsimp only
    by_cases hany : succ.any (fun c => c.hash == b.hash) = true
    · simp only [hany, if_true]
      refine ⟨fun h => (by cases h), ?_⟩
      rintro ⟨c, su, h, h2, _⟩
      cases h
      rw [hany] at h2; cases h2
    · have hany' : succ.any (fun c => c.hash == b.hash) = false := by simpa using hany
      simp only [hany', Bool.false_eq_true, if_false]
      constructor
      · intro h
        refine ⟨chain, succ, rfl, hany', ?_⟩
        split at h
        · rename_i hv; exact .inl hv
        · cases h
        · rename_i hv
          split at h
          · cases h
          · rename_i hb
            split at h
            · cases h
            · rename_i hn
              exact .inr ⟨hv, hb, fun u hu => hn u hu⟩
      · rintro ⟨c, su, h, _, hr⟩
        cases h
        rcases hr with hv | ⟨hv, hb, hn⟩
        · simp only [hv]
        · simp only [hv, hb]

/-- once the parent has been found `push` cannot report `doesNotExtend`: the `expect` in
    `insert_block` can only fail because the outpoints of the block cannot be processed -/
theorem push_after_validation (s : State) (b : Block) (chain succ : List CBlock)
    (h : Tree.chainWithTip CBlock.hash b.prev s.unstable.tree = some (chain, succ)) :
    (∃ u, s.unstable.push s.utxos b = .ok u) ∨
    (∃ m, s.unstable.push s.utxos b = .trap m ∧
      insertOutpoints s.unstable.cache s.utxos b (s.utxos.nextHeight + (chain.length - 1) + 1) = none) := by
  unfold Unstable.push
  simp only [Tree.findDepth, h, Option.map_some]
  cases hi : insertOutpoints s.unstable.cache s.utxos b (s.utxos.nextHeight + (chain.length - 1) + 1) with
  | none => right; exact ⟨_, rfl, rfl⟩
  | some x =>
    obtain ⟨cache, m⟩ := x
    obtain ⟨t', ht⟩ := extend_isSome_of_chain CBlock.hash b.prev
      (CBlock.mk b (some m.feeRates) m.utxoDelta) s.unstable.tree _ h
    left
    simp only [ht]
    exact ⟨_, rfl⟩

/-- an accepted block is in the canister's view: it hangs under its parent as the last child (the
    chain to the parent is unchanged), and the pre-order listing of the unstable blocks is the old
    one plus this block -/
theorem accepted_is_visible (env : Env) (s s' : State) (b : Block) (h : insertBlock env s b = .ok s') :
    ∃ chain succ c, c.blk = b ∧
      Tree.chainWithTip CBlock.hash b.prev s.unstable.tree = some (chain, succ) ∧
      Tree.chainWithTip CBlock.hash b.prev s'.unstable.tree = some (chain, succ ++ [c]) ∧
      (s'.unstable.tree.blocks).Perm (c :: s.unstable.tree.blocks) ∧
      s'.utxos = s.utxos ∧ s'.syncing = s.syncing ∧ s'.headers = s.headers := by
  obtain ⟨u, hu, rfl⟩ := insertBlock_ok_eq h
  obtain ⟨depth, cache, m, tree, _, _, ht, rfl⟩ := (push_ok_iff _ _ _ _).mp hu
  obtain ⟨chain, succ, h1, h2⟩ := extend_chain _ _ _ _ _ ht
  exact ⟨chain, succ, _, rfl, h1, h2, extend_perm _ _ _ _ _ ht, rfl, rfl, rfl⟩

/-! ## A2: refusals are atomic; the rest of the response is dropped -/

/-- **A2 (atomic reject)**: the result of `insert_block` is either a new state, or a reason with
    no state at all (the caller keeps the old one), or a trap (the whole message is rolled back) -/
theorem acceptance_is_atomic (env : Env) (s : State) (b : Block) :
    (∃ s', insertBlock env s b = .ok s' ∧ s'.utxos = s.utxos ∧ s'.syncing = s.syncing) ∨
    (∃ why, insertBlock env s b = .rejected why) ∨ insertBlock env s b = .trap := by
  cases h : insertBlock env s b with
  | ok s' =>
    obtain ⟨u, _, rfl⟩ := insertBlock_ok_eq h
    exact .inl ⟨_, rfl, rfl, rfl⟩
  | rejected why => exact .inr (.inl ⟨why, rfl⟩)
  | trap => exact .inr (.inr rfl)

/-- accept a list of decoded blocks one after the other (`none` as soon as one is not accepted) -/
def acceptAll (env : Env) (s : State) : List Block → Option State
  | [] => some s
  | b :: bs =>
    match insertBlock env s b with
    | .ok s' => acceptAll env s' bs
    | _ => none

/-- the block loop over a concatenation -/
theorem processBlocks_append (env : Env) (s : State) (l1 l2 : List String) :
    processBlocks env s (l1 ++ l2) =
      match processBlocks env s l1 with
      | none => none
      | some (s1, true) => some (s1, true)
      | some (s1, false) => processBlocks env s1 l2 := by
  induction l1 generalizing s with
  | nil => simp [processBlocks]
  | cons blob rest ih =>
    simp only [List.cons_append, processBlocks]
    split
    · rfl
    · split
      · rfl
      · rfl
      · exact ih _

/-- the loop runs to the end without stopping iff every blob decodes and every block is accepted
    on top of the previous ones -/
theorem processBlocks_all_accepted_iff (env : Env) (s sEnd : State) (blobs : List String) :
    processBlocks env s blobs = some (sEnd, false) ↔
      ∃ blocks, blobs.map env.dec.block = blocks.map some ∧ acceptAll env s blocks = some sEnd := by
  induction blobs generalizing s with
  | nil =>
    simp only [processBlocks, Option.some.injEq, Prod.mk.injEq, and_true, List.map_nil]
    constructor
    · rintro rfl; exact ⟨[], rfl, rfl⟩
    · rintro ⟨blocks, hb, ha⟩
      cases blocks with
      | nil => simpa [acceptAll] using ha
      | cons b bs => simp at hb
  | cons blob rest ih =>
    simp only [processBlocks]
    constructor
    · intro h
      split at h
      · simp at h
      · rename_i b hb
        split at h
        · cases h
        · simp at h
        · rename_i s' hs'
          obtain ⟨blocks, hbs, ha⟩ := (ih s').mp h
          exact ⟨b :: blocks, by simp [hb, hbs], by simp [acceptAll, hs', ha]⟩
    · rintro ⟨blocks, hbs, ha⟩
      cases blocks with
      | nil => simp at hbs
      | cons b bs =>
        simp only [List.map_cons, List.cons.injEq] at hbs
        obtain ⟨hb, hbs⟩ := hbs
        simp only [hb]
        simp only [acceptAll] at ha
        split at ha
        · rename_i s' hs'
          simp only [hs']
          exact (ih s').mpr ⟨bs, hbs, ha⟩
        · cases ha

/-- the state left by a refused blob: only one error counter moves -/
def bumpDeserialize (s : State) : State :=
  { s with syncing := { s.syncing with deserializeErrors := s.syncing.deserializeErrors + 1 } }
def bumpInsert (s : State) : State :=
  { s with syncing := { s.syncing with insertErrors := s.syncing.insertErrors + 1 } }

/-- **A2**: if the blobs `pre` are all accepted (leaving state `sMid`) and the next blob does not
    decode, resp. is refused by `insert_block`, the loop stops there: the result is `sMid` with
    exactly one counter incremented, whatever follows in the response -/
theorem processBlocks_stops_at_bad (env : Env) (s sMid : State) (pre : List String) (bad : String)
    (rest : List String) (hpre : processBlocks env s pre = some (sMid, false)) :
    (env.dec.block bad = none →
      processBlocks env s (pre ++ bad :: rest) = some (bumpDeserialize sMid, true)) ∧
    (∀ b why, env.dec.block bad = some b → insertBlock env sMid b = .rejected why →
      processBlocks env s (pre ++ bad :: rest) = some (bumpInsert sMid, true)) := by
  refine ⟨fun hd => ?_, fun b why hd hr => ?_⟩
  · rw [processBlocks_append, hpre]
    simp only [processBlocks, hd]
    rfl
  · rw [processBlocks_append, hpre]
    simp only [processBlocks, hd, hr]
    rfl

/-- **A2**: the blobs after the first refused one are not examined -/
theorem processBlocks_rest_irrelevant (env : Env) (s sMid : State) (pre : List String) (bad : String)
    (rest rest' : List String) (hpre : processBlocks env s pre = some (sMid, false))
    (hbad : env.dec.block bad = none ∨
      ∃ b why, env.dec.block bad = some b ∧ insertBlock env sMid b = .rejected why) :
    processBlocks env s (pre ++ bad :: rest) = processBlocks env s (pre ++ bad :: rest') := by
  obtain ⟨h1, h2⟩ := processBlocks_stops_at_bad env s sMid pre bad rest hpre
  obtain ⟨h1', h2'⟩ := processBlocks_stops_at_bad env s sMid pre bad rest' hpre
  rcases hbad with hd | ⟨b, why, hd, hr⟩
  · rw [h1 hd, h1' hd]
  · rw [h2 b why hd hr, h2' b why hd hr]

/-- one step of the loop, spelled out: the C10 "if and only if" for a delivered blob -/
theorem processBlocks_cons (env : Env) (s : State) (blob : String) (rest : List String) :
    processBlocks env s (blob :: rest) =
      match env.dec.block blob with
      | none => some (bumpDeserialize s, true)
      | some b =>
        match insertBlock env s b with
        | .ok s' => processBlocks env s' rest
        | .rejected _ => some (bumpInsert s, true)
        | .trap => none := by
  simp only [processBlocks]
  cases env.dec.block blob with
  | none => rfl
  | some b => dsimp only; cases insertBlock env s b <;> rfl

/-- when the loop stops early, the announced headers of the response are not looked at either -/
theorem processResponse_stopped (env : Env) (s s1 : State) (r : CompleteResp)
    (hr : s.syncing.response = some (.complete r))
    (hb : processBlocks env { s with syncing := { s.syncing with response := none } } r.blocks = some (s1, true)) :
    processResponse env s = some s1 := by
  simp only [processResponse, hr, hb]

/-! ## A3: garbage never traps the heartbeat -/

theorem garbage_block_never_traps (env : Env) (s : State) (blob : String) (rest : List String)
    (h : env.dec.block blob = none) :
    processBlocks env s (blob :: rest) = some (bumpDeserialize s, true) := by
  simp only [processBlocks, h]; rfl

theorem garbage_header_never_traps (env : Env) (s : State) (raw : String) (rest : List String)
    (h : env.dec.header raw = none) :
    insertNextHeaders env s (raw :: rest) = some s := by
  unfold insertNextHeaders
  cases env.headerSlots with
  | zero => simp only [List.take_zero, insertNextHeadersAll]
  | succ k => simp only [List.take_succ_cons, insertNextHeadersAll, h]

/-- a response consisting only of undecodable bytes: the heartbeat's processing step succeeds, the
    only effects are the consumed response and one counter -/
theorem garbage_response (env : Env) (s : State) (blob : String) (rest next : List String)
    (hr : s.syncing.response = some (.complete ⟨blob :: rest, next⟩))
    (h : env.dec.block blob = none) :
    processResponse env s =
      some { s with syncing :=
        { s.syncing with deserializeErrors := s.syncing.deserializeErrors + 1, response := none } } := by
  simp only [processResponse, hr, processBlocks, h]

/-- no complete response stored: `maybe_process_response` puts back what it took -/
theorem processResponse_noncomplete (env : Env) (s : State)
    (h : ∀ r, s.syncing.response ≠ some (.complete r)) : processResponse env s = some s := by
  unfold processResponse
  split
  · rename_i r hr; exact absurd hr (h r)
  · rfl

/-! ## A4: a complete response is consumed exactly once -/

theorem processResponse_consumes (env : Env) (s s' : State) (r : CompleteResp)
    (hr : s.syncing.response = some (.complete r)) (h : processResponse env s = some s') :
    s'.syncing.response = none := by
  unfold processResponse at h
  rw [hr] at h
  dsimp only at h
  split at h
  · cases h
  · cases h
    have := processBlocks_frame _ _ _ _ _ ‹_›
    simp_all
  · have := processBlocks_frame _ _ _ _ _ ‹_›
    have := insertNextHeaders_syncing _ _ _ _ h
    simp_all

/-- hence a second processing step finds nothing to do -/
theorem processResponse_idempotent (env env' : Env) (s s' : State) (r : CompleteResp)
    (hr : s.syncing.response = some (.complete r)) (h : processResponse env s = some s') :
    processResponse env' s' = some s' := by
  apply processResponse_noncomplete
  rw [processResponse_consumes env s s' r hr h]
  intro r h; cases h

/-! ## Non-vacuity: a concrete canister and concrete responses -/

namespace Example

def coinbase (id : Nat) : Tx :=
  { txid := id, ntxid := id, coinbase := true, vsize := 100, ins := [], outs := [⟨50, none, false⟩] }
def gen : Block :=
  { hash := 1, prev := 0, diff := 1, time := 100, bits := 0x207fffff, header := "g", txs := [coinbase 100] }
/-- valid on regtest on top of `gen` -/
def b2 : Block :=
  { hash := 2, prev := 1, diff := 1, time := 101, bits := 0x207fffff, header := "h2", txs := [coinbase 200] }
/-- unknown parent -/
def orphan : Block := { b2 with hash := 9, prev := 77 }
/-- timestamp not after the median of its ancestors -/
def old : Block := { b2 with hash := 3, time := 100 }
/-- no coinbase -/
def noCoinbase : Block := { b2 with hash := 4, txs := [{ coinbase 400 with coinbase := false }] }

def s0 : State :=
  { utxos := {},
    unstable := { thr := 2, tree := .leaf ⟨gen, some [], 1⟩, net := .regtest, blockCache := [1] } }

def dec : Decoders :=
  { block := fun blob =>
      if blob = "B2" then some b2 else if blob = "ORPHAN" then some orphan
      else if blob = "OLD" then some old else if blob = "NOCB" then some noCoinbase else none
    header := fun _ => none }
def env : Env :=
  { now := 200, dec := dec, bound := fun _ _ => 1000, syncedThreshold := 2, maxHeaders := 100,
    numTransactions := 1000 }

def verdict : InsertResult → String
  | .ok _ => "ok"
  | .rejected why => why
  | .trap => "trap"

/-- all conjuncts of `accepted_iff` are satisfiable … -/
example : verdict (insertBlock env s0 b2) = "ok" := by decide
/-- … and each can fail on its own -/
example : verdict (insertBlock env s0 orphan) = "BlockDoesNotExtendTree" := by decide
example : (match insertBlock env s0 old with | .rejected _ => true | _ => false) = true := by decide
example : (match insertBlock env s0 noCoinbase with | .rejected _ => true | _ => false) = true := by decide
/-- offering `b2` a second time -/
example : (processBlocks env s0 ["B2", "B2", "B2"]).map
      (fun p => (p.1.syncing.insertErrors, p.1.syncing.deserializeErrors, p.2,
                 p.1.unstable.tree.blocks.map CBlock.hash)) = some (1, 0, true, [1, 2]) := by decide

/-- A2 on a concrete response: `pre = ["B2"]` is accepted, the next blob is refused / garbage -/
example : (processBlocks env s0 ["B2"]).map (·.2) = some false := by decide
example : (processBlocks env s0 ["B2", "ORPHAN", "B2"]).map
      (fun p => (p.1.syncing.insertErrors, p.1.syncing.deserializeErrors, p.2,
                 p.1.unstable.tree.blocks.map CBlock.hash)) = some (1, 0, true, [1, 2]) := by decide
example : (processBlocks env s0 ["B2", "garbage", "B2"]).map
      (fun p => (p.1.syncing.insertErrors, p.1.syncing.deserializeErrors, p.2,
                 p.1.unstable.tree.blocks.map CBlock.hash)) = some (0, 1, true, [1, 2]) := by decide

/-- A3/A4 on a concrete stored response -/
def s0WithGarbage : State :=
  { s0 with syncing := { s0.syncing with response := some (.complete ⟨["\x00\x01", "B2"], ["zz"]⟩) } }
example : (processResponse env s0WithGarbage).map
      (fun s => (s.syncing.response, s.syncing.deserializeErrors, s.unstable.tree.blocks.map CBlock.hash)) =
    some (none, 1, [1]) := by decide
def s0WithHeaders : State :=
  { s0 with syncing := { s0.syncing with response := some (.complete ⟨["B2"], ["zz", "yy"]⟩) } }
example : (processResponse env s0WithHeaders).map
      (fun s => (s.syncing.response, s.syncing.deserializeErrors, s.unstable.tree.blocks.map CBlock.hash)) =
    some (none, 0, [1, 2]) := by decide

end Example

end Btc.Props.C10
