import BtcModel.Lemmas.Reach
import BtcModel.Props.C05

/-!
# C01 / C05 for every reachable state

The query theorems of `Props/C01.lean` and `Props/C05.lean` assume `Spec.Inv s G` and
`Spec.TxidsUnique (G ++ main chain)`.  Both hold in every state reachable in the transition
system of `Spec/Reach.lean` (`Lemmas.Reach.reachable_inv`), so the theorems can be stated with
`Reachable` alone.
-/
namespace Btc.Props.C01Reach
open Btc Btc.Spec Btc.State Btc.Lemmas.Reach

/-- the extra hypothesis of the C01/C05 theorems follows from the extended invariant -/
theorem mainChain_unique {s : State} {G : List Block} (h : InvU s G) :
    TxidsUnique (G ++ s.unstable.mainChain.map (·.blk)) := by
  obtain ⟨tip, sib, _, hroot⟩ := C01.mainChain_isRootPath h.inv
  apply h.unique tip.hash
  simp [pathBlocks, hroot]

/-- **C01 (reachable states)**: the unfiltered first-page `get_utxos` answer is the ledger state
    of the address at the tip of the main chain (see `C01.getUtxos_unfiltered`). -/
theorem getUtxos_unfiltered {bound : Unstable.BoundFn} {s : State} {G : List Block}
    (hr : Reachable bound s G) (hH : G.length ≤ 2 ^ 32) (a : Addr) (limit : Nat) :
    ∃ l r tip, s.unstable.mainChain.getLast? = some tip ∧
      l.Perm (ledgerFor a (G ++ s.unstable.mainChain.map (·.blk))) ∧
      (l.map (·.outpoint)).Nodup ∧ C01.HeightsDesc l ∧
      s.getUtxos (.ok a) .none_ limit = .ok r ∧
      r.utxos = l.take limit ∧ r.tipHash = tip.hash ∧
      r.tipHeight = G.length + s.unstable.mainChain.length - 1 ∧
      (r.nextPage = none ↔ l.length ≤ limit) :=
  C01.getUtxos_unfiltered (reachable_inv hr).inv (mainChain_unique (reachable_inv hr)) hH a limit

/-- **C01 with `min_confirmations` (reachable states)** (see `C01.getUtxos_minConf`). -/
theorem getUtxos_minConf {bound : Unstable.BoundFn} {s : State} {G : List Block}
    (hr : Reachable bound s G) (hH : G.length ≤ 2 ^ 32)
    (a : Addr) (c limit : Nat) (hc : c ≤ s.unstable.mainChain.length) :
    let applied := stablePrefix (Tree.levels CBlock.hash s.unstable.tree) c s.unstable.mainChain 0
    ∃ l r, l.Perm (ledgerFor a (G ++ applied.map (·.blk))) ∧
      (l.map (·.outpoint)).Nodup ∧ C01.HeightsDesc l ∧
      s.getUtxos (.ok a) (.minConf c) limit = .ok r ∧
      r.utxos = l.take limit ∧ (r.nextPage = none ↔ l.length ≤ limit) ∧
      (∀ tip, applied.getLast? = some tip →
        r.tipHash = tip.hash ∧ r.tipHeight = G.length + applied.length - 1) :=
  C01.getUtxos_minConf (reachable_inv hr).inv (mainChain_unique (reachable_inv hr)) hH a c limit hc

/-- **C01 for an arbitrary root path (reachable states)**: page requests and prefixes
    (see `C01.answer_for_rootPath_prefix`). -/
theorem answer_for_rootPath_prefix {bound : Unstable.BoundFn} {s : State} {G : List Block}
    (hr : Reachable bound s G) (tip : Nat) (chainC sib : List CBlock)
    (hroot : Tree.chainWithTip CBlock.hash tip s.unstable.tree = some (chainC, sib))
    (applied rest : List CBlock) (happ : chainC = applied ++ rest) (a : Addr)
    (hH : G.length ≤ 2 ^ 32) :
    ∃ A R l, applyBlocks s a applied s.utxos.nextHeight ([], []) = some (A, R) ∧
      A = addedAll a G.length (applied.map (·.blk)) ∧
      R = removedAll (histOf s G) a (applied.map (·.blk)) ∧
      addressUtxos s a A R none = some l ∧
      l.Perm (ledgerFor a (G ++ applied.map (·.blk))) ∧
      (l.map (·.outpoint)).Nodup ∧ C01.HeightsDesc l :=
  C01.answer_for_rootPath_prefix (reachable_inv hr).inv tip chainC sib hroot
    ((reachable_inv hr).unique tip _ (by simp [pathBlocks, hroot])) applied rest happ a hH

/-- **C05 (reachable states)**: `get_balance(a, c)` is the sum of the values of the complete
    `get_utxos(a, min_confirmations = c)` answer (see `C05.balance_eq_sum_of_utxos`). -/
theorem balance_eq_sum_of_utxos {bound : Unstable.BoundFn} {s : State} {G : List Block}
    (hr : Reachable bound s G) (a : Addr) (c limit : Nat) (hc : c ≤ s.unstable.mainChain.length) :
    ∃ l r, s.getUtxos (.ok a) (.minConf c) limit = .ok r ∧
      r.utxos = l.take limit ∧ (r.nextPage = none ↔ l.length ≤ limit) ∧
      l.Perm (ledgerFor a (G ++ (C05.counted s c).map (·.blk))) ∧
      s.getBalance (.ok a) c = .ok (totalValue l) :=
  C05.balance_eq_sum_of_utxos (reachable_inv hr).inv (mainChain_unique (reachable_inv hr)) a c limit hc

/-- `get_balance` is the ledger balance (reachable states) -/
theorem getBalance_eq_ledger {bound : Unstable.BoundFn} {s : State} {G : List Block}
    (hr : Reachable bound s G) (a : Addr) (c : Nat) (hc : c ≤ s.unstable.mainChain.length) :
    s.getBalance (.ok a) c = .ok (totalValue (ledgerFor a (G ++ (C05.counted s c).map (·.blk)))) :=
  C05.getBalance_eq_ledger (reachable_inv hr).inv (mainChain_unique (reachable_inv hr)) a c hc

/-! ### Non-vacuity: a run of the system (genesis, a push, a config change, an upgrade) -/

open Btc.Props.InvPush in
/-- `g0` then `b1` (of `Props/InvPush.lean`) pushed, then `set_config`, an upgrade and a query:
    the resulting state is reachable, so all theorems above apply to it. -/
theorem ex_reachable (bound : Unstable.BoundFn) :
    ∃ s, Reachable bound s [] ∧ s.unstable.tree.blocks.map (·.blk) = [g0, b1] := by
  obtain ⟨s0, h0, hinv⟩ := init_establishes_inv 2 .regtest g0 (by decide)
  have hr0 : Reachable bound s0 [] := Reachable.init 2 .regtest g0 s0 (by decide) h0
  obtain ⟨_, _, _, _, fr, d, ht⟩ := new_shape' h0
  have hblocks : s0.unstable.tree.blocks.map (·.blk) = [g0] := by rw [ht]; rfl
  have hpath : ∀ p, pathBlocks s0.unstable.tree b1.prev = some p → p = [g0] := by
    intro p hp
    rw [ht] at hp
    simp only [pathBlocks, Tree.leaf, Tree.chainWithTip] at hp
    split at hp
    · simp only [Option.map_some, List.map_cons, List.map_nil, Option.some.injEq] at hp
      exact hp.symm
    · rename_i hn; exact absurd rfl hn
  have hd : PushDomain s0 [] b1 :=
    { fresh := by rw [hblocks]; decide
      parent := by rw [ht]; simp [Tree.contains, Tree.leaf, Tree.chainWithTip, CBlock.hash, g0, b1]
      valid := by intro p hp; rw [hpath p hp]; decide
      unique := by intro p hp; rw [hpath p hp]; decide
      consistent := by rw [hblocks]; decide }
  obtain ⟨u1, hp, _, cb, hcb, hperm, _⟩ := push_preserves_invU s0 [] b1 (reachable_inv hr0) hd
  have hr1 : Reachable bound { s0 with unstable := u1 } [] :=
    Reachable.step s0 [] (.push b1) _ [] hr0 hd (by simp [step, hp])
  have hr2 := Reachable.step _ [] (.setConfig { stabilityThreshold := some 3 }) _ [] hr1 trivial rfl
  have hr3 := Reachable.step _ [] (.upgrade none) _ [] hr2 trivial rfl
  refine ⟨_, hr3, ?_⟩
  -- the blocks of the tree
  have hb1 : u1.tree.blocks.map (·.blk) = [g0, b1] := by
    have hc := push_steps s0 [] b1 hinv hd.fresh hd.parent hd.valid hd.consistent
    obtain ⟨pc, sc, cache', m, tree', hcw, hio, hres, he, hpush⟩ := hc
    rw [hpush] at hp
    injection hp with hp
    subst hp
    rw [ht] at he
    simp only [Tree.leaf, Tree.extend, CBlock.hash] at he
    have : g0.hash = b1.prev := by decide
    simp only [this, if_true, Option.some.injEq] at he
    subst he
    rfl
  show ((upgraded ({ s0 with unstable := u1 }.setConfig { stabilityThreshold := some 3 })).unstable.tree.blocks).map (·.blk) = _
  rw [upgraded_tree, blocks_mapT, List.map_map]
  exact hb1

end Btc.Props.C01Reach
