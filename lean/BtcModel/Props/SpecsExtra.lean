import BtcModel.Lemmas.SpecsExtra
import BtcModel.Props.C02
import BtcModel.Props.C03

/-!
# Independent specifications for C02 and C03 (audit follow-up)

The audit objected that `Spec.bestPath` *is* a scan (`firstMax`) and thus shares its shape with the
algorithm, and that the "documented adaptive depth bound" of C03 was only a parameter. This file
states both notions declaratively and proves that the existing definitions meet them.

(The C11 and C17 parts are in `Props/SpecsExtraC11.lean` and `Props/SpecsExtraC17.lean`.)
-/
namespace Btc.Props.SpecsExtra
open Btc Btc.Tree Btc.Spec

variable {α : Type}

/-! ## C02 — the best chain is the first maximal root-to-leaf path

**"Received first".** The children of every block are kept in arrival order (`BlockTree::extend`
appends). `Spec.paths t` lists the root-to-leaf paths of `t` in DFS pre-order over those
arrival-ordered children. A path is *received before* another one iff it occurs earlier in
`paths t`, i.e. at the first block where the two paths part, the child on the first path arrived
before the child on the second.  The key of a path is `key d p = (Σ_{b ∈ p} d b, |p|)`, compared
lexicographically (`KeyLt`, `KeyLe`: plain `<`/`≤` on `Nat`). -/

/-- `Spec.paths` lists exactly the root-to-leaf paths (declaratively: `RootToLeaf`). -/
theorem mem_paths_iff (t : Tree α) (p : List α) : p ∈ paths t ↔ RootToLeaf t p :=
  ⟨rootToLeaf_of_mem_paths t p, mem_paths_of_rootToLeaf t p⟩

/-- (a) the best chain is a root-to-leaf path of the tree -/
theorem bestPath_is_path (d : α → Nat) (t : Tree α) : bestPath d t ∈ paths t :=
  bestPath_mem_paths d t

theorem bestPath_rootToLeaf (d : α → Nat) (t : Tree α) : RootToLeaf t (bestPath d t) :=
  (mem_paths_iff t _).1 (bestPath_is_path d t)

/-- (b)+(c) in one statement: `bestPath d t` is the **first maximal** element of `paths t`:
    `paths t = pre ++ bestPath d t :: post`, every path in `pre` has a strictly smaller key and
    every path in `post` has a key that is not greater. -/
theorem bestPath_isFirstMax (d : α → Nat) (t : Tree α) : IsFirstMax d (paths t) (bestPath d t) := by
  rcases firstMax_scan d (paths t) [] with ⟨heq, _⟩ | ⟨_, h⟩
  · exact absurd heq (firstMax_ne_nil d (paths t) (paths_ne_nil t) (paths_all_ne_nil t))
  · exact h

/-- (b) **maximality**: no root-to-leaf path has a greater `(Σ difficulty, length)` key than the
    best chain. -/
theorem bestPath_maximal (d : α → Nat) (t : Tree α) :
    ∀ p ∈ paths t, KeyLe (key d p) (key d (bestPath d t)) := by
  obtain ⟨pre, post, hL, hpre, hpost⟩ := bestPath_isFirstMax d t
  intro p hp
  rw [hL] at hp
  rcases List.mem_append.1 hp with h | h
  · exact (keyLe_iff_lt_or_eq _ _).2 (Or.inl (hpre p h))
  · rcases List.mem_cons.1 h with rfl | h
    · exact keyLe_refl _
    · exact hpost p h

/-- (b) in terms of the declarative path predicate -/
theorem bestPath_maximal' (d : α → Nat) (t : Tree α) (p : List α) (hp : RootToLeaf t p) :
    KeyLe (key d p) (key d (bestPath d t)) :=
  bestPath_maximal d t p ((mem_paths_iff t p).2 hp)

/-- (c) **first-received tie-break**: every path that occurs strictly before the best chain in
    `paths t` (pre-order, children in arrival order) has a strictly smaller key. Positional form:
    there is an index `i` holding the best chain such that every earlier index holds a strictly
    smaller path. -/
theorem bestPath_first (d : α → Nat) (t : Tree α) :
    ∃ i, (paths t)[i]? = some (bestPath d t) ∧
      ∀ (j : Nat) (p : List α), j < i → (paths t)[j]? = some p → KeyLt (key d p) (key d (bestPath d t)) := by
  obtain ⟨pre, post, hL, hpre, _⟩ := bestPath_isFirstMax d t
  refine ⟨pre.length, by rw [hL]; simp, ?_⟩
  intro j p hj hp
  rw [hL, List.getElem?_append_left hj] at hp
  exact hpre p (List.mem_of_getElem? hp)

/-- (d) **uniqueness**: a path of the tree with maximal key all of whose predecessors in
    `paths t` are strictly smaller *is* the best chain. -/
theorem bestPath_unique (d : α → Nat) (t : Tree α) (q : List α) (i : Nat)
    (hq : (paths t)[i]? = some q)
    (hmax : ∀ p ∈ paths t, KeyLe (key d p) (key d q))
    (hfirst : ∀ (j : Nat) (p : List α), j < i → (paths t)[j]? = some p → KeyLt (key d p) (key d q)) :
    q = bestPath d t := by
  apply isFirstMax_unique d (paths t) q (bestPath d t) _ (bestPath_isFirstMax d t)
  have hi : i < (paths t).length := by
    rcases Nat.lt_or_ge i (paths t).length with h | h
    · exact h
    · rw [List.getElem?_eq_none h] at hq; cases hq
  have hqe : (paths t)[i] = q := by
    rw [List.getElem?_eq_getElem hi] at hq; exact Option.some.inj hq
  refine ⟨(paths t).take i, (paths t).drop (i + 1), ?_, ?_, ?_⟩
  · rw [← hqe]; simp
  · intro p hp
    obtain ⟨j, hj, hpj⟩ := List.getElem_of_mem hp
    have hj' : j < i := by simp at hj; omega
    apply hfirst j p hj'
    rw [List.getElem_take] at hpj
    rw [List.getElem?_eq_getElem (by omega), hpj]
  · intro p hp
    exact hmax p (List.mem_of_mem_drop hp)

/-- the same four facts for the algorithm `main_chain_by_difficulty` (`Tree.mainChain`) -/
theorem mainChain_isFirstMax (d : α → Nat) (t : Tree α) : IsFirstMax d (paths t) (mainChain d t) := by
  rw [C02.mainChain_eq_bestPath]; exact bestPath_isFirstMax d t

/-- `IsFirstMax` determines its element, so `mainChain` is characterised by it. -/
theorem mainChain_characterised (d : α → Nat) (t : Tree α) (q : List α) :
    IsFirstMax d (paths t) q ↔ q = mainChain d t :=
  ⟨fun h => isFirstMax_unique d _ _ _ h (mainChain_isFirstMax d t),
   fun h => h ▸ mainChain_isFirstMax d t⟩

/-! Non-vacuity: a tree with a three-way tie on difficulty; two of the tied branches also tie on
    length; the one received first wins. -/

private def tie : Tree (Nat × Nat) :=  -- (hash, difficulty)
  .node (0, 1) [.node (1, 2) [], .node (2, 1) [.node (3, 1) []], .node (4, 1) [.node (5, 1) []]]

example : (paths tie).map (·.map (·.1)) = [[0, 1], [0, 2, 3], [0, 4, 5]] := by decide
example : (paths tie).map (key (·.2)) = [(3, 2), (3, 3), (3, 3)] := by decide
example : (bestPath (·.2) tie).map (·.1) = [0, 2, 3] := by decide
example : IsFirstMax (·.2) (paths tie) [(0, 1), (2, 1), (3, 1)] :=
  ⟨[[(0, 1), (1, 2)]], [[(0, 1), (4, 1), (5, 1)]], by decide, by decide, by decide⟩

/-! ## C03 — the adaptive depth bound -/

theorem depthBoundSpec_eq (n thr : Nat) :
    depthBoundSpec n thr =
      if n ≥ 1500 then min thr 499 else roundHalfUp (500 * 1500 - n * (500 - min thr 499)) 1500 := rfl

/-- **Exactness.** Below `MAX_UNSTABLE_BLOCKS`, `depthBoundSpec n thr` is the integer `r` with
    `r − ½ ≤ max − n·(max − min)/MAXB < r + ½` (inequalities multiplied by `2·MAXB`;
    `interpNum n thr / MAXB` is the exact rational value): nearest integer, halves away from
    zero – the meaning of Rust's `f64::round` on the exact value. -/
theorem depthBoundSpec_exact (n thr : Nat) (hn : n < Btc.Gen.maxUnstableBlocks) (r : Nat) :
    depthBoundSpec n thr = r ↔
      (2 * Btc.Gen.maxUnstableBlocks * r ≤ 2 * interpNum n thr + Btc.Gen.maxUnstableBlocks ∧
       2 * interpNum n thr + Btc.Gen.maxUnstableBlocks < 2 * Btc.Gen.maxUnstableBlocks * (r + 1)) := by
  have h : depthBoundSpec n thr = roundHalfUp (interpNum n thr) Btc.Gen.maxUnstableBlocks := by
    unfold depthBoundSpec depthBoundGen interpNum
    simp only
    rw [if_neg (by omega)]
  rw [h]
  exact roundHalfUp_iff _ _ _ (by decide)

/-- the interpolated value never leaves `[min, max]`, so the subtraction in `interpNum` is not
    truncated -/
theorem interpNum_no_truncation (n thr : Nat) (hn : n ≤ Btc.Gen.maxUnstableBlocks) :
    n * (Btc.Gen.maxTestnetUnstableDepthDifference -
        min thr (Btc.Gen.maxTestnetUnstableDepthDifference - 1)) ≤
      Btc.Gen.maxTestnetUnstableDepthDifference * Btc.Gen.maxUnstableBlocks := by
  simp only [Btc.Gen.maxTestnetUnstableDepthDifference, Btc.Gen.maxUnstableBlocks] at *
  have := Nat.mul_le_mul_right (500 - min thr (500 - 1)) hn
  omega

/-- `min ≤ bound ≤ max` -/
theorem depthBoundSpec_bounds (n thr : Nat) :
    min thr (Btc.Gen.maxTestnetUnstableDepthDifference - 1) ≤ depthBoundSpec n thr ∧
    depthBoundSpec n thr ≤ Btc.Gen.maxTestnetUnstableDepthDifference :=
  ⟨depthBoundGen_ge_min _ _ n thr (by decide), depthBoundGen_le_max _ _ n thr (by decide)⟩

/-- the bound never increases when the tree grows -/
theorem depthBoundSpec_antitone (n n' thr : Nat) (h : n ≤ n') :
    depthBoundSpec n' thr ≤ depthBoundSpec n thr :=
  depthBoundGen_antitone _ _ n n' thr (by decide) h

/-- an empty tree gets the full `MAX_TESTNET_UNSTABLE_DEPTH_DIFFERENCE` -/
theorem depthBoundSpec_zero (thr : Nat) :
    depthBoundSpec 0 thr = Btc.Gen.maxTestnetUnstableDepthDifference :=
  depthBoundGen_zero _ _ thr (by decide)

/-- from `MAX_UNSTABLE_BLOCKS` blocks on, the bound is `min(threshold, max − 1)` -/
theorem depthBoundSpec_full (n thr : Nat) (hn : Btc.Gen.maxUnstableBlocks ≤ n) :
    depthBoundSpec n thr = min thr (Btc.Gen.maxTestnetUnstableDepthDifference - 1) :=
  depthBoundGen_full _ _ n thr hn

/-- the bound is always positive for a positive threshold (so the depth rule never fires on an
    empty child) -/
theorem depthBoundSpec_pos (n thr : Nat) (hthr : 0 < thr) : 0 < depthBoundSpec n thr := by
  have := (depthBoundSpec_bounds n thr).1
  simp only [Btc.Gen.maxTestnetUnstableDepthDifference] at this
  omega

/-- the exact bound is *a* nearest integer of the interpolated value -/
theorem depthBoundSpec_isNearest (n thr : Nat) (hn : n < Btc.Gen.maxUnstableBlocks) :
    IsNearest (interpNum n thr) Btc.Gen.maxUnstableBlocks (depthBoundSpec n thr) := by
  have := (depthBoundSpec_exact n thr hn _).1 rfl
  unfold IsNearest
  have e : 2 * Btc.Gen.maxUnstableBlocks * (depthBoundSpec n thr + 1) =
      2 * Btc.Gen.maxUnstableBlocks * depthBoundSpec n thr + 2 * Btc.Gen.maxUnstableBlocks := by
    rw [Nat.mul_add]; omega
  omega

/-- every threshold `≥ max − 1 = 499` gives the same bound as 499 (so sweeping the thresholds
    `0..499` covers all thresholds) -/
theorem depthBoundSpec_thr_ge (n thr : Nat)
    (h : Btc.Gen.maxTestnetUnstableDepthDifference - 1 ≤ thr) :
    depthBoundSpec n thr = depthBoundSpec n (Btc.Gen.maxTestnetUnstableDepthDifference - 1) := by
  unfold depthBoundSpec depthBoundGen
  simp only [Nat.min_eq_right h, Nat.min_self]

example : depthBoundSpec 0 6 = 500 := by decide
example : depthBoundSpec 750 144 = 322 := by decide
example : depthBoundSpec 750 499 = 500 := by decide   -- 499.5 rounds away from zero
example : depthBoundSpec 1499 6 = 6 := by decide
example : depthBoundSpec 1500 6 = 6 := by decide
example : depthBoundSpec 2000 1000 = 499 := by decide

/-! ### A regtest tree on which the anchor advances by the DEPTH rule with the exact bound

The anchor has difficulty 100, its only descendants form a chain of `L` blocks of difficulty 1
(the testnet/regtest situation after a difficulty reset). With threshold 6 the difficulty rule
would need an accumulated difficulty of 600. The tree has `L + 1` blocks; the exact bound for
`L = 376` is `depthBoundSpec 377 6 = 376`, so the depth rule fires exactly from `L = 376` on.
(Real sizes – no artificial bound; the chain is generated by `chainTree`, and the examples are
evaluated by `decide`.) -/

/-- a fork-free chain of `n + 1` blocks `(n, 1), (n-1, 1), …, (0, 1)` -/
def chainTree : Nat → Tree (Nat × Nat)
  | 0 => .node (0, 1) []
  | n + 1 => .node (n + 1, 1) [chainTree n]

/-- anchor of difficulty 100 followed by a chain of `L` blocks of difficulty 1 -/
def resetTree (L : Nat) : Tree (Nat × Nat) := .node (1000000, 100) [chainTree (L - 1)]

/-- `get_stable_child` on an anchor with a single child, spelled out -/
theorem stableChild_single (d : α → Nat) (net : Net) (thr bound : Nat) (r : α) (c : Tree α) :
    stableChild d net thr bound (.node r [c]) =
      if net.depthRule = true ∧ depth c ≥ bound then some 0
      else if diffDepth d c < d r * thr then none else some 0 := by
  simp [stableChild, childKeys, sortStable, insertStable, nthDepth, childKey, List.range,
    List.range.loop]

theorem depth_chainTree (n : Nat) : depth (chainTree n) = n + 1 := by
  induction n with
  | zero => simp [chainTree, depth, depthList]
  | succ n ih => simp [chainTree, depth, depthList, ih]

theorem blocksCount_chainTree (n : Nat) : blocksCount (chainTree n) = n + 1 := by
  induction n with
  | zero => simp [chainTree, blocksCount, blocksCountList]
  | succ n ih => simp [chainTree, blocksCount, blocksCountList, ih]; omega

theorem diffDepth_chainTree (n : Nat) : diffDepth (·.2) (chainTree n) = n + 1 := by
  induction n with
  | zero => simp [chainTree, diffDepth, diffDepthList]
  | succ n ih => simp [chainTree, diffDepth, diffDepthList, ih]

theorem blocksCount_resetTree (L : Nat) (hL : 0 < L) : blocksCount (resetTree L) = L + 1 := by
  simp only [resetTree, blocksCount, blocksCountList, blocksCount_chainTree]; omega

/-- the exact bound for the tree `resetTree L` is at most `L` iff `L ≥ 376` -/
theorem depthBound_resetTree (L : Nat) (hL : 0 < L) :
    depthBoundSpec (blocksCount (resetTree L)) 6 ≤ L ↔ 376 ≤ L := by
  rw [blocksCount_resetTree L hL]
  have h377 : depthBoundSpec 377 6 = 376 := by decide
  have h376 : depthBoundSpec 376 6 = 376 := by decide
  constructor
  · intro h
    rcases Nat.lt_or_ge L 376 with hlt | hge
    · have := depthBoundSpec_antitone (L + 1) 376 6 (by omega)
      omega
    · exact hge
  · intro h
    have := depthBoundSpec_antitone 377 (L + 1) 6 (by omega)
    omega

/-- **Depth rule with the exact bound, on regtest.** For the tree `resetTree L` (anchor of
    difficulty 100, then `L` blocks of difficulty 1; `1 ≤ L < 600`), with stability threshold 6
    and `bound := depthBoundSpec (blocks_count) 6`:
    * on regtest the anchor advances (to child 0) **iff** `L ≥ 376` – by the depth rule, since
    * the difficulty rule does not hold (`L < 600 = 100·6`), so mainnet never advances. -/
theorem resetTree_depth_rule (L : Nat) (hL : 0 < L) (hL' : L < 600) :
    (stableChild (·.2) .regtest 6 (depthBoundSpec (blocksCount (resetTree L)) 6) (resetTree L)
        = some 0 ↔ 376 ≤ L) ∧
    (stableChild (·.2) .regtest 6 (depthBoundSpec (blocksCount (resetTree L)) 6) (resetTree L)
        = none ↔ L < 376) ∧
    stableChild (·.2) .mainnet 6 (depthBoundSpec (blocksCount (resetTree L)) 6) (resetTree L)
        = none ∧
    ¬ C03.DifficultyRule (·.2) 6 (1000000, 100) (resetTree L).children 0 ∧
    (C03.DepthRule (·.2) (depthBoundSpec (blocksCount (resetTree L)) 6) (resetTree L).children 0
        ↔ 376 ≤ L) := by
  have hb := depthBound_resetTree L hL
  have hdepth : depth (chainTree (L - 1)) = L := by rw [depth_chainTree]; omega
  have hdd : diffDepth (fun x : Nat × Nat => x.2) (chainTree (L - 1)) = L := by
    rw [diffDepth_chainTree]; omega
  have hmain : stableChild (·.2) .mainnet 6 (depthBoundSpec (blocksCount (resetTree L)) 6)
      (resetTree L) = none := by
    unfold resetTree
    rw [stableChild_single, hdd]
    simp [Net.depthRule]; omega
  have hreg : stableChild (·.2) .regtest 6 (depthBoundSpec (blocksCount (resetTree L)) 6)
      (resetTree L) = if 376 ≤ L then some 0 else none := by
    generalize hB : depthBoundSpec (blocksCount (resetTree L)) 6 = B at hb
    unfold resetTree
    rw [stableChild_single, hdd, hdepth]
    by_cases h : 376 ≤ L
    · rw [if_pos ⟨rfl, hb.2 h⟩, if_pos h]
    · rw [if_neg (by intro hh; exact h (hb.1 hh.2)), if_neg h, if_pos (by omega)]
  have hnd : ¬ C03.DifficultyRule (·.2) 6 (1000000, 100) (resetTree L).children 0 := by
    intro hd
    have := (C03.stableChild_mainnet_iff (·.2) 6
      (depthBoundSpec (blocksCount (resetTree L)) 6) (1000000, 100) (resetTree L).children 0).2 hd
    have e : Tree.node (1000000, 100) (resetTree L).children = resetTree L := rfl
    rw [e, hmain] at this
    cases this
  refine ⟨?_, ?_, hmain, hnd, ?_⟩
  · rw [hreg]; by_cases h : 376 ≤ L <;> simp [h]
  · rw [hreg]; by_cases h : 376 ≤ L <;> simp [h]; omega
  · have e : Tree.node (1000000, 100) (resetTree L).children = resetTree L := rfl
    have := C03.stableChild_eq_some_iff (·.2) .regtest 6
      (depthBoundSpec (blocksCount (resetTree L)) 6) (1000000, 100) (resetTree L).children 0
    rw [e, hreg] at this
    constructor
    · intro hdr
      have h2 := this.2 (Or.inr ⟨rfl, hdr⟩)
      by_cases h : 376 ≤ L
      · exact h
      · rw [if_neg h] at h2; cases h2
    · intro h
      rw [if_pos h] at this
      rcases this.1 rfl with h1 | h1
      · exact absurd h1 hnd
      · exact h1.2

/-- the instance named in the prose: 376 blocks after the anchor, 377 in the tree, bound 376 -/
example : depthBoundSpec (blocksCount (resetTree 376)) 6 = 376 := by
  rw [blocksCount_resetTree 376 (by decide)]; decide

example : stableChild (·.2) .regtest 6 (depthBoundSpec (blocksCount (resetTree 376)) 6)
    (resetTree 376) = some 0 := ((resetTree_depth_rule 376 (by decide) (by decide)).1).2 (by decide)

example : stableChild (·.2) .regtest 6 (depthBoundSpec (blocksCount (resetTree 375)) 6)
    (resetTree 375) = none := ((resetTree_depth_rule 375 (by decide) (by decide)).2.1).2 (by decide)

end Btc.Props.SpecsExtra
