import BtcModel.Lemmas.Slicing
import BtcModel.Lemmas.SlicingView
import BtcModel.Props.InvIngest
import BtcModel.Props.C04
import BtcModel.Props.C01
import BtcModel.Model.Canister

/-!
# C08 — time-sliced ingestion is invisible and schedule independent

Model: `UtxoSet.ingestBlock` / `ingestContinue` (one heartbeat round each, `budget` = number of
input/output steps the instruction limit allows in that round), `State.ingestStable`,
`heartbeatStart`.

1. pause/resume determinism, the sliced run is the unsliced run (`ingestLoop_pause_resume`,
   `pause_resume`, `sliced_eq_unsliced`, `sliced_done`, `schedule_independent`, `sliced_trap_iff`);
2. termination (`round_progress`, `zero_budget_round`, `sliced_paused_bound`, `sliced_terminates`);
3. a paused ingestion is invisible (`PausedAt`, `ingestStable_paused`, `getBalance_invisible`,
   `addressUtxos_invisible`, `getUtxos_invisible`, `getUtxos_page_invisible`,
   `getBlockHeaders_invisible`, `feePercentiles_invisible`, `blockchainInfo_invisible` — all but
   `utxos_length`, finding F10);
4. no fetching / processing while a block is being ingested (`no_fetch_while_ingesting`);
5. rounds of `ingest_stable_blocks_into_utxoset`: `ingestStable_pause_resume`, `stableRounds_eq`,
   `schedule_independent_state`, `sliced_equals_unsliced_state`.
-/
namespace Btc.Props.C08
open Btc Btc.Spec Btc.UtxoSet

/-! ## 1. Pause / resume determinism -/

/-- **`ingestLoop`, pure statement.** If the loop pauses with budget `b1`, the paused set stores a
    position `ing1` from which the loop, with any further budget `b2` and any sufficient fuel,
    returns exactly what the original call would have returned with budget `b1 + b2`.
    (`WFPos`: the output index is `0` while inputs are being removed — true at the start of a block
    and at every stored position; it is what makes the index normalisation at a pause harmless.) -/
theorem ingestLoop_pause_resume (fuel : Nat) (u : UtxoSet) (ing : Ingesting) (b1 : Nat) (u1 : UtxoSet)
    (hni : u.ingesting = none) (hwf : WFPos ing) (hfuel : remIter ing ≤ fuel)
    (h : ingestLoop fuel u ing b1 = .paused u1) :
    ∃ ing1, u1.ingesting = some ing1 ∧ ing1.block = ing.block ∧ WFPos ing1 ∧
      remIter ing1 ≤ remIter ing ∧ remWork ing1 + b1 = remWork ing ∧ 1 ≤ remWork ing1 ∧
      ∀ b2 fuel', remIter ing1 ≤ fuel' →
        ingestLoop fuel' { u1 with ingesting := none } ing1 b2 = ingestLoop fuel u ing (b1 + b2) := by
  rw [ingestLoop_eq_run fuel u ing b1 hfuel] at h
  have hpost := fun b2 => run_add u ing b1 b2 hwf
  have h0 := hpost 0
  rw [h] at h0
  obtain ⟨u', ing1, e1, e2, _, e4, e5, e6, e7, e8, _, _⟩ := h0
  refine ⟨ing1, by rw [e1], e5, e4, e8, e6, e7, ?_⟩
  intro b2 fuel' hf'
  have hb := hpost b2
  rw [h] at hb
  obtain ⟨u'', ing2, f1, f2, _, _, _, _, _, _, f9, _⟩ := hb
  obtain ⟨rfl, rfl⟩ := paused_decomp_unique u'' u' ing2 ing1 (f1.symm.trans e1) (f2.trans e2.symm)
  have hu : ({ u1 with ingesting := none } : UtxoSet) = u'' := by
    rw [e1]
    have := e2.trans hni
    cases u''; simp only at this; subst this; rfl
  rw [hu, ingestLoop_eq_run fuel' u'' ing2 b2 hf', ingestLoop_eq_run fuel u ing _ hfuel, f9]

/-- the fuel the model uses (`blockSteps b + 2`) covers a whole block from its start -/
theorem model_fuel_suffices (b : Block) : remIter ⟨b, 0, 0, 0, {}⟩ ≤ blockSteps b + 2 :=
  remIter_start b

/-- **Rounds.** If `ingest_block` pauses, `ingest_block_continue` with budget `b2` returns what
    `ingest_block` would have returned with budget `b1 + b2`. -/
theorem pause_resume (u : UtxoSet) (blk : Block) (b1 : Nat) (u1 : UtxoSet) (hni : u.ingesting = none)
    (h : u.ingestBlock blk b1 = .paused u1) (b2 : Nat) :
    u1.ingestContinue b2 = some (u.ingestBlock blk (b1 + b2)) := by
  have := ingestBlock_round u blk b1 hni
  rw [h] at this
  obtain ⟨_, _, _, _, _, hall⟩ := this
  exact hall b2

/-- **The sliced run is the unsliced run.** -/
theorem sliced_eq_unsliced (u : UtxoSet) (blk : Block) (b0 : Nat) (bs : List Nat)
    (hni : u.ingesting = none) :
    ∃ k, k ≤ bs.length ∧
      ingestSliced u blk b0 bs = u.ingestBlock blk (b0 + (bs.take k).sum) ∧
      (k < bs.length → ¬ (u.ingestBlock blk (b0 + (bs.take k).sum)).isPaused) :=
  ingestSliced_eq u blk b0 bs hni

theorem take_sum_le (bs : List Nat) (k : Nat) : (bs.take k).sum + (bs.drop k).sum = bs.sum := by
  rw [← List.sum_append, List.take_append_drop]

/-- if the sliced run completes, every unsliced run whose budget covers the block's work
    completes with the **same stable set**, and the sliced run consumed exactly `blockWork` -/
theorem sliced_done (u : UtxoSet) (blk : Block) (b0 : Nat) (bs : List Nat) (hni : u.ingesting = none)
    (u' : UtxoSet) (w : Nat) (h : ingestSliced u blk b0 bs = .done u' w) :
    (∀ B, blockWork blk ≤ B → u.ingestBlock blk B = .done u' (B - blockWork blk)) ∧
    ∃ k, k ≤ bs.length ∧ blockWork blk + w = b0 + (bs.take k).sum := by
  obtain ⟨k, hk, h1, _⟩ := ingestSliced_eq u blk b0 bs hni
  rw [h] at h1
  refine ⟨fun B hB => ingestBlock_done_any u blk hni _ w u' h1.symm B hB, k, hk, ?_⟩
  have := ingestBlock_round u blk (b0 + (bs.take k).sum) hni
  rw [← h1] at this
  exact this.1

/-- **schedule independence for one block**: two schedules that both complete end in the same
    stable set -/
theorem schedule_independent (u : UtxoSet) (blk : Block) (hni : u.ingesting = none)
    (b0 c0 : Nat) (bs cs : List Nat) (u1 u2 : UtxoSet) (w1 w2 : Nat)
    (h1 : ingestSliced u blk b0 bs = .done u1 w1) (h2 : ingestSliced u blk c0 cs = .done u2 w2) :
    u1 = u2 := by
  have a := (sliced_done u blk b0 bs hni u1 w1 h1).1 (blockWork blk) (Nat.le_refl _)
  have b := (sliced_done u blk c0 cs hni u2 w2 h2).1 (blockWork blk) (Nat.le_refl _)
  rw [a] at b
  simp only [RoundResult.done.injEq] at b
  exact b.1

/-- **traps**: the sliced run traps iff the unsliced run with the total budget traps (same message) -/
theorem sliced_trap_iff (u : UtxoSet) (blk : Block) (b0 : Nat) (bs : List Nat) (hni : u.ingesting = none)
    (m : String) :
    ingestSliced u blk b0 bs = .trap m ↔ u.ingestBlock blk (b0 + bs.sum) = .trap m := by
  obtain ⟨k, hk, h1, h2⟩ := ingestSliced_eq u blk b0 bs hni
  have hround := ingestBlock_round u blk (b0 + (bs.take k).sum) hni
  have hsum : b0 + (bs.take k).sum + (bs.drop k).sum = b0 + bs.sum := by
    have := take_sum_le bs k; omega
  rw [h1]
  constructor
  · intro ht
    rw [ht] at hround
    have := hround (bs.drop k).sum
    rw [hsum] at this
    exact this
  · intro ht
    cases hr : u.ingestBlock blk (b0 + (bs.take k).sum) with
    | trap m' =>
      rw [hr] at hround
      have := hround (bs.drop k).sum
      rw [hsum, ht] at this
      exact this.symm
    | done u' w =>
      rw [hr] at hround
      have := hround.2 (bs.drop k).sum
      rw [hsum, ht] at this
      cases this
    | paused u1 =>
      by_cases hlt : k < bs.length
      · exact absurd (by rw [hr]; trivial) (h2 hlt)
      · have hkl : k = bs.length := by omega
        rw [hkl, List.take_length, ht] at hr
        cases hr

/-! ## 2. Termination -/

/-- **Progress per round.** A further round with budget `b` on a set paused inside `blk` either
    finishes (or traps), or pauses again with the remaining work reduced by exactly `b`. -/
theorem round_progress {u1 : UtxoSet} {blk : Block} {u' : UtxoSet} {ing : Ingesting}
    (h : PausedIn u1 blk u' ing) (b : Nat) (u2 : UtxoSet)
    (h2 : u1.ingestContinue b = some (.paused u2)) :
    ∃ u'' ing2, PausedIn u2 blk u'' ing2 ∧ remWork ing2 + b = remWork ing := by
  obtain ⟨h3, h4⟩ := continue_round h b
  rw [h3] at h2
  simp only [Option.some.injEq] at h2
  rw [h2] at h4
  obtain ⟨u'', ing2, hp, hw, _, _⟩ := h4
  exact ⟨u'', ing2, hp, hw⟩

/-- **A round with budget 0 is a no-op.** -/
theorem zero_budget_round {u1 : UtxoSet} {blk : Block} {u' : UtxoSet} {ing : Ingesting}
    (h : PausedIn u1 blk u' ing) : u1.ingestContinue 0 = some (.paused u1) :=
  continue_zero h

/-- a paused first round leaves a `PausedIn` set with `blockWork - budget` steps to go -/
theorem first_round_paused (u : UtxoSet) (blk : Block) (b0 : Nat) (u1 : UtxoSet)
    (hni : u.ingesting = none) (h : u.ingestBlock blk b0 = .paused u1) :
    ∃ u' ing, PausedIn u1 blk u' ing ∧ remWork ing + b0 = blockWork blk ∧
      u'.nextHeight = u.nextHeight := by
  have := ingestBlock_round u blk b0 hni
  rw [h] at this
  obtain ⟨u', ing, hp, hw, hh, _⟩ := this
  exact ⟨u', ing, hp, hw, hh⟩

/-- still paused after all rounds: the budgets did not add up to the block's work -/
theorem sliced_paused_bound (u : UtxoSet) (blk : Block) (b0 : Nat) (bs : List Nat)
    (hni : u.ingesting = none) (h : (ingestSliced u blk b0 bs).isPaused) :
    b0 + bs.sum < blockWork blk := by
  obtain ⟨k, hk, h1, h2⟩ := ingestSliced_eq u blk b0 bs hni
  rw [h1] at h
  have hkl : k = bs.length := by
    by_cases hlt : k < bs.length
    · exact absurd h (h2 hlt)
    · omega
  rw [hkl, List.take_length] at h
  have hround := ingestBlock_round u blk (b0 + bs.sum) hni
  cases hr : u.ingestBlock blk (b0 + bs.sum) with
  | paused u1 =>
    rw [hr] at hround
    obtain ⟨_, ing1, hp, hw, _⟩ := hround
    have := hp.todo
    omega
  | done a b => rw [hr] at h; cases h
  | trap m => rw [hr] at h; cases h

theorem length_le_sum : ∀ (bs : List Nat), (∀ b ∈ bs, 1 ≤ b) → bs.length ≤ bs.sum
  | [], _ => by simp
  | b :: bs, h => by
    have := length_le_sum bs (fun x hx => h x (List.mem_cons_of_mem _ hx))
    have := h b List.mem_cons_self
    simp only [List.length_cons, List.sum_cons]
    omega

/-- **Termination**: with every budget at least `1`, ingestion is over (done or trapped) after at
    most `blockWork blk` rounds. -/
theorem sliced_terminates (u : UtxoSet) (blk : Block) (b0 : Nat) (bs : List Nat)
    (hni : u.ingesting = none) (hb0 : 1 ≤ b0) (hbs : ∀ b ∈ bs, 1 ≤ b)
    (hrounds : blockWork blk ≤ bs.length + 1) : ¬ (ingestSliced u blk b0 bs).isPaused := by
  intro h
  have := sliced_paused_bound u blk b0 bs hni h
  have := length_le_sum bs hbs
  omega

/-! ## 4. No fetching or processing while a block is being ingested -/

theorem popBlock_frame (bound : Unstable.BoundFn) (s s2 : State) (hash : Nat)
    (h : State.popBlock bound s hash = some s2) :
    s2.syncing = s.syncing ∧ s2.utxos = s.utxos ∧ s2.headers = s.headers := by
  unfold State.popBlock at h
  split at h
  · split at h
    · cases h; exact ⟨rfl, rfl, rfl⟩
    · cases h
  · cases h

/-- the `while let Some(..) = peek()` loop never touches the syncing state, and reports work done
    whenever it was entered with `didWork = true` -/
theorem ingestNewStable_frame (bound : Unstable.BoundFn) :
    ∀ (fuel : Nat) (s : State) (budget : Nat) (w : Bool),
      match State.ingestNewStable bound fuel s budget w with
      | .done s' w' => s'.syncing = s.syncing ∧ (w = true → w' = true)
      | .paused s' => s'.syncing = s.syncing
      | .trap _ => True
  | 0, s, budget, w => by simp [State.ingestNewStable]
  | fuel + 1, s, budget, w => by
    cases hpeek : Unstable.peek bound s.unstable with
    | none => simp [State.ingestNewStable, hpeek]
    | some anchor =>
      simp only [State.ingestNewStable, hpeek]
      cases hr : s.utxos.ingestBlock anchor.blk budget with
      | trap m => trivial
      | paused up => rfl
      | done u' budget' =>
        simp only
        cases hpop : State.popBlock bound
            { s with headers := s.headers.insert anchor.blk s.utxos.nextHeight, utxos := u' }
            anchor.blk.hash with
        | none => trivial
        | some s2 =>
          have hf := popBlock_frame bound _ s2 _ hpop
          have ih := ingestNewStable_frame bound fuel s2 budget' true
          simp only
          cases hres : State.ingestNewStable bound fuel s2 budget' true with
          | trap m => trivial
          | paused sp => rw [hres] at ih; exact ih.trans hf.1
          | done s' w' => rw [hres] at ih; exact ⟨ih.1.trans hf.1, fun _ => ih.2 rfl⟩

/-- **No fetching/processing while ingesting**: if a block is partially ingested when the
    heartbeat starts, the heartbeat (unless it traps) returns right after the ingestion work —
    it neither issues a request nor processes a stored response — and the syncing state is
    untouched. -/
theorem no_fetch_while_ingesting (env : Env) (s : State) (budget : Nat)
    (h : s.utxos.ingesting.isSome = true) :
    match State.heartbeatStart env s budget with
    | .trap => True
    | .ingested s' _ => s'.syncing = s.syncing
    | .awaiting _ _ => False
    | .processed _ => False := by
  cases hi : s.utxos.ingesting with
  | none => rw [hi] at h; cases h
  | some ing =>
    unfold State.heartbeatStart State.ingestStable
    simp only [UtxoSet.ingestContinue, hi]
    cases hr : ingestLoop (blockSteps ing.block + 2) { s.utxos with ingesting := none } ing budget with
    | trap m => trivial
    | paused up => rfl
    | done u' budget' =>
      simp only
      cases hpop : State.popBlock env.bound { s with utxos := u' } ing.block.hash with
      | none => trivial
      | some s2 =>
        have hf := popBlock_frame env.bound _ s2 _ hpop
        have ih := ingestNewStable_frame env.bound (s.unstable.tree.blocksCount + 1) s2 budget' true
        simp only
        cases hres : State.ingestNewStable env.bound (s.unstable.tree.blocksCount + 1) s2 budget' true with
        | trap m => trivial
        | paused sp => rw [hres] at ih; exact ih.trans hf.1
        | done s' w' =>
          rw [hres] at ih
          have hw : w' = true := ih.2 rfl
          subst hw
          exact ih.1.trans hf.1


/-! ## 3. A paused ingestion is invisible -/

/-- `s` is the state `s0` (which satisfies the invariant for the stable chain `G`) with its anchor
    `A` partially ingested: header of `A` recorded, stable set paused inside `A`, everything else
    (tree, caches, syncing state, …) untouched. -/
structure PausedAt (s0 s : State) (G : List Block) (A : CBlock) : Prop where
  inv : Inv s0 G
  anchor : s0.unstable.tree.root = A
  view : PausedView s0.utxos (ledger G) A.blk s.utxos
  eq : s = { s0 with utxos := s.utxos, headers := s0.headers.insert A.blk G.length }

/-- what the invariant says about the anchor on top of the stable chain -/
theorem anchor_valid {s : State} {G : List Block} (hI : Inv s G) :
    BlockWF s.unstable.tree.root.blk ∧
    (∀ tx ∈ s.unstable.tree.root.blk.txs, ∀ e ∈ ledger G, e.1.txid ≠ tx.txid) ∧
    TxValidFrom.TxsValid (ledger G) s.utxos.nextHeight s.unstable.tree.root.blk.txs := by
  cases htree : s.unstable.tree with
  | node r cs =>
  have hvA : TxValid (G ++ [r.blk]) := hI.valid r.hash [r.blk] (by
    rw [htree]; exact InvIngest.pathBlocks_root r cs)
  unfold TxValid at hvA
  rw [Btc.TxValidFrom_append] at hvA
  obtain ⟨_, hwf, hfresh, hv, _⟩ := hvA
  simp only [Nat.zero_add] at hv
  rw [← hI.heightEq] at hv
  exact ⟨hwf, hfresh, hv⟩

/-- **Entering a paused ingestion**: if the first round on the anchor pauses, the resulting state
    is `PausedAt`. -/
theorem pausedAt_first (bound : Unstable.BoundFn) (s0 : State) (G : List Block) (budget : Nat)
    (anchor : CBlock) (u1 : UtxoSet) (hI : Inv s0 G)
    (hpeek : Unstable.peek bound s0.unstable = some anchor)
    (hp : s0.utxos.ingestBlock anchor.blk budget = .paused u1) :
    PausedAt s0 { s0 with headers := s0.headers.insert anchor.blk s0.utxos.nextHeight, utxos := u1 }
      G anchor := by
  obtain ⟨_, _, hanchor⟩ := InvIngest.peek_eq bound s0.unstable anchor hpeek
  obtain ⟨_, hfresh, _⟩ := anchor_valid hI
  rw [← hanchor] at hfresh
  refine ⟨hI, hanchor.symm, ?_, ?_⟩
  · exact PausedView.first s0.utxos (ledger G) anchor.blk hI.stable (InvIngest.ledger_nodup G) hfresh
      budget u1 hp
  · rw [hI.heightEq]

/-- a further round that pauses again keeps the state `PausedAt` -/
theorem pausedAt_next {s0 s : State} {G : List Block} {A : CBlock} (h : PausedAt s0 s G A)
    (b : Nat) (u2 : UtxoSet) (hc : s.utxos.ingestContinue b = some (.paused u2)) :
    PausedAt s0 { s with utxos := u2 } G A := by
  obtain ⟨_, hfresh, _⟩ := anchor_valid h.inv
  rw [h.anchor] at hfresh
  refine ⟨h.inv, h.anchor, h.view.next hfresh b u2 hc, ?_⟩
  have := h.eq
  cases s
  simp only [State.mk.injEq] at this ⊢
  obtain ⟨_, h2, h3, h4, h5, h6, h7, h8, h9, h10⟩ := this
  exact ⟨trivial, h2, h3, h4, h5, h6, h7, h8, h9, h10⟩

/-- while paused, the stable height is the one before the block -/
theorem PausedAt.nextHeight {s0 s : State} {G : List Block} {A : CBlock} (h : PausedAt s0 s G A) :
    s.utxos.nextHeight = s0.utxos.nextHeight := by
  obtain ⟨u', ing, l, T, he, _, hh, _⟩ := h.view.unpack
  rw [he]; exact hh

theorem PausedAt.unstable {s0 s : State} {G : List Block} {A : CBlock} (h : PausedAt s0 s G A) :
    s.unstable = s0.unstable := by rw [h.eq]

/-- **`get_balance` is unaffected.** -/
theorem getBalance_invisible {s0 s : State} {G : List Block} {A : CBlock} (h : PausedAt s0 s G A)
    (x : State.AddrArg) (c : Nat) : s.getBalance x c = s0.getBalance x c := by
  cases x with
  | malformed => rfl
  | wrongNetwork => rfl
  | ok a =>
    have hb : s.utxos.getBalance a = s0.utxos.getBalance a := by
      rw [getBalance_paused (InvIngest.ledger_nodup G) h.view a,
        getBalance_notIngesting _ _ h.inv.stable.notIngesting, h.inv.stable.balance_eq]
    unfold State.getBalance
    simp only [hb, h.unstable]


/-! ### `get_utxos` -/

theorem applyBlocks_congr (s s0 : State) (h : s.unstable = s0.unstable) (a : Addr) :
    ∀ (bs : List CBlock) (ht : Nat) (acc : List Utxo × List OutPoint),
      State.applyBlocks s a bs ht acc = State.applyBlocks s0 a bs ht acc
  | [], _, _ => rfl
  | b :: bs, ht, (added, removed) => by
    simp only [State.applyBlocks, h]
    split
    · rfl
    · exact applyBlocks_congr s s0 h a bs _ _

/-- members of the stable scan of a clean set are index entries of that address -/
theorem mem_getAddressOutpoints_clean (u : UtxoSet) (l : LedgerMap) (hS : StableIs u l) (a : Addr)
    (off : Option Utxo) (o : OutPoint) (ho : o ∈ u.getAddressOutpoints a off) :
    ∃ t hh, AList.find? l o = some (t, hh) ∧ t.addr = some a := by
  rw [getAddressOutpoints_notIngesting u a off hS.notIngesting] at ho
  obtain ⟨e, he, rfl⟩ := List.mem_map.1 ho
  rw [List.mem_filter] at he
  unfold rangeScan at he
  have hmem := (sortBy_perm _ _).mem_iff.1 he.1
  have hidx := (List.mem_filter.1 hmem).1
  obtain ⟨t, hf, hta⟩ := (hS.indexEq e).1 hidx
  have hea : e.addr = a := by simpa using he.2
  exact ⟨t, e.height, hf, by rw [hta, hea]⟩

/-- **`AddressUtxoSet::into_iter` is unaffected** — same list, same order, any offset — as soon as
    the removed set `R` of the query contains the outputs of `a` that the paused block has already
    spent. -/
theorem addressUtxos_invisible {s0 s : State} {G : List Block} {A : CBlock} (h : PausedAt s0 s G A)
    (a : Addr) (added : List Utxo) (R : List OutPoint) (off : Option Utxo)
    (hR : ∀ o t hh, AList.find? (ledger G) o = some (t, hh) → t.addr = some a →
      AList.find? s.utxos.utxos o = none → o ∈ R) :
    s.addressUtxos a added R off = s0.addressUtxos a added R off := by
  have hops := getAddressOutpoints_paused h.inv.stable h.view a off R hR
  have hmap : ((s0.utxos.getAddressOutpoints a off).filter (fun o => !(R.contains o))).map
        (fun o => (s.utxos.getUtxo o).map (fun p => Utxo.mk p.2 o p.1.value)) =
      ((s0.utxos.getAddressOutpoints a off).filter (fun o => !(R.contains o))).map
        (fun o => (s0.utxos.getUtxo o).map (fun p => Utxo.mk p.2 o p.1.value)) := by
    apply List.map_congr_left
    intro o ho
    obtain ⟨t, hh, hf, hta⟩ := mem_getAddressOutpoints_clean s0.utxos (ledger G) h.inv.stable a off o
      (List.mem_filter.1 ho).1
    rw [getUtxo_paused_of_ledger h.view o t hh a hf hta, getUtxo_stable s0.utxos (ledger G) h.inv.stable, hf]
  unfold State.addressUtxos
  simp only [hops, hmap]

/-- the applied blocks' `removed` set covers what the paused anchor has spent so far -/
theorem removed_covers {s0 s : State} {G : List Block} {A : CBlock} (h : PausedAt s0 s G A)
    (hU : TxidsUnique G) (a : Addr) (rest : List CBlock)
    (hsub : ∀ b ∈ A :: rest, b ∈ s0.unstable.tree.blocks) (ht : Nat)
    (added : List Utxo) (removed : List OutPoint)
    (happ : State.applyBlocks s0 a (A :: rest) ht ([], []) = some (added, removed))
    (o : OutPoint) (t : TxOut) (hh : Nat) (hf : AList.find? (ledger G) o = some (t, hh))
    (hta : t.addr = some a) (hgone : AList.find? s.utxos.utxos o = none) : o ∈ removed := by
  have hI := h.inv
  obtain ⟨_, hfresh, _⟩ := anchor_valid hI
  rw [h.anchor] at hfresh
  obtain ⟨tx, htx, hotx⟩ := h.view.gone_is_input hfresh o (t, hh) hf hgone
  have hspec := applyBlocks_spec s0 (histOf s0 G) hI.caches hI.txids
    (fun b hb => List.mem_append_right _ (List.mem_map.2 ⟨b, hb, rfl⟩)) a (A :: rest) hsub ht [] []
  rw [happ] at hspec
  simp only [Option.some.injEq, Prod.mk.injEq, List.nil_append] at hspec
  rw [hspec.2, mem_removedAll]
  constructor
  · unfold insB
    rw [List.mem_flatMap]
    exact ⟨tx, (Btc.Spec.mem_txsOf _ _).2 ⟨A.blk, by simp, htx⟩, hotx⟩
  · -- the spent output pays `a` according to the history
    have hvG : TxValid G := by
      cases htree : s0.unstable.tree with
      | node r cs =>
        have := hI.valid r.hash [r.blk] (by rw [htree]; exact InvIngest.pathBlocks_root r cs)
        exact TxValid_prefix G [r.blk] this
    have := (mem_ledger_outAt G (histOf s0 G) hvG hU (fun b hb => List.mem_append_left _ hb) hI.txids
      (o, (t, hh)) (AList.mem_of_find? _ o _ hf)).1
    unfold paysTo
    rw [this]
    exact hta

/-- **`get_utxos_from_chain` is unaffected** for every chain whose applied prefix starts with the
    anchor and consists of tree blocks (all the chains the endpoints use, see below). -/
theorem getUtxosFromChain_invisible {s0 s : State} {G : List Block} {A : CBlock}
    (h : PausedAt s0 s G A) (hU : TxidsUnique G) (x : State.AddrArg) (c : Nat)
    (chain : List CBlock) (off : Option Utxo) (limit : Nat)
    (happlied : c ≤ chain.length → ∃ rest,
      State.stablePrefix (Tree.levels CBlock.hash s0.unstable.tree) c chain 0 = A :: rest ∧
      ∀ b ∈ A :: rest, b ∈ s0.unstable.tree.blocks) :
    s.getUtxosFromChain x c chain off limit = s0.getUtxosFromChain x c chain off limit := by
  cases x with
  | malformed => rfl
  | wrongNetwork => rfl
  | ok a =>
    unfold State.getUtxosFromChain
    simp only [h.unstable, h.nextHeight]
    by_cases hc : chain.length < c
    · simp only [hc, if_true]
    · simp only [hc, if_false]
      obtain ⟨rest, hpre, hsub⟩ := happlied (by omega)
      rw [hpre, applyBlocks_congr s s0 h.unstable]
      cases happ : State.applyBlocks s0 a (A :: rest) s0.utxos.nextHeight ([], []) with
      | none => rfl
      | some p =>
        obtain ⟨added, removed⟩ := p
        simp only
        rw [addressUtxos_invisible h a added removed off
          (fun o t hh hf hta hg => removed_covers h hU a rest hsub _ added removed happ o t hh hf hta hg)]

theorem stablePrefix_sub (L : List (List (Nat × Nat))) (c : Nat) : ∀ (chain : List CBlock) (i : Nat),
    ∀ b ∈ State.stablePrefix L c chain i, b ∈ chain
  | [], _, b, hb => by simp [State.stablePrefix] at hb
  | x :: xs, i, b, hb => by
    simp only [State.stablePrefix] at hb
    split at hb
    · cases hb
    · rcases List.mem_cons.1 hb with rfl | hb'
      · exact List.mem_cons_self
      · exact List.mem_cons_of_mem _ (stablePrefix_sub L c xs (i + 1) b hb')

/-- **`get_utxos`** (no filter or `min_confirmations`): the complete response — page, tip, next
    page — is the one given before the ingestion of the anchor began. -/
theorem getUtxos_invisible {s0 s : State} {G : List Block} {A : CBlock} (h : PausedAt s0 s G A)
    (hU : TxidsUnique G) (x : State.AddrArg) (c : Nat) (limit : Nat) :
    s.getUtxos x .none_ limit = s0.getUtxos x .none_ limit ∧
    s.getUtxos x (.minConf c) limit = s0.getUtxos x (.minConf c) limit := by
  have hmain : ∀ c', s.getUtxosFromChain x c' s.unstable.mainChain none limit =
      s0.getUtxosFromChain x c' s0.unstable.mainChain none limit := by
    intro c'
    rw [h.unstable]
    apply getUtxosFromChain_invisible h hU
    intro hc
    have hhead := C04.stablePrefix_head s0.unstable.tree c' hc
    obtain ⟨tip, sib, _, hpath⟩ := C01.mainChain_isRootPath h.inv
    have hmc : ∀ b ∈ s0.unstable.mainChain, b ∈ s0.unstable.tree.blocks :=
      (chainWithTip_spec CBlock.hash tip.hash s0.unstable.tree _ _ hpath).1
    cases hsp : State.stablePrefix (Tree.levels CBlock.hash s0.unstable.tree) c' s0.unstable.mainChain 0 with
    | nil =>
      unfold Unstable.mainChain at hsp
      rw [hsp] at hhead; cases hhead
    | cons y rest =>
      have hsp' := hsp
      unfold Unstable.mainChain at hsp'
      rw [hsp'] at hhead
      simp only [List.head?_cons, Option.some.injEq] at hhead
      have hy : y = A := hhead.trans h.anchor
      subst hy
      refine ⟨rest, rfl, ?_⟩
      intro b hb
      rw [← hsp] at hb
      exact hmc b (stablePrefix_sub _ _ _ _ b hb)
  exact ⟨hmain 0, hmain c⟩


theorem chainWithTip_head (tip : Nat) (r : CBlock) (cs : List (Tree CBlock)) (p sib : List CBlock)
    (h : Tree.chainWithTip CBlock.hash tip (.node r cs) = some (p, sib)) : ∃ rest, p = r :: rest := by
  simp only [Tree.chainWithTip] at h
  split at h
  · simp only [Option.some.injEq, Prod.mk.injEq] at h; exact ⟨[], h.1.symm⟩
  · split at h
    · simp only [Option.some.injEq, Prod.mk.injEq] at h; exact ⟨_, h.1.symm⟩
    · cases h

/-- **`get_utxos` with a page token** is unaffected as well (the page walk re-applies the chain
    from the anchor to the page's tip). -/
theorem getUtxos_page_invisible {s0 s : State} {G : List Block} {A : CBlock} (h : PausedAt s0 s G A)
    (hU : TxidsUnique G) (x : State.AddrArg) (page : Option (Nat × Nat × OutPoint)) (limit : Nat) :
    s.getUtxos x (.page page) limit = s0.getUtxos x (.page page) limit := by
  cases page with
  | none => rfl
  | some pg =>
    obtain ⟨tip, height, op⟩ := pg
    unfold State.getUtxos
    simp only [h.unstable]
    cases hcw : Tree.chainWithTip CBlock.hash tip s0.unstable.tree with
    | none => rfl
    | some pr =>
      obtain ⟨chain, sib⟩ := pr
      simp only
      apply getUtxosFromChain_invisible h hU
      intro _
      rw [C02.stablePrefix_zero]
      have hsub := (chainWithTip_spec CBlock.hash tip s0.unstable.tree chain sib hcw).1
      cases htree : s0.unstable.tree with
      | node r cs =>
        rw [htree] at hcw
        obtain ⟨rest, hrest⟩ := chainWithTip_head tip r cs chain sib hcw
        have hr : r = A := by have := h.anchor; rw [htree] at this; exact this
        subst hr
        rw [htree] at hsub
        exact ⟨rest, hrest, fun b hb => hsub b (by rw [hrest]; exact hb)⟩

/-! ### `get_blockchain_info`, fee percentiles, block headers -/

theorem length_filter_split {α : Type} (p : α → Bool) : ∀ (l : List α),
    l.length = (l.filter p).length + (l.filter (fun x => !p x)).length
  | [] => rfl
  | x :: xs => by
    have ih := length_filter_split p xs
    cases hp : p x <;> simp [hp] <;> omega

/-- two maps with distinct keys: sizes differ by (keys only in the first) − (keys only in the second) -/
theorem alist_length_diff {ν : Type} (X Y : List (OutPoint × ν)) (hX : (X.map (·.1)).Nodup)
    (hY : (Y.map (·.1)).Nodup) :
    X.length + (Y.filter (fun e => (AList.find? X e.1).isNone)).length =
      Y.length + (X.filter (fun e => (AList.find? Y e.1).isNone)).length := by
  have hx := length_filter_split (fun e : OutPoint × ν => (AList.find? Y e.1).isSome) X
  have hy := length_filter_split (fun e : OutPoint × ν => (AList.find? X e.1).isSome) Y
  have hcommon : (X.filter (fun e => (AList.find? Y e.1).isSome)).length =
      (Y.filter (fun e => (AList.find? X e.1).isSome)).length := by
    have hp : ((X.filter (fun e => (AList.find? Y e.1).isSome)).map (·.1)).Perm
        ((Y.filter (fun e => (AList.find? X e.1).isSome)).map (·.1)) := by
      rw [List.perm_ext_iff_of_nodup ((List.filter_sublist.map _).nodup hX)
        ((List.filter_sublist.map _).nodup hY)]
      intro k
      simp only [List.mem_map, List.mem_filter]
      constructor
      · rintro ⟨e, ⟨he, hs⟩, rfl⟩
        obtain ⟨v, hv⟩ := Option.isSome_iff_exists.1 hs
        refine ⟨(e.1, v), ⟨AList.mem_of_find? Y e.1 v hv, ?_⟩, rfl⟩
        simp only
        rw [AList.find?_of_mem X hX e.1 e.2 he]; rfl
      · rintro ⟨e, ⟨he, hs⟩, rfl⟩
        obtain ⟨v, hv⟩ := Option.isSome_iff_exists.1 hs
        refine ⟨(e.1, v), ⟨AList.mem_of_find? X e.1 v hv, ?_⟩, rfl⟩
        simp only
        rw [AList.find?_of_mem Y hY e.1 e.2 he]; rfl
    have := hp.length_eq
    simpa using this
  have e1 : (X.filter (fun e => !(AList.find? Y e.1).isSome)) =
      X.filter (fun e => (AList.find? Y e.1).isNone) := by
    apply List.filter_congr; intro e _; cases AList.find? Y e.1 <;> rfl
  have e2 : (Y.filter (fun e => !(AList.find? X e.1).isSome)) =
      Y.filter (fun e => (AList.find? X e.1).isNone) := by
    apply List.filter_congr; intro e _; cases AList.find? X e.1 <;> rfl
  rw [e1] at hx
  rw [e2] at hy
  omega

/-- **`get_blockchain_info`**: height, tip hash, timestamp and difficulty are unaffected. Only
    `utxos_length` deviates (finding F10): it is computed from the raw size of the partially
    updated set, which differs from the pre-ingestion size by
    (outputs created so far and still unspent) − (pre-existing outputs spent so far). -/
theorem blockchainInfo_invisible {s0 s : State} {G : List Block} {A : CBlock} (h : PausedAt s0 s G A) :
    s.blockchainInfo.height = s0.blockchainInfo.height ∧
    s.blockchainInfo.hash = s0.blockchainInfo.hash ∧
    s.blockchainInfo.timestamp = s0.blockchainInfo.timestamp ∧
    s.blockchainInfo.difficulty = s0.blockchainInfo.difficulty ∧
    s.utxos.utxos.length +
        (s0.utxos.utxos.filter (fun e => (AList.find? s.utxos.utxos e.1).isNone)).length =
      s0.utxos.utxos.length +
        (s.utxos.utxos.filter (fun e => (AList.find? s0.utxos.utxos e.1).isNone)).length := by
  refine ⟨?_, ?_, ?_, ?_, ?_⟩
  · simp [State.blockchainInfo, State.mainChainHeight, h.unstable, h.nextHeight]
  · simp [State.blockchainInfo, h.unstable]
  · simp [State.blockchainInfo, h.unstable]
  · simp [State.blockchainInfo, h.unstable]
  · obtain ⟨u', ing, l, T, he, _, _, hS, _, _, _, _⟩ := h.view.unpack
    apply alist_length_diff _ _ ?_ h.inv.stable.utxosNodup
    rw [he]; exact hS.utxosNodup

/-- the reported `utxos_length` is the raw size plus the main chain's cached deltas -/
theorem utxosLength_formula (s : State) :
    s.blockchainInfo.utxosLength =
      ((s.utxos.utxos.length : Int) + (s.unstable.mainChain.map (·.utxoDeltaNow)).foldl (· + ·) 0).toNat :=
  rfl

theorem txFeePerByte_congr (s s0 : State) (h : s.unstable = s0.unstable) (tx : Tx) :
    s.txFeePerByte tx = s0.txFeePerByte tx := by
  unfold State.txFeePerByte; rw [h]

theorem blockFeeRates_congr (s s0 : State) (h : s.unstable = s0.unstable) (b : CBlock) :
    s.blockFeeRates b = s0.blockFeeRates b := by
  unfold State.blockFeeRates
  have : b.blk.txs.map (State.txFeePerByte s) = b.blk.txs.map (State.txFeePerByte s0) :=
    List.map_congr_left (fun tx _ => txFeePerByte_congr s s0 h tx)
  rw [this]

theorem feesPerByte_congr (s s0 : State) (h : s.unstable = s0.unstable) (n : Nat) :
    ∀ (bs : List CBlock) (acc : List Nat), s.feesPerByte n bs acc = s0.feesPerByte n bs acc
  | [], _ => rfl
  | b :: bs, acc => by
    simp only [State.feesPerByte, blockFeeRates_congr s s0 h b]
    split
    · rfl
    · cases s0.blockFeeRates b with
      | none => rfl
      | some rs => exact feesPerByte_congr s s0 h n bs _

/-- **fee percentiles** are unaffected (they only read the tree and the fee cache) -/
theorem feePercentiles_invisible {s0 s : State} {G : List Block} {A : CBlock} (h : PausedAt s0 s G A)
    (n : Nat) : (s.feePercentiles n).map (·.2) = (s0.feePercentiles n).map (·.2) := by
  have hun := h.unstable
  have hfc : s.feeCache = s0.feeCache := by rw [h.eq]
  have hrec : ∀ chain tip, (State.feePercentiles.recompute s n chain tip).map (·.2) =
      (State.feePercentiles.recompute s0 n chain tip).map (·.2) := by
    intro chain tip
    unfold State.feePercentiles.recompute
    rw [feesPerByte_congr s s0 hun, hfc]
    cases s0.feesPerByte n chain.reverse [] with
    | none => rfl
    | some fees =>
      simp only
      split <;> rfl
  unfold State.feePercentiles
  simp only [hun, hfc]
  cases s0.feeCache with
  | none => exact hrec _ _
  | some p =>
    obtain ⟨hh, pp⟩ := p
    simp only
    split
    · rfl
    · exact hrec _ _


/-- recording a header above the requested range does not change the range read -/
theorem range_insert_above (hs : HeaderStore) (b : Block) (k lo hi : Nat) (hk : hi < k)
    (hnone : AList.find? hs.byHeight k = none)
    (hhash : ∀ p ∈ hs.byHeight, p.1 ≤ hi → p.2 ≠ b.hash) :
    (hs.insert b k).range lo hi = hs.range lo hi := by
  unfold HeaderStore.range HeaderStore.insert
  simp only
  have hfilter : (AList.insert hs.byHeight k b.hash).filter (fun p => decide (lo ≤ p.1) && decide (p.1 ≤ hi)) =
      hs.byHeight.filter (fun p => decide (lo ≤ p.1) && decide (p.1 ≤ hi)) := by
    unfold AList.insert
    rw [AList.erase_eq_self_of_find?_none _ _ hnone, List.filter_cons]
    have : ¬ k ≤ hi := by omega
    simp [this]
  rw [hfilter]
  apply Btc.Spec.filterMap_congr'
  intro p hp
  have hp' := (sortBy_perm _ _).mem_iff.1 hp
  rw [List.mem_filter] at hp'
  have hle : p.1 ≤ hi := by
    have := hp'.2
    simp only [Bool.and_eq_true, decide_eq_true_eq] at this
    exact this.2
  have hne := hhash p hp'.1 hle
  rw [AList.find?_insert_ne _ _ _ _ (fun e => hne e.symm)]

/-- **`get_block_headers`** is unaffected: the header recorded for the anchor sits at the stable
    height, and only heights below it are served from the store.
    (`hkeys`: the height index of the header store has distinct keys — true of every reachable
    store since `insert` overwrites, but not part of `Inv`.) -/
theorem getBlockHeaders_invisible {s0 s : State} {G : List Block} {A : CBlock} (h : PausedAt s0 s G A)
    (hkeys : (s0.headers.byHeight.map (·.1)).Nodup) (maxHeaders start : Nat) (end_ : Option Nat) :
    s.getBlockHeaders maxHeaders start end_ = s0.getBlockHeaders maxHeaders start end_ := by
  have hI := h.inv
  have hhdr : s.headers = s0.headers.insert A.blk G.length := by rw [h.eq]
  unfold State.getBlockHeaders State.mainChainHeight State.stableHeight
  simp only [h.unstable, h.nextHeight, hhdr]
  cases State.effectiveRange
      (Tree.mainChainLen CBlock.diff s0.unstable.tree + s0.utxos.nextHeight - 1) maxHeaders start end_ with
  | error e => rfl
  | ok p =>
    obtain ⟨lo, hi⟩ := p
    simp only
    by_cases hlo : lo ≥ s0.utxos.nextHeight
    · simp only [hlo, if_true]
    · simp only [hlo, if_false]
      have hsh : s0.utxos.nextHeight = G.length := hI.heightEq
      rw [range_insert_above s0.headers A.blk G.length lo (min hi (s0.utxos.nextHeight - 1))
        (by omega) (hI.headersOnly G.length (Nat.le_refl _))]
      intro p hp hple
      have hlt : p.1 < G.length := by omega
      have hfind : AList.find? s0.headers.byHeight p.1 = some p.2 :=
        AList.find?_of_mem _ hkeys p.1 p.2 hp
      rw [hI.headers p.1 hlt] at hfind
      simp only [Option.some.injEq] at hfind
      rw [← hfind]
      intro heq
      have hnd := hI.hashesNodup
      rw [List.map_append, List.nodup_append] at hnd
      refine hnd.2.2 (G[p.1]).hash (List.mem_map.2 ⟨G[p.1], List.getElem_mem hlt, rfl⟩) A.blk.hash ?_ heq
      apply List.mem_map.2
      refine ⟨A.blk, List.mem_map.2 ⟨A, ?_, rfl⟩, rfl⟩
      rw [← h.anchor]
      cases s0.unstable.tree with
      | node r cs => simp [Tree.blocks, Tree.root]


/-! ## 5. Rounds of `ingest_stable_blocks_into_utxoset`: reaching a pause, resuming, schedule independence -/

theorem ingestNewStable_none (bound : Unstable.BoundFn) (fuel : Nat) (s : State) (budget : Nat) (w : Bool)
    (hpeek : Unstable.peek bound s.unstable = none) :
    State.ingestNewStable bound (fuel + 1) s budget w = .done s w := by
  simp only [State.ingestNewStable, hpeek]

theorem ingestNewStable_paused_step (bound : Unstable.BoundFn) (fuel : Nat) (s : State) (budget : Nat)
    (w : Bool) (anchor : CBlock) (up : UtxoSet)
    (hpeek : Unstable.peek bound s.unstable = some anchor)
    (hp : s.utxos.ingestBlock anchor.blk budget = .paused up) :
    State.ingestNewStable bound (fuel + 1) s budget w =
      .paused { s with headers := s.headers.insert anchor.blk s.utxos.nextHeight, utxos := up } := by
  simp only [State.ingestNewStable, hpeek]
  rw [hp]

theorem ingestNewStable_trap_step (bound : Unstable.BoundFn) (fuel : Nat) (s : State) (budget : Nat)
    (w : Bool) (anchor : CBlock) (m : String)
    (hpeek : Unstable.peek bound s.unstable = some anchor)
    (hp : s.utxos.ingestBlock anchor.blk budget = .trap m) :
    State.ingestNewStable bound (fuel + 1) s budget w = .trap m := by
  simp only [State.ingestNewStable, hpeek]
  rw [hp]

theorem ingestNewStable_done_step (bound : Unstable.BoundFn) (fuel : Nat) (s : State) (budget : Nat)
    (w : Bool) (anchor : CBlock) (u' : UtxoSet) (b' : Nat) (s2 : State)
    (hpeek : Unstable.peek bound s.unstable = some anchor)
    (hu : s.utxos.ingestBlock anchor.blk budget = .done u' b')
    (hpop : State.popBlock bound
      { s with headers := s.headers.insert anchor.blk s.utxos.nextHeight, utxos := u' }
      anchor.blk.hash = some s2) :
    State.ingestNewStable bound (fuel + 1) s budget w = State.ingestNewStable bound fuel s2 b' true := by
  simp only [State.ingestNewStable, hpeek]
  rw [hu]
  simp only
  rw [hpop]

/-- what an iteration of the loop does on a state satisfying the invariant, for budgets `B` and
    `B + d` at once -/
theorem loop_iteration (bound : Unstable.BoundFn) (s : State) (G : List Block) (B : Nat)
    (anchor : CBlock) (hI : Inv s G) (hpeek : Unstable.peek bound s.unstable = some anchor) :
    (∃ up, s.utxos.ingestBlock anchor.blk B = .paused up ∧
      PausedAt s { s with headers := s.headers.insert anchor.blk s.utxos.nextHeight, utxos := up } G anchor ∧
      ∀ d, up.ingestContinue d = some (s.utxos.ingestBlock anchor.blk (B + d))) ∨
    (∃ u' s2 w1, (∀ d, s.utxos.ingestBlock anchor.blk (B + d) = .done u' (w1 + d)) ∧
      State.popBlock bound
        { s with headers := s.headers.insert anchor.blk s.utxos.nextHeight, utxos := u' }
        anchor.blk.hash = some s2 ∧
      Inv s2 (G ++ [anchor.blk]) ∧
      s2.unstable.tree.blocksCount < s.unstable.tree.blocksCount) := by
  rcases InvIngest.ingest_step_preserves_inv bound s G B anchor hI hpeek with
    ⟨_, hp⟩ | ⟨_, u', s2, hu', hpop, hI2, _, _, hlt⟩
  · cases hr : s.utxos.ingestBlock anchor.blk B with
    | paused up =>
      left
      refine ⟨up, rfl, pausedAt_first bound s G B anchor up hI hpeek hr, fun d => ?_⟩
      exact pause_resume s.utxos anchor.blk B up hI.stable.notIngesting hr d
    | done a b => rw [hr] at hp; cases hp
    | trap m => rw [hr] at hp; cases hp
  · right
    refine ⟨u', s2, B - blockWork anchor.blk, fun d => ?_, hpop, hI2, hlt⟩
    have := ingestBlock_round s.utxos anchor.blk B hI.stable.notIngesting
    rw [hu'] at this
    exact this.2 d

/-- the loop does not depend on the fuel once it exceeds the number of blocks in the tree -/
theorem ingestNewStable_fuel (bound : Unstable.BoundFn) :
    ∀ (f1 f2 : Nat) (s : State) (G : List Block) (B : Nat) (w : Bool), Inv s G →
      s.unstable.tree.blocksCount < f1 → s.unstable.tree.blocksCount < f2 →
      State.ingestNewStable bound f1 s B w = State.ingestNewStable bound f2 s B w
  | 0, _, _, _, _, _, _, h, _ => by omega
  | _ + 1, 0, _, _, _, _, _, _, h => by omega
  | f1 + 1, f2 + 1, s, G, B, w, hI, h1, h2 => by
    cases hpeek : Unstable.peek bound s.unstable with
    | none => rw [ingestNewStable_none _ _ _ _ _ hpeek, ingestNewStable_none _ _ _ _ _ hpeek]
    | some anchor =>
      rcases loop_iteration bound s G B anchor hI hpeek with
        ⟨up, hp, _, _⟩ | ⟨u', s2, w1, hall, hpop, hI2, hlt⟩
      · rw [ingestNewStable_paused_step _ _ _ _ _ _ up hpeek hp,
          ingestNewStable_paused_step _ _ _ _ _ _ up hpeek hp]
      · have hu := hall 0
        simp only [Nat.add_zero] at hu
        rw [ingestNewStable_done_step _ _ _ _ _ _ u' w1 s2 hpeek hu hpop,
          ingestNewStable_done_step _ _ _ _ _ _ u' w1 s2 hpeek hu hpop]
        exact ingestNewStable_fuel bound f1 f2 s2 _ w1 true hI2 (by omega) (by omega)

/-- **Reaching a pause.** If the call pauses, it does so inside the anchor `A` of a state `sk`
    that satisfies the invariant for the stable chain extended by the blocks popped before, and
    the paused state is `PausedAt sk · · A` — so all the invisibility theorems above apply with
    `sk` as the state "before that block's ingestion began". -/
theorem ingestNewStable_paused (bound : Unstable.BoundFn) :
    ∀ (fuel : Nat) (s : State) (G : List Block) (B : Nat) (w : Bool) (sp : State), Inv s G →
      State.ingestNewStable bound fuel s B w = .paused sp →
      ∃ popped sk A, Inv sk (G ++ popped) ∧ PausedAt sk sp (G ++ popped) A
  | 0, s, G, B, w, sp, _, h => by simp [State.ingestNewStable] at h
  | fuel + 1, s, G, B, w, sp, hI, h => by
    cases hpeek : Unstable.peek bound s.unstable with
    | none => rw [ingestNewStable_none _ _ _ _ _ hpeek] at h; cases h
    | some anchor =>
      rcases loop_iteration bound s G B anchor hI hpeek with
        ⟨up, hp, hpa, _⟩ | ⟨u', s2, w1, hall, hpop, hI2, hlt⟩
      · rw [ingestNewStable_paused_step _ _ _ _ _ _ up hpeek hp] at h
        simp only [State.IngestResult.paused.injEq] at h
        subst h
        exact ⟨[], s, anchor, by simpa using hI, by simpa using hpa⟩
      · have hu := hall 0
        simp only [Nat.add_zero] at hu
        rw [ingestNewStable_done_step _ _ _ _ _ _ u' w1 s2 hpeek hu hpop] at h
        obtain ⟨popped, sk, A, h1, h2⟩ := ingestNewStable_paused bound fuel s2 _ w1 true sp hI2 h
        exact ⟨anchor.blk :: popped, sk, A, by simpa using h1, by simpa using h2⟩

theorem ingestStable_eq_loop (bound : Unstable.BoundFn) (s : State) (G : List Block) (B : Nat)
    (hI : Inv s G) :
    s.ingestStable bound B =
      State.ingestNewStable bound (s.unstable.tree.blocksCount + 1) s B false := by
  have hni : s.utxos.ingestContinue B = none := by
    simp [UtxoSet.ingestContinue, hI.stable.notIngesting]
  unfold State.ingestStable
  simp only [hni]

/-- **Reaching a pause**, for the whole call. -/
theorem ingestStable_paused (bound : Unstable.BoundFn) (s : State) (G : List Block) (B : Nat)
    (sp : State) (hI : Inv s G) (h : s.ingestStable bound B = .paused sp) :
    ∃ popped sk A, Inv sk (G ++ popped) ∧ PausedAt sk sp (G ++ popped) A := by
  rw [ingestStable_eq_loop bound s G B hI] at h
  exact ingestNewStable_paused bound _ s G B false sp hI h


/-- **Resuming** a state paused inside the anchor of `s0` with budget `b2` is the loop on `s0`
    with budget `B + b2`. -/
theorem resume_eq (bound : Unstable.BoundFn) (s0 : State) (G : List Block) (B : Nat) (anchor : CBlock)
    (up : UtxoSet) (hI : Inv s0 G) (hpeek : Unstable.peek bound s0.unstable = some anchor)
    (hp : s0.utxos.ingestBlock anchor.blk B = .paused up) (b2 fuel : Nat) (w : Bool)
    (hfuel : s0.unstable.tree.blocksCount < fuel + 1) :
    State.ingestStable bound
        { s0 with headers := s0.headers.insert anchor.blk s0.utxos.nextHeight, utxos := up } b2 =
      State.ingestNewStable bound (fuel + 1) s0 (B + b2) w := by
  -- the resumed round runs `ingestBlock` with the accumulated budget
  have hcont : up.ingestContinue b2 = some (s0.utxos.ingestBlock anchor.blk (B + b2)) :=
    pause_resume s0.utxos anchor.blk B up hI.stable.notIngesting hp b2
  -- the stored block is the anchor
  obtain ⟨u1', ing1, hpin, _, _⟩ := first_round_paused s0.utxos anchor.blk B up hI.stable.notIngesting hp
  have hing : up.ingesting = some ing1 := by rw [hpin.eq]
  have hblk : ing1.block = anchor.blk := hpin.block
  unfold State.ingestStable
  simp only [hcont, hing, hblk]
  rcases loop_iteration bound s0 G (B + b2) anchor hI hpeek with
    ⟨up2, hp2, _, _⟩ | ⟨u', s2, w1, hall, hpop, hI2, hlt⟩
  · rw [hp2, ingestNewStable_paused_step _ _ _ _ _ _ up2 hpeek hp2]
  · have hu := hall 0
    simp only [Nat.add_zero] at hu
    rw [hu, ingestNewStable_done_step _ _ _ _ _ _ u' w1 s2 hpeek hu hpop]
    simp only
    have hpop' : State.popBlock bound
        { ({ s0 with headers := s0.headers.insert anchor.blk s0.utxos.nextHeight, utxos := up } : State)
            with utxos := u' } anchor.blk.hash = some s2 := hpop
    rw [hpop']
    simp only
    exact ingestNewStable_fuel bound _ _ s2 _ w1 true hI2 (by omega) (by omega)

/-- **Pause/resume determinism of the loop.** -/
theorem ingestNewStable_pause_resume (bound : Unstable.BoundFn) :
    ∀ (fuel : Nat) (s : State) (G : List Block) (B : Nat) (w : Bool) (sp : State), Inv s G →
      s.unstable.tree.blocksCount < fuel →
      State.ingestNewStable bound fuel s B w = .paused sp →
      ∀ b2, sp.ingestStable bound b2 = State.ingestNewStable bound fuel s (B + b2) w
  | 0, _, _, _, _, _, _, h, _ => by omega
  | fuel + 1, s, G, B, w, sp, hI, hf, h => by
    intro b2
    cases hpeek : Unstable.peek bound s.unstable with
    | none => rw [ingestNewStable_none _ _ _ _ _ hpeek] at h; cases h
    | some anchor =>
      rcases loop_iteration bound s G B anchor hI hpeek with
        ⟨up, hp, _, _⟩ | ⟨u', s2, w1, hall, hpop, hI2, hlt⟩
      · rw [ingestNewStable_paused_step _ _ _ _ _ _ up hpeek hp] at h
        simp only [State.IngestResult.paused.injEq] at h
        subst h
        exact resume_eq bound s G B anchor up hI hpeek hp b2 fuel w hf
      · have hu := hall 0
        simp only [Nat.add_zero] at hu
        rw [ingestNewStable_done_step _ _ _ _ _ _ u' w1 s2 hpeek hu hpop] at h
        rw [ingestNewStable_done_step _ _ _ _ _ _ u' (w1 + b2) s2 hpeek (hall b2) hpop]
        exact ingestNewStable_pause_resume bound fuel s2 _ w1 true sp hI2 (by omega) h b2

/-- **Pause/resume determinism of `ingest_stable_blocks_into_utxoset`**: if a call with budget
    `b1` pauses, the next call with budget `b2` returns exactly what the first call would have
    returned with budget `b1 + b2` — state, `didWork` flag, traps included. -/
theorem ingestStable_pause_resume (bound : Unstable.BoundFn) (s : State) (G : List Block) (b1 : Nat)
    (sp : State) (hI : Inv s G) (h : s.ingestStable bound b1 = .paused sp) (b2 : Nat) :
    sp.ingestStable bound b2 = s.ingestStable bound (b1 + b2) := by
  rw [ingestStable_eq_loop bound s G _ hI] at h ⊢
  exact ingestNewStable_pause_resume bound _ s G b1 false sp hI (Nat.lt_succ_self _) h b2

/-- a completed call is not changed by more budget -/
theorem ingestNewStable_done_mono (bound : Unstable.BoundFn) :
    ∀ (fuel : Nat) (s : State) (G : List Block) (B : Nat) (w : Bool) (s' : State) (w' : Bool),
      Inv s G → State.ingestNewStable bound fuel s B w = .done s' w' →
      ∀ d, State.ingestNewStable bound fuel s (B + d) w = .done s' w'
  | 0, s, G, B, w, s', w', _, h => by
    intro d
    simp only [State.ingestNewStable] at h ⊢
    exact h
  | fuel + 1, s, G, B, w, s', w', hI, h => by
    intro d
    cases hpeek : Unstable.peek bound s.unstable with
    | none =>
      rw [ingestNewStable_none _ _ _ _ _ hpeek] at h ⊢
      exact h
    | some anchor =>
      rcases loop_iteration bound s G B anchor hI hpeek with
        ⟨up, hp, _, _⟩ | ⟨u', s2, w1, hall, hpop, hI2, hlt⟩
      · rw [ingestNewStable_paused_step _ _ _ _ _ _ up hpeek hp] at h; cases h
      · have hu := hall 0
        simp only [Nat.add_zero] at hu
        rw [ingestNewStable_done_step _ _ _ _ _ _ u' w1 s2 hpeek hu hpop] at h
        rw [ingestNewStable_done_step _ _ _ _ _ _ u' (w1 + d) s2 hpeek (hall d) hpop]
        exact ingestNewStable_done_mono bound fuel s2 _ w1 true s' w' hI2 h d

theorem ingestStable_done_mono (bound : Unstable.BoundFn) (s : State) (G : List Block) (B : Nat)
    (s' : State) (w' : Bool) (hI : Inv s G) (h : s.ingestStable bound B = .done s' w') (d : Nat) :
    s.ingestStable bound (B + d) = .done s' w' := by
  rw [ingestStable_eq_loop bound s G _ hI] at h ⊢
  exact ingestNewStable_done_mono bound _ s G B false s' w' hI h d

/-- successive heartbeat rounds: call again as long as the previous call paused -/
def stableRounds (bound : Unstable.BoundFn) : State.IngestResult → List Nat → State.IngestResult
  | r, [] => r
  | .paused s, b :: bs => stableRounds bound (s.ingestStable bound b) bs
  | .done s w, _ :: _ => .done s w
  | .trap m, _ :: _ => .trap m

/-- **the sliced run is an unsliced run**, at the level of the whole canister state -/
theorem stableRounds_eq (bound : Unstable.BoundFn) (s : State) (G : List Block) (hI : Inv s G) :
    ∀ (bs : List Nat) (b0 : Nat), ∃ k, k ≤ bs.length ∧
      stableRounds bound (s.ingestStable bound b0) bs = s.ingestStable bound (b0 + (bs.take k).sum)
  | [], b0 => ⟨0, Nat.le_refl _, by simp [stableRounds]⟩
  | b :: bs, b0 => by
    cases hr : s.ingestStable bound b0 with
    | done s' w => exact ⟨0, Nat.zero_le _, by simp [stableRounds, hr]⟩
    | trap m => exact ⟨0, Nat.zero_le _, by simp [stableRounds, hr]⟩
    | paused sp =>
      obtain ⟨k, hk, hkeq⟩ := stableRounds_eq bound s G hI bs (b0 + b)
      refine ⟨k + 1, by simp; omega, ?_⟩
      simp only [stableRounds, List.take_succ_cons, List.sum_cons]
      rw [ingestStable_pause_resume bound s G b0 sp hI hr b, hkeq, Nat.add_assoc]

/-- **Schedule independence**: two budget schedules that both run the ingestion to completion end
    in the same canister state (all fields) with the same `didWork` flag. -/
theorem schedule_independent_state (bound : Unstable.BoundFn) (s : State) (G : List Block)
    (hI : Inv s G) (b0 c0 : Nat) (bs cs : List Nat) (s1 s2 : State) (w1 w2 : Bool)
    (h1 : stableRounds bound (s.ingestStable bound b0) bs = .done s1 w1)
    (h2 : stableRounds bound (s.ingestStable bound c0) cs = .done s2 w2) :
    s1 = s2 ∧ w1 = w2 := by
  obtain ⟨k1, _, e1⟩ := stableRounds_eq bound s G hI bs b0
  obtain ⟨k2, _, e2⟩ := stableRounds_eq bound s G hI cs c0
  rw [e1] at h1
  rw [e2] at h2
  have a := ingestStable_done_mono bound s G _ s1 w1 hI h1 (c0 + (cs.take k2).sum)
  have b := ingestStable_done_mono bound s G _ s2 w2 hI h2 (b0 + (bs.take k1).sum)
  rw [Nat.add_comm] at b
  rw [a] at b
  simp only [State.IngestResult.done.injEq] at b
  exact b

/-- in particular the sliced run ends in the state of the run in which nothing was sliced -/
theorem sliced_equals_unsliced_state (bound : Unstable.BoundFn) (s : State) (G : List Block)
    (hI : Inv s G) (b0 : Nat) (bs : List Nat) (s1 : State) (w1 : Bool)
    (h1 : stableRounds bound (s.ingestStable bound b0) bs = .done s1 w1) :
    s.ingestStable bound (b0 + bs.sum) = .done s1 w1 := by
  obtain ⟨k, _, e⟩ := stableRounds_eq bound s G hI bs b0
  rw [e] at h1
  have := ingestStable_done_mono bound s G _ s1 w1 hI h1 (bs.drop k).sum
  have hs : b0 + (bs.take k).sum + (bs.drop k).sum = b0 + bs.sum := by
    have := take_sum_le bs k; omega
  rw [hs] at this
  exact this


/-! ## Examples -/

namespace Example

/-- address `[1]` holds `(9,0)` (height 1) and `(1,0)` (height 0) -/
def u0 : UtxoSet :=
  { utxos := [(⟨9, 0⟩, (⟨50, some [1], false⟩, 1)), (⟨1, 0⟩, (⟨30, some [1], false⟩, 0))],
    index := [⟨[1], 1, ⟨9, 0⟩⟩, ⟨[1], 0, ⟨1, 0⟩⟩],
    balances := [([1], 80)], nextHeight := 2 }

/-- a coinbase and a transaction spending `(9,0)` into two outputs: 4 budgeted steps -/
def blk : Block :=
  { hash := 7, prev := 6, diff := 1, time := 0, bits := 0, header := "",
    txs := [{ txid := 20, coinbase := true, vsize := 1, ins := [], outs := [⟨25, some [2], false⟩] },
            { txid := 21, coinbase := false, vsize := 1, ins := [⟨9, 0⟩],
              outs := [⟨40, some [3], false⟩, ⟨10, some [1], false⟩] }] }

example : blockWork blk = 4 := by decide

/-- one step per round: four rounds, same result as the unsliced call (state and budget left) -/
example : InvIngest.doneView (ingestSliced u0 blk 1 [1, 1, 1]) =
    InvIngest.doneView (u0.ingestBlock blk 4) := by decide

example : (InvIngest.doneView (u0.ingestBlock blk 4)).isSome = true := by decide

/-- uneven rounds, with idle (budget 0) rounds in between -/
example : InvIngest.doneView (ingestSliced u0 blk 0 [2, 0, 0, 1, 5]) =
    InvIngest.doneView (u0.ingestBlock blk 8) := by decide

def isPausedB : RoundResult → Bool
  | .paused _ => true
  | _ => false

/-- three rounds of one step are not enough: still paused -/
example : isPausedB (ingestSliced u0 blk 1 [1, 1]) = true := by decide

/-- the set after two steps (coinbase output inserted, `(9,0)` removed) -/
def pausedSet : Option UtxoSet :=
  match u0.ingestBlock blk 2 with
  | .paused u1 => some u1
  | _ => none

/-- while paused: balance and `get_utxo` are those of before … -/
example : pausedSet.map (fun u1 => (u1.getBalance [1], u1.getUtxo ⟨9, 0⟩, u1.getBalance [2])) =
    some (u0.getBalance [1], u0.getUtxo ⟨9, 0⟩, u0.getBalance [2]) := by decide

/-- … the raw set is not (`utxos_length`, finding F10) … -/
example : pausedSet.map (fun u1 => u1.utxos.length) = some 2 ∧ u0.utxos.length = 2 ∧
    (match u0.ingestBlock blk 1 with | .paused u1 => u1.utxos.length | _ => 0) = 3 := by decide

/-- the two sequences `get_address_outpoints` merges while an ingestion is in progress -/
def mergeInputs (u : UtxoSet) (a : Addr) : List OutPoint × List OutPoint :=
  match u.ingesting with
  | some b =>
    ((((u.rangeScan a none).filter (fun e => e.addr == a)).map (·.op)).filter
        (fun o => !((b.delta.addedOf a).contains o)), b.delta.removedOf a)
  | none => ((((u.rangeScan a none).filter (fun e => e.addr == a)).map (·.op)), [])

theorem getAddressOutpoints_eq_merge (u : UtxoSet) (a : Addr) :
    u.getAddressOutpoints a none = multiIter OutPoint.lt (mergeInputs u a).1 (mergeInputs u a).2 := by
  unfold getAddressOutpoints mergeInputs
  cases u.ingesting with
  | none => simp [List.filter_eq_self.2 (fun _ _ => rfl)]
  | some b => rfl

/-- … and `get_address_outpoints` re-adds the spent outpoint in *outpoint* order, not in height
    order: before the block the sequence is `[(9,0), (1,0)]` (heights 1, 0); while paused the
    stable scan yields `[(1,0)]`, the delta's removed set `[(9,0)]`, and the merge by `OutPoint`
    order gives `[(1,0), (9,0)]`. This is why the filter by the removed set `R` of the applied
    anchor in the queries matters (`getAddressOutpoints_paused`, `addressUtxos_invisible`). -/
example : mergeInputs u0 [1] = ([⟨9, 0⟩, ⟨1, 0⟩], []) ∧
    pausedSet.map (fun u1 => mergeInputs u1 [1]) = some ([⟨1, 0⟩], [⟨9, 0⟩]) := by decide

example : multiIter OutPoint.lt [(⟨9, 0⟩ : OutPoint), ⟨1, 0⟩] [] = [⟨9, 0⟩, ⟨1, 0⟩] ∧
    multiIter OutPoint.lt [(⟨1, 0⟩ : OutPoint)] [⟨9, 0⟩] = [⟨1, 0⟩, ⟨9, 0⟩] := by
  constructor
  · rw [multiIter_nil_right]
  · rw [multiIter_cons, multiIter_aux_cons]
    have : OutPoint.lt ⟨1, 0⟩ ⟨9, 0⟩ = true := by decide
    simp only [this, if_true, multiIter_nil_left]

/-- the hypotheses of section 3 are satisfiable: the example state pauses with budget 0, hence
    (`ingestStable_paused`) it is `PausedAt` its anchor -/
example : (match InvIngest.Example.st.ingestStable InvIngest.Example.bound0 0 with
    | .paused _ => true | _ => false) = true := by decide

example : ∃ sp popped sk A, InvIngest.Example.st.ingestStable InvIngest.Example.bound0 0 = .paused sp ∧
    Inv sk ([] ++ popped) ∧ PausedAt sk sp ([] ++ popped) A := by
  cases h : InvIngest.Example.st.ingestStable InvIngest.Example.bound0 0 with
  | paused sp =>
    obtain ⟨popped, sk, A, h1, h2⟩ := ingestStable_paused InvIngest.Example.bound0 _ [] 0 sp
      InvIngest.Example.st_inv h
    exact ⟨sp, popped, sk, A, rfl, h1, h2⟩
  | done s' w =>
    have : (match InvIngest.Example.st.ingestStable InvIngest.Example.bound0 0 with
      | .paused _ => true | _ => false) = true := by decide
    rw [h] at this; cases this
  | trap m =>
    have : (match InvIngest.Example.st.ingestStable InvIngest.Example.bound0 0 with
      | .paused _ => true | _ => false) = true := by decide
    rw [h] at this; cases this

/-- state level: the two-block tree of `InvIngest.Example` ingested in rounds of one step -/
example : InvIngest.Example.view
      (stableRounds InvIngest.Example.bound0
        (InvIngest.Example.st.ingestStable InvIngest.Example.bound0 0) [0, 1, 3]) =
    InvIngest.Example.view (InvIngest.Example.st.ingestStable InvIngest.Example.bound0 4) := by decide

end Example

end Btc.Props.C08
