import BtcModel.Lemmas.Header

/-!
# C11 — header acceptance equals the Bitcoin consensus header rules

Property theorems only (helper lemmas live in `Lemmas/Header.lean`, the reference statement of the
consensus rule in `Spec/Consensus.lean`).  The model (`Model/Header.lean`) mirrors
`validation/src/header/mod.rs`, `validation/src/constants.rs` and the pieces of rust-bitcoin's
`pow.rs` they call.
-/
namespace Btc.Props.C11
open Btc.Header Btc.Spec.Consensus List
open Btc.Tree (Net)

/-! ## 1. Accept ⇔ conjunction of the consensus rules; error precedence -/

/-- The checks of `validate_header` in the order in which they are made. -/
theorem validateHeader_eq (net : Net) (s : Store) (h : Hdr) (now : Nat) :
    validateHeader net s h now =
      match s.getByHash h.prev with
      | none => .err .prevHeaderNotFound
      | some prev =>
        if h.time > now + 7200 then .err .tooFarInFuture
        else if h.time ≤ medianPast s h then .err .headerIsOld
        else if fromCompact h.bits > maxTarget net then .err .targetDifficultyAboveMax
        else if powOk h (fromCompact h.bits) = false then .err .invalidPoWForHeaderTarget
        else match nextTarget net s prev s.height h.time with
          | none => .trap
          | some required =>
            if fromCompact h.bits ≠ required then .err .invalidPoWForComputedTarget else .ok := by
  unfold validateHeader
  rw [timestampCheck_eq]
  cases s.getByHash h.prev with
  | none => rfl
  | some prev =>
    simp only
    by_cases h1 : h.time > now + 7200
    · simp only [h1, if_true]
    by_cases h2 : h.time ≤ medianPast s h
    · simp only [h1, h2, if_true, if_false]
    by_cases h3 : fromCompact h.bits > maxTarget net
    · simp only [h1, h2, h3, if_true, if_false]
    simp only [h1, h2, h3, if_false]
    cases powOk h (fromCompact h.bits) <;> simp <;> rfl

/-- **Accept ⇔ all consensus rules hold.** -/
theorem accept_iff (net : Net) (s : Store) (h : Hdr) (now : Nat) :
    validateHeader net s h now = .ok ↔
      ∃ prev, s.getByHash h.prev = some prev ∧
        h.time ≤ now + 7200 ∧
        medianPast s h < h.time ∧
        fromCompact h.bits ≤ maxTarget net ∧
        powOk h (fromCompact h.bits) = true ∧
        nextTarget net s prev s.height h.time = some (fromCompact h.bits) := by
  rw [validateHeader_eq]
  cases hp : s.getByHash h.prev with
  | none => simp
  | some prev =>
    simp only [Option.some.injEq, exists_eq_left']
    by_cases h1 : h.time > now + 7200
    · simp only [h1, if_true]; constructor
      · intro x; cases x
      · intro x; omega
    by_cases h2 : h.time ≤ medianPast s h
    · simp only [h1, h2, if_true, if_false]; constructor
      · intro x; cases x
      · intro x; omega
    by_cases h3 : fromCompact h.bits > maxTarget net
    · simp only [h1, h2, h3, if_true, if_false]; constructor
      · intro x; cases x
      · intro x; omega
    by_cases h4 : powOk h (fromCompact h.bits) = false
    · simp only [h1, h2, h3, h4, if_true, if_false]; constructor
      · intro x; cases x
      · intro x; simp at x
    have h4' : powOk h (fromCompact h.bits) = true := by simpa using h4
    rw [if_neg h1, if_neg h2, if_neg h3, if_neg h4]
    cases hn : nextTarget net s prev s.height h.time with
    | none => simp
    | some r =>
      dsimp only
      by_cases h5 : fromCompact h.bits = r
      · rw [if_neg (by simpa using h5)]
        exact ⟨fun _ => ⟨by omega, by omega, by omega, h4', by rw [h5]⟩, fun _ => rfl⟩
      · rw [if_pos h5]
        constructor
        · intro x; cases x
        · intro x; exact absurd (Option.some.inj x.2.2.2.2).symm h5

/-! ### Error precedence: which verdict is reported when several rules fail -/

/-- case analysis following the order of the checks; leaves have the verdict computed -/
local macro "verdict_cases" s:ident h:ident now:ident net:ident : tactic => `(tactic| (
  rw [validateHeader_eq]
  cases hp : Store.getByHash $s (Hdr.prev $h) with
  | none => simp
  | some prev =>
    dsimp only
    by_cases h1 : Hdr.time $h > $now + 7200
    · rw [if_pos h1]; first | (simp; done) | (simp; omega)
    rw [if_neg h1]
    by_cases h2 : Hdr.time $h ≤ medianPast $s $h
    · rw [if_pos h2]; first | (simp; done) | (simp; omega)
    rw [if_neg h2]
    by_cases h3 : fromCompact (Hdr.bits $h) > maxTarget $net
    · rw [if_pos h3]; first | (simp; done) | (simp; omega)
    rw [if_neg h3]
    by_cases h4 : powOk $h (fromCompact (Hdr.bits $h)) = false
    · rw [if_pos h4]; first | (simp [h4]; done) | (simp [h4]; omega)
    rw [if_neg h4]
    have h4' : powOk $h (fromCompact (Hdr.bits $h)) = true := by simpa using h4
    cases hn : nextTarget $net $s prev (Store.height $s) (Hdr.time $h) with
    | none => dsimp only; first | (simp [h4', hn]; done) | (simp [h4', hn]; omega)
    | some r =>
      dsimp only
      by_cases h5 : fromCompact (Hdr.bits $h) = r
      · rw [if_neg (by simpa using h5)]; subst h5; first | (simp [h4', hn]; done) | (simp [h4', hn]; omega)
      · rw [if_pos h5]; first | (simp [h4', h5, hn]; done) | (simp [h4', h5, hn]; omega)))

theorem prevHeaderNotFound_iff (net : Net) (s : Store) (h : Hdr) (now : Nat) :
    validateHeader net s h now = .err .prevHeaderNotFound ↔ s.getByHash h.prev = none := by
  verdict_cases s h now net

theorem tooFarInFuture_iff (net : Net) (s : Store) (h : Hdr) (now : Nat) :
    validateHeader net s h now = .err .tooFarInFuture ↔
      (∃ prev, s.getByHash h.prev = some prev) ∧ h.time > now + 7200 := by
  verdict_cases s h now net

theorem headerIsOld_iff (net : Net) (s : Store) (h : Hdr) (now : Nat) :
    validateHeader net s h now = .err .headerIsOld ↔
      (∃ prev, s.getByHash h.prev = some prev) ∧ h.time ≤ now + 7200 ∧ h.time ≤ medianPast s h := by
  verdict_cases s h now net

theorem targetDifficultyAboveMax_iff (net : Net) (s : Store) (h : Hdr) (now : Nat) :
    validateHeader net s h now = .err .targetDifficultyAboveMax ↔
      (∃ prev, s.getByHash h.prev = some prev) ∧ h.time ≤ now + 7200 ∧ medianPast s h < h.time ∧
        maxTarget net < fromCompact h.bits := by
  verdict_cases s h now net

theorem invalidPoWForHeaderTarget_iff (net : Net) (s : Store) (h : Hdr) (now : Nat) :
    validateHeader net s h now = .err .invalidPoWForHeaderTarget ↔
      (∃ prev, s.getByHash h.prev = some prev) ∧ h.time ≤ now + 7200 ∧ medianPast s h < h.time ∧
        fromCompact h.bits ≤ maxTarget net ∧ powOk h (fromCompact h.bits) = false := by
  verdict_cases s h now net

theorem invalidPoWForComputedTarget_iff (net : Net) (s : Store) (h : Hdr) (now : Nat) :
    validateHeader net s h now = .err .invalidPoWForComputedTarget ↔
      ∃ prev required, s.getByHash h.prev = some prev ∧ h.time ≤ now + 7200 ∧
        medianPast s h < h.time ∧ fromCompact h.bits ≤ maxTarget net ∧
        powOk h (fromCompact h.bits) = true ∧
        nextTarget net s prev s.height h.time = some required ∧ fromCompact h.bits ≠ required := by
  verdict_cases s h now net

/-- the model's `trap` = the Rust panics ("Last adjustment header must exist" / "previous header
    should be in the header store"): reached only after all earlier checks passed -/
theorem trap_iff (net : Net) (s : Store) (h : Hdr) (now : Nat) :
    validateHeader net s h now = .trap ↔
      ∃ prev, s.getByHash h.prev = some prev ∧ h.time ≤ now + 7200 ∧
        medianPast s h < h.time ∧ fromCompact h.bits ≤ maxTarget net ∧
        powOk h (fromCompact h.bits) = true ∧ nextTarget net s prev s.height h.time = none := by
  verdict_cases s h now net

/-! ## 2. Median time past -/

/-- the timestamps gathered by `is_timestamp_valid` are exactly the spec's `mtpTimes` -/
theorem ancestorTimes_eq_mtpTimes (s : Store) (h : Hdr) :
    ancestorTimes s (s.initialHash.getD 0) 11 h.prev = mtpTimes s h :=
  ancestorTimes_eq_map_ancestors _ _ _ _

/-- at most 11 timestamps -/
theorem mtpTimes_length_le_11 (s : Store) (h : Hdr) : (mtpTimes s h).length ≤ 11 :=
  mtpTimes_length_le s h

/-- they are the timestamps of the first `min 11 (available)` headers of the complete ancestor
    chain of `h` (parent first, ending with the store's initial header) -/
theorem mtpTimes_eq_take {s : Store} {h : Hdr} {l : List Hdr}
    (hc : Chain s (s.initialHash.getD 0) h.prev l) :
    mtpTimes s h = (l.take 11).map (·.time) ∧ (mtpTimes s h).length = min 11 l.length := by
  unfold mtpTimes
  rw [ancestors_eq_take_of_chain hc]
  simp

/-- `sortNat` (the model of `sort_unstable`) returns a sorted permutation -/
theorem sortNat_sorted_perm (l : List Nat) :
    (sortNat l).Pairwise (· ≤ ·) ∧ (sortNat l).Perm l :=
  ⟨sortNat_sorted l, sortNat_perm l⟩

/-- the value the model compares the header time with (`times[times.len() / 2]` of the sorted
    ancestor times) is the spec's median time past … -/
theorem model_median_eq_medianPast (s : Store) (h : Hdr) :
    let times := sortNat (ancestorTimes s (s.initialHash.getD 0) 11 h.prev)
    times.getD (times.length / 2) 0 = medianPast s h := by
  simp only [sortNat_length, sortNat_getD_eq_upperMedian, ancestorTimes_eq_mtpTimes]
  rfl

/-- … which is the upper median (rank `⌊n/2⌋`; the middle element for odd `n`) of the ancestor
    timestamps whenever the parent is known -/
theorem medianPast_isUpperMedian {s : Store} {h prev : Hdr} (hp : s.getByHash h.prev = some prev) :
    IsUpperMedian (mtpTimes s h) (medianPast s h) :=
  upperMedian_spec _ (mtpTimes_ne_nil hp)

/-- the upper median is unique, so `medianPast` is determined by `IsUpperMedian` -/
theorem medianPast_unique {s : Store} {h : Hdr} {m : Nat}
    (hm : IsUpperMedian (mtpTimes s h) m) (hne : mtpTimes s h ≠ []) : m = medianPast s h :=
  isUpperMedian_unique hm (upperMedian_spec _ hne)

/-! ## 3. The required target, network by network -/

/-- regtest never retargets -/
theorem regtest_boundary (s : Store) (prev : Hdr) (prevHeight time : Nat)
    (hb : (prevHeight + 1) % 2016 = 0) :
    nextTarget .regtest s prev prevHeight time = some (fromCompact prev.bits) := by
  simp [nextTarget, computeNextDifficulty, difficultyAdjustmentInterval, hb, noPowRetargeting]

/-- testnet / regtest, off the retarget boundary: the 20-minute minimum-difficulty exception -/
theorem minDifficulty_exception (net : Net) (hnet : net ≠ .mainnet) (s : Store) (prev : Hdr)
    (prevHeight time : Nat) (hb : (prevHeight + 1) % 2016 ≠ 0) (ht : time > prev.time + 1200) :
    nextTarget net s prev prevHeight time = some (maxTarget net) := by
  cases net <;> simp_all [nextTarget, difficultyAdjustmentInterval, tenMinutes]

/-- testnet / regtest, off the boundary, within 20 minutes: the walk-back over the chain of `prev`
    (`l = prev :: parent :: …`), i.e. the bits of the nearest ancestor-or-self whose bits differ
    from the limit or whose height is a multiple of 2016 (see `walkBack_eq_first`,
    `walkBack_exhausted`) -/
theorem walkBack_rule (net : Net) (hnet : net ≠ .mainnet) (s : Store) (prev : Hdr)
    (prevHeight time : Nat) (hb : (prevHeight + 1) % 2016 ≠ 0) (ht : time ≤ prev.time + 1200)
    {l : List Hdr} {b : Bool} (hc : SelfChain s (s.initialHash.getD 0) prev l b) :
    nextTarget net s prev prevHeight time =
      (walkBack (powLimitBits net) b l prevHeight).map fromCompact := by
  have hw := findNextDifficulty_eq_walkBack (net := net) hc prevHeight (prevHeight + 2) (by omega)
  have ht' : ¬ time > prev.time + 1200 := by omega
  have ht'' : ¬ prev.time + 1200 < time := by omega
  cases net
  · exact absurd rfl hnet
  all_goals simp [nextTarget, difficultyAdjustmentInterval, tenMinutes, hb, ht'', hw]

/-- the walk-back picks the first header of the chain that stops it … -/
theorem walkBack_rule_first (net : Net) (hnet : net ≠ .mainnet) (s : Store) (prev : Hdr)
    (prevHeight time : Nat) (hb : (prevHeight + 1) % 2016 ≠ 0) (ht : time ≤ prev.time + 1200)
    {l : List Hdr} {b : Bool} (hc : SelfChain s (s.initialHash.getD 0) prev l b)
    (i : Nat) (hi : i < l.length)
    (hbefore : ∀ j (_ : j < i), l[j].bits = powLimitBits net ∧ (prevHeight - j) % 2016 ≠ 0)
    (hat : l[i].bits ≠ powLimitBits net ∨ (prevHeight - i) % 2016 = 0) :
    nextTarget net s prev prevHeight time = some (fromCompact l[i].bits) := by
  rw [walkBack_rule net hnet s prev prevHeight time hb ht hc,
    walkBack_eq_first _ _ _ _ i hi hbefore hat]; rfl

/-- … yields the minimum difficulty if the walk reaches the initial header without finding one … -/
theorem walkBack_rule_exhausted (net : Net) (hnet : net ≠ .mainnet) (s : Store) (prev : Hdr)
    (prevHeight time : Nat) (hb : (prevHeight + 1) % 2016 ≠ 0) (ht : time ≤ prev.time + 1200)
    {l : List Hdr} (hc : SelfChain s (s.initialHash.getD 0) prev l true)
    (hall : ∀ j (_ : j < l.length), l[j].bits = powLimitBits net ∧ (prevHeight - j) % 2016 ≠ 0) :
    nextTarget net s prev prevHeight time = some (maxTarget net) := by
  rw [walkBack_rule net hnet s prev prevHeight time hb ht hc,
    walkBack_exhausted _ _ _ _ hall, ← fromCompact_powLimitBits]; rfl

/-- … and is undefined (the Rust code panics: "previous header should be in the header store")
    exactly when the walk reaches a header that is neither non-limit nor at a boundary nor the
    initial header and whose parent is absent from the store (see `selfChain_broken_last`) -/
theorem walkBack_rule_trap_iff (net : Net) (hnet : net ≠ .mainnet) (s : Store) (prev : Hdr)
    (prevHeight time : Nat) (hb : (prevHeight + 1) % 2016 ≠ 0) (ht : time ≤ prev.time + 1200)
    {l : List Hdr} {b : Bool} (hc : SelfChain s (s.initialHash.getD 0) prev l b) :
    nextTarget net s prev prevHeight time = none ↔
      b = false ∧ ∀ j (_ : j < l.length), l[j].bits = powLimitBits net ∧ (prevHeight - j) % 2016 ≠ 0 := by
  rw [walkBack_rule net hnet s prev prevHeight time hb ht hc, Option.map_eq_none_iff,
    walkBack_eq_none_iff]

/-- mainnet off the boundary: unchanged -/
theorem mainnet_off_boundary (s : Store) (prev : Hdr) (prevHeight time : Nat)
    (hb : (prevHeight + 1) % 2016 ≠ 0) :
    nextTarget .mainnet s prev prevHeight time = some (fromCompact prev.bits) := by
  simp [nextTarget, computeNextDifficulty, difficultyAdjustmentInterval, hb]

/-- mainnet at a boundary: retarget from `prev.bits` over the time from the period's first block -/
theorem mainnet_boundary (s : Store) (prev first : Hdr) (prevHeight time : Nat)
    (hb : (prevHeight + 1) % 2016 = 0)
    (hf : s.getByHeight (prevHeight + 1 - 2016) = some first) :
    nextTarget .mainnet s prev prevHeight time =
      some (fromCompact (fromNextWorkRequired .mainnet prev.bits (prev.time - first.time))) := by
  rw [show prevHeight + 1 - 2016 = prevHeight - 2015 by omega] at hf
  simp [nextTarget, computeNextDifficulty, difficultyAdjustmentInterval, hb, noPowRetargeting, hf]

/-- testnet4 at a boundary (BIP94): the base is the bits of the period's first block -/
theorem testnet_boundary (s : Store) (prev first : Hdr) (prevHeight time : Nat)
    (hb : (prevHeight + 1) % 2016 = 0)
    (hf : s.getByHeight (prevHeight + 1 - 2016) = some first) :
    nextTarget .testnet s prev prevHeight time =
      some (fromCompact (fromNextWorkRequired .testnet first.bits (prev.time - first.time))) := by
  rw [show prevHeight + 1 - 2016 = prevHeight - 2015 by omega] at hf
  simp [nextTarget, computeNextDifficulty, difficultyAdjustmentInterval, hb, noPowRetargeting, hf]

/-- at a boundary of a retargeting network the rule is undefined (Rust panic "Last adjustment
    header must exist") exactly when the period's first block is not available -/
theorem boundary_trap_iff (net : Net) (hnet : net ≠ .regtest) (s : Store) (prev : Hdr)
    (prevHeight time : Nat) (hb : (prevHeight + 1) % 2016 = 0) :
    nextTarget net s prev prevHeight time = none ↔
      s.getByHeight (prevHeight + 1 - 2016) = none := by
  rw [show prevHeight + 1 - 2016 = prevHeight - 2015 by omega]
  cases net with
  | regtest => exact absurd rfl hnet
  | mainnet =>
    cases hf : s.getByHeight (prevHeight - 2015) <;>
      simp [nextTarget, computeNextDifficulty, difficultyAdjustmentInterval, hb, noPowRetargeting, hf]
  | testnet =>
    cases hf : s.getByHeight (prevHeight - 2015) <;>
      simp [nextTarget, computeNextDifficulty, difficultyAdjustmentInterval, hb, noPowRetargeting, hf]

/-- **The required target is Bitcoin Core's `GetNextWorkRequired`** (`requiredBits` of the spec),
    for every network, given the chain of `prev` (needed off mainnet only) and provided the base
    targets of a retarget do not exceed the network maximum (true of every validated header). -/
theorem nextTarget_eq_requiredBits (net : Net) (s : Store) (prev : Hdr) (prevHeight time : Nat)
    {l : List Hdr} {b : Bool}
    (hc : net ≠ .mainnet → SelfChain s (s.initialHash.getD 0) prev l b)
    (hbase : ∀ x, (x = prev ∨ s.getByHeight (prevHeight + 1 - 2016) = some x) →
      fromCompact x.bits ≤ maxTarget net) :
    nextTarget net s prev prevHeight time =
      (requiredBits net l b (s.getByHeight (prevHeight + 1 - 2016)) prev prevHeight time).map
        fromCompact := by
  unfold requiredBits interval twentyMinutes
  by_cases hb : (prevHeight + 1) % 2016 = 0
  · rw [if_pos hb]
    cases net with
    | regtest => simp [regtest_boundary _ _ _ _ hb]
    | mainnet =>
      cases hf : s.getByHeight (prevHeight + 1 - 2016) with
      | none => simp [(boundary_trap_iff .mainnet (by decide) s prev prevHeight time hb).mpr hf]
      | some first =>
        rw [mainnet_boundary s prev first prevHeight time hb hf,
          fromNextWorkRequired_eq_retargetBits .mainnet (by decide) _ _ (hbase prev (Or.inl rfl))]
        rfl
    | testnet =>
      cases hf : s.getByHeight (prevHeight + 1 - 2016) with
      | none => simp [(boundary_trap_iff .testnet (by decide) s prev prevHeight time hb).mpr hf]
      | some first =>
        rw [testnet_boundary s prev first prevHeight time hb hf,
          fromNextWorkRequired_eq_retargetBits .testnet (by decide) _ _ (hbase first (Or.inr hf))]
        rfl
  · rw [if_neg hb]
    cases net with
    | mainnet => simp [mainnet_off_boundary _ _ _ _ hb]
    | testnet =>
      by_cases ht : time > prev.time + 1200
      · rw [minDifficulty_exception .testnet (by decide) s prev prevHeight time hb ht]
        simp [ht, fromCompact_powLimitBits]
      · rw [walkBack_rule .testnet (by decide) s prev prevHeight time hb (by omega) (hc (by decide))]
        simp [ht]
    | regtest =>
      by_cases ht : time > prev.time + 1200
      · rw [minDifficulty_exception .regtest (by decide) s prev prevHeight time hb ht]
        simp [ht, fromCompact_powLimitBits]
      · rw [walkBack_rule .regtest (by decide) s prev prevHeight time hb (by omega) (hc (by decide))]
        simp [ht]

/-! ## 4. The retarget clamp and the compact encoding -/

/-- the 4x clamp: with `T` the base target, the unrounded retarget
    `r = T * clamp(timespan, 302400, 4838400) / 1209600` satisfies `T/4 ≤ r ≤ 4*T` -/
theorem retarget_clamp (baseBits timespan : Nat) :
    fromCompact baseBits / 4 ≤
        fromCompact baseBits * max 302400 (min timespan 4838400) / 1209600 ∧
      fromCompact baseBits * max 302400 (min timespan 4838400) / 1209600 ≤
        4 * fromCompact baseBits :=
  unroundedRetarget_bounds baseBits timespan

/-- the result of `from_next_work_required` on mainnet / testnet is the unrounded retarget capped
    by `min (4·T mod 2^256) (maxTarget net)`, re-encoded in compact form -/
theorem retarget_result (net : Net) (hnet : net ≠ .regtest) (last timespan : Nat) :
    fromNextWorkRequired net last timespan =
      toCompactLossy (min (fromCompact last * max 302400 (min timespan 4838400) / 1209600)
        (min (fromCompact last * 4 % 2 ^ 256) (maxTarget net))) :=
  fromNextWorkRequired_eq net hnet last timespan

/-- … which, for a base target that a validated header can carry, is Bitcoin Core's
    `CalculateNextWorkRequired` -/
theorem retarget_is_core (net : Net) (hnet : net ≠ .regtest) (last timespan : Nat)
    (hmax : fromCompact last ≤ maxTarget net) :
    fromNextWorkRequired net last timespan = retargetBits net last timespan :=
  fromNextWorkRequired_eq_retargetBits net hnet last timespan hmax

/-- monotonicity in the timespan of the capped, not yet re-encoded retarget -/
theorem retarget_mono (net : Net) (last : Nat) {t t' : Nat} (h : t ≤ t') :
    min (unroundedRetarget last t) (min (fromCompact last * 4 % 2 ^ 256) (maxTarget net)) ≤
      min (unroundedRetarget last t') (min (fromCompact last * 4 % 2 ^ 256) (maxTarget net)) := by
  have := unroundedRetarget_mono last h
  omega

/-- a period that took exactly two weeks leaves the target unchanged (before re-encoding) -/
theorem retarget_on_schedule (baseBits : Nat) :
    unroundedRetarget baseBits 1209600 = fromCompact baseBits :=
  unroundedRetarget_on_schedule baseBits

/-- regtest: `from_next_work_required` is the identity on the bits -/
theorem retarget_regtest (last timespan : Nat) :
    fromNextWorkRequired .regtest last timespan = last :=
  fromNextWorkRequired_regtest last timespan

/-- the lossy compact encoding only rounds down -/
theorem compact_roundtrip_le (t : Nat) : fromCompact (toCompactLossy t) ≤ t :=
  fromCompact_toCompactLossy_le t

/-- hence the re-encoded retarget never exceeds the network maximum nor four times the base -/
theorem retarget_le_max (net : Net) (hnet : net ≠ .regtest) (last timespan : Nat) :
    fromCompact (fromNextWorkRequired net last timespan) ≤ maxTarget net ∧
      fromCompact (fromNextWorkRequired net last timespan) ≤ 4 * fromCompact last := by
  rw [fromNextWorkRequired_eq net hnet]
  have h1 := fromCompact_toCompactLossy_le (min (unroundedRetarget last timespan)
    (min (fromCompact last * 4 % 2 ^ 256) (maxTarget net)))
  have h2 := (unroundedRetarget_bounds last timespan).2
  omega

/-- the proof-of-work limit bits decode to the network maximum -/
theorem powLimit_decodes (net : Net) : fromCompact (powLimitBits net) = maxTarget net :=
  fromCompact_powLimitBits net

theorem powLimit_mainnet : fromCompact 0x1d00ffff = 0xFFFF * 2 ^ 208 := fromCompact_mainnet_limit
theorem powLimit_regtest : fromCompact 0x207fffff = 0x7FFFFF * 2 ^ 232 := fromCompact_regtest_limit
/-- the two ways of writing the regtest maximum agree: `0x7FFFFF00·2^224 = 0x7FFFFF·2^232` -/
theorem maxTarget_regtest : maxTarget .regtest = 0x7FFFFF * 2 ^ 232 := maxTarget_regtest_eq

/-! ## 5. Concrete instances -/

namespace Ex

def g : Hdr := { hash := 1, prev := 0, time := 100, bits := 0x207fffff }
def a : Hdr := { hash := 2, prev := 1, time := 200, bits := 0x207fffff }
def b : Hdr := { hash := 3, prev := 2, time := 300, bits := 0x207fffff }

/-- a regtest store holding the chain `g ← a ← b` (tip height 2) -/
def store : Store :=
  { getByHash := fun x => if x = 1 then some g else if x = 2 then some a else if x = 3 then some b else none
    getByHeight := fun k => [g, a, b][k]?
    height := 2 }

def good : Hdr := { hash := 4, prev := 3, time := 400, bits := 0x207fffff }
def tooOld : Hdr := { good with time := 200 }
def wrongBits : Hdr := { good with bits := 0x207ffffe }
def orphan : Hdr := { good with prev := 9 }
def future : Hdr := { good with time := 400 + 7201 }

example : validateHeader .regtest store good 400 = .ok := by decide
example : mtpTimes store good = [300, 200, 100] := by decide
example : medianPast store good = 200 := by decide
example : validateHeader .regtest store tooOld 400 = .err .headerIsOld := by decide
example : validateHeader .regtest store wrongBits 400 = .err .invalidPoWForComputedTarget := by decide
example : validateHeader .regtest store orphan 400 = .err .prevHeaderNotFound := by decide
example : validateHeader .regtest store future 400 = .err .tooFarInFuture := by decide

/-- the hypotheses of the section-3 theorems are satisfiable: the chains of the example store -/
example : SelfChain store (store.initialHash.getD 0) b [b, a, g] true :=
  .step (by decide) (p := a) (by decide) (.step (by decide) (p := g) (by decide) (.stop (by decide)))
example : Chain store (store.initialHash.getD 0) good.prev [b, a, g] :=
  .step (p := b) (by decide) (by decide)
    (.step (p := a) (by decide) (by decide) (.initial (p := g) (by decide) (by decide)))
/-- the walk-back reaches the genesis header (height 0) and returns its bits -/
example : walkBack (powLimitBits .regtest) true [b, a, g] 2 = some g.bits := by decide
example : nextTarget .regtest store b 2 400 = some (maxTarget .regtest) := by decide
/-- more than 20 minutes after the parent: minimum difficulty -/
example : nextTarget .regtest store b 2 (300 + 1201) = some (maxTarget .regtest) := by decide
/-- a broken chain (parent of `x` missing) makes the walk-back undefined -/
example : nextTarget .regtest store { hash := 7, prev := 8, time := 300, bits := 0x207fffff } 2 400 = none := by
  decide

/-! mainnet: the last block (height 2015) of a first period that took one week instead of two -/
def first : Hdr := { hash := 1, prev := 0, time := 1000, bits := 0x1d00ffff }
def last : Hdr := { hash := 2, prev := 99, time := 1000 + 604800, bits := 0x1d00ffff }
def mstore : Store :=
  { getByHash := fun x => if x = 2 then some last else none
    getByHeight := fun k => if k = 0 then some first else none
    height := 2015 }

/-- the target halves: `0xFFFF·2^208 / 2` re-encoded is `0x1c7fff80` -/
example : nextTarget .mainnet mstore last 2015 (last.time + 1) = some (fromCompact 0x1c7fff80) := by
  decide
example : fromCompact 0x1c7fff80 = 0xFFFF * 2 ^ 207 := by decide
example : requiredBits .mainnet [] true (mstore.getByHeight (2015 + 1 - 2016)) last 2015 (last.time + 1)
    = some 0x1c7fff80 := by decide
/-- the hypotheses of `nextTarget_eq_requiredBits` hold for this store -/
example : ∀ x, (x = last ∨ mstore.getByHeight (2015 + 1 - 2016) = some x) →
    fromCompact x.bits ≤ maxTarget .mainnet := by
  intro x hx
  rcases hx with rfl | hx
  · decide
  · have : x = first := by simpa [mstore] using hx.symm
    subst this; decide
/-- a period of exactly two weeks leaves the bits unchanged; a very slow one hits the limit -/
example : fromNextWorkRequired .mainnet 0x1d00ffff 1209600 = 0x1d00ffff := by decide
example : fromNextWorkRequired .mainnet 0x1c00ffff (1209600 * 8) = 0x1c03fffc := by decide
example : fromNextWorkRequired .mainnet 0x1c00ffff 0 = 0x1b3fffc0 := by decide
example : fromNextWorkRequired .mainnet 0x1d00ffff (1209600 * 2) = 0x1d00ffff := by decide

/-! testnet: `tb` was mined with the 20-minute exception on top of the harder `ta` -/
def tg : Hdr := { hash := 1, prev := 0, time := 100, bits := 0x1d00ffff }
def ta : Hdr := { hash := 2, prev := 1, time := 200, bits := 0x1c00ffff }
def tb : Hdr := { hash := 3, prev := 2, time := 2000, bits := 0x1d00ffff }
def tstore : Store :=
  { getByHash := fun x => if x = 1 then some tg else if x = 2 then some ta else if x = 3 then some tb else none
    getByHeight := fun k => [tg, ta, tb][k]?
    height := 2 }

/-- within 20 minutes of `tb` the difficulty returns to that of `ta` … -/
example : nextTarget .testnet tstore tb 2 (2000 + 600) = some (fromCompact 0x1c00ffff) := by decide
/-- … after 20 minutes the minimum difficulty is allowed again -/
example : nextTarget .testnet tstore tb 2 (2000 + 1201) = some (maxTarget .testnet) := by decide
example : walkBack (powLimitBits .testnet) true [tb, ta, tg] 2 = some ta.bits := by decide

end Ex

end Btc.Props.C11
