import BtcModel.Model.Types
import BtcModel.Model.Tree

/-
  Reference specifications (short enough to read in minutes).

  * `ledger`: replay of a chain of blocks from genesis — the set of outputs created and not
    spent, each with the height of its block on that chain.
  * `bestPath`: the root-to-leaf path with the greatest (accumulated difficulty, length),
    first in DFS pre-order among equals.
  * `confirmationCut`: the block named by `min_confirmations = c` (C04).
-/
namespace Btc.Spec

/-- One ledger entry: outpoint ↦ (output, height of the containing block). -/
abbrev LedgerMap := List (OutPoint × (TxOut × Nat))

def applyTx (l : LedgerMap) (height : Nat) (tx : Tx) : LedgerMap :=
  let l1 := l.filter (fun e => !(tx.ins.contains e.1))
  let created := ((List.range tx.outs.length).zip tx.outs).filterMap (fun p =>
    if p.2.opret then none else some ((⟨tx.txid, p.1⟩ : OutPoint), (p.2, height)))
  -- a later output with the same outpoint replaces an earlier one (cannot happen for valid chains)
  l1.filter (fun e => !(created.any (fun c => c.1 == e.1))) ++ created

def applyBlock (l : LedgerMap) (height : Nat) (b : Block) : LedgerMap :=
  b.txs.foldl (fun acc tx => applyTx acc height tx) l

/-- ledger after the blocks `chain`, the first of which has height `h0` -/
def ledgerFrom (l : LedgerMap) (h0 : Nat) : List Block → LedgerMap
  | [] => l
  | b :: bs => ledgerFrom (applyBlock l h0 b) (h0 + 1) bs

/-- The ledger of a chain that starts at genesis. -/
def ledger (chain : List Block) : LedgerMap := ledgerFrom [] 0 chain

/-- The unspent outputs paying exactly address `a`. -/
def ledgerFor (a : Addr) (chain : List Block) : List Utxo :=
  (ledger chain).filterMap (fun e => if e.2.1.addr == some a then some ⟨e.2.2, e.1, e.2.1.value⟩ else none)

/-- canonical presentation order for comparing sets of UTXOs: height descending, outpoint -/
def canonical (l : List Utxo) : List Utxo := sortBy Utxo.lt l

/-! ### Best chain oracle -/

mutual
/-- all root-to-leaf paths, in DFS pre-order -/
def paths {α : Type} : Tree α → List (List α)
  | .node r [] => [[r]]
  | .node r (c :: cs) => (pathsList (c :: cs)).map (fun p => r :: p)
def pathsList {α : Type} : List (Tree α) → List (List α)
  | [] => []
  | c :: cs => paths c ++ pathsList cs
end

def pathKey {α : Type} (d : α → Nat) (p : List α) : Nat × Nat :=
  ((p.map d).foldl (· + ·) 0, p.length)

/-- first path with the maximal key -/
def firstMax {α : Type} (d : α → Nat) : List (List α) → List α → List α
  | [], best => best
  | p :: ps, best => if Tree.keyGt (pathKey d p) (pathKey d best) then firstMax d ps p else firstMax d ps best

/-- The heaviest branch: greatest accumulated difficulty, then more blocks, then received first. -/
def bestPath {α : Type} (d : α → Nat) (t : Tree α) : List α := firstMax d (paths t) []

/-! ### The block named by a confirmation filter (C04) -/

mutual
/-- all subtrees paired with their height relative to the root -/
def subtreesAt {α : Type} : Tree α → Nat → List (Nat × Tree α)
  | .node r cs, h => (h, .node r cs) :: subtreesAtList cs (h + 1)
def subtreesAtList {α : Type} : List (Tree α) → Nat → List (Nat × Tree α)
  | [], _ => []
  | c :: cs, h => subtreesAt c h ++ subtreesAtList cs h
end

/-- `true` iff the block with hash `x` at relative height `h` is buried under at least `c`
    blocks (itself included) on its longest descendant chain and is at least `c` deeper than
    every competing block at the same height. -/
def sufficientlyBuried {α : Type} (hash : α → Nat) (t : Tree α) (c : Nat) (h : Nat) (x : Nat) : Bool :=
  let here := (subtreesAt t 0).filter (fun p => p.1 == h)
  match here.find? (fun p => hash p.2.root == x) with
  | none => false
  | some (_, me) =>
    let myDepth := me.depth
    myDepth ≥ c && (here.all (fun p => hash p.2.root == x || myDepth ≥ p.2.depth + c))

/-- longest prefix of the best chain all of whose blocks are sufficiently buried -/
def buriedPrefix {α : Type} (hash : α → Nat) (t : Tree α) (c : Nat) : List α → Nat → List α
  | [], _ => []
  | b :: bs, h => if sufficientlyBuried hash t c h (hash b) then b :: buriedPrefix hash t c bs (h + 1) else []

end Btc.Spec
