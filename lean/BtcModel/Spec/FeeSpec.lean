import BtcModel.Model.Fees
import BtcModel.Spec.Reach

/-
  Specification of `get_current_fee_percentiles` as a function of the *history* only
  (the stable chain `G` and the best chain's unstable blocks `best`), independent of the
  tx-out cache, of the per-block cached fee rates and of the tree data structure.

  Definitions only (no proofs).  The refinement theorems are in `Props/C15Spec.lean`.
-/
namespace Btc.Spec
open Btc

/-! ### Fee and fee rate of one transaction -/

/-- Sum of the values of the outputs designated by the outpoints `ins`, resolved in the list of
    blocks `hist`; `none` if one of them designates nothing.
    (Rust: `input_sum += get_tx_out(outpoint).unwrap_or_else(panic).0.value` — the lookup goes to
    the outpoints cache, and panics if the outpoint is absent.) -/
def inputSum (hist : List Block) : List OutPoint → Option Nat
  | [] => some 0
  | o :: os =>
    match outAt hist o, inputSum hist os with
    | some t, some s => some (t.value + s)
    | _, _ => none

/-- `tx.output().iter().map(|o| o.value).sum()` -/
def outputSum (tx : Tx) : Nat := (tx.outs.map (·.value)).sum

/-- Fee of a transaction in satoshi: values of the spent outputs minus values of the outputs.
    `none` (the transaction has no fee rate) for a coinbase, when an input cannot be resolved in
    `hist`, and when the outputs exceed the inputs (`input_sum.checked_sub(output_sum)?`). -/
def txFee (hist : List Block) (tx : Tx) : Option Nat :=
  if tx.coinbase then none
  else match inputSum hist tx.ins with
    | none => none
    | some i => if outputSum tx ≤ i then some (i - outputSum tx) else none

/-- Fee rate in millisatoshi per virtual byte: `1000 * fee / vsize` (integer division);
    `none` also when `vsize = 0` (`fee_rate_per_vbyte`). -/
def feeRate (hist : List Block) (tx : Tx) : Option Nat :=
  match txFee hist tx with
  | none => none
  | some fee => if 0 < tx.vsize then some (1000 * fee / tx.vsize) else none

/-- the fee rates of the transactions of one block, in block order -/
def blockFeeRates (hist : List Block) (b : Block) : List Nat := b.txs.filterMap (feeRate hist)

/-! ### The answer -/

/-- The fee rates fed into `percentiles`: blocks of `best` (anchor first) are visited from the tip
    backwards; inside a block the transactions are visited in block order; the first `n` rates are
    kept.  Outputs are resolved in the stable chain followed by the best chain. -/
def recentFeeRates (n : Nat) (G best : List Block) : List Nat :=
  (best.reverse.flatMap (blockFeeRates (G ++ best))).take n

/-- the fresh answer: 101 nearest-rank percentiles of the recent fee rates (`[]` if there are none) -/
def feePercentilesSpec (n : Nat) (G best : List Block) : List Nat :=
  percentiles (recentFeeRates n G best)

/-- the best chain's unstable blocks (anchor first): the heaviest root path of the tree -/
def bestChain (s : State) : List Block := (bestPath CBlock.diff s.unstable.tree).map (·.blk)

/-- hash of the last block of a chain -/
def tipOf (best : List Block) : Nat := (best.getLast?.map (·.hash)).getD 0

/-- What a call returns and what it leaves in the cache, as a function of the history and the
    cache before the call: `(answer, new cache)`. -/
def feeAnswerSpec (n : Nat) (G best : List Block) (cache : Option (Nat × List Nat)) :
    List Nat × Option (Nat × List Nat) :=
  let fresh := (feePercentilesSpec n G best, some (tipOf best, feePercentilesSpec n G best))
  match cache with
  | none => fresh
  | some (h, p) =>
    if h = tipOf best then (p, cache)                         -- cached for this tip
    else if recentFeeRates n G best = [] then (p, cache)      -- nothing to report: previous answer
    else fresh

/-! ### Invariants -/

/-- The fee rates stored with a block at insertion time are the specified rates of the block on
    its own chain: the stable chain followed by the root path to the block. -/
def FeeCacheOk (s : State) (G : List Block) : Prop :=
  ∀ tip p, pathBlocks s.unstable.tree tip = some p →
    ∀ c ∈ s.unstable.tree.blocks, c.hash = tip →
      ∀ r, c.feeRates = some r → r = blockFeeRates (G ++ p) c.blk

/-- a moment of the past: the stable chain and the best chain's unstable blocks at that moment -/
abbrev Snapshot := List Block × List Block

/-- The cached answer is the fresh answer of an earlier moment at which the best chain ended in
    the block the cache is keyed by. -/
def CacheIsSpec (n : Nat) (s : State) (past : List Snapshot) : Prop :=
  ∀ h p, s.feeCache = some (h, p) →
    ∃ sn ∈ past, tipOf sn.2 = h ∧ p = feePercentilesSpec n sn.1 sn.2

/-- The transition system of `Spec/Reach.lean` extended by calls of
    `get_current_fee_percentiles_with_number_of_transactions(n)` (an update call, and part of the
    heartbeat unless `lazily_evaluate_fee_percentiles` is set).  The third component records the
    snapshots at which the endpoint was called (ghost). -/
inductive FeeReachable (bound : Unstable.BoundFn) (n : Nat) :
    State → List Block → List Snapshot → Prop where
  | init (thr : Nat) (net : Tree.Net) (genesis : Block) (s0 : State) :
      TxValid [genesis] → State.new thr net genesis = some s0 → FeeReachable bound n s0 [] []
  | step (s : State) (G : List Block) (past : List Snapshot) (op : Op) (s' : State)
      (G' : List Block) :
      FeeReachable bound n s G past → Domain (s, G) op → step bound (s, G) op = some (s', G') →
      FeeReachable bound n s' G' past
  | feeQuery (s : State) (G : List Block) (past : List Snapshot) (s' : State) (r : List Nat) :
      FeeReachable bound n s G past → s.feePercentiles n = some (s', r) →
      FeeReachable bound n s' G ((G, bestChain s) :: past)

end Btc.Spec
