import BtcModel.Spec.FetchProtocol
import BtcModel.Spec.Reach2
import BtcModel.Model.Endpoints

/-
  The *message-level* transition system of the whole canister, on pairs
  `(Fetch.Sys, ghost)`: the canister state, the request of the heartbeat suspended at its await
  (both from `Spec/FetchProtocol.lean`) and the ghost list `G` of the blocks completely ingested
  so far (as in `Spec/Reach.lean` / `Spec/Reach2.lean`).

  The messages are the ones the canister can receive: heartbeats (with any ingestion budget),
  replies of the block source (of any kind, solicited by a pending request), endpoint calls,
  `set_config`, upgrades.  A message is executed by the functions of `Model/Canister.lean` and
  `Model/Endpoints.lean`; nothing is re-defined here: heartbeats, replies, `set_config` and
  upgrades go through `Fetch.step`, calls through the `call*` functions.

  Definitions only (no proofs).  The simulation by `Spec.step2` and the invariant theorem are in
  `Lemmas/FullSys*.lean` and `Props/FullSys.lean`.
-/
namespace Btc.Spec.Full
open Btc Btc.State Btc.Spec

/-! ### Messages -/

/-- a call of one of the public endpoints (with its arguments and attached cycles) -/
inductive Call where
  | getUtxos (r : DataReq)
  | getUtxosQuery (r : DataReq)
  | getBalance (r : DataReq)
  | getBalanceQuery (r : DataReq)
  | getBlockHeaders (r : DataReq)
  | feePercentiles (r : DataReq)
  | sendTransaction (reqNet : Tree.Net) (available len : Nat) (wellFormed : Bool)

/-- the messages of the canister -/
inductive Msg where
  /-- a heartbeat with `budget` ingestion steps available -/
  | heartbeat (budget : Nat)
  /-- the block source answers the outstanding call (or the call is rejected) -/
  | reply (r : State.Reply)
  /-- `pre_upgrade`; `post_upgrade(cfg)` -/
  | upgrade (cfg : Option State.SetConfig)
  | setConfig (c : State.SetConfig)
  | call (c : Call)

/-- the state a call leaves: a trap rolls the message back -/
def stateAfter {α : Type} (s : State) : CallResult α → State
  | .trap _ => s
  | .answered _ _ s' => s'

/-- the state after an endpoint call -/
def callState (env : Env) (s : State) : Call → State
  | .getUtxos r => stateAfter s (callGetUtxos env s r)
  | .getUtxosQuery r => stateAfter s (callGetUtxosQuery env s r)
  | .getBalance r => stateAfter s (callGetBalance env s r)
  | .getBalanceQuery r => stateAfter s (callGetBalanceQuery env s r)
  | .getBlockHeaders r => stateAfter s (callGetBlockHeaders env s r)
  | .feePercentiles r => stateAfter s (callFeePercentiles env s r)
  | .sendTransaction n a l w => stateAfter s (callSendTransaction env s n a l w)

/-- configurations: canister state + pending request, and the ghost -/
abbrev Cfg := Fetch.Sys × List Block

/-- the canister part of one message: `Fetch.step` for the messages of the fetch protocol, the
    endpoint functions for calls -/
def stepSys (env : Env) (sys : Fetch.Sys) : Msg → Fetch.Sys
  | .heartbeat budget => Fetch.step env sys (.heartbeat budget)
  | .reply r => Fetch.step env sys (.reply r)
  | .upgrade cfg => Fetch.step env sys (.upgrade cfg)
  | .setConfig c => Fetch.step env sys (.setConfig c)
  | .call c => { sys with st := callState env sys.st c }

/-- the ghost part of one message, as in `Spec.step2`: a heartbeat that ingests appends the
    blocks that left the tree; nothing else changes the ghost -/
def stepGhost (env : Env) (s : State) (G : List Block) : Msg → List Block
  | .heartbeat budget =>
    match heartbeatStart env s budget with
    | .ingested s' _ => G ++ poppedAnchors s s'
    | _ => G
  | _ => G

/-- **one message** -/
def stepMsg (env : Env) (c : Cfg) (m : Msg) : Cfg :=
  (stepSys env c.1 m, stepGhost env c.1.st c.2 m)

/-- a schedule: every message comes with its own environment (time passes) -/
def run (c : Cfg) : List (Env × Msg) → Cfg
  | [] => c
  | (env, m) :: rest => run (stepMsg env c m) rest

/-! ### What a processing heartbeat does to the ledger part -/

/-- the checks of `state::insert_block` that precede `unstable_blocks::push`:
    `ValidationContext::new` succeeds, the header and the body are valid -/
def passesValidation (env : Env) (s : State) (b : Block) : Bool :=
  match validationContext s (hdrOfBlock b) with
  | .error _ => false
  | .ok chain =>
    match Header.validateHeader s.network (validationStore s chain) (hdrOfBlock b) env.now with
    | .ok => (validateBody b).isNone
    | _ => false

/-- the blocks of a response that `maybe_process_response` inserts: the longest prefix of blobs
    that decode and are accepted, one on top of the other -/
def acceptedBlocks (env : Env) : State → List String → List Block
  | _, [] => []
  | s, blob :: rest =>
    match env.dec.block blob with
    | none => []
    | some b =>
      match insertBlock env s b with
      | .ok s' => b :: acceptedBlocks env s' rest
      | _ => []

/-- the announced headers that the loop body of `insert_next_block_headers` stores when it is run
    over the whole list (headers already stored are skipped; the first undecodable / invalid /
    unconnected header ends the loop) -/
def insertedHeadersAll (env : Env) (s : State) : List String → List NextHeader
  | [] => []
  | raw :: rest =>
    match env.dec.header raw with
    | none => []
    | some h =>
      if (s.unstable.next.getHeader h.hash).isSome then insertedHeadersAll env s rest
      else
        match validationContextWithNext s (hdrOfNext h) with
        | .error _ => []
        | .ok chain =>
          match Header.validateHeader s.network (validationStore s chain) (hdrOfNext h) env.now with
          | .ok =>
            match s.unstable.insertNextHeader h s.stableHeight with
            | none => []
            | some u => h :: insertedHeadersAll env { s with unstable := u } rest
          | _ => []

/-- the announced headers that `insert_next_block_headers` stores: only the first
    `env.headerSlots` blobs are looked at (instruction threshold) -/
def insertedHeaders (env : Env) (s : State) (raws : List String) : List NextHeader :=
  insertedHeadersAll env s (raws.take env.headerSlots)

/-- the operations of `Spec.step2` a processing heartbeat amounts to, for a stored complete
    response `r`: a `push` for every accepted block, then — if no block was refused — an
    `insertNext` for every stored header -/
def processOps (env : Env) (s : State) (r : CompleteResp) : List Op :=
  let s0 : State := { s with syncing := { s.syncing with response := none } }
  (acceptedBlocks env s0 r.blocks).map Op.push ++
    match processBlocks env s0 r.blocks with
    | some (s1, false) => (insertedHeaders env s1 r.next).map Op.insertNext
    | _ => []

/-- the operations of `maybe_process_response` in state `s` -/
def finishOps (env : Env) (s : State) : List Op :=
  match s.syncing.response with
  | some (.complete r) => processOps env s r
  | _ => []

/-- the operations of `Spec.step2` one message amounts to: an ingesting heartbeat is one `ingest`,
    a processing heartbeat is `finishOps`, a heartbeat that sends a request or traps is nothing,
    replies and endpoint calls are nothing -/
def msgOps (env : Env) (s : State) : Msg → List Op
  | .heartbeat budget =>
    match heartbeatStart env s budget with
    | .ingested _ _ => [.ingest budget]
    | .processed _ => finishOps env s
    | _ => []
  | .reply _ => []
  | .upgrade cfg => [.upgrade cfg]
  | .setConfig c => [.setConfig c]
  | .call _ => []

/-! ### The environment assumption

The canister validates the *header* of a delivered block (proof of work, difficulty, timestamp:
C11) and the *shape* of its body (coinbase first, merkle root, no repeated transaction: C12).  It
does not validate the transactions: that they spend existing unspent outputs is taken on trust
from the proof of work.  `unstable_blocks::push` panics on a block spending an unknown output.
The invariant theorem therefore needs an assumption on what the block source delivers; it is
stated on the *run*: each time a heartbeat reaches `maybe_process_response` with a complete
response stored, every delivered blob that decodes to a block passing the canister's own
validation in the state in which it is examined is a `PushDomain` block there (its hash is new,
its transactions are valid on its chain and introduce no repeated transaction id), and every
announced header that passes validation and is stored carries a hash that is not the hash of an
unstable block.  (In the code a hash is the double SHA-256 of the header, so both freshness
conditions amount to collision-freeness; in the model `hash` is a free field of the block.) -/

/-- the blobs of a response, examined in the states `maybe_process_response` examines them in -/
def TrustedBlocks (env : Env) (G : List Block) : State → List String → Prop
  | _, [] => True
  | s, blob :: rest =>
    ∀ b, env.dec.block blob = some b →
      (passesValidation env s b = true → PushDomain s G b) ∧
      ∀ s', insertBlock env s b = .ok s' → TrustedBlocks env G s' rest

/-- the stored response of `s` can be trusted (see above) -/
def TrustedResponse (env : Env) (s : State) (G : List Block) : Prop :=
  ∀ r, s.syncing.response = some (.complete r) →
    let s0 : State := { s with syncing := { s.syncing with response := none } }
    TrustedBlocks env G s0 r.blocks ∧
    ∀ s1, processBlocks env s0 r.blocks = some (s1, false) →
      ∀ h ∈ insertedHeaders env s1 r.next, h.hash ∉ s1.unstable.tree.blocks.map CBlock.hash

/-- does the heartbeat get past the ingestion part (`Slicing::Done(false)`)? -/
def pastIngestion (env : Env) (s : State) (budget : Nat) : Bool :=
  match s.ingestStable env.bound budget with
  | .done _ false => true
  | _ => false

/-- **The environment assumption for one message**: only heartbeats that get past the ingestion
    part look at delivered data. -/
def Trusted (env : Env) (c : Cfg) : Msg → Prop
  | .heartbeat budget => pastIngestion env c.1.st budget = true → TrustedResponse env c.1.st c.2
  | _ => True

/-- the assumption along a schedule -/
def TrustedRun (c : Cfg) : List (Env × Msg) → Prop
  | [] => True
  | (env, m) :: rest => Trusted env c m ∧ TrustedRun (stepMsg env c m) rest

/-! ### Reachability -/

/-- **The configurations the canister can be in**: from `State::new` on a transaction-valid
    genesis block (nothing outstanding), by any sequence of messages, each in its own environment,
    for which the environment assumption holds. -/
inductive FullReachable : Fetch.Sys → List Block → Prop where
  | init (thr : Nat) (net : Tree.Net) (genesis : Block) (s0 : State) :
      TxValid [genesis] → State.new thr net genesis = some s0 →
      FullReachable { st := s0, pending := none } []
  | step (sys : Fetch.Sys) (G : List Block) (env : Env) (m : Msg) :
      FullReachable sys G → Trusted env (sys, G) m →
      FullReachable (stepMsg env (sys, G) m).1 (stepMsg env (sys, G) m).2

/-- the same, all environments using one depth bound `bound` (the bound is a fixed function in
    the code; `Spec.Reachable2` is parameterised by it) -/
inductive FullReachableB (bound : Unstable.BoundFn) : Fetch.Sys → List Block → Prop where
  | init (thr : Nat) (net : Tree.Net) (genesis : Block) (s0 : State) :
      TxValid [genesis] → State.new thr net genesis = some s0 →
      FullReachableB bound { st := s0, pending := none } []
  | step (sys : Fetch.Sys) (G : List Block) (env : Env) (m : Msg) :
      FullReachableB bound sys G → env.bound = bound → Trusted env (sys, G) m →
      FullReachableB bound (stepMsg env (sys, G) m).1 (stepMsg env (sys, G) m).2

/-! ### Simulation by `Spec.step2` up to the fields the ledger invariant does not read -/

/-- `s'` differs from `s` at most in fields the invariant `InvAll` / `PausedAt'` does not read:
    the syncing state (flags, stored response, counters), the fee-percentile cache, the fee
    table, the API flags, the `send_transaction` counter -/
structure Frame (s s' : State) : Prop where
  utxos : s'.utxos = s.utxos
  unstable : s'.unstable = s.unstable
  headers : s'.headers = s.headers

/-- a finite sequence of `Spec.step2` steps, each in its domain, interleaved with changes of
    fields outside the ledger part; `ops` lists the operations executed, in order -/
inductive FrameRun (bound : Unstable.BoundFn) :
    State × List Block → List Op → State × List Block → Prop where
  | nil (sg : State × List Block) : FrameRun bound sg [] sg
  | frame (sg : State × List Block) (s1 : State) (ops : List Op) (sg2 : State × List Block) :
      Frame sg.1 s1 → FrameRun bound (s1, sg.2) ops sg2 → FrameRun bound sg ops sg2
  | op (sg : State × List Block) (o : Op) (sg1 : State × List Block) (ops : List Op)
      (sg2 : State × List Block) :
      Domain2 sg o → step2 bound sg o = some sg1 → FrameRun bound sg1 ops sg2 →
      FrameRun bound sg (o :: ops) sg2

end Btc.Spec.Full
