import BtcModel.Spec.Reach

/-
  The transition system of `Spec/Reach.lean` extended by *time-sliced ingestion*: an
  `ingest budget` operation that pauses in the middle of a block is a legal step into a paused
  state, and further `ingest` operations continue it (`State.ingestStable` first calls
  `ingest_block_continue`).

  Configurations are pairs `(state, ghost)` as in `Spec/Reach.lean`.  No third "pause"
  component is needed: the pause information is part of the state itself — a state is paused iff
  `s.utxos.ingesting` is `some _` (`Paused`) — and the ghost data describing a paused state (the
  state `s0` before the ingestion of the block began, the anchor `A` being ingested, the budget
  `B` spent on it so far) is produced existentially by the invariant theorem
  (`Lemmas.Reach2.reachable2_inv`), not carried by the system.

  The ghost `G` of a paused state is the list of blocks *completely* ingested so far: the block
  being ingested is not part of it (it is still the root of the tree).

  Definitions only (no proofs).
-/
namespace Btc.Spec
open Btc

/-- a block is partially ingested -/
def Paused (s : State) : Prop := s.utxos.ingesting.isSome = true

instance (s : State) : Decidable (Paused s) := by unfold Paused; infer_instance

/-- The domain of the operations in the extended system.

    `push` is excluded while a block is partially ingested.  This matches `heartbeat.rs`: blocks
    are pushed only by `maybe_process_response`, which a heartbeat reaches only after
    `ingest_stable_blocks_into_utxoset` returned `Done(false)`; a heartbeat that is still ingesting
    returns before fetching or processing blocks (`Props/C08.no_fetch_while_ingesting`).
    (The same holds for `insertNext` in the real canister; it is nevertheless allowed here while
    paused, which makes the theorems stronger.)  `query`, `setConfig` and `upgrade` are separate
    messages and can arrive between two heartbeats of a sliced ingestion. -/
def Domain2 (sg : State × List Block) : Op → Prop
  | .push b => sg.1.utxos.ingesting = none ∧ PushDomain sg.1 sg.2 b
  | .insertNext h => h.hash ∉ sg.1.unstable.tree.blocks.map CBlock.hash
  | _ => True

/-- One step of the extended system.  `ingest`: one call of
    `ingest_stable_blocks_into_utxoset` with `budget` steps — from a clean state or from a paused
    one (then the partially ingested block is continued first).  If the call pauses (again), the
    result is the paused state; in both cases the ghost is extended by the blocks that left the
    tree (`poppedAnchors`: the root path of the old tree to the new root, without the new root).
    `none`: the call traps (the canister state is rolled back, i.e. no step), or a `push` fails. -/
def step2 (bound : Unstable.BoundFn) (sg : State × List Block) : Op → Option (State × List Block)
  | .ingest budget =>
    match sg.1.ingestStable bound budget with
    | .done s' _ => some (s', sg.2 ++ poppedAnchors sg.1 s')
    | .paused sp => some (sp, sg.2 ++ poppedAnchors sg.1 sp)
    | .trap _ => none
  | op => step bound sg op

/-- States reachable from `State::new` on a transaction-valid genesis block by operations in
    their domain, *including* ingestions that pause and are continued later. -/
inductive Reachable2 (bound : Unstable.BoundFn) : State → List Block → Prop where
  | init (thr : Nat) (net : Tree.Net) (genesis : Block) (s0 : State) :
      TxValid [genesis] → State.new thr net genesis = some s0 → Reachable2 bound s0 []
  | step (s : State) (G : List Block) (op : Op) (s' : State) (G' : List Block) :
      Reachable2 bound s G → Domain2 (s, G) op → step2 bound (s, G) op = some (s', G') →
      Reachable2 bound s' G'

/-- the operations executed one after the other in the extended system -/
def runOps2 (bound : Unstable.BoundFn) : State × List Block → List Op → Option (State × List Block)
  | sg, [] => some sg
  | sg, op :: ops => (step2 bound sg op).bind (fun sg' => runOps2 bound sg' ops)

/-- every operation of the list is in its (extended) domain at the state in which it is executed -/
def DomainAll2 (bound : Unstable.BoundFn) : State × List Block → List Op → Prop
  | _, [] => True
  | sg, op :: ops => Domain2 sg op ∧ ∀ sg', step2 bound sg op = some sg' → DomainAll2 bound sg' ops

/-! ### The full invariant -/

/-- both indexes of the stable header store have pairwise distinct keys -/
structure HeadersOk (hs : HeaderStore) : Prop where
  /-- `(hs.byHeight.map (·.1)).Nodup` = `Lemmas.Headers.HeightsNodup hs`, the extra hypothesis of
      the C07 theorems and of `C08.getBlockHeaders_invisible` -/
  heights : (hs.byHeight.map (·.1)).Nodup
  hashes : (hs.byHash.map (·.1)).Nodup

/-- The invariant of the non-paused states of the extended system: the invariant `Inv`, no
    repeated transaction id along any root path and a duplicate-free block cache (`InvU`), the
    invariant of the announced headers (`NextInv`), distinct keys in the header store.

    Not part of it, because they are not invariants of the model (heights and ids are unbounded
    `Nat`s there): `G.length + … ≤ 2 ^ 32` and `TxRange G`. -/
structure InvAll (s : State) (G : List Block) : Prop where
  invU : InvU s G
  next : NextInv s
  headers : HeadersOk s.headers

end Btc.Spec
