import BtcModel.Model.State
import BtcModel.Spec.Ledger

/-
  The global invariant relating the canister model's state to the *history* it has seen:
  a ghost variable `G` (the blocks ingested so far, genesis first — never stored by the code)
  and the tree of unstable blocks. Everything the queries compute is then a function of
  `G ++ (a root path of the tree)`, which is what C01/C04/C05/C06/C07/C20 say.

  This file contains definitions only (no proofs).
-/
namespace Btc.Spec

open Btc

/-! ### History-level notions -/

/-- all transactions of a list of blocks -/
def txsOf (bs : List Block) : List Tx := bs.flatMap (·.txs)

/-- The transaction output designated by an outpoint, according to a list of blocks. -/
def outAt (bs : List Block) (o : OutPoint) : Option TxOut :=
  match (txsOf bs).find? (fun tx => tx.txid == o.txid) with
  | none => none
  | some tx => tx.outs[o.vout]?

/-- the outpoints created by a transaction, with their outputs -/
def createdBy (tx : Tx) : List (OutPoint × TxOut) :=
  (List.range tx.outs.length).zip tx.outs |>.map (fun p => (⟨tx.txid, p.1⟩, p.2))

/-- outpoints of the outputs of block `b` that pay address `a`, in transaction order -/
def addedSpec (b : Block) (a : Addr) : List OutPoint :=
  b.txs.flatMap (fun tx => (createdBy tx).filterMap (fun p => if p.2.addr == some a then some p.1 else none))

/-- inputs of block `b` whose spent output pays address `a` (outputs resolved in `hist`) -/
def removedSpec (hist : List Block) (b : Block) (a : Addr) : List OutPoint :=
  b.txs.flatMap (fun tx => tx.ins.filter (fun o => ((outAt hist o).bind (·.addr)) == some a))

/-- A transaction id determines the transaction (hash collision freeness), across a history. -/
def TxidsConsistent (bs : List Block) : Prop :=
  ∀ t1 ∈ txsOf bs, ∀ t2 ∈ txsOf bs, t1.txid = t2.txid → t1 = t2

/-- Well-formedness of a single block's transactions as the canister assumes it. -/
structure BlockWF (b : Block) : Prop where
  /-- an `OP_RETURN` script never yields an address -/
  opretNoAddr : ∀ tx ∈ b.txs, ∀ t ∈ tx.outs, t.opret = true → t.addr = none
  /-- a coinbase has no (non-null) inputs -/
  coinbaseNoIns : ∀ tx ∈ b.txs, tx.coinbase = true → tx.ins = []
  /-- transaction ids within the block are pairwise distinct -/
  txidsNodup : (b.txs.map (·.txid)).Nodup

/-- `chain` (genesis first) is transaction-valid: every input of every transaction spends an
    output that exists unspent at that point of the chain, and no transaction id is repeated
    along the chain (BIP30). Defined by replay. -/
def TxValidFrom : LedgerMap → Nat → List Block → Prop
  | _, _, [] => True
  | l, h, b :: bs =>
    BlockWF b ∧
    (∀ tx ∈ b.txs, ∀ e ∈ l, e.1.txid ≠ tx.txid) ∧
    TxsValid l h b.txs ∧
    TxValidFrom (applyBlock l h b) (h + 1) bs
where
  TxsValid : LedgerMap → Nat → List Tx → Prop
    | _, _, [] => True
    | l, h, tx :: txs =>
      (∀ o ∈ tx.ins, (AList.find? l o).isSome) ∧ tx.ins.Nodup ∧
      TxsValid (applyTx l h tx) h txs

def TxValid (chain : List Block) : Prop := TxValidFrom [] 0 chain

/-! ### Tree shape -/

mutual
/-- every child's `prev` is its parent's hash -/
def Linked : Tree CBlock → Prop
  | .node r cs => LinkedList r.hash cs
def LinkedList (parent : Nat) : List (Tree CBlock) → Prop
  | [] => True
  | c :: cs => c.root.blk.prev = parent ∧ Linked c ∧ LinkedList parent cs
end

/-- the chain (anchor first) from the root to the block with hash `tip`, as blocks -/
def pathBlocks (t : Tree CBlock) (tip : Nat) : Option (List Block) :=
  (Tree.chainWithTip CBlock.hash tip t).map (fun p => p.1.map (·.blk))

/-- number of references to outpoint `o` (as an input or as an output) in the blocks of the
    tree — the code counts one per occurrence, e.g. 2 for an output created and spent in the
    same block -/
def refCount (t : Tree CBlock) (o : OutPoint) : Nat :=
  (t.blocks.flatMap (fun b => blockRefs b.blk)).count o

/-! ### The invariant -/

/-- `StableIs u l`: the stable structures hold exactly the ledger map `l` (no block is being
    ingested). -/
structure StableIs (u : UtxoSet) (l : LedgerMap) : Prop where
  notIngesting : u.ingesting = none
  utxosNodup : (u.utxos.map (·.1)).Nodup
  utxosEq : ∀ o, AList.find? u.utxos o = AList.find? l o
  indexNodup : u.index.Nodup
  indexEq : ∀ e : IdxEntry, e ∈ u.index ↔
    ∃ t, AList.find? l e.op = some (t, e.height) ∧ t.addr = some e.addr
  balancesNodup : (u.balances.map (·.1)).Nodup
  balancesEq : ∀ a, (AList.find? u.balances a).getD 0 =
    ((l.filter (fun e => e.2.1.addr == some a)).map (fun e => e.2.1.value)).foldl (· + ·) 0

/-- The caches of the unstable blocks are exact projections of the blocks in the tree
    (`hist` = stable chain ++ all tree blocks: where outpoints are resolved). -/
structure CachesExact (u : Unstable) (hist : List Block) : Prop where
  added : ∀ b ∈ u.tree.blocks, ∀ a, u.cache.getAdded b.hash a = addedSpec b.blk a
  removed : ∀ b ∈ u.tree.blocks, ∀ a, u.cache.getRemoved b.hash a = removedSpec hist b.blk a
  addedKeys : ∀ h, AList.contains u.cache.added h = (u.tree.blocks.map CBlock.hash).contains h
  removedKeys : ∀ h, AList.contains u.cache.removed h = (u.tree.blocks.map CBlock.hash).contains h
  txOutsNodup : (u.cache.txOuts.map (·.1)).Nodup
  /-- an entry exists iff some tree block references the outpoint; its content is the true
      output and its count is the number of referencing blocks -/
  txOuts : ∀ o, match AList.find? u.cache.txOuts o with
    | none => refCount u.tree o = 0
    | some info => refCount u.tree o = info.count ∧ 0 < info.count ∧ outAt hist o = some info.txout
  blockCache : ∀ h, u.blockCache.contains h = (u.tree.blocks.map CBlock.hash).contains h
  tipDepths : u.tipDepthsCache = u.tree.tipDepths

/-- The invariant, for a state that is not in the middle of a sliced ingestion.
    `G` = the stable chain (ghost). -/
structure Inv (s : State) (G : List Block) : Prop where
  heightEq : s.utxos.nextHeight = G.length
  stable : StableIs s.utxos (ledger G)
  linked : Linked s.unstable.tree
  rootLinked : match G.getLast? with
    | some g => s.unstable.tree.root.blk.prev = g.hash
    | none => True
  hashesNodup : ((G ++ s.unstable.tree.blocks.map (·.blk)).map (·.hash)).Nodup
  caches : CachesExact s.unstable (G ++ s.unstable.tree.blocks.map (·.blk))
  txids : TxidsConsistent (G ++ s.unstable.tree.blocks.map (·.blk))
  /-- every root path of the tree, appended to the stable chain, is transaction-valid -/
  valid : ∀ tip p, pathBlocks s.unstable.tree tip = some p → TxValid (G ++ p)
  /-- the stable chain itself is hash-linked -/
  stableLinked : ∀ i, (h : i + 1 < G.length) → (G[i + 1]).prev = (G[i]).hash
  headers : ∀ i, (h : i < G.length) → AList.find? s.headers.byHeight i = some (G[i]).hash
  headersOnly : ∀ i, G.length ≤ i → AList.find? s.headers.byHeight i = none
  headersByHash : ∀ g ∈ G, AList.find? s.headers.byHash g.hash =
    some ⟨g.hash, g.prev, g.time, g.bits, g.header⟩

end Btc.Spec
