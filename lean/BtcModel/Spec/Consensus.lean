import BtcModel.Model.Header

/-
  Reference statement of Bitcoin Core's contextual header rules (`ContextualCheckBlockHeader`,
  `GetNextWorkRequired`, `CalculateNextWorkRequired`, `GetMedianTimePast`), written on explicit
  ancestor lists so that it can be read without the model's fuel / lookup plumbing.

  Shared with the model: the header record `Hdr`, the `Store` interface, and the compact target
  encoding (`fromCompact`, `toCompactLossy`), which is part of the consensus data format.
-/
namespace Btc.Spec.Consensus

open Btc.Tree (Net)
open Btc.Header (Hdr Store fromCompact toCompactLossy maxTarget powLimitBits)

/-! ## Ancestor chains -/

/-- `Chain s initial x l`: `l` is the complete list of ancestors reached from the hash `x`
    (nearest first) by following `prev` links in the store, ending with the header stored under
    the store's initial hash (nothing below the initial header is ever consulted), or ending
    early where a link is missing from the store. -/
inductive Chain (s : Store) (initial : Nat) : Nat → List Hdr → Prop
  | missing {x : Nat} : s.getByHash x = none → Chain s initial x []
  | initial {x : Nat} {p : Hdr} : s.getByHash x = some p → x = initial → Chain s initial x [p]
  | step {x : Nat} {p : Hdr} {l : List Hdr} :
      s.getByHash x = some p → x ≠ initial → Chain s initial p.prev l → Chain s initial x (p :: l)

/-- The up to `n` nearest ancestors reached from hash `x` (nearest first), not going below the
    initial header. -/
def ancestors (s : Store) (initial : Nat) : Nat → Nat → List Hdr
  | 0, _ => []
  | n + 1, x =>
    match s.getByHash x with
    | none => []
    | some p => if x = initial then [p] else p :: ancestors s initial n p.prev

/-! ## Median time past -/

/-- timestamps of the up to 11 nearest ancestors of `h` (parent first) -/
def mtpTimes (s : Store) (h : Hdr) : List Nat :=
  (ancestors s (s.initialHash.getD 0) 11 h.prev).map (·.time)

/-- `m` is the upper median of `l`: an element of `l` such that at most `⌊len/2⌋` elements are
    strictly smaller and more than `⌊len/2⌋` elements are smaller or equal (i.e. `m` is the element
    of rank `⌊len/2⌋`, counting from 0, which for odd lengths is the median). -/
def IsUpperMedian (l : List Nat) (m : Nat) : Prop :=
  m ∈ l ∧ (l.filter (· < m)).length ≤ l.length / 2 ∧ l.length / 2 < (l.filter (· ≤ m)).length

/-- the upper median computed by rank counting (no sorting); `0` for the empty list -/
def upperMedian (l : List Nat) : Nat :=
  (l.find? fun m =>
    decide ((l.filter (· < m)).length ≤ l.length / 2) &&
      decide (l.length / 2 < (l.filter (· ≤ m)).length)).getD 0

/-- Bitcoin Core `GetMedianTimePast` of the parent of `h` -/
def medianPast (s : Store) (h : Hdr) : Nat := upperMedian (mtpTimes s h)

/-! ## Required target -/

def interval : Nat := 2016
def targetTimespan : Nat := 1209600      -- two weeks
def minTimespan : Nat := 302400          -- targetTimespan / 4
def maxTimespan : Nat := 4838400         -- targetTimespan * 4
def twentyMinutes : Nat := 1200

def clampTimespan (t : Nat) : Nat := max minTimespan (min t maxTimespan)

/-- the retargeted value before it is capped and rounded to the compact format -/
def unroundedRetarget (baseBits timespan : Nat) : Nat :=
  fromCompact baseBits * clampTimespan timespan / targetTimespan

/-- Bitcoin Core `CalculateNextWorkRequired` (mainnet / testnet): scale the base target by
    the clamped timespan, cap at the proof-of-work limit, re-encode. -/
def retargetBits (net : Net) (baseBits timespan : Nat) : Nat :=
  toCompactLossy (min (unroundedRetarget baseBits timespan) (maxTarget net))

/-- `SelfChain s initial c l complete`: `l = c :: parent c :: …` follows `prev` links in the store
    from the header `c` itself.  `complete = true`: the list ends with the header whose hash is the
    store's initial hash.  `complete = false`: the list ends with a header that is not the initial
    header and whose parent is absent from the store (a broken store; the implementation panics
    if the walk gets that far). -/
inductive SelfChain (s : Store) (initial : Nat) : Hdr → List Hdr → Bool → Prop
  | stop {c : Hdr} : c.hash = initial → SelfChain s initial c [c] true
  | missing {c : Hdr} : c.hash ≠ initial → s.getByHash c.prev = none → SelfChain s initial c [c] false
  | step {c p : Hdr} {l : List Hdr} {b : Bool} :
      c.hash ≠ initial → s.getByHash c.prev = some p → SelfChain s initial p l b →
      SelfChain s initial c (c :: l) b

/-- The testnet / regtest walk-back over an explicit chain `c₀ :: c₁ :: …` whose first element has
    height `ht` (so `cᵢ` has height `ht - i`): the bits of the first header whose bits differ from
    the proof-of-work limit or whose height is a multiple of 2016.  If there is none: the limit
    when the chain is complete (reaches the initial header), `none` when it is broken. -/
def walkBack (limit : Nat) (complete : Bool) : List Hdr → Nat → Option Nat
  | [], _ => if complete then some limit else none
  | c :: rest, ht =>
    if c.bits ≠ limit ∨ ht % interval = 0 then some c.bits
    else walkBack limit complete rest (ht - 1)

/-- Bitcoin Core `GetNextWorkRequired`, as the compact bits required of a header with timestamp
    `time` extending `prev` (at height `prevHeight`).  `chain` is `prev` followed by its ancestors
    (`complete`: down to the initial header), `first` is the header at height
    `prevHeight + 1 - 2016` (the first block of the period that `prev` closes).
    `none`: a header the rule needs is not available. -/
def requiredBits (net : Net) (chain : List Hdr) (complete : Bool) (first : Option Hdr) (prev : Hdr)
    (prevHeight time : Nat) : Option Nat :=
  if (prevHeight + 1) % interval = 0 then
    match net with
    | .regtest => some prev.bits                       -- fPowNoRetargeting
    | .mainnet => first.map fun f => retargetBits .mainnet prev.bits (prev.time - f.time)
    | .testnet => first.map fun f => retargetBits .testnet f.bits (prev.time - f.time)  -- BIP94
  else
    match net with
    | .mainnet => some prev.bits
    | _ =>                                              -- fPowAllowMinDifficultyBlocks
      if time > prev.time + twentyMinutes then some (powLimitBits net)
      else walkBack (powLimitBits net) complete chain prevHeight

end Btc.Spec.Consensus
