import BtcModel.Model.Canister
import BtcModel.Spec.Invariant
import BtcModel.Lemmas.LedgerDecomp

/-
  The transition system of the *direct feed* (blocks are handed to `unstable_blocks::push`
  directly, stable blocks are ingested by `ingest_stable_blocks_into_utxoset`, the controller
  may call `set_config`, the canister may be upgraded, announced headers may be stored), on
  pairs `(state, ghost)` where the ghost `G` is the list of blocks ingested so far.

  Definitions only (no proofs).  `TxidsUnique` comes from `Lemmas/LedgerDecomp.lean`.
-/
namespace Btc.Spec
open Btc

/-! ### The extended invariant -/

/-- `Inv` plus: no transaction id is repeated along the stable chain followed by any root path
    of the tree (the extra hypothesis of the C01/C05 theorems), plus: the stable-memory block
    cache holds every hash once. -/
structure InvU (s : State) (G : List Block) : Prop where
  inv : Inv s G
  unique : ∀ tip p, pathBlocks s.unstable.tree tip = some p → TxidsUnique (G ++ p)
  blockCacheNodup : s.unstable.blockCache.Nodup

/-! ### Announced headers (`NextBlockHeaders`) -/

/-- the two maps of `NextBlockHeaders` describe the same set of `(hash, height)` pairs -/
structure NextOk (n : NextBlockHeaders) : Prop where
  byHashNodup : (n.byHash.map (·.1)).Nodup
  byHeightNodup : (n.byHeight.map (·.1)).Nodup
  /-- `hash_to_height_and_header[h] = (ht, _)` iff `h ∈ height_to_hash[ht]` -/
  agree : ∀ h ht, n.getHeight h = some ht ↔ ∃ v, AList.find? n.byHeight ht = some v ∧ h ∈ v
  vecNodup : ∀ ht v, AList.find? n.byHeight ht = some v → v.Nodup
  vecNonempty : ∀ ht v, AList.find? n.byHeight ht = some v → v ≠ []
  /-- a header is stored under its own hash -/
  keyIsHash : ∀ h x, AList.find? n.byHash h = some x → x.2.hash = h

/-- `NextOk`, every stored height is above the stable height `n`, and no announced header is
    (the header of) a block of the tree -/
structure NextInvAt (u : Unstable) (n : Nat) : Prop where
  ok : NextOk u.next
  above : ∀ h ht, u.next.getHeight h = some ht → n < ht
  notInTree : ∀ c ∈ u.tree.blocks, u.next.getHeader c.hash = none

def NextInv (s : State) : Prop := NextInvAt s.unstable s.utxos.nextHeight

/-! ### Operations -/

inductive Op where
  /-- a block handed to `unstable_blocks::push` (via `state::insert_block`) -/
  | push (b : Block)
  /-- one call of `ingest_stable_blocks_into_utxoset` with `budget` steps -/
  | ingest (budget : Nat)
  | setConfig (c : State.SetConfig)
  /-- `pre_upgrade`; `post_upgrade(c)` -/
  | upgrade (c : Option State.SetConfig)
  | query
  /-- one announced header handed to `insert_next_block_headers` -/
  | insertNext (h : NextHeader)

/-- What is assumed of a pushed block: its parent is in the tree, its hash is new, and the chain
    it extends stays transaction-valid, free of repeated transaction ids and txid-consistent. -/
structure PushDomain (s : State) (G : List Block) (b : Block) : Prop where
  fresh : b.hash ∉ (G ++ s.unstable.tree.blocks.map (·.blk)).map (·.hash)
  parent : Tree.contains CBlock.hash b.prev s.unstable.tree = true
  valid : ∀ p, pathBlocks s.unstable.tree b.prev = some p → TxValid (G ++ p ++ [b])
  unique : ∀ p, pathBlocks s.unstable.tree b.prev = some p → TxidsUnique (G ++ p ++ [b])
  consistent : TxidsConsistent (G ++ s.unstable.tree.blocks.map (·.blk) ++ [b])

def Domain (sg : State × List Block) : Op → Prop
  | .push b => PushDomain sg.1 sg.2 b
  | .insertNext h => h.hash ∉ sg.1.unstable.tree.blocks.map CBlock.hash
  | _ => True

/-- The blocks that left the tree for the stable set between `s` and `s'`: the root path of the
    old tree to the new anchor, without the new anchor. -/
def poppedAnchors (s s' : State) : List Block :=
  ((pathBlocks s.unstable.tree s'.unstable.tree.root.hash).getD []).dropLast

/-- One step on `(state, ghost)`. `none`: the operation does not complete in this system — a
    `push` that fails, or an ingestion that pauses (handled by C08) or traps. -/
def step (bound : Unstable.BoundFn) (sg : State × List Block) : Op → Option (State × List Block)
  | .push b =>
    match sg.1.unstable.push sg.1.utxos b with
    | .ok u => some ({ sg.1 with unstable := u }, sg.2)
    | _ => none
  | .ingest budget =>
    match sg.1.ingestStable bound budget with
    | .done s' _ => some (s', sg.2 ++ poppedAnchors sg.1 s')
    | _ => none
  | .setConfig c => some (sg.1.setConfig c, sg.2)
  | .upgrade c => some (sg.1.upgrade c, sg.2)
  | .query => some sg
  | .insertNext h =>
    if (sg.1.unstable.next.getHeader h.hash).isSome then some sg
    else match sg.1.unstable.insertNextHeader h sg.1.stableHeight with
      | none => some sg
      | some u => some ({ sg.1 with unstable := u }, sg.2)

/-- States reachable from `State::new` on a transaction-valid genesis block by operations in their
    domain, none of which pauses. -/
inductive Reachable (bound : Unstable.BoundFn) : State → List Block → Prop where
  | init (thr : Nat) (net : Tree.Net) (genesis : Block) (s0 : State) :
      TxValid [genesis] → State.new thr net genesis = some s0 → Reachable bound s0 []
  | step (s : State) (G : List Block) (op : Op) (s' : State) (G' : List Block) :
      Reachable bound s G → Domain (s, G) op → step bound (s, G) op = some (s', G') →
      Reachable bound s' G'

/-- a run: a list of operations executed one after the other -/
inductive Run (bound : Unstable.BoundFn) : State × List Block → List Op → State × List Block → Prop where
  | nil (sg : State × List Block) : Run bound sg [] sg
  | cons (sg : State × List Block) (op : Op) (sg1 : State × List Block) (ops : List Op)
      (sg2 : State × List Block) :
      Domain sg op → step bound sg op = some sg1 → Run bound sg1 ops sg2 →
      Run bound sg (op :: ops) sg2

/-- the operations executed one after the other, as a function; `none` as soon as one of them
    does not complete -/
def runOps (bound : Unstable.BoundFn) : State × List Block → List Op → Option (State × List Block)
  | sg, [] => some sg
  | sg, op :: ops => (step bound sg op).bind (fun sg' => runOps bound sg' ops)

/-- every operation of the list is in its domain at the state in which it is executed -/
def DomainAll (bound : Unstable.BoundFn) : State × List Block → List Op → Prop
  | _, [] => True
  | sg, op :: ops => Domain sg op ∧ ∀ sg', step bound sg op = some sg' → DomainAll bound sg' ops

/-- `unstable_blocks::pop` applied repeatedly, the `k`-th time with stable height `n + k`;
    `popped` = the anchors returned -/
inductive PopSteps (bound : Unstable.BoundFn) : Unstable → Nat → List Block → Unstable → Prop where
  | nil (u : Unstable) (n : Nat) : PopSteps bound u n [] u
  | cons (u : Unstable) (n : Nat) (b : Block) (u1 : Unstable) (bs : List Block) (u2 : Unstable) :
      Unstable.pop bound u (n + 1) = .ok u1 b → PopSteps bound u1 (n + 1) bs u2 →
      PopSteps bound u n (b :: bs) u2

end Btc.Spec
