import BtcModel.Model.Canister

/-
  The block-fetching protocol as a transition system (C13).

  The heartbeat is an async function with one await (the call to the block source). The model
  (`Model/Canister.lean`) splits it there: `heartbeatStart` runs up to the await,
  `heartbeatReply` is the continuation. A system state pairs the canister state with the request
  of the heartbeat that is currently suspended at its await (if any); the actions are the
  messages the canister can receive, in any order.
-/
namespace Btc.Spec.Fetch
open Btc Btc.State

/-- canister state + the request of the heartbeat currently suspended at its await -/
structure Sys where
  st : State
  pending : Option State.Request

/-- the messages that can be interleaved -/
inductive Action where
  /-- a heartbeat with `budget` ingestion steps available -/
  | heartbeat (budget : Nat)
  /-- the block source answers (or the call is rejected) -/
  | reply (r : State.Reply)
  /-- `pre_upgrade`; `post_upgrade(cfg)`: the outstanding call (if any) is abandoned -/
  | upgrade (cfg : Option State.SetConfig)
  | setConfig (c : State.SetConfig)
  /-- any query / any update that does not touch the fetch state -/
  | query

/-- one message; `env` is the environment (time, decoders) of that message -/
def step (env : Env) (sys : Sys) : Action → Sys
  | .heartbeat budget =>
    match heartbeatStart env sys.st budget with
    | .trap => sys
    | .ingested s' _ => { sys with st := s' }
    | .processed s' => { sys with st := s' }
    | .awaiting s' req => { st := s', pending := some req }
  | .reply r =>
    match sys.pending with
    | none => sys
    | some _ =>
      match heartbeatReply sys.st r with
      | some s' => { st := s', pending := none }
      | none => { st := replyTrapState sys.st, pending := none }
  | .upgrade cfg => { st := State.upgrade sys.st cfg, pending := none }
  | .setConfig c => { sys with st := State.setConfig sys.st c }
  | .query => sys

/-- the request (if any) that the message sends to the block source -/
def issued (env : Env) (sys : Sys) : Action → Option State.Request
  | .heartbeat budget =>
    match heartbeatStart env sys.st budget with
    | .awaiting _ req => some req
    | _ => none
  | _ => none

/-- a schedule: every message comes with its own environment (time passes) -/
def run (sys : Sys) : List (Env × Action) → Sys
  | [] => sys
  | (env, a) :: rest => run (step env sys a) rest

/-- the requests sent to the block source during a schedule, in chronological order -/
def trace (sys : Sys) : List (Env × Action) → List State.Request
  | [] => []
  | (env, a) :: rest => (issued env sys a).toList ++ trace (step env sys a) rest

/-- a freshly installed / upgraded canister: nothing outstanding, nothing stored -/
def Sys.Initial (sys : Sys) : Prop :=
  sys.pending = none ∧ sys.st.syncing.isFetching = false ∧ sys.st.syncing.response = none

/-- the type discipline of the block source: an initial request is answered by a complete or a
    partial response (the number of follow-ups is a `u8`), a follow-up request by a follow-up
    page; any call can be rejected. -/
def answers : State.Request → State.Reply → Prop
  | .initial _ _, .complete _ => True
  | .initial _ _, .partial_ p => p.remaining ≤ 255
  | .followUp _, .followUp _ => True
  | _, .reject => True
  | _, _ => False

instance : (req : State.Request) → (r : State.Reply) → Decidable (answers req r)
  | .initial _ _, .complete _ => isTrue trivial
  | .initial _ _, .partial_ p => inferInstanceAs (Decidable (p.remaining ≤ 255))
  | .initial _ _, .followUp _ => isFalse id
  | .initial _ _, .reject => isTrue trivial
  | .followUp _, .complete _ => isFalse id
  | .followUp _, .partial_ _ => isFalse id
  | .followUp _, .followUp _ => isTrue trivial
  | .followUp _, .reject => isTrue trivial

/-- a schedule in which every reply that is delivered to a suspended heartbeat has the right
    type for the request it answers (everything else is unconstrained) -/
def WellTyped (sys : Sys) : List (Env × Action) → Prop
  | [] => True
  | (env, a) :: rest =>
    (match a, sys.pending with
      | .reply r, some req => answers req r
      | _, _ => True) ∧ WellTyped (step env sys a) rest

/-- executable version of `WellTyped` (for checking concrete schedules) -/
def wellTypedB (sys : Sys) : List (Env × Action) → Bool
  | [] => true
  | (env, a) :: rest =>
    (match a, sys.pending with
      | .reply r, some req => decide (answers req r)
      | _, _ => true) && wellTypedB (step env sys a) rest

theorem wellTyped_iff (sys : Sys) (acts : List (Env × Action)) :
    WellTyped sys acts ↔ wellTypedB sys acts = true := by
  induction acts generalizing sys with
  | nil => simp [WellTyped, wellTypedB]
  | cons ea rest ih =>
    obtain ⟨env, a⟩ := ea
    simp only [WellTyped, wellTypedB, Bool.and_eq_true, ih]
    apply and_congr_left'
    split <;> simp

/-! ### Shape of the tree of unstable blocks (used for "no block is applied twice") -/

mutual
/-- every block below the root hangs under its parent: `prev` of a child is the hash of the node
    it is attached to -/
def Linked {α : Type} (h p : α → Nat) : Tree α → Prop
  | .node r cs => (∀ x ∈ Tree.rootsOf cs, p x = h r) ∧ LinkedList h p cs
def LinkedList {α : Type} (h p : α → Nat) : List (Tree α) → Prop
  | [] => True
  | c :: cs => Linked h p c ∧ LinkedList h p cs
end

/-- the unstable blocks form a proper block tree: children point to their parents and no hash
    occurs twice -/
def TreeOk (t : Tree CBlock) : Prop :=
  Linked CBlock.hash (fun c => c.blk.prev) t ∧ (t.blocks.map CBlock.hash).Nodup

end Btc.Spec.Fetch
