import BtcModel.Props.C17
#print axioms Btc.Props.C17.heightTarget_spec
#print axioms Btc.Props.C17.no_heights_no_action
#print axioms Btc.Props.C17.decision_spec
#print axioms Btc.Props.C17.order_irrelevant
#print axioms Btc.Props.C17.failures_contribute_nothing
#print axioms Btc.Props.C17.latest_round_only
#print axioms Btc.Props.C17.generated_configs_have_attainable_quorum
