import BtcModel.Props.C05
#print axioms Btc.Props.C05.counted_pathCtx
#print axioms Btc.Props.C05.getBalance_eq_ledger
#print axioms Btc.Props.C05.balance_eq_sum_of_utxos
#print axioms Btc.Props.C05.balance_eq_sum_single_page
#print axioms Btc.Props.C05.malformed_agree
#print axioms Btc.Props.C05.wrongNetwork_agree
#print axioms Btc.Props.C05.tooLarge_agree
