import BtcModel.Props.C02
#print axioms Btc.Props.C02.mainChain_eq_bestPath
#print axioms Btc.Props.C02.mainChainLen_eq_length
#print axioms Btc.Props.C02.bestPath_head
#print axioms Btc.Props.C02.blockchainInfo_describes_best_tip
#print axioms Btc.Props.C02.stablePrefix_zero
#print axioms Btc.Props.C02.unfiltered_utxos_name_best_tip
#print axioms Btc.Props.C02.headers_follow_best_chain
#print axioms Btc.Props.C02.fee_percentiles_keyed_by_best_tip
