import BtcModel.Props.C14
#print axioms Btc.Props.C14.isSynced_iff
#print axioms Btc.Props.C14.synced_threshold_is_two
#print axioms Btc.Props.C14.guard_passes_iff
#print axioms Btc.Props.C14.guard_refusal
#print axioms Btc.Props.C14.refused_calls_have_no_effect
#print axioms Btc.Props.C14.passed_guard_never_refused
#print axioms Btc.Props.C14.send_transaction_exempt_from_sync_rule
