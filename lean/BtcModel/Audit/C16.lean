import BtcModel.Props.C16
#print axioms Btc.Props.C16.metered_refused_below_maximum
#print axioms Btc.Props.C16.flat_refused_below_maximum
#print axioms Btc.Props.C16.metered_formula
#print axioms Btc.Props.C16.metered_error_charges_base
#print axioms Btc.Props.C16.metered_le_maximum
#print axioms Btc.Props.C16.flat_formula
#print axioms Btc.Props.C16.send_formula
#print axioms Btc.Props.C16.utxos_query_accepts_nothing
#print axioms Btc.Props.C16.balance_query_accepts_nothing
#print axioms Btc.Props.C16.get_utxos_refuses_before_charging
#print axioms Btc.Props.C16.client_covers_canister_defaults
#print axioms Btc.Props.C16.default_tables_base_le_maximum
