import BtcModel.Model.Unstable

/-
  Model of `canister/src/state.rs` (State, block insertion into the tree, ingestion of stable
  blocks) and of the query endpoints in `canister/src/api/*.rs`.
-/
namespace Btc

/-- `BlockHeaderStore`: height ↦ hash and hash ↦ raw header -/
structure HeaderStore where
  byHeight : List (Nat × Nat) := []
  byHash : List (Nat × NextHeader) := []
deriving Repr, BEq

def HeaderStore.insert (s : HeaderStore) (b : Block) (height : Nat) : HeaderStore :=
  { byHeight := AList.insert s.byHeight height b.hash,
    byHash := AList.insert s.byHash b.hash ⟨b.hash, b.prev, b.time, b.bits, b.header⟩ }

/-- `get_block_headers_in_range`: raw headers of all stored heights in `[lo, hi]`, ascending -/
def HeaderStore.range (s : HeaderStore) (lo hi : Nat) : List String :=
  let hs := sortBy (fun (a b : Nat × Nat) => a.1 < b.1) (s.byHeight.filter (fun p => lo ≤ p.1 && p.1 ≤ hi))
  hs.filterMap (fun p => (AList.find? s.byHash p.2).map (·.raw))

/-- `Fees` -/
structure Fees where
  getUtxosBase : Nat := 0
  getUtxosCyclesPerTenInstructions : Nat := 0
  getUtxosMaximum : Nat := 0
  getBalance : Nat := 0
  getBalanceMaximum : Nat := 0
  getCurrentFeePercentiles : Nat := 0
  getCurrentFeePercentilesMaximum : Nat := 0
  sendTransactionBase : Nat := 0
  sendTransactionPerByte : Nat := 0
  getBlockHeadersBase : Nat := 0
  getBlockHeadersCyclesPerTenInstructions : Nat := 0
  getBlockHeadersMaximum : Nat := 0
deriving Repr, BEq, DecidableEq

/-- the blobs of a `get_successors` response -/
structure CompleteResp where
  blocks : List String
  next : List String
deriving Repr, BEq, DecidableEq

structure PartialResp where
  partialBlock : String
  next : List String
  remaining : Nat
deriving Repr, BEq, DecidableEq

inductive ResponseToProcess where
  | complete (r : CompleteResp)
  | partial_ (r : PartialResp) (pages : Nat)
deriving Repr, BEq, DecidableEq

structure SyncingState where
  syncing : Bool := true
  isFetching : Bool := false
  response : Option ResponseToProcess := none
  rejects : Nat := 0
  deserializeErrors : Nat := 0
  insertErrors : Nat := 0
deriving Repr, BEq

/-- `State` -/
structure State where
  utxos : UtxoSet
  unstable : Unstable
  syncing : SyncingState := {}
  feeCache : Option (Nat × List Nat) := none
  headers : HeaderStore := {}
  fees : Fees := {}
  apiAccess : Bool := true
  disableApiIfNotSynced : Bool := true
  lazyFees : Bool := false
  sendTxCount : Nat := 0
deriving Repr

namespace State

def network (s : State) : Tree.Net := s.unstable.net
def stableHeight (s : State) : Nat := s.utxos.nextHeight

/-- `State::new` (the genesis block of the network is a parameter) -/
def new (thr : Nat) (net : Tree.Net) (genesis : Block) : Option State :=
  let utxos : UtxoSet := {}
  match Unstable.new utxos thr genesis net with
  | none => none
  | some u => some { utxos := utxos, unstable := u }

/-- `main_chain_height` -/
def mainChainHeight (s : State) : Nat :=
  Tree.mainChainLen CBlock.diff s.unstable.tree + s.utxos.nextHeight - 1

/-! ### Ingestion of stable blocks -/

inductive IngestResult where
  | paused (s : State)
  | done (s : State) (didWork : Bool)
  | trap (msg : String)

/-- `pop_block`: pops the anchor and checks that it is the block just ingested -/
def popBlock (bound : Unstable.BoundFn) (s : State) (ingested : Nat) : Option State :=
  match Unstable.pop bound s.unstable s.utxos.nextHeight with
  | .ok u b => if b.hash = ingested then some { s with unstable := u } else none
  | _ => none

/-- the `while let Some(..) = peek()` loop; `fuel` ≥ number of blocks in the tree -/
def ingestNewStable (bound : Unstable.BoundFn) (fuel : Nat) (s : State) (budget : Nat) (didWork : Bool) :
    IngestResult :=
  match fuel with
  | 0 => .done s didWork
  | fuel + 1 =>
    match Unstable.peek bound s.unstable with
    | none => .done s didWork
    | some anchor =>
      let s1 := { s with headers := s.headers.insert anchor.blk s.utxos.nextHeight }
      match s1.utxos.ingestBlock anchor.blk budget with
      | .trap m => .trap m
      | .paused u => .paused { s1 with utxos := u }
      | .done u budget' =>
        match popBlock bound { s1 with utxos := u } anchor.blk.hash with
        | none => .trap "popped block differs from ingested block"
        | some s2 => ingestNewStable bound fuel s2 budget' true

/-- `ingest_stable_blocks_into_utxoset` with `budget` steps allowed in this message -/
def ingestStable (bound : Unstable.BoundFn) (s : State) (budget : Nat) : IngestResult :=
  let fuel := s.unstable.tree.blocksCount + 1
  match s.utxos.ingestContinue budget with
  | none => ingestNewStable bound fuel s budget false
  | some (.trap m) => .trap m
  | some (.paused u) => .paused { s with utxos := u }
  | some (.done u budget') =>
    let hash := match s.utxos.ingesting with
      | some ing => ing.block.hash
      | none => 0
    match popBlock bound { s with utxos := u } hash with
    | none => .trap "popped block differs from ingested block"
    | some s2 => ingestNewStable bound fuel s2 budget' true

/-! ### Queries -/

inductive UtxosError where
  | malformedAddress
  | wrongNetwork
  | minConfirmationsTooLarge (given max : Nat)
  | unknownTipBlockHash (tip : Nat)
  | malformedPage
deriving Repr, BEq, DecidableEq

structure UtxosResponse where
  utxos : List Utxo
  tipHash : Nat
  tipHeight : Nat
  /-- `(tip hash, height, outpoint)` of the first omitted element -/
  nextPage : Option (Nat × Nat × OutPoint)
deriving Repr, BEq, DecidableEq

/-- The address argument of a request after `Address::from_str_checked` (a library function,
    evaluated by the harness): a canonical address, or one of the two errors. -/
inductive AddrArg where
  | ok (a : Addr)
  | malformed
  | wrongNetwork
deriving Repr, BEq, DecidableEq

/-- `AddressUtxoSet` after `apply_block` over a chain prefix: (added utxos, removed outpoints).
    `height` is the height of the next block to apply (`next_block_height`). -/
def applyBlocks (s : State) (a : Addr) : List CBlock → Nat → List Utxo × List OutPoint → Option (List Utxo × List OutPoint)
  | [], _, acc => some acc
  | b :: bs, height, (added, removed) =>
    let removed' := removed ++ s.unstable.cache.getRemoved b.hash a
    let addedHere := (s.unstable.cache.getAdded b.hash a).map (fun o =>
      (s.unstable.cache.getTxOut o).map (fun p => Utxo.mk height o p.1.value))
    if addedHere.any Option.isNone then none
    else applyBlocks s a bs (height + 1) (added ++ addedHere.filterMap id, removed')

/-- `AddressUtxoSet::into_iter`; `none` = "Could not find UTXO" panic -/
def addressUtxos (s : State) (a : Addr) (added : List Utxo) (removed : List OutPoint)
    (offset : Option Utxo) : Option (List Utxo) :=
  let stableOps := (s.utxos.getAddressOutpoints a offset).filter (fun o => !(removed.contains o))
  let stable := stableOps.map (fun o => (s.utxos.getUtxo o).map (fun p => Utxo.mk p.2 o p.1.value))
  if stable.any Option.isNone then none
  else
    let addedSet := sortBy Utxo.lt (dedup added)
    let unstable := (addedSet.filter (fun u => !(removed.contains u.outpoint))).filter
      (fun u => match offset with | some off => off.le u | none => true)
    some (multiIter Utxo.lt (stable.filterMap id) unstable)

/-- the prefix walk of `get_utxos_from_chain`: blocks whose stability count is at least
    `minConf`, stopping at the first that is not -/
def stablePrefix (levels : List (List (Nat × Nat))) (minConf : Nat) : List CBlock → Nat → List CBlock
  | [], _ => []
  | b :: bs, i =>
    if minConf > 0 && Tree.stabilityCount (levels.getD i []) b.hash < (minConf : Int) then []
    else b :: stablePrefix levels minConf bs (i + 1)

inductive QResult (α : Type) where
  | ok (a : α)
  | err (e : UtxosError)
  | trap (msg : String)

/-- `get_utxos_from_chain` -/
def getUtxosFromChain (s : State) (addr : AddrArg) (minConf : Nat) (chain : List CBlock)
    (offset : Option Utxo) (limit : Nat) : QResult UtxosResponse :=
  match addr with
  | .malformed => .err .malformedAddress
  | .wrongNetwork => .err .wrongNetwork
  | .ok a =>
    if chain.length < minConf then .err (.minConfirmationsTooLarge minConf chain.length)
    else
      let levels := Tree.levels CBlock.hash s.unstable.tree
      let applied := stablePrefix levels minConf chain 0
      let (tipHash, tipHeight) := match applied.getLast? with
        | some b => (b.hash, s.utxos.nextHeight + applied.length - 1)
        | none => ((chain.head?.map CBlock.hash).getD 0, s.utxos.nextHeight)
      match applyBlocks s a applied s.utxos.nextHeight ([], []) with
      | none => .trap "tx out for outpoint must exist in added outpoints"
      | some (added, removed) =>
        match addressUtxos s a added removed offset with
        | none => .trap "Could not find UTXO with outpoint"
        | some all =>
          let page := all.take limit
          let nextPage := (all.drop limit).head?.map (fun u => (tipHash, u.height, u.outpoint))
          .ok ⟨page, tipHash, tipHeight, nextPage⟩

inductive UtxosFilter where
  | none_
  | minConf (c : Nat)
  /-- a page blob: `none` = not 72 bytes long -/
  | page (p : Option (Nat × Nat × OutPoint))
deriving Repr, BEq, DecidableEq

/-- `get_utxos_internal` -/
def getUtxos (s : State) (addr : AddrArg) (filter : UtxosFilter) (limit : Nat) : QResult UtxosResponse :=
  match filter with
  | .none_ => getUtxosFromChain s addr 0 s.unstable.mainChain none limit
  | .minConf c => getUtxosFromChain s addr c s.unstable.mainChain none limit
  | .page none => .err .malformedPage
  | .page (some (tip, height, op)) =>
    match Tree.chainWithTip CBlock.hash tip s.unstable.tree with
    | none => .err (.unknownTipBlockHash tip)
    | some (chain, _) => getUtxosFromChain s addr 0 chain (some ⟨height, op, 0⟩) limit

/-- `get_balance_private`; `Except`-like: error uses the same type as `get_utxos` -/
def getBalance (s : State) (addr : AddrArg) (minConf : Nat) : QResult Nat :=
  match addr with
  | .malformed => .err .malformedAddress
  | .wrongNetwork => .err .wrongNetwork
  | .ok a =>
    match s.utxos.getBalance a with
    | none => .trap "UTXO must exist"
    | some stable =>
      let chain := s.unstable.mainChain
      if chain.length < minConf then .err (.minConfirmationsTooLarge minConf chain.length)
      else
        -- confirmations are counted as in `get_utxos`: the stability-count prefix walk
        let counted := stablePrefix (Tree.levels CBlock.hash s.unstable.tree) minConf chain 0
        let step (acc : Option Int) (b : CBlock) : Option Int :=
          let addV := (s.unstable.cache.getAdded b.hash a).map (fun o => (s.unstable.cache.getTxOut o).map (·.1.value))
          let remV := (s.unstable.cache.getRemoved b.hash a).map (fun o => (s.unstable.cache.getTxOut o).map (·.1.value))
          if addV.any Option.isNone || remV.any Option.isNone then none
          else match acc with
            | none => none
            | some x =>
              let y := x + ((addV.filterMap id).foldl (· + ·) 0 : Nat) - ((remV.filterMap id).foldl (· + ·) 0 : Nat)
              if y < 0 then none else some y
        match counted.foldl step (some (stable : Int)) with
        | none => .trap "balance arithmetic / missing tx out"
        | some v => .ok v.toNat

inductive HeadersError where
  | startHeightDoesNotExist (requested chainHeight : Nat)
  | endHeightDoesNotExist (requested chainHeight : Nat)
  | startLargerThanEnd (start end_ : Nat)
deriving Repr, BEq, DecidableEq

/-- `verify_and_return_effective_range` (`maxHeaders` = `MAX_BLOCK_HEADERS_PER_RESPONSE`) -/
def effectiveRange (chainHeight : Nat) (maxHeaders : Nat) (start : Nat) (end_ : Option Nat) :
    Except HeadersError (Nat × Nat) :=
  if start > chainHeight then .error (.startHeightDoesNotExist start chainHeight)
  else
    match end_ with
    | some e =>
      if e < start then .error (.startLargerThanEnd start e)
      else if e > chainHeight then .error (.endHeightDoesNotExist e chainHeight)
      else .ok (start, min e (start + maxHeaders - 1))
    | none => .ok (start, min chainHeight (start + maxHeaders - 1))

/-- `get_block_headers_internal`: `(tip_height, headers)` -/
def getBlockHeaders (s : State) (maxHeaders : Nat) (start : Nat) (end_ : Option Nat) :
    Except HeadersError (Nat × List String) :=
  match effectiveRange s.mainChainHeight maxHeaders start end_ with
  | .error e => .error e
  | .ok (lo, hi) =>
    let sh := s.stableHeight
    -- only heights below the stable height come from the stable store
    let stable := if lo ≥ sh then [] else s.headers.range lo (min hi (sh - 1))
    let unstable :=
      if hi < sh then []
      else
        let chain := s.unstable.mainChain
        ((chain.drop (lo - sh)).take (hi - sh + 1 - (lo - sh))).map (fun b => b.blk.header)
    .ok (hi, stable ++ unstable)

structure BlockchainInfo where
  height : Nat
  hash : Nat
  timestamp : Nat
  difficulty : Nat
  utxosLength : Nat
deriving Repr, BEq, DecidableEq

/-- `blockchain_info` -/
def blockchainInfo (s : State) : BlockchainInfo :=
  let chain := s.unstable.mainChain
  let tip := chain.getLast?.getD s.unstable.tree.root
  let len : Int := (s.utxos.utxos.length : Int) + (chain.map (·.utxoDeltaNow)).foldl (· + ·) 0
  ⟨s.mainChainHeight, tip.hash, tip.blk.time, tip.blk.diff, len.toNat⟩

/-- `is_synced` (`thr` = `SYNCED_THRESHOLD`) -/
def isSynced (s : State) (thr : Nat) : Bool :=
  let h := s.mainChainHeight
  h + thr ≥ max ((s.unstable.next.maxHeight).getD 0) h

end State
end Btc
