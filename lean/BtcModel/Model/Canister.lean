import BtcModel.Model.Fees
import BtcModel.Model.Header

/-
  Model of `canister/src/heartbeat.rs`, `canister/src/validation.rs`, `validation/src/block/mod.rs`,
  the admission part of `canister/src/state.rs`, the guards / cycles accounting of
  `canister/src/lib.rs` + `api/*.rs`, `api/set_config.rs` and `pre_upgrade`/`post_upgrade`.
-/
namespace Btc

/-- What the library decoders say about the blobs of a response (given by the harness):
    `BitcoinBlock::consensus_decode` and `Header::consensus_decode`. -/
structure Decoders where
  block : String → Option Block
  header : String → Option NextHeader

/-- Environment of a message: current time (seconds) and the decoders. -/
structure Env where
  now : Nat
  dec : Decoders
  bound : Unstable.BoundFn
  syncedThreshold : Nat
  maxHeaders : Nat
  numTransactions : Nat
  /-- how many iterations of the loop of `insert_next_block_headers` fit under
      `MAX_INSTRUCTIONS_THRESHOLD` (30e9) in this message: the loop executes
      `if inc_performance_counter() > MAX_INSTRUCTIONS_THRESHOLD { break; }` before it looks at a
      blob, so with counter value `c` at loop entry and `st` per reading, iteration `i` (1-based)
      runs iff `c + i * st ≤ 30e9`. The counter never decreases within a message, so the
      iterations that run are an initial segment. -/
  headerSlots : Nat := 1000000000

namespace State

def hdrOfBlock (b : Block) : Header.Hdr := ⟨b.hash, b.prev, b.time, b.bits⟩
def hdrOfNext (h : NextHeader) : Header.Hdr := ⟨h.hash, h.prev, h.time, h.bits⟩

/-- `ValidationContext` as a `HeaderStore`: `chain` (anchor first) then the stable store. -/
def validationStore (s : State) (chain : List Header.Hdr) : Header.Store :=
  { getByHash := fun h =>
      match chain.find? (fun x => x.hash == h) with
      | some x => some x
      | none => (AList.find? s.headers.byHash h).map hdrOfNext
    height := s.utxos.nextHeight + chain.length - 1
    getByHeight := fun height =>
      if height < s.utxos.nextHeight then
        match AList.find? s.headers.byHeight height with
        | none => none
        | some hash => (AList.find? s.headers.byHash hash).map hdrOfNext
      else if height ≤ s.utxos.nextHeight + chain.length - 1 then chain[height - s.utxos.nextHeight]?
      else none }

inductive ContextError where
  | doesNotExtend
  | alreadyKnown
deriving Repr, DecidableEq, BEq

/-- `ValidationContext::new`: the unstable chain ending at the header's parent -/
def validationContext (s : State) (h : Header.Hdr) : Except ContextError (List Header.Hdr) :=
  match Tree.chainWithTip CBlock.hash h.prev s.unstable.tree with
  | none => .error .doesNotExtend
  | some (chain, successors) =>
    if successors.any (fun c => c.hash == h.hash) then .error .alreadyKnown
    else .ok (chain.map (fun c => hdrOfBlock c.blk))

/-- `get_next_block_headers_chain_with_tip`: announced headers from `tip` backwards, returned
    oldest first. `fuel` bounds the walk by the number of announced headers. -/
def nextHeadersChain (s : State) : Nat → Nat → List NextHeader → List NextHeader
  | 0, _, acc => acc
  | fuel + 1, tip, acc =>
    match s.unstable.next.getHeader tip with
    | none => acc
    | some h => nextHeadersChain s fuel h.prev (h :: acc)

/-- `ValidationContext::new_with_next_block_headers` -/
def validationContextWithNext (s : State) (h : Header.Hdr) : Except ContextError (List Header.Hdr) :=
  match nextHeadersChain s (s.unstable.next.byHash.length + 1) h.prev [] with
  | [] => validationContext s h
  | first :: rest =>
    match validationContext s (hdrOfNext first) with
    | .error e => .error e
    | .ok chain => .ok (chain ++ (first :: rest).map hdrOfNext)

inductive BlockError where
  | noTransactions
  | invalidCoinbase
  | invalidMerkleRoot
  | duplicateTransactions
deriving Repr, DecidableEq, BEq

def nodupNat : List Nat → Bool
  | [] => true
  | x :: xs => !(xs.contains x) && nodupNat xs

/-- `validate_block` (body checks) -/
def validateBody (b : Block) : Option BlockError :=
  match b.txs with
  | [] => some .noTransactions
  | first :: _ =>
    if !first.coinbase then some .invalidCoinbase
    else if !b.merkleOk then some .invalidMerkleRoot
    else if !(nodupNat (b.txs.map (·.ntxid))) then some .duplicateTransactions
    else none

inductive InsertResult where
  | ok (s : State)
  | rejected (why : String)
  | trap

/-- `state::insert_block` -/
def insertBlock (env : Env) (s : State) (b : Block) : InsertResult :=
  match validationContext s (hdrOfBlock b) with
  | .error .doesNotExtend => .rejected "BlockDoesNotExtendTree"
  | .error .alreadyKnown => .rejected "AlreadyKnown"
  | .ok chain =>
    match Header.validateHeader s.network (validationStore s chain) (hdrOfBlock b) env.now with
    | .trap => .trap
    | .err e => .rejected s!"InvalidBlockHeader({repr e})"
    | .ok =>
      match validateBody b with
      | some e => .rejected s!"{repr e}"
      | none =>
        match s.unstable.push s.utxos b with
        | .ok u => .ok { s with unstable := u }
        | _ => .trap

/-- the body of the loop of `state::insert_next_block_headers` run over every blob of the list
    (no instruction check); processing stops at the first header that is garbage, invalid or not
    connected (already stored headers are skipped) -/
def insertNextHeadersAll (env : Env) (s : State) : List String → Option State
  | [] => some s
  | raw :: rest =>
    match env.dec.header raw with
    | none => some s
    | some h =>
      if (s.unstable.next.getHeader h.hash).isSome then insertNextHeadersAll env s rest
      else
        match validationContextWithNext s (hdrOfNext h) with
        | .error _ => some s
        | .ok chain =>
          match Header.validateHeader s.network (validationStore s chain) (hdrOfNext h) env.now with
          | .trap => none
          | .err _ => some s
          | .ok =>
            match s.unstable.insertNextHeader h s.stableHeight with
            | none => some s
            | some u => insertNextHeadersAll env { s with unstable := u } rest

/-- `state::insert_next_block_headers`: the instruction check comes first in every iteration
    (before decoding, so an undecodable, already stored or refused blob uses up an iteration like
    any other) and ends the loop for good, so exactly the first `env.headerSlots` blobs are looked
    at; the remaining announced headers are dropped silently. `Props/HeaderSlots.lean` shows that
    this is the loop with an explicit countdown. -/
def insertNextHeaders (env : Env) (s : State) (blobs : List String) : Option State :=
  insertNextHeadersAll env s (blobs.take env.headerSlots)

/-- the loop of `maybe_process_response` over the blocks of a complete response:
    `(state, stopped early?)`; `none` = trap -/
def processBlocks (env : Env) (s : State) : List String → Option (State × Bool)
  | [] => some (s, false)
  | blob :: rest =>
    match env.dec.block blob with
    | none => some ({ s with syncing := { s.syncing with deserializeErrors := s.syncing.deserializeErrors + 1 } }, true)
    | some b =>
      match insertBlock env s b with
      | .trap => none
      | .rejected _ => some ({ s with syncing := { s.syncing with insertErrors := s.syncing.insertErrors + 1 } }, true)
      | .ok s' => processBlocks env s' rest

/-- `maybe_process_response`; `none` = trap -/
def processResponse (env : Env) (s : State) : Option State :=
  match s.syncing.response with
  | some (.complete r) =>
    let s0 := { s with syncing := { s.syncing with response := none } }
    match processBlocks env s0 r.blocks with
    | none => none
    | some (s1, true) => some s1
    | some (s1, false) => insertNextHeaders env s1 r.next
  | _ => some s

inductive Request where
  | initial (anchor : Nat) (processed : List Nat)
  | followUp (page : Nat)
deriving Repr, DecidableEq, BEq

inductive Reply where
  | complete (r : CompleteResp)
  | partial_ (r : PartialResp)
  | followUp (bytes : String)
  | reject
deriving Repr, DecidableEq, BEq

/-- `maybe_get_successors_request`; outer `none` = the assertion fails (trap) -/
def successorsRequest (s : State) : Option (Option Request) :=
  match s.syncing.response with
  | some (.complete _) => some none
  | some (.partial_ p k) => if p.remaining ≥ k then some (some (.followUp k)) else none
  | none =>
    match s.unstable.tree.blocks.map CBlock.hash with
    | [] => none
    | anchor :: rest => some (some (.initial anchor rest))

inductive HbResult where
  /-- ingestion paused / finished a block: the heartbeat returned early -/
  | ingested (s : State) (paused : Bool)
  /-- a request was issued; the heartbeat is suspended at the await -/
  | awaiting (s : State) (r : Request)
  /-- no request was issued: the stored response (if complete) was processed -/
  | processed (s : State)
  | trap

/-- the heartbeat up to its await point (or to its end) -/
def heartbeatStart (env : Env) (s : State) (budget : Nat) : HbResult :=
  match s.ingestStable env.bound budget with
  | .trap _ => .trap
  | .paused s' => .ingested s' true
  | .done s' true => .ingested s' false
  | .done s' false =>
    let fetch : Option (Option Request) :=
      if !s'.syncing.syncing then some none
      else if s'.syncing.isFetching then some none
      else successorsRequest s'
    match fetch with
    | none => .trap
    | some (some req) => .awaiting { s' with syncing := { s'.syncing with isFetching := true } } req
    | some none =>
      match processResponse env s' with
      | none => .trap
      | some s2 =>
        if s2.lazyFees then .processed s2
        else match s2.feePercentiles env.numTransactions with
          | none => .trap
          | some (s3, _) => .processed s3

/-- the continuation after the await: the reply is stored. `none` = trap (an assertion on the
    kind of reply fails): the state is rolled back except that the fetch guard is released. -/
def heartbeatReply (s : State) (r : Reply) : Option State :=
  let release (sy : SyncingState) : SyncingState := { sy with isFetching := false }
  match r with
  | .reject =>
    let sy : SyncingState := { s.syncing with rejects := s.syncing.rejects + 1, response := none }
    some { s with syncing := release sy }
  | .complete c =>
    if s.syncing.response.isSome then none
    else
      let sy : SyncingState := { s.syncing with response := some (.complete c) }
      some { s with syncing := release sy }
  | .partial_ p =>
    if s.syncing.response.isSome then none
    else
      let stored : ResponseToProcess :=
        if p.remaining = 0 then .complete ⟨[p.partialBlock], p.next⟩ else .partial_ p 0
      let sy : SyncingState := { s.syncing with response := some stored }
      some { s with syncing := release sy }
  | .followUp bytes =>
    match s.syncing.response with
    | some (.partial_ p pages) =>
      let p' := { p with partialBlock := p.partialBlock ++ bytes }
      let pages' := pages + 1
      -- `follow_up_index` is a `u8`: 255 + 1 overflows (panic in debug builds)
      if pages' > 255 then none
      else
        let stored : ResponseToProcess :=
          if pages' = p.remaining then .complete ⟨[p'.partialBlock], p'.next⟩ else .partial_ p' pages'
        let sy : SyncingState := { s.syncing with response := some stored }
        some { s with syncing := release sy }
    | _ => none

/-- what a trapped reply continuation leaves behind: only the guard release (cleanup) -/
def replyTrapState (s : State) : State := { s with syncing := { s.syncing with isFetching := false } }

/-! ### Guards, cycles, configuration, upgrade -/

inductive Refusal where
  | apiDisabled | wrongNetwork | notSynced
deriving Repr, DecidableEq, BEq

/-- `verify_api_access; verify_network; verify_synced` -/
def guard (env : Env) (s : State) (reqNet : Tree.Net) (syncRule : Bool) : Option Refusal :=
  if !s.apiAccess then some .apiDisabled
  else if reqNet ≠ s.network then some .wrongNetwork
  else if syncRule && s.disableApiIfNotSynced && !(s.isSynced env.syncedThreshold) then some .notSynced
  else none

/-- cycles accepted by `get_utxos` / `get_block_headers`:
    `none` = trap (too few cycles attached, or `maximum - base` underflows), nothing accepted -/
def chargeMetered (available base rate maximum : Nat) (instructions : Nat) (requestError : Bool) : Option Nat :=
  if available < maximum then none
  else if available < base then none
  else if requestError then some base
  else if maximum < base then none
  else
    let fee := min (instructions / 10 * rate) (maximum - base)
    if available - base < fee then none else some (base + fee)

/-- cycles accepted by `get_balance` / `get_current_fee_percentiles` -/
def chargeFlat (available flat maximum : Nat) : Option Nat :=
  if available < maximum then none
  else if available < flat then none
  else some flat

/-- cycles accepted by `send_transaction` -/
def chargeSend (available base perByte len : Nat) : Option Nat :=
  let amount := base + perByte * len
  if available < amount then none else some amount

structure SetConfig where
  syncing : Option Bool := none
  fees : Option Fees := none
  stabilityThreshold : Option Nat := none
  apiAccess : Option Bool := none
  disableApiIfNotSynced : Option Bool := none
  lazyFees : Option Bool := none
deriving Repr

/-- `set_config_no_verification` -/
def setConfig (s : State) (c : SetConfig) : State :=
  let s := match c.syncing with | some v => { s with syncing := { s.syncing with syncing := v } } | none => s
  let s := match c.fees with | some v => { s with fees := v } | none => s
  let s := match c.stabilityThreshold with | some v => { s with unstable := { s.unstable with thr := v } } | none => s
  let s := match c.apiAccess with | some v => { s with apiAccess := v } | none => s
  let s := match c.disableApiIfNotSynced with | some v => { s with disableApiIfNotSynced := v } | none => s
  match c.lazyFees with | some v => { s with lazyFees := v } | none => s

/-- `pre_upgrade` followed by `post_upgrade(config)`: the fetch state is reset, per-block metrics
    are not serialised, the tip-depth cache is recomputed, then the config is applied. -/
def upgrade (s : State) (c : Option SetConfig) : State :=
  let s1 := { s with syncing := { s.syncing with isFetching := false, response := none },
                     unstable := { s.unstable.clearMetrics with tipDepthsCache := s.unstable.tree.tipDepths } }
  match c with
  | some c => setConfig s1 c
  | none => s1

/-- `send_transaction` after its guards: `wellFormed` = the payload is exactly the consensus
    encoding of one transaction (see `Model/TxCodec.lean`); returns the new state and whether the
    payload was forwarded -/
def sendTransaction (s : State) (wellFormed : Bool) : State × Bool :=
  if wellFormed then ({ s with sendTxCount := s.sendTxCount + 1 }, true) else (s, false)

end State
end Btc
