import BtcModel.Model.BlockCodec

/-
  Validation vectors for `Model/BlockCodec.lean`, checked at elaboration time by `#guard` (compiled
  evaluator; the build fails if one of them is false).

  The expected values (block hashes, txids, ntxids, sizes, address texts, `is_op_return`,
  `check_merkle_root`) were printed by the vendored `bitcoin-dogecoin-0.32.7-doge.0` crate
  (`Address::from_script(..).to_string()`, `compute_txid`, `compute_ntxid`, `vsize`, `block_hash`, ..)
  through the generator `/tmp/agents/bcodec/probe/src/main.rs` (kept next to this file as
  `BlockCodecTest.probe.rs.txt`); the body below the helpers is its verbatim output.
  `.testnet` is rust-bitcoin's `Network::Testnet4` (`into_bitcoin_network`).
-/
namespace Btc.BlockCodec.Test

open Btc.TxCodec (decodeExact encodeTx)

def hexVal (c : Char) : Nat :=
  if '0' ≤ c ∧ c ≤ '9' then c.toNat - '0'.toNat
  else if 'a' ≤ c ∧ c ≤ 'f' then c.toNat - 'a'.toNat + 10
  else 0

def hexBytes : List Char → List Nat
  | a :: b :: rest => (hexVal a * 16 + hexVal b) :: hexBytes rest
  | _ => []

def hex (s : String) : List Nat := hexBytes s.toList

/-- the stored 32 bytes (hex of `to_byte_array()`) as the model number -/
def num (s : String) : Nat := Btc.Merkle.ofBeBytes (hex s)

def ascii (s : String) : List Nat := s.toList.map (·.toNat)

/-! ## Known-answer tests of the encoders (BIP-173 / BIP-350 / base58 reference vectors) -/

-- BIP-173: P2WPKH of the public key 0279BE66..., mainnet and testnet
#guard segwitEncode (ascii "bc") 0 (hex "751e76e8199196d454941c45d1b3a323f1433bd6") =
  ascii "bc1qw508d6qejxtdg4y5r3zarvary0c5xw7kv8f3t4"
#guard segwitEncode (ascii "tb") 0 (hex "1863143c14c5166804bd19203356da136c985678cd4d27a1b8c6329604903262") =
  ascii "tb1qrp33g0q5c5txsp9arysrx4k6zdkfs4nce4xj0gdcccefvpysxf3q0sl5k7"
-- BIP-350: v1 program (taproot-style), mainnet
#guard segwitEncode (ascii "bc") 1 (hex "79be667ef9dcbbac55a06295ce870b07029bfcdb2dce28d959f2815b16f81798") =
  ascii "bc1p0xlxvlhemja6c4dqv22uapctqupfhlxm9h8z3k2e72q4k9hcz7vqzk5jj0"
-- BIP-350: v16 two-byte program
#guard segwitEncode (ascii "bc") 16 (hex "751e") = ascii "bc1sw50qgdz25j"
-- base58check of the hash160 of the genesis coinbase key (the well-known address)
#guard base58Check (0 :: hex "62e907b15cbf27d5425399ebf6f0fb50ebb88f18") =
  ascii "1A1zP1eP5QGefi2DMPTfTL5SLmv7DivfNa"
#guard b58Alphabet = ascii "123456789ABCDEFGHJKLMNPQRSTUVWXYZabcdefghijkmnopqrstuvwxyz"
#guard bech32Charset = ascii "qpzry9x8gf2tvdw0s3jn54khce6mua7l"
#guard hrpOf .mainnet = ascii "bc" ∧ hrpOf .testnet = ascii "tb" ∧ hrpOf .regtest = ascii "bcrt"
#guard base58Encode [] = []
#guard base58Encode [0, 0, 0] = ascii "111"
#guard base58Encode [0, 0, 57] = ascii "11z"
#guard base58Encode [0, 0, 58] = ascii "1121"
#guard bytesToFes [0xff] = [31, 28]
#guard bytesToFes [0xff, 0x01] = [31, 28, 0, 16]
#guard hexOfBytes [0, 1, 0xab, 0xff] = "0001abff"

/-! ## Scripts and addresses -/

-- script: P2PKH
#guard isOpReturn (hex "76a9141114171a1d202326292c2f3235383b3e4144474a88ac") = false
#guard addressOf .mainnet (hex "76a9141114171a1d202326292c2f3235383b3e4144474a88ac") = some (ascii "12ZJZA2Vv3psZzj8bMERkHRNCkpLq3V5e6")
#guard addressOf .testnet (hex "76a9141114171a1d202326292c2f3235383b3e4144474a88ac") = some (ascii "mh5FrD7Uj5G8M7CkJvCoaCdh4kR3eo7U2w")
#guard addressOf .regtest (hex "76a9141114171a1d202326292c2f3235383b3e4144474a88ac") = some (ascii "mh5FrD7Uj5G8M7CkJvCoaCdh4kR3eo7U2w")

-- script: P2PKH, hash with 19 leading zero bytes
#guard isOpReturn (hex "76a914000000000000000000000000000000000000000188ac") = false
#guard addressOf .mainnet (hex "76a914000000000000000000000000000000000000000188ac") = some (ascii "11111111111111111111BZbvjr")
#guard addressOf .testnet (hex "76a914000000000000000000000000000000000000000188ac") = some (ascii "mfWxJ45yp2SFn7UciZyNpvDKrzbi36LaVX")
#guard addressOf .regtest (hex "76a914000000000000000000000000000000000000000188ac") = some (ascii "mfWxJ45yp2SFn7UciZyNpvDKrzbi36LaVX")

-- script: P2PKH, all-zero hash
#guard isOpReturn (hex "76a914000000000000000000000000000000000000000088ac") = false
#guard addressOf .mainnet (hex "76a914000000000000000000000000000000000000000088ac") = some (ascii "1111111111111111111114oLvT2")
#guard addressOf .testnet (hex "76a914000000000000000000000000000000000000000088ac") = some (ascii "mfWxJ45yp2SFn7UciZyNpvDKrzbhyfKrY8")
#guard addressOf .regtest (hex "76a914000000000000000000000000000000000000000088ac") = some (ascii "mfWxJ45yp2SFn7UciZyNpvDKrzbhyfKrY8")

-- script: P2SH
#guard isOpReturn (hex "a9141114171a1d202326292c2f3235383b3e4144474a87") = false
#guard addressOf .mainnet (hex "a9141114171a1d202326292c2f3235383b3e4144474a87") = some (ascii "33FKUhWwTx9FfARZiSu2AunJMH74PMYayQ")
#guard addressOf .testnet (hex "a9141114171a1d202326292c2f3235383b3e4144474a87") = some (ascii "2MtoXYSSy5Qebrx47PaWtnrmZZdKE8qqkeU")
#guard addressOf .regtest (hex "a9141114171a1d202326292c2f3235383b3e4144474a87") = some (ascii "2MtoXYSSy5Qebrx47PaWtnrmZZdKE8qqkeU")

-- script: P2SH, hash ff..ff
#guard isOpReturn (hex "a914ffffffffffffffffffffffffffffffffffffffff87") = false
#guard addressOf .mainnet (hex "a914ffffffffffffffffffffffffffffffffffffffff87") = some (ascii "3R2cuenjG5nFubqX9Wzuukdin2YfBbQ6Kw")
#guard addressOf .testnet (hex "a914ffffffffffffffffffffffffffffffffffffffff87") = some (ascii "2NGapyPiksYHc7PU4pecnXhcyzNkq1wvz5p")
#guard addressOf .regtest (hex "a914ffffffffffffffffffffffffffffffffffffffff87") = some (ascii "2NGapyPiksYHc7PU4pecnXhcyzNkq1wvz5p")

-- script: P2WPKH
#guard isOpReturn (hex "00141114171a1d202326292c2f3235383b3e4144474a") = false
#guard addressOf .mainnet (hex "00141114171a1d202326292c2f3235383b3e4144474a") = some (ascii "bc1qzy2pwxsayq3jv2fv9uer2wpm8eq5g3622hpa8e")
#guard addressOf .testnet (hex "00141114171a1d202326292c2f3235383b3e4144474a") = some (ascii "tb1qzy2pwxsayq3jv2fv9uer2wpm8eq5g362q36wu2")
#guard addressOf .regtest (hex "00141114171a1d202326292c2f3235383b3e4144474a") = some (ascii "bcrt1qzy2pwxsayq3jv2fv9uer2wpm8eq5g362zcrrtr")

-- script: P2WSH
#guard isOpReturn (hex "0020a0a5aaafb4b9bec3c8cdd2d7dce1e6ebf0f5faff04090e13181d22272c31363b") = false
#guard addressOf .mainnet (hex "0020a0a5aaafb4b9bec3c8cdd2d7dce1e6ebf0f5faff04090e13181d22272c31363b") = some (ascii "bc1q5zj64ta5hxlv8jxd6ttaec0xa0c0t7hlqsysuyccr53zwtp3xcasjpxwa8")
#guard addressOf .testnet (hex "0020a0a5aaafb4b9bec3c8cdd2d7dce1e6ebf0f5faff04090e13181d22272c31363b") = some (ascii "tb1q5zj64ta5hxlv8jxd6ttaec0xa0c0t7hlqsysuyccr53zwtp3xcas9fsp8g")
#guard addressOf .regtest (hex "0020a0a5aaafb4b9bec3c8cdd2d7dce1e6ebf0f5faff04090e13181d22272c31363b") = some (ascii "bcrt1q5zj64ta5hxlv8jxd6ttaec0xa0c0t7hlqsysuyccr53zwtp3xcasgs68jj")

-- script: P2TR
#guard isOpReturn (hex "5120a0a5aaafb4b9bec3c8cdd2d7dce1e6ebf0f5faff04090e13181d22272c31363b") = false
#guard addressOf .mainnet (hex "5120a0a5aaafb4b9bec3c8cdd2d7dce1e6ebf0f5faff04090e13181d22272c31363b") = some (ascii "bc1p5zj64ta5hxlv8jxd6ttaec0xa0c0t7hlqsysuyccr53zwtp3xcasckx89m")
#guard addressOf .testnet (hex "5120a0a5aaafb4b9bec3c8cdd2d7dce1e6ebf0f5faff04090e13181d22272c31363b") = some (ascii "tb1p5zj64ta5hxlv8jxd6ttaec0xa0c0t7hlqsysuyccr53zwtp3xcas07sgl5")
#guard addressOf .regtest (hex "5120a0a5aaafb4b9bec3c8cdd2d7dce1e6ebf0f5faff04090e13181d22272c31363b") = some (ascii "bcrt1p5zj64ta5hxlv8jxd6ttaec0xa0c0t7hlqsysuyccr53zwtp3xcasz86w2w")

-- script: witness v1, 20-byte program
#guard isOpReturn (hex "51141114171a1d202326292c2f3235383b3e4144474a") = false
#guard addressOf .mainnet (hex "51141114171a1d202326292c2f3235383b3e4144474a") = some (ascii "bc1pzy2pwxsayq3jv2fv9uer2wpm8eq5g36254x60s")
#guard addressOf .testnet (hex "51141114171a1d202326292c2f3235383b3e4144474a") = some (ascii "tb1pzy2pwxsayq3jv2fv9uer2wpm8eq5g3627naf5r")
#guard addressOf .regtest (hex "51141114171a1d202326292c2f3235383b3e4144474a") = some (ascii "bcrt1pzy2pwxsayq3jv2fv9uer2wpm8eq5g362u6yyr2")

-- script: witness v16, 2-byte program
#guard isOpReturn (hex "60024e73") = false
#guard addressOf .mainnet (hex "60024e73") = some (ascii "bc1sfeesxjqn0c")
#guard addressOf .testnet (hex "60024e73") = some (ascii "tb1sfeesnjwf5n")
#guard addressOf .regtest (hex "60024e73") = some (ascii "bcrt1sfees947hvh")

-- script: P2A (v1, program 4e73)
#guard isOpReturn (hex "51024e73") = false
#guard addressOf .mainnet (hex "51024e73") = some (ascii "bc1pfeessrawgf")
#guard addressOf .testnet (hex "51024e73") = some (ascii "tb1pfees9rn5nz")
#guard addressOf .regtest (hex "51024e73") = some (ascii "bcrt1pfeesnyr2tx")

-- script: witness v2, 40-byte program
#guard isOpReturn (hex "52280102030405060708090a0b0c0d0e0f101112131415161718191a1b1c1d1e1f202122232425262728") = false
#guard addressOf .mainnet (hex "52280102030405060708090a0b0c0d0e0f101112131415161718191a1b1c1d1e1f202122232425262728") = some (ascii "bc1zqypqxpq9qcrsszg2pvxq6rs0zqg3yyc5z5tpwxqergd3c8g7ruszzg3rysjjvfegxuqxd4")
#guard addressOf .testnet (hex "52280102030405060708090a0b0c0d0e0f101112131415161718191a1b1c1d1e1f202122232425262728") = some (ascii "tb1zqypqxpq9qcrsszg2pvxq6rs0zqg3yyc5z5tpwxqergd3c8g7ruszzg3rysjjvfegtx9r9a")
#guard addressOf .regtest (hex "52280102030405060708090a0b0c0d0e0f101112131415161718191a1b1c1d1e1f202122232425262728") = some (ascii "bcrt1zqypqxpq9qcrsszg2pvxq6rs0zqg3yyc5z5tpwxqergd3c8g7ruszzg3rysjjvfegzvvert")

-- script: witness v0, 21-byte program (error)
#guard isOpReturn (hex "001505060708090a0b0c0d0e0f10111213141516171819") = false
#guard addressOf .mainnet (hex "001505060708090a0b0c0d0e0f10111213141516171819") = none
#guard addressOf .testnet (hex "001505060708090a0b0c0d0e0f10111213141516171819") = none
#guard addressOf .regtest (hex "001505060708090a0b0c0d0e0f10111213141516171819") = none

-- script: witness v0, 2-byte program (error)
#guard isOpReturn (hex "00020102") = false
#guard addressOf .mainnet (hex "00020102") = none
#guard addressOf .testnet (hex "00020102") = none
#guard addressOf .regtest (hex "00020102") = none

-- script: v1 with 41-byte push (not a witness program)
#guard isOpReturn (hex "51290102030405060708090a0b0c0d0e0f101112131415161718191a1b1c1d1e1f20212223242526272829") = false
#guard addressOf .mainnet (hex "51290102030405060708090a0b0c0d0e0f101112131415161718191a1b1c1d1e1f20212223242526272829") = none
#guard addressOf .testnet (hex "51290102030405060708090a0b0c0d0e0f101112131415161718191a1b1c1d1e1f20212223242526272829") = none
#guard addressOf .regtest (hex "51290102030405060708090a0b0c0d0e0f101112131415161718191a1b1c1d1e1f20212223242526272829") = none

-- script: v1 with 1-byte push (not a witness program)
#guard isOpReturn (hex "510101") = false
#guard addressOf .mainnet (hex "510101") = none
#guard addressOf .testnet (hex "510101") = none
#guard addressOf .regtest (hex "510101") = none

-- script: opcode 0x61 + 20-byte push (not a version)
#guard isOpReturn (hex "61141114171a1d202326292c2f3235383b3e4144474a") = false
#guard addressOf .mainnet (hex "61141114171a1d202326292c2f3235383b3e4144474a") = none
#guard addressOf .testnet (hex "61141114171a1d202326292c2f3235383b3e4144474a") = none
#guard addressOf .regtest (hex "61141114171a1d202326292c2f3235383b3e4144474a") = none

-- script: OP_1NEGATE + 20-byte push (not a version)
#guard isOpReturn (hex "4f141114171a1d202326292c2f3235383b3e4144474a") = false
#guard addressOf .mainnet (hex "4f141114171a1d202326292c2f3235383b3e4144474a") = none
#guard addressOf .testnet (hex "4f141114171a1d202326292c2f3235383b3e4144474a") = none
#guard addressOf .regtest (hex "4f141114171a1d202326292c2f3235383b3e4144474a") = none

-- script: v1, push length does not match
#guard isOpReturn (hex "51140102030405060708090a0b0c0d0e0f10111213") = false
#guard addressOf .mainnet (hex "51140102030405060708090a0b0c0d0e0f10111213") = none
#guard addressOf .testnet (hex "51140102030405060708090a0b0c0d0e0f10111213") = none
#guard addressOf .regtest (hex "51140102030405060708090a0b0c0d0e0f10111213") = none

-- script: OP_RETURN with data
#guard isOpReturn (hex "6a0b68656c6c6f20776f726c64") = true
#guard addressOf .mainnet (hex "6a0b68656c6c6f20776f726c64") = none
#guard addressOf .testnet (hex "6a0b68656c6c6f20776f726c64") = none
#guard addressOf .regtest (hex "6a0b68656c6c6f20776f726c64") = none

-- script: bare OP_RETURN
#guard isOpReturn (hex "6a") = true
#guard addressOf .mainnet (hex "6a") = none
#guard addressOf .testnet (hex "6a") = none
#guard addressOf .regtest (hex "6a") = none

-- script: OP_RETURN witness commitment
#guard isOpReturn (hex "6a24aa21a9eda0a5aaafb4b9bec3c8cdd2d7dce1e6ebf0f5faff04090e13181d22272c31363b") = true
#guard addressOf .mainnet (hex "6a24aa21a9eda0a5aaafb4b9bec3c8cdd2d7dce1e6ebf0f5faff04090e13181d22272c31363b") = none
#guard addressOf .testnet (hex "6a24aa21a9eda0a5aaafb4b9bec3c8cdd2d7dce1e6ebf0f5faff04090e13181d22272c31363b") = none
#guard addressOf .regtest (hex "6a24aa21a9eda0a5aaafb4b9bec3c8cdd2d7dce1e6ebf0f5faff04090e13181d22272c31363b") = none

-- script: empty script
#guard isOpReturn (hex "") = false
#guard addressOf .mainnet (hex "") = none
#guard addressOf .testnet (hex "") = none
#guard addressOf .regtest (hex "") = none

-- script: P2PK
#guard isOpReturn (hex "2102a0a5aaafb4b9bec3c8cdd2d7dce1e6ebf0f5faff04090e13181d22272c31363bac") = false
#guard addressOf .mainnet (hex "2102a0a5aaafb4b9bec3c8cdd2d7dce1e6ebf0f5faff04090e13181d22272c31363bac") = none
#guard addressOf .testnet (hex "2102a0a5aaafb4b9bec3c8cdd2d7dce1e6ebf0f5faff04090e13181d22272c31363bac") = none
#guard addressOf .regtest (hex "2102a0a5aaafb4b9bec3c8cdd2d7dce1e6ebf0f5faff04090e13181d22272c31363bac") = none

-- script: P2PKH with wrong last opcode
#guard isOpReturn (hex "76a9141114171a1d202326292c2f3235383b3e4144474a88ad") = false
#guard addressOf .mainnet (hex "76a9141114171a1d202326292c2f3235383b3e4144474a88ad") = none
#guard addressOf .testnet (hex "76a9141114171a1d202326292c2f3235383b3e4144474a88ad") = none
#guard addressOf .regtest (hex "76a9141114171a1d202326292c2f3235383b3e4144474a88ad") = none

-- script: bare 1-of-1 multisig
#guard isOpReturn (hex "512102a0a5aaafb4b9bec3c8cdd2d7dce1e6ebf0f5faff04090e13181d22272c31363b51ae") = false
#guard addressOf .mainnet (hex "512102a0a5aaafb4b9bec3c8cdd2d7dce1e6ebf0f5faff04090e13181d22272c31363b51ae") = none
#guard addressOf .testnet (hex "512102a0a5aaafb4b9bec3c8cdd2d7dce1e6ebf0f5faff04090e13181d22272c31363b51ae") = none
#guard addressOf .regtest (hex "512102a0a5aaafb4b9bec3c8cdd2d7dce1e6ebf0f5faff04090e13181d22272c31363b51ae") = none

/-! ## Transactions -/

/-! transaction `txA` -/
def txA : List Nat := hex "010000000201080f161d242b323940474e555c636a71787f868d949ba2a9b0b7bec5ccd3da000000006b303132333435363738393a3b3c3d3e3f404142434445464748494a4b4c4d4e4f505152535455565758595a5b5c5d5e5f606162636465666768696a6b6c6d6e6f707172737475767778797a7b7c7d7e7f808182838485868788898a8b8c8d8e8f909192939495969798999affffffff020910171e252c333a41484f565d646b727980878e959ca3aab1b8bfc6cdd4db030000006a404142434445464748494a4b4c4d4e4f505152535455565758595a5b5c5d5e5f606162636465666768696a6b6c6d6e6f707172737475767778797a7b7c7d7e7f808182838485868788898a8b8c8d8e8f909192939495969798999a9b9c9d9e9fa0a1a2a3a4a5a6a7a8a9feffffff0215cd5b07000000001976a9141114171a1d202326292c2f3235383b3e4144474a88ac00000000000000000d6a0b68656c6c6f20776f726c6400000000"
#guard (decodeExact txA).isSome
#guard (decodeExact txA).map encodeTx = some txA
#guard (decodeExact txA).map txidOf = some (num "76ed1dc6a570b9ed5e0ac249844b0ceae36274f25ab8942d5eb99ffd2aeb9162")
#guard (decodeExact txA).map ntxidOf = some (num "04293924b641e0878fdc41444f5b422c0ab625ff2d99c5cd4a99e8021bbd6d4e")
#guard (decodeExact txA).map (fun t => (baseSize t, totalSize t, weightOf t, vsizeOf t)) = some (361, 361, 1444, 361)
#guard (decodeExact txA).map isCoinbase = some false
#guard (decodeExact txA).map (toModelTx .mainnet) = some
    { txid := num "76ed1dc6a570b9ed5e0ac249844b0ceae36274f25ab8942d5eb99ffd2aeb9162", ntxid := num "04293924b641e0878fdc41444f5b422c0ab625ff2d99c5cd4a99e8021bbd6d4e", coinbase := false, vsize := 361,
      ins := [⟨num "01080f161d242b323940474e555c636a71787f868d949ba2a9b0b7bec5ccd3da", 0⟩, ⟨num "020910171e252c333a41484f565d646b727980878e959ca3aab1b8bfc6cdd4db", 3⟩],
      outs := [⟨123456789, some (ascii "12ZJZA2Vv3psZzj8bMERkHRNCkpLq3V5e6"), false⟩, ⟨0, none, true⟩] }
#guard (decodeExact txA).map (toModelTx .testnet) = some
    { txid := num "76ed1dc6a570b9ed5e0ac249844b0ceae36274f25ab8942d5eb99ffd2aeb9162", ntxid := num "04293924b641e0878fdc41444f5b422c0ab625ff2d99c5cd4a99e8021bbd6d4e", coinbase := false, vsize := 361,
      ins := [⟨num "01080f161d242b323940474e555c636a71787f868d949ba2a9b0b7bec5ccd3da", 0⟩, ⟨num "020910171e252c333a41484f565d646b727980878e959ca3aab1b8bfc6cdd4db", 3⟩],
      outs := [⟨123456789, some (ascii "mh5FrD7Uj5G8M7CkJvCoaCdh4kR3eo7U2w"), false⟩, ⟨0, none, true⟩] }
#guard (decodeExact txA).map (toModelTx .regtest) = some
    { txid := num "76ed1dc6a570b9ed5e0ac249844b0ceae36274f25ab8942d5eb99ffd2aeb9162", ntxid := num "04293924b641e0878fdc41444f5b422c0ab625ff2d99c5cd4a99e8021bbd6d4e", coinbase := false, vsize := 361,
      ins := [⟨num "01080f161d242b323940474e555c636a71787f868d949ba2a9b0b7bec5ccd3da", 0⟩, ⟨num "020910171e252c333a41484f565d646b727980878e959ca3aab1b8bfc6cdd4db", 3⟩],
      outs := [⟨123456789, some (ascii "mh5FrD7Uj5G8M7CkJvCoaCdh4kR3eo7U2w"), false⟩, ⟨0, none, true⟩] }

/-! transaction `txA2` -/
def txA2 : List Nat := hex "010000000201080f161d242b323940474e555c636a71787f868d949ba2a9b0b7bec5ccd3da000000006c3132333435363738393a3b3c3d3e3f404142434445464748494a4b4c4d4e4f505152535455565758595a5b5c5d5e5f606162636465666768696a6b6c6d6e6f707172737475767778797a7b7c7d7e7f808182838485868788898a8b8c8d8e8f909192939495969798999a9b9cffffffff020910171e252c333a41484f565d646b727980878e959ca3aab1b8bfc6cdd4db030000006a404142434445464748494a4b4c4d4e4f505152535455565758595a5b5c5d5e5f606162636465666768696a6b6c6d6e6f707172737475767778797a7b7c7d7e7f808182838485868788898a8b8c8d8e8f909192939495969798999a9b9c9d9e9fa0a1a2a3a4a5a6a7a8a9feffffff0215cd5b07000000001976a9141114171a1d202326292c2f3235383b3e4144474a88ac00000000000000000d6a0b68656c6c6f20776f726c6400000000"
#guard (decodeExact txA2).isSome
#guard (decodeExact txA2).map encodeTx = some txA2
#guard (decodeExact txA2).map txidOf = some (num "3e09227c97fecbc3346ee55790d00d2ea11502eddfddc5a356f8391ee0fe6c97")
#guard (decodeExact txA2).map ntxidOf = some (num "04293924b641e0878fdc41444f5b422c0ab625ff2d99c5cd4a99e8021bbd6d4e")
#guard (decodeExact txA2).map (fun t => (baseSize t, totalSize t, weightOf t, vsizeOf t)) = some (362, 362, 1448, 362)
#guard (decodeExact txA2).map isCoinbase = some false
#guard (decodeExact txA2).map (toModelTx .mainnet) = some
    { txid := num "3e09227c97fecbc3346ee55790d00d2ea11502eddfddc5a356f8391ee0fe6c97", ntxid := num "04293924b641e0878fdc41444f5b422c0ab625ff2d99c5cd4a99e8021bbd6d4e", coinbase := false, vsize := 362,
      ins := [⟨num "01080f161d242b323940474e555c636a71787f868d949ba2a9b0b7bec5ccd3da", 0⟩, ⟨num "020910171e252c333a41484f565d646b727980878e959ca3aab1b8bfc6cdd4db", 3⟩],
      outs := [⟨123456789, some (ascii "12ZJZA2Vv3psZzj8bMERkHRNCkpLq3V5e6"), false⟩, ⟨0, none, true⟩] }
#guard (decodeExact txA2).map (toModelTx .testnet) = some
    { txid := num "3e09227c97fecbc3346ee55790d00d2ea11502eddfddc5a356f8391ee0fe6c97", ntxid := num "04293924b641e0878fdc41444f5b422c0ab625ff2d99c5cd4a99e8021bbd6d4e", coinbase := false, vsize := 362,
      ins := [⟨num "01080f161d242b323940474e555c636a71787f868d949ba2a9b0b7bec5ccd3da", 0⟩, ⟨num "020910171e252c333a41484f565d646b727980878e959ca3aab1b8bfc6cdd4db", 3⟩],
      outs := [⟨123456789, some (ascii "mh5FrD7Uj5G8M7CkJvCoaCdh4kR3eo7U2w"), false⟩, ⟨0, none, true⟩] }
#guard (decodeExact txA2).map (toModelTx .regtest) = some
    { txid := num "3e09227c97fecbc3346ee55790d00d2ea11502eddfddc5a356f8391ee0fe6c97", ntxid := num "04293924b641e0878fdc41444f5b422c0ab625ff2d99c5cd4a99e8021bbd6d4e", coinbase := false, vsize := 362,
      ins := [⟨num "01080f161d242b323940474e555c636a71787f868d949ba2a9b0b7bec5ccd3da", 0⟩, ⟨num "020910171e252c333a41484f565d646b727980878e959ca3aab1b8bfc6cdd4db", 3⟩],
      outs := [⟨123456789, some (ascii "mh5FrD7Uj5G8M7CkJvCoaCdh4kR3eo7U2w"), false⟩, ⟨0, none, true⟩] }
#guard (decodeExact txA).map ntxidOf = (decodeExact txA2).map ntxidOf

/-! transaction `txB` -/
def txB : List Nat := hex "02000000000102030a11181f262d343b424950575e656c737a81888f969da4abb2b9c0c7ced5dc0100000000fdffffff040b121920272e353c434a51585f666d747b828990979ea5acb3bac1c8cfd6dd0403020117161718191a1b1c1d1e1f202122232425262728292a2b2c000000000488130000000000001600141114171a1d202326292c2f3235383b3e4144474a0040075af0750700225120a0a5aaafb4b9bec3c8cdd2d7dce1e6ebf0f5faff04090e13181d22272c31363b010000000000000017a9141114171a1d202326292c2f3235383b3e4144474a87220200000000000017001505060708090a0b0c0d0e0f101112131415161718190248303132333435363738393a3b3c3d3e3f404142434445464748494a4b4c4d4e4f505152535455565758595a5b5c5d5e5f606162636465666768696a6b6c6d6e6f70717273747576772102030405060708090a0b0c0d0e0f101112131415161718191a1b1c1d1e1f2021220000350c00"
#guard (decodeExact txB).isSome
#guard (decodeExact txB).map encodeTx = some txB
#guard (decodeExact txB).map txidOf = some (num "7482181eaabfb8bf973b190f0b7d969f3eeadbd5e88e928b189a928f60b265f0")
#guard (decodeExact txB).map ntxidOf = some (num "cc2ba8cd4f489f6077b0e496abe65533a33842808c791737ef0c64a6fa6647c3")
#guard (decodeExact txB).map (fun t => (baseSize t, totalSize t, weightOf t, vsizeOf t)) = some (253, 364, 1123, 281)
#guard (decodeExact txB).map isCoinbase = some false
#guard (decodeExact txB).map (toModelTx .mainnet) = some
    { txid := num "7482181eaabfb8bf973b190f0b7d969f3eeadbd5e88e928b189a928f60b265f0", ntxid := num "cc2ba8cd4f489f6077b0e496abe65533a33842808c791737ef0c64a6fa6647c3", coinbase := false, vsize := 281,
      ins := [⟨num "030a11181f262d343b424950575e656c737a81888f969da4abb2b9c0c7ced5dc", 1⟩, ⟨num "040b121920272e353c434a51585f666d747b828990979ea5acb3bac1c8cfd6dd", 16909060⟩],
      outs := [⟨5000, some (ascii "bc1qzy2pwxsayq3jv2fv9uer2wpm8eq5g3622hpa8e"), false⟩, ⟨2100000000000000, some (ascii "bc1p5zj64ta5hxlv8jxd6ttaec0xa0c0t7hlqsysuyccr53zwtp3xcasckx89m"), false⟩, ⟨1, some (ascii "33FKUhWwTx9FfARZiSu2AunJMH74PMYayQ"), false⟩, ⟨546, none, false⟩] }
#guard (decodeExact txB).map (toModelTx .testnet) = some
    { txid := num "7482181eaabfb8bf973b190f0b7d969f3eeadbd5e88e928b189a928f60b265f0", ntxid := num "cc2ba8cd4f489f6077b0e496abe65533a33842808c791737ef0c64a6fa6647c3", coinbase := false, vsize := 281,
      ins := [⟨num "030a11181f262d343b424950575e656c737a81888f969da4abb2b9c0c7ced5dc", 1⟩, ⟨num "040b121920272e353c434a51585f666d747b828990979ea5acb3bac1c8cfd6dd", 16909060⟩],
      outs := [⟨5000, some (ascii "tb1qzy2pwxsayq3jv2fv9uer2wpm8eq5g362q36wu2"), false⟩, ⟨2100000000000000, some (ascii "tb1p5zj64ta5hxlv8jxd6ttaec0xa0c0t7hlqsysuyccr53zwtp3xcas07sgl5"), false⟩, ⟨1, some (ascii "2MtoXYSSy5Qebrx47PaWtnrmZZdKE8qqkeU"), false⟩, ⟨546, none, false⟩] }
#guard (decodeExact txB).map (toModelTx .regtest) = some
    { txid := num "7482181eaabfb8bf973b190f0b7d969f3eeadbd5e88e928b189a928f60b265f0", ntxid := num "cc2ba8cd4f489f6077b0e496abe65533a33842808c791737ef0c64a6fa6647c3", coinbase := false, vsize := 281,
      ins := [⟨num "030a11181f262d343b424950575e656c737a81888f969da4abb2b9c0c7ced5dc", 1⟩, ⟨num "040b121920272e353c434a51585f666d747b828990979ea5acb3bac1c8cfd6dd", 16909060⟩],
      outs := [⟨5000, some (ascii "bcrt1qzy2pwxsayq3jv2fv9uer2wpm8eq5g362zcrrtr"), false⟩, ⟨2100000000000000, some (ascii "bcrt1p5zj64ta5hxlv8jxd6ttaec0xa0c0t7hlqsysuyccr53zwtp3xcasz86w2w"), false⟩, ⟨1, some (ascii "2MtoXYSSy5Qebrx47PaWtnrmZZdKE8qqkeU"), false⟩, ⟨546, none, false⟩] }

/-! transaction `txC` -/
def txC : List Nat := hex "020000000001010000000000000000000000000000000000000000000000000000000000000000ffffffff050265000101ffffffff0200f2052a01000000220020a0a5aaafb4b9bec3c8cdd2d7dce1e6ebf0f5faff04090e13181d22272c31363b0000000000000000266a24aa21a9eda0a5aaafb4b9bec3c8cdd2d7dce1e6ebf0f5faff04090e13181d22272c31363b0120000000000000000000000000000000000000000000000000000000000000000000000000"
#guard (decodeExact txC).isSome
#guard (decodeExact txC).map encodeTx = some txC
#guard (decodeExact txC).map txidOf = some (num "29a2730752c7272f2221f1b65177879d9e47a1df32bacc690e5a85b2e53cde20")
#guard (decodeExact txC).map ntxidOf = some (num "e8f7d0e2da2081998f3a2d8ab7e759105abd7aa803a50430330c173794961f2a")
#guard (decodeExact txC).map (fun t => (baseSize t, totalSize t, weightOf t, vsizeOf t)) = some (146, 182, 620, 155)
#guard (decodeExact txC).map isCoinbase = some true
#guard (decodeExact txC).map (toModelTx .mainnet) = some
    { txid := num "29a2730752c7272f2221f1b65177879d9e47a1df32bacc690e5a85b2e53cde20", ntxid := num "e8f7d0e2da2081998f3a2d8ab7e759105abd7aa803a50430330c173794961f2a", coinbase := true, vsize := 155,
      ins := [],
      outs := [⟨5000000000, some (ascii "bc1q5zj64ta5hxlv8jxd6ttaec0xa0c0t7hlqsysuyccr53zwtp3xcasjpxwa8"), false⟩, ⟨0, none, true⟩] }
#guard (decodeExact txC).map (toModelTx .testnet) = some
    { txid := num "29a2730752c7272f2221f1b65177879d9e47a1df32bacc690e5a85b2e53cde20", ntxid := num "e8f7d0e2da2081998f3a2d8ab7e759105abd7aa803a50430330c173794961f2a", coinbase := true, vsize := 155,
      ins := [],
      outs := [⟨5000000000, some (ascii "tb1q5zj64ta5hxlv8jxd6ttaec0xa0c0t7hlqsysuyccr53zwtp3xcas9fsp8g"), false⟩, ⟨0, none, true⟩] }
#guard (decodeExact txC).map (toModelTx .regtest) = some
    { txid := num "29a2730752c7272f2221f1b65177879d9e47a1df32bacc690e5a85b2e53cde20", ntxid := num "e8f7d0e2da2081998f3a2d8ab7e759105abd7aa803a50430330c173794961f2a", coinbase := true, vsize := 155,
      ins := [],
      outs := [⟨5000000000, some (ascii "bcrt1q5zj64ta5hxlv8jxd6ttaec0xa0c0t7hlqsysuyccr53zwtp3xcasgs68jj"), false⟩, ⟨0, none, true⟩] }

/-! transaction `txD` -/
def txD : List Nat := hex "ffffff7f00010001ffffffffffffffff232102a0a5aaafb4b9bec3c8cdd2d7dce1e6ebf0f5faff04090e13181d22272c31363bacffffffff"
#guard (decodeExact txD).isSome
#guard (decodeExact txD).map encodeTx = some txD
#guard (decodeExact txD).map txidOf = some (num "3aea4f689ac6e180557c660cc995648a6bc6542574daf02439d012713fe8b21b")
#guard (decodeExact txD).map ntxidOf = some (num "3aea4f689ac6e180557c660cc995648a6bc6542574daf02439d012713fe8b21b")
#guard (decodeExact txD).map (fun t => (baseSize t, totalSize t, weightOf t, vsizeOf t)) = some (54, 56, 218, 55)
#guard (decodeExact txD).map isCoinbase = some false
#guard (decodeExact txD).map (toModelTx .mainnet) = some
    { txid := num "3aea4f689ac6e180557c660cc995648a6bc6542574daf02439d012713fe8b21b", ntxid := num "3aea4f689ac6e180557c660cc995648a6bc6542574daf02439d012713fe8b21b", coinbase := false, vsize := 55,
      ins := [],
      outs := [⟨18446744073709551615, none, false⟩] }
#guard (decodeExact txD).map (toModelTx .testnet) = some
    { txid := num "3aea4f689ac6e180557c660cc995648a6bc6542574daf02439d012713fe8b21b", ntxid := num "3aea4f689ac6e180557c660cc995648a6bc6542574daf02439d012713fe8b21b", coinbase := false, vsize := 55,
      ins := [],
      outs := [⟨18446744073709551615, none, false⟩] }
#guard (decodeExact txD).map (toModelTx .regtest) = some
    { txid := num "3aea4f689ac6e180557c660cc995648a6bc6542574daf02439d012713fe8b21b", ntxid := num "3aea4f689ac6e180557c660cc995648a6bc6542574daf02439d012713fe8b21b", coinbase := false, vsize := 55,
      ins := [],
      outs := [⟨18446744073709551615, none, false⟩] }

/-! transaction `txE` -/
def txE : List Nat := hex "ffffffff0001010910171e252c333a41484f565d646b727980878e959ca3aab1b8bfc6cdd4dbe2fffffffffd2c01000102030405060708090a0b0c0d0e0f101112131415161718191a1b1c1d1e1f202122232425262728292a2b2c2d2e2f303132333435363738393a3b3c3d3e3f404142434445464748494a4b4c4d4e4f505152535455565758595a5b5c5d5e5f606162636465666768696a6b6c6d6e6f707172737475767778797a7b7c7d7e7f808182838485868788898a8b8c8d8e8f909192939495969798999a9b9c9d9e9fa0a1a2a3a4a5a6a7a8a9aaabacadaeafb0b1b2b3b4b5b6b7b8b9babbbcbdbebfc0c1c2c3c4c5c6c7c8c9cacbcccdcecfd0d1d2d3d4d5d6d7d8d9dadbdcdddedfe0e1e2e3e4e5e6e7e8e9eaebecedeeeff0f1f2f3f4f5f6f7f8f9fafbfcfdfeff000102030405060708090a0b0c0d0e0f101112131415161718191a1b1c1d1e1f202122232425262728292a2b05000000020700000000000000fd0401515151515151515151515151515151515151515151515151515151515151515151515151515151515151515151515151515151515151515151515151515151515151515151515151515151515151515151515151515151515151515151515151515151515151515151515151515151515151515151515151515151515151515151515151515151515151515151515151515151515151515151515151515151515151515151515151515151515151515151515151515151515151515151515151515151515151515151515151515151515151515151515151515151515151515151515151515151515151515151515151515151515151515151515151515151515151515108000000000000000460024e7303fd2c01000102030405060708090a0b0c0d0e0f101112131415161718191a1b1c1d1e1f202122232425262728292a2b2c2d2e2f303132333435363738393a3b3c3d3e3f404142434445464748494a4b4c4d4e4f505152535455565758595a5b5c5d5e5f606162636465666768696a6b6c6d6e6f707172737475767778797a7b7c7d7e7f808182838485868788898a8b8c8d8e8f909192939495969798999a9b9c9d9e9fa0a1a2a3a4a5a6a7a8a9aaabacadaeafb0b1b2b3b4b5b6b7b8b9babbbcbdbebfc0c1c2c3c4c5c6c7c8c9cacbcccdcecfd0d1d2d3d4d5d6d7d8d9dadbdcdddedfe0e1e2e3e4e5e6e7e8e9eaebecedeeeff0f1f2f3f4f5f6f7f8f9fafbfcfdfeff000102030405060708090a0b0c0d0e0f101112131415161718191a1b1c1d1e1f202122232425262728292a2b0001010165cd1d"
#guard (decodeExact txE).isSome
#guard (decodeExact txE).map encodeTx = some txE
#guard (decodeExact txE).map txidOf = some (num "476c343cd9ac88a453e4df7d0973693ac6e0ceb1f3aa32fe761e510331456351")
#guard (decodeExact txE).map ntxidOf = some (num "8315b70b0763f87728d17085f742c5bd90800e21b19cd05274fd0492fe955403")
#guard (decodeExact txE).map (fun t => (baseSize t, totalSize t, weightOf t, vsizeOf t)) = some (637, 946, 2857, 715)
#guard (decodeExact txE).map isCoinbase = some false
#guard (decodeExact txE).map (toModelTx .mainnet) = some
    { txid := num "476c343cd9ac88a453e4df7d0973693ac6e0ceb1f3aa32fe761e510331456351", ntxid := num "8315b70b0763f87728d17085f742c5bd90800e21b19cd05274fd0492fe955403", coinbase := false, vsize := 715,
      ins := [⟨num "0910171e252c333a41484f565d646b727980878e959ca3aab1b8bfc6cdd4dbe2", 4294967295⟩],
      outs := [⟨7, none, false⟩, ⟨8, some (ascii "bc1sfeesxjqn0c"), false⟩] }
#guard (decodeExact txE).map (toModelTx .testnet) = some
    { txid := num "476c343cd9ac88a453e4df7d0973693ac6e0ceb1f3aa32fe761e510331456351", ntxid := num "8315b70b0763f87728d17085f742c5bd90800e21b19cd05274fd0492fe955403", coinbase := false, vsize := 715,
      ins := [⟨num "0910171e252c333a41484f565d646b727980878e959ca3aab1b8bfc6cdd4dbe2", 4294967295⟩],
      outs := [⟨7, none, false⟩, ⟨8, some (ascii "tb1sfeesnjwf5n"), false⟩] }
#guard (decodeExact txE).map (toModelTx .regtest) = some
    { txid := num "476c343cd9ac88a453e4df7d0973693ac6e0ceb1f3aa32fe761e510331456351", ntxid := num "8315b70b0763f87728d17085f742c5bd90800e21b19cd05274fd0492fe955403", coinbase := false, vsize := 715,
      ins := [⟨num "0910171e252c333a41484f565d646b727980878e959ca3aab1b8bfc6cdd4dbe2", 4294967295⟩],
      outs := [⟨7, none, false⟩, ⟨8, some (ascii "bcrt1sfees947hvh"), false⟩] }

/-! transaction `txF` -/
def txF : List Nat := hex "01000000010000000000000000000000000000000000000000000000000000000000000000000000000151ffffffff01e8030000000000001651141114171a1d202326292c2f3235383b3e4144474a00000000"
#guard (decodeExact txF).isSome
#guard (decodeExact txF).map encodeTx = some txF
#guard (decodeExact txF).map txidOf = some (num "4ac326f1fbd6fa2ea18ee8a956c6b5f8d3e370369e3685e39d079cc27779b0d0")
#guard (decodeExact txF).map ntxidOf = some (num "2b0445d907a3604a69626739b9bafb622b52342328d2add1b1ba7995985f12b2")
#guard (decodeExact txF).map (fun t => (baseSize t, totalSize t, weightOf t, vsizeOf t)) = some (83, 83, 332, 83)
#guard (decodeExact txF).map isCoinbase = some false
#guard (decodeExact txF).map (toModelTx .mainnet) = some
    { txid := num "4ac326f1fbd6fa2ea18ee8a956c6b5f8d3e370369e3685e39d079cc27779b0d0", ntxid := num "2b0445d907a3604a69626739b9bafb622b52342328d2add1b1ba7995985f12b2", coinbase := false, vsize := 83,
      ins := [⟨num "0000000000000000000000000000000000000000000000000000000000000000", 0⟩],
      outs := [⟨1000, some (ascii "bc1pzy2pwxsayq3jv2fv9uer2wpm8eq5g36254x60s"), false⟩] }
#guard (decodeExact txF).map (toModelTx .testnet) = some
    { txid := num "4ac326f1fbd6fa2ea18ee8a956c6b5f8d3e370369e3685e39d079cc27779b0d0", ntxid := num "2b0445d907a3604a69626739b9bafb622b52342328d2add1b1ba7995985f12b2", coinbase := false, vsize := 83,
      ins := [⟨num "0000000000000000000000000000000000000000000000000000000000000000", 0⟩],
      outs := [⟨1000, some (ascii "tb1pzy2pwxsayq3jv2fv9uer2wpm8eq5g3627naf5r"), false⟩] }
#guard (decodeExact txF).map (toModelTx .regtest) = some
    { txid := num "4ac326f1fbd6fa2ea18ee8a956c6b5f8d3e370369e3685e39d079cc27779b0d0", ntxid := num "2b0445d907a3604a69626739b9bafb622b52342328d2add1b1ba7995985f12b2", coinbase := false, vsize := 83,
      ins := [⟨num "0000000000000000000000000000000000000000000000000000000000000000", 0⟩],
      outs := [⟨1000, some (ascii "bcrt1pzy2pwxsayq3jv2fv9uer2wpm8eq5g362u6yyr2"), false⟩] }

/-! transaction `txG` -/
def txG : List Nat := hex "01000000020000000000000000000000000000000000000000000000000000000000000000ffffffff0151ffffffff0000000000000000000000000000000000000000000000000000000000000000ffffffff0152ffffffff01e8030000000000000451024e7300000000"
#guard (decodeExact txG).isSome
#guard (decodeExact txG).map encodeTx = some txG
#guard (decodeExact txG).map txidOf = some (num "9111d4097bd1909f30549ca5c5ec053dd027d5e1f7e7648409a6a6ef55d5f36b")
#guard (decodeExact txG).map ntxidOf = some (num "8451c556f8089c87ee554e0b8d670f7850d72d8d8150d29476bdcb3423543285")
#guard (decodeExact txG).map (fun t => (baseSize t, totalSize t, weightOf t, vsizeOf t)) = some (107, 107, 428, 107)
#guard (decodeExact txG).map isCoinbase = some false
#guard (decodeExact txG).map (toModelTx .mainnet) = some
    { txid := num "9111d4097bd1909f30549ca5c5ec053dd027d5e1f7e7648409a6a6ef55d5f36b", ntxid := num "8451c556f8089c87ee554e0b8d670f7850d72d8d8150d29476bdcb3423543285", coinbase := false, vsize := 107,
      ins := [],
      outs := [⟨1000, some (ascii "bc1pfeessrawgf"), false⟩] }
#guard (decodeExact txG).map (toModelTx .testnet) = some
    { txid := num "9111d4097bd1909f30549ca5c5ec053dd027d5e1f7e7648409a6a6ef55d5f36b", ntxid := num "8451c556f8089c87ee554e0b8d670f7850d72d8d8150d29476bdcb3423543285", coinbase := false, vsize := 107,
      ins := [],
      outs := [⟨1000, some (ascii "tb1pfees9rn5nz"), false⟩] }
#guard (decodeExact txG).map (toModelTx .regtest) = some
    { txid := num "9111d4097bd1909f30549ca5c5ec053dd027d5e1f7e7648409a6a6ef55d5f36b", ntxid := num "8451c556f8089c87ee554e0b8d670f7850d72d8d8150d29476bdcb3423543285", coinbase := false, vsize := 107,
      ins := [],
      outs := [⟨1000, some (ascii "bcrt1pfeesnyr2tx"), false⟩] }

/-! ## Blocks -/

/-! block `genesisMainnet` -/
def genesisMainnet : List Nat := hex "0100000000000000000000000000000000000000000000000000000000000000000000003ba3edfd7a7b12b27ac72c3e67768f617fc81bc3888a51323a9fb8aa4b1e5e4a29ab5f49ffff001d1dac2b7c0101000000010000000000000000000000000000000000000000000000000000000000000000ffffffff4d04ffff001d0104455468652054696d65732030332f4a616e2f32303039204368616e63656c6c6f72206f6e206272696e6b206f66207365636f6e64206261696c6f757420666f722062616e6b73ffffffff0100f2052a01000000434104678afdb0fe5548271967f1a67130b7105cd6a828e03909a67962e0ea1f61deb649f6bc3f4cef38c4f35504e51ec112de5c384df7ba0b8d578a4c702b6bf11d5fac00000000"
#guard (decodeBlockExact genesisMainnet).isSome
#guard (decodeBlockExact genesisMainnet).map encodeBlock = some genesisMainnet
#guard headerHash (genesisMainnet.take 80) = num "6fe28c0ab6f1b372c1a6a246ae63f74f931e8365e15a089c68d6190000000000"
#guard (decodeHeader genesisMainnet).map (fun p => (p.1.version, p.1.time, p.1.bits, p.1.nonce, p.1.hash)) = some (1, 1231006505, 486604799, 2083236893, num "6fe28c0ab6f1b372c1a6a246ae63f74f931e8365e15a089c68d6190000000000")
#guard (decodeBlockExact genesisMainnet).map (fun b => b.txs.map txidOf) = some [num "3ba3edfd7a7b12b27ac72c3e67768f617fc81bc3888a51323a9fb8aa4b1e5e4a"]
#guard blockOfBytes .mainnet (fun _ => 0) genesisMainnet = some
  { hash := num "6fe28c0ab6f1b372c1a6a246ae63f74f931e8365e15a089c68d6190000000000", prev := num "0000000000000000000000000000000000000000000000000000000000000000", diff := 0, time := 1231006505, bits := 486604799,
    header := "0100000000000000000000000000000000000000000000000000000000000000000000003ba3edfd7a7b12b27ac72c3e67768f617fc81bc3888a51323a9fb8aa4b1e5e4a29ab5f49ffff001d1dac2b7c",
    txs := [
    { txid := num "3ba3edfd7a7b12b27ac72c3e67768f617fc81bc3888a51323a9fb8aa4b1e5e4a", ntxid := num "c1787e0d9f66f25d3f7b90a50e0f23f4d573bc70a793a9b0c42b4167e487942a", coinbase := true, vsize := 204,
      ins := [],
      outs := [⟨5000000000, none, false⟩] }],
    merkleOk := true }

/-! block `genesisTestnet4` -/
def genesisTestnet4 : List Nat := hex "0100000000000000000000000000000000000000000000000000000000000000000000004e7b2b9128fe0291db0693af2ae418b767e657cd407e80cb1434221eaea7a07a046f3566ffff001dbb0c78170101000000010000000000000000000000000000000000000000000000000000000000000000ffffffff5504ffff001d01044c4c30332f4d61792f323032342030303030303030303030303030303030303030303165626435386332343439373062336161396437383362623030313031316662653865613865393865303065ffffffff0100f2052a010000002321000000000000000000000000000000000000000000000000000000000000000000ac00000000"
#guard (decodeBlockExact genesisTestnet4).isSome
#guard (decodeBlockExact genesisTestnet4).map encodeBlock = some genesisTestnet4
#guard headerHash (genesisTestnet4.take 80) = num "43f08bdab050e35b567c864b91f47f50ae725ae2de53bcfbbaf284da00000000"
#guard (decodeHeader genesisTestnet4).map (fun p => (p.1.version, p.1.time, p.1.bits, p.1.nonce, p.1.hash)) = some (1, 1714777860, 486604799, 393743547, num "43f08bdab050e35b567c864b91f47f50ae725ae2de53bcfbbaf284da00000000")
#guard (decodeBlockExact genesisTestnet4).map (fun b => b.txs.map txidOf) = some [num "4e7b2b9128fe0291db0693af2ae418b767e657cd407e80cb1434221eaea7a07a"]
#guard blockOfBytes .testnet (fun _ => 0) genesisTestnet4 = some
  { hash := num "43f08bdab050e35b567c864b91f47f50ae725ae2de53bcfbbaf284da00000000", prev := num "0000000000000000000000000000000000000000000000000000000000000000", diff := 0, time := 1714777860, bits := 486604799,
    header := "0100000000000000000000000000000000000000000000000000000000000000000000004e7b2b9128fe0291db0693af2ae418b767e657cd407e80cb1434221eaea7a07a046f3566ffff001dbb0c7817",
    txs := [
    { txid := num "4e7b2b9128fe0291db0693af2ae418b767e657cd407e80cb1434221eaea7a07a", ntxid := num "e5f099c0a39462f70ffd432b8e0d2dd6878404ec85afec9aea09bc31d37a61a3", coinbase := true, vsize := 180,
      ins := [],
      outs := [⟨5000000000, none, false⟩] }],
    merkleOk := true }

/-! block `genesisRegtest` -/
def genesisRegtest : List Nat := hex "0100000000000000000000000000000000000000000000000000000000000000000000003ba3edfd7a7b12b27ac72c3e67768f617fc81bc3888a51323a9fb8aa4b1e5e4adae5494dffff7f20020000000101000000010000000000000000000000000000000000000000000000000000000000000000ffffffff4d04ffff001d0104455468652054696d65732030332f4a616e2f32303039204368616e63656c6c6f72206f6e206272696e6b206f66207365636f6e64206261696c6f757420666f722062616e6b73ffffffff0100f2052a01000000434104678afdb0fe5548271967f1a67130b7105cd6a828e03909a67962e0ea1f61deb649f6bc3f4cef38c4f35504e51ec112de5c384df7ba0b8d578a4c702b6bf11d5fac00000000"
#guard (decodeBlockExact genesisRegtest).isSome
#guard (decodeBlockExact genesisRegtest).map encodeBlock = some genesisRegtest
#guard headerHash (genesisRegtest.take 80) = num "06226e46111a0b59caaf126043eb5bbf28c34f3a5e332a1fc7b2b73cf188910f"
#guard (decodeHeader genesisRegtest).map (fun p => (p.1.version, p.1.time, p.1.bits, p.1.nonce, p.1.hash)) = some (1, 1296688602, 545259519, 2, num "06226e46111a0b59caaf126043eb5bbf28c34f3a5e332a1fc7b2b73cf188910f")
#guard (decodeBlockExact genesisRegtest).map (fun b => b.txs.map txidOf) = some [num "3ba3edfd7a7b12b27ac72c3e67768f617fc81bc3888a51323a9fb8aa4b1e5e4a"]
#guard blockOfBytes .regtest (fun _ => 0) genesisRegtest = some
  { hash := num "06226e46111a0b59caaf126043eb5bbf28c34f3a5e332a1fc7b2b73cf188910f", prev := num "0000000000000000000000000000000000000000000000000000000000000000", diff := 0, time := 1296688602, bits := 545259519,
    header := "0100000000000000000000000000000000000000000000000000000000000000000000003ba3edfd7a7b12b27ac72c3e67768f617fc81bc3888a51323a9fb8aa4b1e5e4adae5494dffff7f2002000000",
    txs := [
    { txid := num "3ba3edfd7a7b12b27ac72c3e67768f617fc81bc3888a51323a9fb8aa4b1e5e4a", ntxid := num "c1787e0d9f66f25d3f7b90a50e0f23f4d573bc70a793a9b0c42b4167e487942a", coinbase := true, vsize := 204,
      ins := [],
      outs := [⟨5000000000, none, false⟩] }],
    merkleOk := true }

/-! block `block3tx` -/
def block3tx : List Nat := hex "0000002006226e46111a0b59caaf126043eb5bbf28c34f3a5e332a1fc7b2b73cf188910f03525401db0b0e3dd691f9fe5cd821d534eadaa7771ca41e0a43054118cf6e8b00f15365ffff7f200700000003020000000001010000000000000000000000000000000000000000000000000000000000000000ffffffff050265000101ffffffff0200f2052a01000000220020a0a5aaafb4b9bec3c8cdd2d7dce1e6ebf0f5faff04090e13181d22272c31363b0000000000000000266a24aa21a9eda0a5aaafb4b9bec3c8cdd2d7dce1e6ebf0f5faff04090e13181d22272c31363b0120000000000000000000000000000000000000000000000000000000000000000000000000010000000201080f161d242b323940474e555c636a71787f868d949ba2a9b0b7bec5ccd3da000000006b303132333435363738393a3b3c3d3e3f404142434445464748494a4b4c4d4e4f505152535455565758595a5b5c5d5e5f606162636465666768696a6b6c6d6e6f707172737475767778797a7b7c7d7e7f808182838485868788898a8b8c8d8e8f909192939495969798999affffffff020910171e252c333a41484f565d646b727980878e959ca3aab1b8bfc6cdd4db030000006a404142434445464748494a4b4c4d4e4f505152535455565758595a5b5c5d5e5f606162636465666768696a6b6c6d6e6f707172737475767778797a7b7c7d7e7f808182838485868788898a8b8c8d8e8f909192939495969798999a9b9c9d9e9fa0a1a2a3a4a5a6a7a8a9feffffff0215cd5b07000000001976a9141114171a1d202326292c2f3235383b3e4144474a88ac00000000000000000d6a0b68656c6c6f20776f726c640000000002000000000102030a11181f262d343b424950575e656c737a81888f969da4abb2b9c0c7ced5dc0100000000fdffffff040b121920272e353c434a51585f666d747b828990979ea5acb3bac1c8cfd6dd0403020117161718191a1b1c1d1e1f202122232425262728292a2b2c000000000488130000000000001600141114171a1d202326292c2f3235383b3e4144474a0040075af0750700225120a0a5aaafb4b9bec3c8cdd2d7dce1e6ebf0f5faff04090e13181d22272c31363b010000000000000017a9141114171a1d202326292c2f3235383b3e4144474a87220200000000000017001505060708090a0b0c0d0e0f101112131415161718190248303132333435363738393a3b3c3d3e3f404142434445464748494a4b4c4d4e4f505152535455565758595a5b5c5d5e5f606162636465666768696a6b6c6d6e6f70717273747576772102030405060708090a0b0c0d0e0f101112131415161718191a1b1c1d1e1f2021220000350c00"
#guard (decodeBlockExact block3tx).isSome
#guard (decodeBlockExact block3tx).map encodeBlock = some block3tx
#guard headerHash (block3tx.take 80) = num "8b8252e2ec43b8e2cfd36bb2b613b6c68dd8bbe40dec9baa4a54be2831bd675a"
#guard (decodeHeader block3tx).map (fun p => (p.1.version, p.1.time, p.1.bits, p.1.nonce, p.1.hash)) = some (536870912, 1700000000, 545259519, 7, num "8b8252e2ec43b8e2cfd36bb2b613b6c68dd8bbe40dec9baa4a54be2831bd675a")
#guard (decodeBlockExact block3tx).map (fun b => b.txs.map txidOf) = some [num "29a2730752c7272f2221f1b65177879d9e47a1df32bacc690e5a85b2e53cde20", num "76ed1dc6a570b9ed5e0ac249844b0ceae36274f25ab8942d5eb99ffd2aeb9162", num "7482181eaabfb8bf973b190f0b7d969f3eeadbd5e88e928b189a928f60b265f0"]
#guard blockOfBytes .mainnet (fun _ => 0) block3tx = some
  { hash := num "8b8252e2ec43b8e2cfd36bb2b613b6c68dd8bbe40dec9baa4a54be2831bd675a", prev := num "06226e46111a0b59caaf126043eb5bbf28c34f3a5e332a1fc7b2b73cf188910f", diff := 0, time := 1700000000, bits := 545259519,
    header := "0000002006226e46111a0b59caaf126043eb5bbf28c34f3a5e332a1fc7b2b73cf188910f03525401db0b0e3dd691f9fe5cd821d534eadaa7771ca41e0a43054118cf6e8b00f15365ffff7f2007000000",
    txs := [
    { txid := num "29a2730752c7272f2221f1b65177879d9e47a1df32bacc690e5a85b2e53cde20", ntxid := num "e8f7d0e2da2081998f3a2d8ab7e759105abd7aa803a50430330c173794961f2a", coinbase := true, vsize := 155,
      ins := [],
      outs := [⟨5000000000, some (ascii "bc1q5zj64ta5hxlv8jxd6ttaec0xa0c0t7hlqsysuyccr53zwtp3xcasjpxwa8"), false⟩, ⟨0, none, true⟩] },
    { txid := num "76ed1dc6a570b9ed5e0ac249844b0ceae36274f25ab8942d5eb99ffd2aeb9162", ntxid := num "04293924b641e0878fdc41444f5b422c0ab625ff2d99c5cd4a99e8021bbd6d4e", coinbase := false, vsize := 361,
      ins := [⟨num "01080f161d242b323940474e555c636a71787f868d949ba2a9b0b7bec5ccd3da", 0⟩, ⟨num "020910171e252c333a41484f565d646b727980878e959ca3aab1b8bfc6cdd4db", 3⟩],
      outs := [⟨123456789, some (ascii "12ZJZA2Vv3psZzj8bMERkHRNCkpLq3V5e6"), false⟩, ⟨0, none, true⟩] },
    { txid := num "7482181eaabfb8bf973b190f0b7d969f3eeadbd5e88e928b189a928f60b265f0", ntxid := num "cc2ba8cd4f489f6077b0e496abe65533a33842808c791737ef0c64a6fa6647c3", coinbase := false, vsize := 281,
      ins := [⟨num "030a11181f262d343b424950575e656c737a81888f969da4abb2b9c0c7ced5dc", 1⟩, ⟨num "040b121920272e353c434a51585f666d747b828990979ea5acb3bac1c8cfd6dd", 16909060⟩],
      outs := [⟨5000, some (ascii "bc1qzy2pwxsayq3jv2fv9uer2wpm8eq5g3622hpa8e"), false⟩, ⟨2100000000000000, some (ascii "bc1p5zj64ta5hxlv8jxd6ttaec0xa0c0t7hlqsysuyccr53zwtp3xcasckx89m"), false⟩, ⟨1, some (ascii "33FKUhWwTx9FfARZiSu2AunJMH74PMYayQ"), false⟩, ⟨546, none, false⟩] }],
    merkleOk := true }
#guard blockOfBytes .testnet (fun _ => 0) block3tx = some
  { hash := num "8b8252e2ec43b8e2cfd36bb2b613b6c68dd8bbe40dec9baa4a54be2831bd675a", prev := num "06226e46111a0b59caaf126043eb5bbf28c34f3a5e332a1fc7b2b73cf188910f", diff := 0, time := 1700000000, bits := 545259519,
    header := "0000002006226e46111a0b59caaf126043eb5bbf28c34f3a5e332a1fc7b2b73cf188910f03525401db0b0e3dd691f9fe5cd821d534eadaa7771ca41e0a43054118cf6e8b00f15365ffff7f2007000000",
    txs := [
    { txid := num "29a2730752c7272f2221f1b65177879d9e47a1df32bacc690e5a85b2e53cde20", ntxid := num "e8f7d0e2da2081998f3a2d8ab7e759105abd7aa803a50430330c173794961f2a", coinbase := true, vsize := 155,
      ins := [],
      outs := [⟨5000000000, some (ascii "tb1q5zj64ta5hxlv8jxd6ttaec0xa0c0t7hlqsysuyccr53zwtp3xcas9fsp8g"), false⟩, ⟨0, none, true⟩] },
    { txid := num "76ed1dc6a570b9ed5e0ac249844b0ceae36274f25ab8942d5eb99ffd2aeb9162", ntxid := num "04293924b641e0878fdc41444f5b422c0ab625ff2d99c5cd4a99e8021bbd6d4e", coinbase := false, vsize := 361,
      ins := [⟨num "01080f161d242b323940474e555c636a71787f868d949ba2a9b0b7bec5ccd3da", 0⟩, ⟨num "020910171e252c333a41484f565d646b727980878e959ca3aab1b8bfc6cdd4db", 3⟩],
      outs := [⟨123456789, some (ascii "mh5FrD7Uj5G8M7CkJvCoaCdh4kR3eo7U2w"), false⟩, ⟨0, none, true⟩] },
    { txid := num "7482181eaabfb8bf973b190f0b7d969f3eeadbd5e88e928b189a928f60b265f0", ntxid := num "cc2ba8cd4f489f6077b0e496abe65533a33842808c791737ef0c64a6fa6647c3", coinbase := false, vsize := 281,
      ins := [⟨num "030a11181f262d343b424950575e656c737a81888f969da4abb2b9c0c7ced5dc", 1⟩, ⟨num "040b121920272e353c434a51585f666d747b828990979ea5acb3bac1c8cfd6dd", 16909060⟩],
      outs := [⟨5000, some (ascii "tb1qzy2pwxsayq3jv2fv9uer2wpm8eq5g362q36wu2"), false⟩, ⟨2100000000000000, some (ascii "tb1p5zj64ta5hxlv8jxd6ttaec0xa0c0t7hlqsysuyccr53zwtp3xcas07sgl5"), false⟩, ⟨1, some (ascii "2MtoXYSSy5Qebrx47PaWtnrmZZdKE8qqkeU"), false⟩, ⟨546, none, false⟩] }],
    merkleOk := true }
#guard blockOfBytes .regtest (fun _ => 0) block3tx = some
  { hash := num "8b8252e2ec43b8e2cfd36bb2b613b6c68dd8bbe40dec9baa4a54be2831bd675a", prev := num "06226e46111a0b59caaf126043eb5bbf28c34f3a5e332a1fc7b2b73cf188910f", diff := 0, time := 1700000000, bits := 545259519,
    header := "0000002006226e46111a0b59caaf126043eb5bbf28c34f3a5e332a1fc7b2b73cf188910f03525401db0b0e3dd691f9fe5cd821d534eadaa7771ca41e0a43054118cf6e8b00f15365ffff7f2007000000",
    txs := [
    { txid := num "29a2730752c7272f2221f1b65177879d9e47a1df32bacc690e5a85b2e53cde20", ntxid := num "e8f7d0e2da2081998f3a2d8ab7e759105abd7aa803a50430330c173794961f2a", coinbase := true, vsize := 155,
      ins := [],
      outs := [⟨5000000000, some (ascii "bcrt1q5zj64ta5hxlv8jxd6ttaec0xa0c0t7hlqsysuyccr53zwtp3xcasgs68jj"), false⟩, ⟨0, none, true⟩] },
    { txid := num "76ed1dc6a570b9ed5e0ac249844b0ceae36274f25ab8942d5eb99ffd2aeb9162", ntxid := num "04293924b641e0878fdc41444f5b422c0ab625ff2d99c5cd4a99e8021bbd6d4e", coinbase := false, vsize := 361,
      ins := [⟨num "01080f161d242b323940474e555c636a71787f868d949ba2a9b0b7bec5ccd3da", 0⟩, ⟨num "020910171e252c333a41484f565d646b727980878e959ca3aab1b8bfc6cdd4db", 3⟩],
      outs := [⟨123456789, some (ascii "mh5FrD7Uj5G8M7CkJvCoaCdh4kR3eo7U2w"), false⟩, ⟨0, none, true⟩] },
    { txid := num "7482181eaabfb8bf973b190f0b7d969f3eeadbd5e88e928b189a928f60b265f0", ntxid := num "cc2ba8cd4f489f6077b0e496abe65533a33842808c791737ef0c64a6fa6647c3", coinbase := false, vsize := 281,
      ins := [⟨num "030a11181f262d343b424950575e656c737a81888f969da4abb2b9c0c7ced5dc", 1⟩, ⟨num "040b121920272e353c434a51585f666d747b828990979ea5acb3bac1c8cfd6dd", 16909060⟩],
      outs := [⟨5000, some (ascii "bcrt1qzy2pwxsayq3jv2fv9uer2wpm8eq5g362zcrrtr"), false⟩, ⟨2100000000000000, some (ascii "bcrt1p5zj64ta5hxlv8jxd6ttaec0xa0c0t7hlqsysuyccr53zwtp3xcasz86w2w"), false⟩, ⟨1, some (ascii "2MtoXYSSy5Qebrx47PaWtnrmZZdKE8qqkeU"), false⟩, ⟨546, none, false⟩] }],
    merkleOk := true }

/-! block `block3txDup` -/
def block3txDup : List Nat := hex "0000002006226e46111a0b59caaf126043eb5bbf28c34f3a5e332a1fc7b2b73cf188910f03525401db0b0e3dd691f9fe5cd821d534eadaa7771ca41e0a43054118cf6e8b00f15365ffff7f200700000004020000000001010000000000000000000000000000000000000000000000000000000000000000ffffffff050265000101ffffffff0200f2052a01000000220020a0a5aaafb4b9bec3c8cdd2d7dce1e6ebf0f5faff04090e13181d22272c31363b0000000000000000266a24aa21a9eda0a5aaafb4b9bec3c8cdd2d7dce1e6ebf0f5faff04090e13181d22272c31363b0120000000000000000000000000000000000000000000000000000000000000000000000000010000000201080f161d242b323940474e555c636a71787f868d949ba2a9b0b7bec5ccd3da000000006b303132333435363738393a3b3c3d3e3f404142434445464748494a4b4c4d4e4f505152535455565758595a5b5c5d5e5f606162636465666768696a6b6c6d6e6f707172737475767778797a7b7c7d7e7f808182838485868788898a8b8c8d8e8f909192939495969798999affffffff020910171e252c333a41484f565d646b727980878e959ca3aab1b8bfc6cdd4db030000006a404142434445464748494a4b4c4d4e4f505152535455565758595a5b5c5d5e5f606162636465666768696a6b6c6d6e6f707172737475767778797a7b7c7d7e7f808182838485868788898a8b8c8d8e8f909192939495969798999a9b9c9d9e9fa0a1a2a3a4a5a6a7a8a9feffffff0215cd5b07000000001976a9141114171a1d202326292c2f3235383b3e4144474a88ac00000000000000000d6a0b68656c6c6f20776f726c640000000002000000000102030a11181f262d343b424950575e656c737a81888f969da4abb2b9c0c7ced5dc0100000000fdffffff040b121920272e353c434a51585f666d747b828990979ea5acb3bac1c8cfd6dd0403020117161718191a1b1c1d1e1f202122232425262728292a2b2c000000000488130000000000001600141114171a1d202326292c2f3235383b3e4144474a0040075af0750700225120a0a5aaafb4b9bec3c8cdd2d7dce1e6ebf0f5faff04090e13181d22272c31363b010000000000000017a9141114171a1d202326292c2f3235383b3e4144474a87220200000000000017001505060708090a0b0c0d0e0f101112131415161718190248303132333435363738393a3b3c3d3e3f404142434445464748494a4b4c4d4e4f505152535455565758595a5b5c5d5e5f606162636465666768696a6b6c6d6e6f70717273747576772102030405060708090a0b0c0d0e0f101112131415161718191a1b1c1d1e1f2021220000350c0002000000000102030a11181f262d343b424950575e656c737a81888f969da4abb2b9c0c7ced5dc0100000000fdffffff040b121920272e353c434a51585f666d747b828990979ea5acb3bac1c8cfd6dd0403020117161718191a1b1c1d1e1f202122232425262728292a2b2c000000000488130000000000001600141114171a1d202326292c2f3235383b3e4144474a0040075af0750700225120a0a5aaafb4b9bec3c8cdd2d7dce1e6ebf0f5faff04090e13181d22272c31363b010000000000000017a9141114171a1d202326292c2f3235383b3e4144474a87220200000000000017001505060708090a0b0c0d0e0f101112131415161718190248303132333435363738393a3b3c3d3e3f404142434445464748494a4b4c4d4e4f505152535455565758595a5b5c5d5e5f606162636465666768696a6b6c6d6e6f70717273747576772102030405060708090a0b0c0d0e0f101112131415161718191a1b1c1d1e1f2021220000350c00"
#guard (decodeBlockExact block3txDup).isSome
#guard (decodeBlockExact block3txDup).map encodeBlock = some block3txDup
#guard headerHash (block3txDup.take 80) = num "8b8252e2ec43b8e2cfd36bb2b613b6c68dd8bbe40dec9baa4a54be2831bd675a"
#guard (decodeHeader block3txDup).map (fun p => (p.1.version, p.1.time, p.1.bits, p.1.nonce, p.1.hash)) = some (536870912, 1700000000, 545259519, 7, num "8b8252e2ec43b8e2cfd36bb2b613b6c68dd8bbe40dec9baa4a54be2831bd675a")
#guard (decodeBlockExact block3txDup).map (fun b => b.txs.map txidOf) = some [num "29a2730752c7272f2221f1b65177879d9e47a1df32bacc690e5a85b2e53cde20", num "76ed1dc6a570b9ed5e0ac249844b0ceae36274f25ab8942d5eb99ffd2aeb9162", num "7482181eaabfb8bf973b190f0b7d969f3eeadbd5e88e928b189a928f60b265f0", num "7482181eaabfb8bf973b190f0b7d969f3eeadbd5e88e928b189a928f60b265f0"]
#guard blockOfBytes .regtest (fun _ => 0) block3txDup = some
  { hash := num "8b8252e2ec43b8e2cfd36bb2b613b6c68dd8bbe40dec9baa4a54be2831bd675a", prev := num "06226e46111a0b59caaf126043eb5bbf28c34f3a5e332a1fc7b2b73cf188910f", diff := 0, time := 1700000000, bits := 545259519,
    header := "0000002006226e46111a0b59caaf126043eb5bbf28c34f3a5e332a1fc7b2b73cf188910f03525401db0b0e3dd691f9fe5cd821d534eadaa7771ca41e0a43054118cf6e8b00f15365ffff7f2007000000",
    txs := [
    { txid := num "29a2730752c7272f2221f1b65177879d9e47a1df32bacc690e5a85b2e53cde20", ntxid := num "e8f7d0e2da2081998f3a2d8ab7e759105abd7aa803a50430330c173794961f2a", coinbase := true, vsize := 155,
      ins := [],
      outs := [⟨5000000000, some (ascii "bcrt1q5zj64ta5hxlv8jxd6ttaec0xa0c0t7hlqsysuyccr53zwtp3xcasgs68jj"), false⟩, ⟨0, none, true⟩] },
    { txid := num "76ed1dc6a570b9ed5e0ac249844b0ceae36274f25ab8942d5eb99ffd2aeb9162", ntxid := num "04293924b641e0878fdc41444f5b422c0ab625ff2d99c5cd4a99e8021bbd6d4e", coinbase := false, vsize := 361,
      ins := [⟨num "01080f161d242b323940474e555c636a71787f868d949ba2a9b0b7bec5ccd3da", 0⟩, ⟨num "020910171e252c333a41484f565d646b727980878e959ca3aab1b8bfc6cdd4db", 3⟩],
      outs := [⟨123456789, some (ascii "mh5FrD7Uj5G8M7CkJvCoaCdh4kR3eo7U2w"), false⟩, ⟨0, none, true⟩] },
    { txid := num "7482181eaabfb8bf973b190f0b7d969f3eeadbd5e88e928b189a928f60b265f0", ntxid := num "cc2ba8cd4f489f6077b0e496abe65533a33842808c791737ef0c64a6fa6647c3", coinbase := false, vsize := 281,
      ins := [⟨num "030a11181f262d343b424950575e656c737a81888f969da4abb2b9c0c7ced5dc", 1⟩, ⟨num "040b121920272e353c434a51585f666d747b828990979ea5acb3bac1c8cfd6dd", 16909060⟩],
      outs := [⟨5000, some (ascii "bcrt1qzy2pwxsayq3jv2fv9uer2wpm8eq5g362zcrrtr"), false⟩, ⟨2100000000000000, some (ascii "bcrt1p5zj64ta5hxlv8jxd6ttaec0xa0c0t7hlqsysuyccr53zwtp3xcasz86w2w"), false⟩, ⟨1, some (ascii "2MtoXYSSy5Qebrx47PaWtnrmZZdKE8qqkeU"), false⟩, ⟨546, none, false⟩] },
    { txid := num "7482181eaabfb8bf973b190f0b7d969f3eeadbd5e88e928b189a928f60b265f0", ntxid := num "cc2ba8cd4f489f6077b0e496abe65533a33842808c791737ef0c64a6fa6647c3", coinbase := false, vsize := 281,
      ins := [⟨num "030a11181f262d343b424950575e656c737a81888f969da4abb2b9c0c7ced5dc", 1⟩, ⟨num "040b121920272e353c434a51585f666d747b828990979ea5acb3bac1c8cfd6dd", 16909060⟩],
      outs := [⟨5000, some (ascii "bcrt1qzy2pwxsayq3jv2fv9uer2wpm8eq5g362zcrrtr"), false⟩, ⟨2100000000000000, some (ascii "bcrt1p5zj64ta5hxlv8jxd6ttaec0xa0c0t7hlqsysuyccr53zwtp3xcasz86w2w"), false⟩, ⟨1, some (ascii "2MtoXYSSy5Qebrx47PaWtnrmZZdKE8qqkeU"), false⟩, ⟨546, none, false⟩] }],
    merkleOk := true }

/-! block `block5tx` -/
def block5tx : List Nat := hex "000000208b8252e2ec43b8e2cfd36bb2b613b6c68dd8bbe40dec9baa4a54be2831bd675a5819c9d92c8d46064ccbfd0330cce7a6316a5512f35b35ed5cd9e5aa161fbcba00f15365ffff7f20efbeadde05020000000001010000000000000000000000000000000000000000000000000000000000000000ffffffff050265000101ffffffff0200f2052a01000000220020a0a5aaafb4b9bec3c8cdd2d7dce1e6ebf0f5faff04090e13181d22272c31363b0000000000000000266a24aa21a9eda0a5aaafb4b9bec3c8cdd2d7dce1e6ebf0f5faff04090e13181d22272c31363b0120000000000000000000000000000000000000000000000000000000000000000000000000ffffffff0001010910171e252c333a41484f565d646b727980878e959ca3aab1b8bfc6cdd4dbe2fffffffffd2c01000102030405060708090a0b0c0d0e0f101112131415161718191a1b1c1d1e1f202122232425262728292a2b2c2d2e2f303132333435363738393a3b3c3d3e3f404142434445464748494a4b4c4d4e4f505152535455565758595a5b5c5d5e5f606162636465666768696a6b6c6d6e6f707172737475767778797a7b7c7d7e7f808182838485868788898a8b8c8d8e8f909192939495969798999a9b9c9d9e9fa0a1a2a3a4a5a6a7a8a9aaabacadaeafb0b1b2b3b4b5b6b7b8b9babbbcbdbebfc0c1c2c3c4c5c6c7c8c9cacbcccdcecfd0d1d2d3d4d5d6d7d8d9dadbdcdddedfe0e1e2e3e4e5e6e7e8e9eaebecedeeeff0f1f2f3f4f5f6f7f8f9fafbfcfdfeff000102030405060708090a0b0c0d0e0f101112131415161718191a1b1c1d1e1f202122232425262728292a2b05000000020700000000000000fd0401515151515151515151515151515151515151515151515151515151515151515151515151515151515151515151515151515151515151515151515151515151515151515151515151515151515151515151515151515151515151515151515151515151515151515151515151515151515151515151515151515151515151515151515151515151515151515151515151515151515151515151515151515151515151515151515151515151515151515151515151515151515151515151515151515151515151515151515151515151515151515151515151515151515151515151515151515151515151515151515151515151515151515151515151515151515151515108000000000000000460024e7303fd2c01000102030405060708090a0b0c0d0e0f101112131415161718191a1b1c1d1e1f202122232425262728292a2b2c2d2e2f303132333435363738393a3b3c3d3e3f404142434445464748494a4b4c4d4e4f505152535455565758595a5b5c5d5e5f606162636465666768696a6b6c6d6e6f707172737475767778797a7b7c7d7e7f808182838485868788898a8b8c8d8e8f909192939495969798999a9b9c9d9e9fa0a1a2a3a4a5a6a7a8a9aaabacadaeafb0b1b2b3b4b5b6b7b8b9babbbcbdbebfc0c1c2c3c4c5c6c7c8c9cacbcccdcecfd0d1d2d3d4d5d6d7d8d9dadbdcdddedfe0e1e2e3e4e5e6e7e8e9eaebecedeeeff0f1f2f3f4f5f6f7f8f9fafbfcfdfeff000102030405060708090a0b0c0d0e0f101112131415161718191a1b1c1d1e1f202122232425262728292a2b0001010165cd1d01000000010000000000000000000000000000000000000000000000000000000000000000000000000151ffffffff01e8030000000000001651141114171a1d202326292c2f3235383b3e4144474a0000000001000000020000000000000000000000000000000000000000000000000000000000000000ffffffff0151ffffffff0000000000000000000000000000000000000000000000000000000000000000ffffffff0152ffffffff01e8030000000000000451024e7300000000010000000201080f161d242b323940474e555c636a71787f868d949ba2a9b0b7bec5ccd3da000000006c3132333435363738393a3b3c3d3e3f404142434445464748494a4b4c4d4e4f505152535455565758595a5b5c5d5e5f606162636465666768696a6b6c6d6e6f707172737475767778797a7b7c7d7e7f808182838485868788898a8b8c8d8e8f909192939495969798999a9b9cffffffff020910171e252c333a41484f565d646b727980878e959ca3aab1b8bfc6cdd4db030000006a404142434445464748494a4b4c4d4e4f505152535455565758595a5b5c5d5e5f606162636465666768696a6b6c6d6e6f707172737475767778797a7b7c7d7e7f808182838485868788898a8b8c8d8e8f909192939495969798999a9b9c9d9e9fa0a1a2a3a4a5a6a7a8a9feffffff0215cd5b07000000001976a9141114171a1d202326292c2f3235383b3e4144474a88ac00000000000000000d6a0b68656c6c6f20776f726c6400000000"
#guard (decodeBlockExact block5tx).isSome
#guard (decodeBlockExact block5tx).map encodeBlock = some block5tx
#guard headerHash (block5tx.take 80) = num "34e688fe18eeedc4d4d7d0d3979c9cb68dc357c324d95b6be3be0d250e844396"
#guard (decodeHeader block5tx).map (fun p => (p.1.version, p.1.time, p.1.bits, p.1.nonce, p.1.hash)) = some (536870912, 1700000000, 545259519, 3735928559, num "34e688fe18eeedc4d4d7d0d3979c9cb68dc357c324d95b6be3be0d250e844396")
#guard (decodeBlockExact block5tx).map (fun b => b.txs.map txidOf) = some [num "29a2730752c7272f2221f1b65177879d9e47a1df32bacc690e5a85b2e53cde20", num "476c343cd9ac88a453e4df7d0973693ac6e0ceb1f3aa32fe761e510331456351", num "4ac326f1fbd6fa2ea18ee8a956c6b5f8d3e370369e3685e39d079cc27779b0d0", num "9111d4097bd1909f30549ca5c5ec053dd027d5e1f7e7648409a6a6ef55d5f36b", num "3e09227c97fecbc3346ee55790d00d2ea11502eddfddc5a356f8391ee0fe6c97"]
#guard blockOfBytes .testnet (fun _ => 0) block5tx = some
  { hash := num "34e688fe18eeedc4d4d7d0d3979c9cb68dc357c324d95b6be3be0d250e844396", prev := num "8b8252e2ec43b8e2cfd36bb2b613b6c68dd8bbe40dec9baa4a54be2831bd675a", diff := 0, time := 1700000000, bits := 545259519,
    header := "000000208b8252e2ec43b8e2cfd36bb2b613b6c68dd8bbe40dec9baa4a54be2831bd675a5819c9d92c8d46064ccbfd0330cce7a6316a5512f35b35ed5cd9e5aa161fbcba00f15365ffff7f20efbeadde",
    txs := [
    { txid := num "29a2730752c7272f2221f1b65177879d9e47a1df32bacc690e5a85b2e53cde20", ntxid := num "e8f7d0e2da2081998f3a2d8ab7e759105abd7aa803a50430330c173794961f2a", coinbase := true, vsize := 155,
      ins := [],
      outs := [⟨5000000000, some (ascii "tb1q5zj64ta5hxlv8jxd6ttaec0xa0c0t7hlqsysuyccr53zwtp3xcas9fsp8g"), false⟩, ⟨0, none, true⟩] },
    { txid := num "476c343cd9ac88a453e4df7d0973693ac6e0ceb1f3aa32fe761e510331456351", ntxid := num "8315b70b0763f87728d17085f742c5bd90800e21b19cd05274fd0492fe955403", coinbase := false, vsize := 715,
      ins := [⟨num "0910171e252c333a41484f565d646b727980878e959ca3aab1b8bfc6cdd4dbe2", 4294967295⟩],
      outs := [⟨7, none, false⟩, ⟨8, some (ascii "tb1sfeesnjwf5n"), false⟩] },
    { txid := num "4ac326f1fbd6fa2ea18ee8a956c6b5f8d3e370369e3685e39d079cc27779b0d0", ntxid := num "2b0445d907a3604a69626739b9bafb622b52342328d2add1b1ba7995985f12b2", coinbase := false, vsize := 83,
      ins := [⟨num "0000000000000000000000000000000000000000000000000000000000000000", 0⟩],
      outs := [⟨1000, some (ascii "tb1pzy2pwxsayq3jv2fv9uer2wpm8eq5g3627naf5r"), false⟩] },
    { txid := num "9111d4097bd1909f30549ca5c5ec053dd027d5e1f7e7648409a6a6ef55d5f36b", ntxid := num "8451c556f8089c87ee554e0b8d670f7850d72d8d8150d29476bdcb3423543285", coinbase := false, vsize := 107,
      ins := [],
      outs := [⟨1000, some (ascii "tb1pfees9rn5nz"), false⟩] },
    { txid := num "3e09227c97fecbc3346ee55790d00d2ea11502eddfddc5a356f8391ee0fe6c97", ntxid := num "04293924b641e0878fdc41444f5b422c0ab625ff2d99c5cd4a99e8021bbd6d4e", coinbase := false, vsize := 362,
      ins := [⟨num "01080f161d242b323940474e555c636a71787f868d949ba2a9b0b7bec5ccd3da", 0⟩, ⟨num "020910171e252c333a41484f565d646b727980878e959ca3aab1b8bfc6cdd4db", 3⟩],
      outs := [⟨123456789, some (ascii "mh5FrD7Uj5G8M7CkJvCoaCdh4kR3eo7U2w"), false⟩, ⟨0, none, true⟩] }],
    merkleOk := true }

/-! block `block5txBadRoot` -/
def block5txBadRoot : List Nat := hex "000000208b8252e2ec43b8e2cfd36bb2b613b6c68dd8bbe40dec9baa4a54be2831bd675a03525401db0b0e3dd691f9fe5cd821d534eadaa7771ca41e0a43054118cf6e8b00f15365ffff7f20efbeadde05020000000001010000000000000000000000000000000000000000000000000000000000000000ffffffff050265000101ffffffff0200f2052a01000000220020a0a5aaafb4b9bec3c8cdd2d7dce1e6ebf0f5faff04090e13181d22272c31363b0000000000000000266a24aa21a9eda0a5aaafb4b9bec3c8cdd2d7dce1e6ebf0f5faff04090e13181d22272c31363b0120000000000000000000000000000000000000000000000000000000000000000000000000ffffffff0001010910171e252c333a41484f565d646b727980878e959ca3aab1b8bfc6cdd4dbe2fffffffffd2c01000102030405060708090a0b0c0d0e0f101112131415161718191a1b1c1d1e1f202122232425262728292a2b2c2d2e2f303132333435363738393a3b3c3d3e3f404142434445464748494a4b4c4d4e4f505152535455565758595a5b5c5d5e5f606162636465666768696a6b6c6d6e6f707172737475767778797a7b7c7d7e7f808182838485868788898a8b8c8d8e8f909192939495969798999a9b9c9d9e9fa0a1a2a3a4a5a6a7a8a9aaabacadaeafb0b1b2b3b4b5b6b7b8b9babbbcbdbebfc0c1c2c3c4c5c6c7c8c9cacbcccdcecfd0d1d2d3d4d5d6d7d8d9dadbdcdddedfe0e1e2e3e4e5e6e7e8e9eaebecedeeeff0f1f2f3f4f5f6f7f8f9fafbfcfdfeff000102030405060708090a0b0c0d0e0f101112131415161718191a1b1c1d1e1f202122232425262728292a2b05000000020700000000000000fd0401515151515151515151515151515151515151515151515151515151515151515151515151515151515151515151515151515151515151515151515151515151515151515151515151515151515151515151515151515151515151515151515151515151515151515151515151515151515151515151515151515151515151515151515151515151515151515151515151515151515151515151515151515151515151515151515151515151515151515151515151515151515151515151515151515151515151515151515151515151515151515151515151515151515151515151515151515151515151515151515151515151515151515151515151515151515151515108000000000000000460024e7303fd2c01000102030405060708090a0b0c0d0e0f101112131415161718191a1b1c1d1e1f202122232425262728292a2b2c2d2e2f303132333435363738393a3b3c3d3e3f404142434445464748494a4b4c4d4e4f505152535455565758595a5b5c5d5e5f606162636465666768696a6b6c6d6e6f707172737475767778797a7b7c7d7e7f808182838485868788898a8b8c8d8e8f909192939495969798999a9b9c9d9e9fa0a1a2a3a4a5a6a7a8a9aaabacadaeafb0b1b2b3b4b5b6b7b8b9babbbcbdbebfc0c1c2c3c4c5c6c7c8c9cacbcccdcecfd0d1d2d3d4d5d6d7d8d9dadbdcdddedfe0e1e2e3e4e5e6e7e8e9eaebecedeeeff0f1f2f3f4f5f6f7f8f9fafbfcfdfeff000102030405060708090a0b0c0d0e0f101112131415161718191a1b1c1d1e1f202122232425262728292a2b0001010165cd1d01000000010000000000000000000000000000000000000000000000000000000000000000000000000151ffffffff01e8030000000000001651141114171a1d202326292c2f3235383b3e4144474a0000000001000000020000000000000000000000000000000000000000000000000000000000000000ffffffff0151ffffffff0000000000000000000000000000000000000000000000000000000000000000ffffffff0152ffffffff01e8030000000000000451024e7300000000010000000201080f161d242b323940474e555c636a71787f868d949ba2a9b0b7bec5ccd3da000000006c3132333435363738393a3b3c3d3e3f404142434445464748494a4b4c4d4e4f505152535455565758595a5b5c5d5e5f606162636465666768696a6b6c6d6e6f707172737475767778797a7b7c7d7e7f808182838485868788898a8b8c8d8e8f909192939495969798999a9b9cffffffff020910171e252c333a41484f565d646b727980878e959ca3aab1b8bfc6cdd4db030000006a404142434445464748494a4b4c4d4e4f505152535455565758595a5b5c5d5e5f606162636465666768696a6b6c6d6e6f707172737475767778797a7b7c7d7e7f808182838485868788898a8b8c8d8e8f909192939495969798999a9b9c9d9e9fa0a1a2a3a4a5a6a7a8a9feffffff0215cd5b07000000001976a9141114171a1d202326292c2f3235383b3e4144474a88ac00000000000000000d6a0b68656c6c6f20776f726c6400000000"
#guard (decodeBlockExact block5txBadRoot).isSome
#guard (decodeBlockExact block5txBadRoot).map encodeBlock = some block5txBadRoot
#guard headerHash (block5txBadRoot.take 80) = num "ca431c626dc482709adf38f3e52d977542c472c97fa14c227b28e9007c33c7b2"
#guard (decodeHeader block5txBadRoot).map (fun p => (p.1.version, p.1.time, p.1.bits, p.1.nonce, p.1.hash)) = some (536870912, 1700000000, 545259519, 3735928559, num "ca431c626dc482709adf38f3e52d977542c472c97fa14c227b28e9007c33c7b2")
#guard (decodeBlockExact block5txBadRoot).map (fun b => b.txs.map txidOf) = some [num "29a2730752c7272f2221f1b65177879d9e47a1df32bacc690e5a85b2e53cde20", num "476c343cd9ac88a453e4df7d0973693ac6e0ceb1f3aa32fe761e510331456351", num "4ac326f1fbd6fa2ea18ee8a956c6b5f8d3e370369e3685e39d079cc27779b0d0", num "9111d4097bd1909f30549ca5c5ec053dd027d5e1f7e7648409a6a6ef55d5f36b", num "3e09227c97fecbc3346ee55790d00d2ea11502eddfddc5a356f8391ee0fe6c97"]
#guard blockOfBytes .mainnet (fun _ => 0) block5txBadRoot = some
  { hash := num "ca431c626dc482709adf38f3e52d977542c472c97fa14c227b28e9007c33c7b2", prev := num "8b8252e2ec43b8e2cfd36bb2b613b6c68dd8bbe40dec9baa4a54be2831bd675a", diff := 0, time := 1700000000, bits := 545259519,
    header := "000000208b8252e2ec43b8e2cfd36bb2b613b6c68dd8bbe40dec9baa4a54be2831bd675a03525401db0b0e3dd691f9fe5cd821d534eadaa7771ca41e0a43054118cf6e8b00f15365ffff7f20efbeadde",
    txs := [
    { txid := num "29a2730752c7272f2221f1b65177879d9e47a1df32bacc690e5a85b2e53cde20", ntxid := num "e8f7d0e2da2081998f3a2d8ab7e759105abd7aa803a50430330c173794961f2a", coinbase := true, vsize := 155,
      ins := [],
      outs := [⟨5000000000, some (ascii "bc1q5zj64ta5hxlv8jxd6ttaec0xa0c0t7hlqsysuyccr53zwtp3xcasjpxwa8"), false⟩, ⟨0, none, true⟩] },
    { txid := num "476c343cd9ac88a453e4df7d0973693ac6e0ceb1f3aa32fe761e510331456351", ntxid := num "8315b70b0763f87728d17085f742c5bd90800e21b19cd05274fd0492fe955403", coinbase := false, vsize := 715,
      ins := [⟨num "0910171e252c333a41484f565d646b727980878e959ca3aab1b8bfc6cdd4dbe2", 4294967295⟩],
      outs := [⟨7, none, false⟩, ⟨8, some (ascii "bc1sfeesxjqn0c"), false⟩] },
    { txid := num "4ac326f1fbd6fa2ea18ee8a956c6b5f8d3e370369e3685e39d079cc27779b0d0", ntxid := num "2b0445d907a3604a69626739b9bafb622b52342328d2add1b1ba7995985f12b2", coinbase := false, vsize := 83,
      ins := [⟨num "0000000000000000000000000000000000000000000000000000000000000000", 0⟩],
      outs := [⟨1000, some (ascii "bc1pzy2pwxsayq3jv2fv9uer2wpm8eq5g36254x60s"), false⟩] },
    { txid := num "9111d4097bd1909f30549ca5c5ec053dd027d5e1f7e7648409a6a6ef55d5f36b", ntxid := num "8451c556f8089c87ee554e0b8d670f7850d72d8d8150d29476bdcb3423543285", coinbase := false, vsize := 107,
      ins := [],
      outs := [⟨1000, some (ascii "bc1pfeessrawgf"), false⟩] },
    { txid := num "3e09227c97fecbc3346ee55790d00d2ea11502eddfddc5a356f8391ee0fe6c97", ntxid := num "04293924b641e0878fdc41444f5b422c0ab625ff2d99c5cd4a99e8021bbd6d4e", coinbase := false, vsize := 362,
      ins := [⟨num "01080f161d242b323940474e555c636a71787f868d949ba2a9b0b7bec5ccd3da", 0⟩, ⟨num "020910171e252c333a41484f565d646b727980878e959ca3aab1b8bfc6cdd4db", 3⟩],
      outs := [⟨123456789, some (ascii "12ZJZA2Vv3psZzj8bMERkHRNCkpLq3V5e6"), false⟩, ⟨0, none, true⟩] }],
    merkleOk := false }

/-! block `blockEmpty` -/
def blockEmpty : List Nat := hex "000000208b8252e2ec43b8e2cfd36bb2b613b6c68dd8bbe40dec9baa4a54be2831bd675a000000000000000000000000000000000000000000000000000000000000000000f15365ffff7f200100000000"
#guard (decodeBlockExact blockEmpty).isSome
#guard (decodeBlockExact blockEmpty).map encodeBlock = some blockEmpty
#guard headerHash (blockEmpty.take 80) = num "9a0dd471a80c6763e360cab1774b42124805206af31cc77b45caea673ac8fba6"
#guard (decodeHeader blockEmpty).map (fun p => (p.1.version, p.1.time, p.1.bits, p.1.nonce, p.1.hash)) = some (536870912, 1700000000, 545259519, 1, num "9a0dd471a80c6763e360cab1774b42124805206af31cc77b45caea673ac8fba6")
#guard (decodeBlockExact blockEmpty).map (fun b => b.txs.map txidOf) = some []
#guard blockOfBytes .regtest (fun _ => 0) blockEmpty = some
  { hash := num "9a0dd471a80c6763e360cab1774b42124805206af31cc77b45caea673ac8fba6", prev := num "8b8252e2ec43b8e2cfd36bb2b613b6c68dd8bbe40dec9baa4a54be2831bd675a", diff := 0, time := 1700000000, bits := 545259519,
    header := "000000208b8252e2ec43b8e2cfd36bb2b613b6c68dd8bbe40dec9baa4a54be2831bd675a000000000000000000000000000000000000000000000000000000000000000000f15365ffff7f2001000000",
    txs := [
    ],
    merkleOk := false }

#guard decodeBlockExact (genesisRegtest ++ [0]) = none
#guard (decodeBlock (genesisRegtest ++ [0, 1])).map (·.2) = some [0, 1]
#guard decodeBlockExact (genesisRegtest.take 284) = none
#guard decodeBlock (genesisRegtest.take 79) = none

/-! the data-dependent field of `Spec.BlockWF` (pairwise distinct txids): true for `block3tx` and
    `block5tx`, false for the CVE-2012-2459 twin -/
#guard (blockOfBytes .regtest (fun _ => 0) block3tx).map
  (fun b => decide (b.txs.map (·.txid)).Nodup) = some true
#guard (blockOfBytes .testnet (fun _ => 0) block5tx).map
  (fun b => decide (b.txs.map (·.txid)).Nodup) = some true
#guard (blockOfBytes .regtest (fun _ => 0) block3txDup).map
  (fun b => decide (b.txs.map (·.txid)).Nodup) = some false
/-! `txA` / `txA2` are malleated twins: distinct txids, same ntxid (`ensure_unique_transactions`) -/
#guard (decodeExact txA).map txidOf ≠ (decodeExact txA2).map txidOf

end Btc.BlockCodec.Test
