import BtcModel.Model.State

/-
  Model of `canister/src/api/fee_percentiles.rs`.
-/
namespace Btc

/-- ascending insertion sort on numbers (`sort_unstable` on `u64`: any correct sort gives
    the same list) -/
def sortNat (l : List Nat) : List Nat := sortBy (fun a b => a < b) l

/-- `percentiles`: nearest-rank, 101 buckets -/
def percentiles (values : List Nat) : List Nat :=
  if values.isEmpty then []
  else
    let s := sortNat values
    let n := s.length
    (List.range 101).map (fun p =>
      let rank := (p * n) / 100 + (if (p * n) % 100 = 0 then 0 else 1)
      s.getD (rank - 1) 0)

namespace State

/-- `get_tx_fee_per_byte` (the fallback used when a block has no cached fee rates);
    `none` inside `some` = transaction contributes nothing; outer `none` = panic -/
def txFeePerByte (s : State) (tx : Tx) : Option (Option Nat) :=
  if tx.coinbase then some none
  else
    let vals := tx.ins.map (fun o => (s.unstable.cache.getTxOut o).map (·.1.value))
    if vals.any Option.isNone then none
    else
      let inputSum := (vals.filterMap id).foldl (· + ·) 0
      let outputSum := (tx.outs.map (·.value)).foldl (· + ·) 0
      if inputSum < outputSum then some none
      else some (feeRatePerVbyte (inputSum - outputSum) tx.vsize)

def blockFeeRates (s : State) (b : CBlock) : Option (List Nat) :=
  match b.feeRates with
  | some r => some r
  | none =>
    let rs := b.blk.txs.map (txFeePerByte s)
    if rs.any Option.isNone then none
    else some ((rs.filterMap id).filterMap id)

/-- `get_fees_per_byte`: newest block first, at most `n` values -/
def feesPerByte (s : State) (n : Nat) : List CBlock → List Nat → Option (List Nat)
  | [], acc => some acc
  | b :: bs, acc =>
    if acc.length ≥ n then some acc
    else match blockFeeRates s b with
      | none => none
      | some rs => feesPerByte s n bs (acc ++ rs.take (n - acc.length))

/-- `get_current_fee_percentiles_with_number_of_transactions`; `none` = panic -/
def feePercentiles (s : State) (n : Nat) : Option (State × List Nat) :=
  let chain := s.unstable.mainChain
  let tip := (chain.getLast?.getD s.unstable.tree.root).hash
  match s.feeCache with
  | some (h, p) =>
    if h = tip then some (s, p)
    else recompute chain tip
  | none => recompute chain tip
where
  recompute (chain : List CBlock) (tip : Nat) : Option (State × List Nat) :=
    match feesPerByte s n chain.reverse [] with
    | none => none
    | some fees =>
      match fees, s.feeCache with
      | [], some (_, p) => some (s, p)
      | _, _ =>
        let p := percentiles fees
        some ({ s with feeCache := some (tip, p) }, p)

end State
end Btc
