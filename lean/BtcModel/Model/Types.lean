/-
  Data types of the canister model and small container helpers (association lists, byte
  orders). Import-free (linked into the driver).
-/
namespace Btc

/-- An address is the byte string of its text form (`types::Address(String)`). -/
abbrev Addr := List Nat

/-- `ic_btc_types::OutPoint`. `txid` is the number whose 32-byte big-endian form is the stored
    byte vector, so numeric order = the byte-lexicographic order of `Txid`. -/
structure OutPoint where
  txid : Nat
  vout : Nat
deriving DecidableEq, Repr, BEq

/-- `Ord for OutPoint` (derived): txid bytes, then `vout` numerically. -/
def OutPoint.lt (a b : OutPoint) : Bool :=
  a.txid < b.txid || (a.txid == b.txid && a.vout < b.vout)

def OutPoint.le (a b : OutPoint) : Bool := !(b.lt a)

/-- A transaction output as far as the canister is concerned: its value, the address that
    `Address::from_script` derives from its script (a pure function of the script and the
    network; `none` = no address), and whether the script is `OP_RETURN`. -/
structure TxOut where
  value : Nat
  addr : Option Addr
  opret : Bool
deriving DecidableEq, Repr, BEq

/-- `ic_btc_types::Transaction` with the attributes the canister uses. `ins` are the
    non-null previous outputs (a coinbase has none). -/
structure Tx where
  txid : Nat
  /-- normalised txid (`compute_ntxid`), used by the duplicate check of block validation -/
  ntxid : Nat := 0
  coinbase : Bool
  vsize : Nat
  ins : List OutPoint
  outs : List TxOut
deriving DecidableEq, Repr, BEq

/-- `ic_btc_types::Block`. `header` is the 80-byte consensus encoding (opaque here);
    `hash`, `prev`, `time`, `bits` are its fields; `diff` is `Block::difficulty`. -/
structure Block where
  hash : Nat
  prev : Nat
  diff : Nat
  time : Nat
  bits : Nat
  header : String
  txs : List Tx
  /-- `check_merkle_root()` of the underlying block (library function, given) -/
  merkleOk : Bool := true
deriving DecidableEq, Repr, BEq

/-- An unspent output as reported by `get_utxos` (`types::Utxo`). -/
structure Utxo where
  height : Nat
  outpoint : OutPoint
  value : Nat
deriving DecidableEq, Repr, BEq

/-- `Ord for Utxo`: height descending, then outpoint, then value. -/
def Utxo.lt (a b : Utxo) : Bool :=
  a.height > b.height ||
    (a.height == b.height &&
      (a.outpoint.lt b.outpoint || (a.outpoint == b.outpoint && a.value < b.value)))

def Utxo.le (a b : Utxo) : Bool := !(b.lt a)

/-! ### Association lists (models of `BTreeMap` / `StableBTreeMap`; iteration order is made
    explicit where the code depends on it) -/

namespace AList
variable {κ ν : Type} [BEq κ]

def find? (m : List (κ × ν)) (k : κ) : Option ν :=
  match m with
  | [] => none
  | (k', v) :: rest => if k' == k then some v else find? rest k

def erase (m : List (κ × ν)) (k : κ) : List (κ × ν) :=
  m.filter (fun p => !(p.1 == k))

/-- insert or overwrite -/
def insert (m : List (κ × ν)) (k : κ) (v : ν) : List (κ × ν) :=
  (k, v) :: erase m k

def contains (m : List (κ × ν)) (k : κ) : Bool := (find? m k).isSome

end AList

/-! ### Byte strings and their lexicographic order (`Blob` keys of the stable B-tree) -/

def lexLt : List Nat → List Nat → Bool
  | [], [] => false
  | [], _ :: _ => true
  | _ :: _, [] => false
  | a :: as, b :: bs => a < b || (a == b && lexLt as bs)

def lexLe (a b : List Nat) : Bool := !(lexLt b a)

/-- big-endian bytes, exactly `n` of them -/
def beBytes (n : Nat) (x : Nat) : List Nat :=
  match n with
  | 0 => []
  | n + 1 => beBytes n (x / 256) ++ [x % 256]

/-- little-endian bytes, exactly `n` of them -/
def leBytes (n : Nat) (x : Nat) : List Nat :=
  match n with
  | 0 => []
  | n + 1 => (x % 256) :: leBytes n (x / 256)

/-- `Storable for Height`: big-endian, every byte XOR 0xff (descending height order). -/
def heightBytes (h : Nat) : List Nat := (beBytes 4 h).map (fun b => 255 - b)

/-- `Storable for OutPoint`: txid bytes, then `vout` little-endian. -/
def outPointBytes (o : OutPoint) : List Nat := beBytes 32 o.txid ++ leBytes 4 o.vout

/-- insertion sort by a strict order given as `lt` (used for small sets whose iteration
    order matters: `BTreeSet<OutPoint>`, `BTreeSet<Utxo>`) -/
def insertBy {α : Type} (lt : α → α → Bool) (x : α) : List α → List α
  | [] => [x]
  | y :: ys => if lt x y then x :: y :: ys else y :: insertBy lt x ys

def sortBy {α : Type} (lt : α → α → Bool) (l : List α) : List α :=
  l.foldr (insertBy lt) []

/-- remove duplicates, keeping first occurrences -/
def dedup {α : Type} [BEq α] : List α → List α
  | [] => []
  | x :: xs => x :: (dedup xs).filter (fun y => !(y == x))

/-- `MultiIter`: merge of two sequences, taking from the first when its head is strictly
    smaller, otherwise from the second. -/
def multiIter {α : Type} (lt : α → α → Bool) : List α → List α → List α
  | [], bs => bs
  | a :: as, bs =>
    let rec aux : List α → List α
      | [] => a :: as
      | b :: bs' => if lt a b then a :: multiIter lt as (b :: bs') else b :: aux bs'
    aux bs

end Btc
