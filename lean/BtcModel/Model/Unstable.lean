import BtcModel.Model.Tree
import BtcModel.Model.Stable

/-
  Model of `canister/src/unstable_blocks.rs`, `unstable_blocks/outpoints_cache.rs`,
  `unstable_blocks/next_block_headers.rs` and the block cache (`blocks_cache.rs`,
  `blocktree.rs::CachedBlock`).
-/
namespace Btc

/-- `CachedBlock` together with its body (which lives in the stable-memory block cache). -/
structure CBlock where
  blk : Block
  feeRates : Option (List Nat)
  utxoDelta : Int
deriving Repr, BEq

/-- net UTXO count change of a block: outputs created minus inputs spent -/
def blockUtxoDelta (b : Block) : Int :=
  (b.txs.map (fun tx => (tx.outs.length : Int) - (if tx.coinbase then 0 else (tx.ins.length : Int)))).foldl (· + ·) 0

/-- `CachedBlock::utxo_delta`: recomputed from the block when the metrics have not been
    computed (they are not serialized across upgrades) -/
def CBlock.utxoDeltaNow (c : CBlock) : Int :=
  if c.feeRates.isNone then blockUtxoDelta c.blk else c.utxoDelta

def CBlock.hash (c : CBlock) : Nat := c.blk.hash
def CBlock.diff (c : CBlock) : Nat := c.blk.diff

/-- `TxOutInfo` -/
structure TxOutInfo where
  txout : TxOut
  height : Nat
  count : Nat
deriving Repr, BEq, DecidableEq

/-- `OutPointsCache` -/
structure OutPointsCache where
  txOuts : List (OutPoint × TxOutInfo) := []
  /-- block hash ↦ (address ↦ outpoints in transaction order) -/
  added : List (Nat × List (Addr × List OutPoint)) := []
  removed : List (Nat × List (Addr × List OutPoint)) := []
deriving Repr, BEq

/-- `NextBlockHeaders`: announced headers. A header is `(hash, prev, time, bits, raw)`. -/
structure NextHeader where
  hash : Nat
  prev : Nat
  time : Nat
  bits : Nat
  raw : String
deriving Repr, BEq, DecidableEq

structure NextBlockHeaders where
  byHash : List (Nat × (Nat × NextHeader)) := []
  byHeight : List (Nat × List Nat) := []
deriving Repr, BEq

/-- `UnstableBlocks` -/
structure Unstable where
  thr : Nat
  tree : Tree CBlock
  cache : OutPointsCache := {}
  net : Tree.Net
  next : NextBlockHeaders := {}
  tipDepthsCache : List Nat := []
  /-- hashes present in the stable-memory block cache (`BlocksCacheInStableMem`) -/
  blockCache : List Nat := []
deriving Repr

/-- `BlockMetrics` -/
structure BlockMetrics where
  feeRates : List Nat
  utxoDelta : Int
deriving Repr, BEq

/-- `types::fee_rate_per_vbyte` -/
def feeRatePerVbyte (fee vsize : Nat) : Option Nat :=
  if vsize > 0 then some (1000 * fee / vsize) else none

namespace OutPointsCache

def getTxOut (c : OutPointsCache) (o : OutPoint) : Option (TxOut × Nat) :=
  (AList.find? c.txOuts o).map (fun i => (i.txout, i.height))

def getAdded (c : OutPointsCache) (h : Nat) (a : Addr) : List OutPoint :=
  match AList.find? c.added h with
  | none => []
  | some m => (AList.find? m a).getD []

def getRemoved (c : OutPointsCache) (h : Nat) (a : Addr) : List OutPoint :=
  match AList.find? c.removed h with
  | none => []
  | some m => (AList.find? m a).getD []

end OutPointsCache

/-- append `o` to the list stored under `a` (`entry(address).or_insert(vec![]).push(o)`) -/
def pushUnder (m : List (Addr × List OutPoint)) (a : Addr) (o : OutPoint) : List (Addr × List OutPoint) :=
  match AList.find? m a with
  | none => m ++ [(a, [o])]
  | some l => m.map (fun p => if p.1 == a then (p.1, l ++ [o]) else p)

/-- bump the count of `o` in the block-local map (`entry(o).or_insert(info{count:0}); count += 1`) -/
def bumpLocal (m : List (OutPoint × TxOutInfo)) (o : OutPoint) (t : TxOut) (h : Nat) :
    List (OutPoint × TxOutInfo) :=
  match AList.find? m o with
  | none => m ++ [(o, ⟨t, h, 1⟩)]
  | some _ => m.map (fun p => if p.1 == o then (p.1, { p.2 with count := p.2.count + 1 }) else p)

/-- accumulator of the single pass of `insert_outpoints` -/
structure InsertAcc where
  local_ : List (OutPoint × TxOutInfo) := []
  added : List (Addr × List OutPoint) := []
  removed : List (Addr × List OutPoint) := []
  utxoDelta : Int := 0
  feeRates : List Nat := []
deriving Repr

/-- inputs of one transaction; returns the accumulator and the input sum, `none` if a
    referenced output cannot be found (`TxOutNotFound`). -/
def insertInputs (cache : OutPointsCache) (utxos : UtxoSet) :
    List OutPoint → InsertAcc → Nat → Option (InsertAcc × Nat)
  | [], acc, s => some (acc, s)
  | o :: os, acc, s =>
    let found : Option (TxOut × Nat) :=
      match cache.getTxOut o with
      | some x => some x
      | none => match AList.find? acc.local_ o with
        | some e => some (e.txout, e.height)
        | none => utxos.getUtxo o
    match found with
    | none => none
    | some (t, h) =>
      let removed := match t.addr with
        | some a => pushUnder acc.removed a o
        | none => acc.removed
      insertInputs cache utxos os
        { acc with removed := removed, local_ := bumpLocal acc.local_ o t h } (s + t.value)

def insertOutputsAcc (txid : Nat) (height : Nat) : List TxOut → Nat → InsertAcc → InsertAcc
  | [], _, acc => acc
  | t :: ts, i, acc =>
    let o : OutPoint := ⟨txid, i⟩
    let added := match t.addr with
      | some a => pushUnder acc.added a o
      | none => acc.added
    insertOutputsAcc txid height ts (i + 1)
      { acc with added := added, local_ := bumpLocal acc.local_ o t height }

def insertTxs (cache : OutPointsCache) (utxos : UtxoSet) (height : Nat) :
    List Tx → InsertAcc → Option InsertAcc
  | [], acc => some acc
  | tx :: txs, acc =>
    let acc := { acc with utxoDelta := acc.utxoDelta + (tx.outs.length : Int) -
                  (if tx.coinbase then 0 else (tx.ins.length : Int)) }
    match insertInputs cache utxos tx.ins acc 0 with
    | none => none
    | some (acc, inputSum) =>
      let acc := insertOutputsAcc tx.txid height tx.outs 0 acc
      let outputSum := (tx.outs.map (·.value)).foldl (· + ·) 0
      let acc :=
        if !tx.coinbase && outputSum ≤ inputSum then
          match feeRatePerVbyte (inputSum - outputSum) tx.vsize with
          | some r => { acc with feeRates := acc.feeRates ++ [r] }
          | none => acc
        else acc
      insertTxs cache utxos height txs acc

/-- merge the block-local tx outs into the cache (`and_modify(count += ..).or_insert(..)`) -/
def mergeLocal (txOuts : List (OutPoint × TxOutInfo)) : List (OutPoint × TxOutInfo) →
    List (OutPoint × TxOutInfo)
  | [] => txOuts
  | (o, i) :: rest =>
    let txOuts' := match AList.find? txOuts o with
      | some old => AList.insert txOuts o { old with count := old.count + i.count }
      | none => AList.insert txOuts o i
    mergeLocal txOuts' rest

/-- `insert_outpoints` -/
def insertOutpoints (cache : OutPointsCache) (utxos : UtxoSet) (b : Block) (height : Nat) :
    Option (OutPointsCache × BlockMetrics) :=
  match insertTxs cache utxos height b.txs {} with
  | none => none
  | some acc =>
    some ({ txOuts := mergeLocal cache.txOuts acc.local_,
            added := AList.insert cache.added b.hash acc.added,
            removed := AList.insert cache.removed b.hash acc.removed },
          ⟨acc.feeRates, acc.utxoDelta⟩)

/-- `decrement_count_and_maybe_remove`; `none` = the outpoint is missing (panic) -/
def decRef (m : List (OutPoint × TxOutInfo)) (o : OutPoint) : Option (List (OutPoint × TxOutInfo)) :=
  match AList.find? m o with
  | none => none
  | some i =>
    if i.count ≤ 1 then some (AList.erase m o)
    else some (AList.insert m o { i with count := i.count - 1 })

def decRefs : List (OutPoint × TxOutInfo) → List OutPoint → Option (List (OutPoint × TxOutInfo))
  | m, [] => some m
  | m, o :: os => match decRef m o with
    | none => none
    | some m' => decRefs m' os

/-- all outpoints a block references, in the order `OutPointsCache::remove` visits them -/
def blockRefs (b : Block) : List OutPoint :=
  b.txs.flatMap (fun tx => tx.ins ++ (List.range tx.outs.length).map (fun i => ⟨tx.txid, i⟩))

/-- `OutPointsCache::remove` -/
def OutPointsCache.remove (c : OutPointsCache) (b : Block) : Option OutPointsCache :=
  match decRefs c.txOuts (blockRefs b) with
  | none => none
  | some m => some { txOuts := m, added := AList.erase c.added b.hash, removed := AList.erase c.removed b.hash }

namespace NextBlockHeaders

/-- `insert` -/
def insert (n : NextBlockHeaders) (h : NextHeader) (height : Nat) : NextBlockHeaders :=
  let vec := (AList.find? n.byHeight height).getD []
  let vec' := if vec.contains h.hash then vec else vec ++ [h.hash]
  { byHash := AList.insert n.byHash h.hash (height, h),
    byHeight := AList.insert n.byHeight height vec' }

/-- `remove` -/
def remove (n : NextBlockHeaders) (hash : Nat) : NextBlockHeaders :=
  match AList.find? n.byHash hash with
  | none => n
  | some (height, _) =>
    let vec := (AList.find? n.byHeight height).getD []
    let byHeight := if vec.length = 1 then AList.erase n.byHeight height
      else AList.insert n.byHeight height (vec.filter (fun x => x != hash))
    { byHash := AList.erase n.byHash hash, byHeight := byHeight }

/-- `remove_until_height`: drops every stored height `≤ until` -/
def removeUntil (n : NextBlockHeaders) (untilH : Nat) : NextBlockHeaders :=
  let dropped := (n.byHeight.filter (fun p => p.1 ≤ untilH)).flatMap (·.2)
  { byHeight := n.byHeight.filter (fun p => !(p.1 ≤ untilH)),
    byHash := n.byHash.filter (fun p => !(dropped.contains p.1)) }

/-- `get_max_height` -/
def maxHeight (n : NextBlockHeaders) : Option Nat :=
  match n.byHeight with
  | [] => none
  | p :: ps => some (ps.foldl (fun m q => max m q.1) p.1)

def getHeight (n : NextBlockHeaders) (hash : Nat) : Option Nat :=
  (AList.find? n.byHash hash).map (·.1)

def getHeader (n : NextBlockHeaders) (hash : Nat) : Option NextHeader :=
  (AList.find? n.byHash hash).map (·.2)

end NextBlockHeaders

namespace Unstable

/-- The depth bound of the testnet/regtest rule, as a parameter of the model (the code computes
    it with `f64`; see `Driver` for the executable mirror and DESIGN.md for how it is tied). -/
abbrev BoundFn := Nat → Nat → Nat

/-- `UnstableBlocks::new` -/
def new (utxos : UtxoSet) (thr : Nat) (anchor : Block) (net : Tree.Net) : Option Unstable :=
  match insertOutpoints {} utxos anchor utxos.nextHeight with
  | none => none
  | some (cache, m) =>
    let tree := Tree.leaf (CBlock.mk anchor (some m.feeRates) m.utxoDelta)
    some { thr := thr, tree := tree, cache := cache, net := net,
           tipDepthsCache := tree.tipDepths, blockCache := [anchor.hash] }

inductive PushResult where
  | ok (u : Unstable)
  | doesNotExtend
  | trap (msg : String)

/-- `unstable_blocks::push` -/
def push (u : Unstable) (utxos : UtxoSet) (b : Block) : PushResult :=
  match Tree.findDepth CBlock.hash b.prev u.tree with
  | none => .doesNotExtend
  | some depth =>
    let height := utxos.nextHeight + depth + 1
    match insertOutpoints u.cache utxos b height with
    | none => .trap "processing block must succeed"
    | some (cache, m) =>
      match Tree.extend CBlock.hash b.prev (CBlock.mk b (some m.feeRates) m.utxoDelta) u.tree with
      | none => .doesNotExtend
      | some tree =>
        .ok { u with tree := tree, cache := cache, next := u.next.remove b.hash,
                     tipDepthsCache := tree.tipDepths,
                     blockCache := if u.blockCache.contains b.hash then u.blockCache else u.blockCache ++ [b.hash] }

def stableChildIdx (bound : BoundFn) (u : Unstable) : Option Nat :=
  Tree.stableChild CBlock.diff u.net u.thr (bound u.tree.blocksCount u.thr) u.tree

/-- `peek` -/
def peek (bound : BoundFn) (u : Unstable) : Option CBlock :=
  (stableChildIdx bound u).map (fun _ => u.tree.root)

def removeBlocks : OutPointsCache → List CBlock → Option OutPointsCache
  | c, [] => some c
  | c, b :: bs => match c.remove b.blk with
    | none => none
    | some c' => removeBlocks c' bs

inductive PopResult where
  | none_
  | ok (u : Unstable) (popped : Block)
  | trap (msg : String)

/-- `unstable_blocks::pop` (`stableHeight` = `state.stable_height()` at the time of the call) -/
def pop (bound : BoundFn) (u : Unstable) (stableHeight : Nat) : PopResult :=
  match stableChildIdx bound u with
  | none => .none_
  | some idx =>
    match u.tree with
    | Tree.node r cs =>
      match cs[idx]? with
      | none => .trap "index out of range"
      | some child =>
        -- the old tree without the stable child: everything in it is discarded
        let old : Tree CBlock := Tree.node r (cs.eraseIdx idx)
        let oldBlocks := old.blocks
        match removeBlocks u.cache oldBlocks with
        | none => .trap "outpoint must be present in the outpoints cache"
        | some cache =>
          let oldHashes := oldBlocks.map CBlock.hash
          if !(oldHashes.all (fun h => u.blockCache.contains h)) then .trap "remove_from_cache"
          else
            .ok { u with tree := child, cache := cache,
                         next := u.next.removeUntil stableHeight,
                         tipDepthsCache := child.tipDepths,
                         blockCache := u.blockCache.filter (fun h => !(oldHashes.contains h)) }
              r.blk

/-- `insert_next_block_header` -/
def insertNextHeader (u : Unstable) (h : NextHeader) (stableHeight : Nat) : Option Unstable :=
  let prevHeight : Option Nat :=
    match u.next.getHeight h.prev with
    | some ph => some ph
    | none => (Tree.findDepth CBlock.hash h.prev u.tree).map (fun d => stableHeight + d)
  match prevHeight with
  | none => none
  | some ph => some { u with next := u.next.insert h (ph + 1) }

def mainChain (u : Unstable) : List CBlock := Tree.mainChain CBlock.diff u.tree

def clearMetrics (u : Unstable) : Unstable :=
  { u with tree := Tree.mapT (fun c => { c with feeRates := none, utxoDelta := 0 }) u.tree }

end Unstable
end Btc
