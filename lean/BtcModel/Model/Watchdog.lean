/-
  Model of the watchdog decision: `watchdog/src/health.rs` (median, calculate_height_target,
  compare), `watchdog/src/api_access.rs` (calculate_target) and the latest-round storage of
  `watchdog/src/fetch.rs` / `storage.rs`.
  Import-free (linked into the driver).
-/
namespace Btc.Watchdog

/-- insertion into an ascending list -/
def insertAsc (x : Nat) : List Nat → List Nat
  | [] => [x]
  | y :: ys => if x ≤ y then x :: y :: ys else y :: insertAsc x ys

/-- ascending sort (`values.sort()`; on integers every correct sort gives the same list) -/
def sortAsc (l : List Nat) : List Nat := l.foldr insertAsc []

/-- `health::median` -/
def median (values : List Nat) : Option Nat :=
  let n := values.length
  if n = 0 then none
  else
    let s := sortAsc values
    let mid := n / 2
    if n % 2 = 0 then some ((s.getD (mid - 1) 0 + s.getD mid 0) / 2)
    else some (s.getD mid 0)

def two64 : Nat := 18446744073709551616
def two63 : Nat := 9223372036854775808

/-- `x as u64` for an `i64` value given as an `Int` in range -/
def asU64 (x : Int) : Nat := if x < 0 then (x + (two64 : Int)).toNat else x.toNat

/-- `i64::saturating_add` for operands already in range -/
def satAddI64 (a b : Int) : Int :=
  let s := a + b
  if s > (two63 : Int) - 1 then (two63 : Int) - 1
  else if s < -(two63 : Int) then -(two63 : Int) else s

structure Cfg where
  behind : Nat
  ahead : Nat
  minExplorers : Nat
deriving Repr, DecidableEq

/-- `calculate_height_target`; explorer heights are assumed `< 2^63` (the `as i64` cast) -/
def heightTarget (heights : List Nat) (cfg : Cfg) : Option Nat :=
  if heights.length < cfg.minExplorers then none
  else match median heights with
    | none => none
    | some m =>
      let lo := asU64 (satAddI64 (m : Int) (-(cfg.behind : Int)))
      let hi := asU64 (satAddI64 (m : Int) (cfg.ahead : Int))
      let valid := (heights.filter (fun x => lo ≤ x && x ≤ hi)).length
      if valid ≥ cfg.minExplorers then some m else none

inductive Status where
  | notEnoughData | ok | ahead | behind
deriving Repr, DecidableEq

/-- `source as i64 - target as i64` when both heights are known -/
def heightDiff : Option Nat → Option Nat → Option Int
  | some c, some t => some ((c : Int) - (t : Int))
  | _, _ => none

def statusOf (cfg : Cfg) : Option Int → Status
  | none => Status.notEnoughData
  | some d =>
    if d < -(cfg.behind : Int) then Status.behind
    else if d > (cfg.ahead : Int) then Status.ahead
    else Status.ok

/-- `compare`: (status, explorer height, height diff) -/
def compareHeights (canister : Option Nat) (explorers : List (Option Nat)) (cfg : Cfg) :
    Status × Option Nat × Option Int :=
  (statusOf cfg (heightDiff canister (heightTarget (explorers.filterMap id) cfg)),
   heightTarget (explorers.filterMap id) cfg,
   heightDiff canister (heightTarget (explorers.filterMap id) cfg))

/-- `api_access::calculate_target`: `some true` = enable, `some false` = disable, `none` = no action -/
def apiTarget : Status → Option Bool
  | .ok => some true
  | .behind => some false
  | .ahead => some false
  | .notEnoughData => none

/-- The decision from one round of results. -/
def decision (canister : Option Nat) (explorers : List (Option Nat)) (cfg : Cfg) : Option Bool :=
  apiTarget (compareHeights canister explorers cfg).1

/-! ### Storage: provider name ↦ latest result, overwritten on every round -/

structure Store where
  /-- one slot per configured provider, in provider order (`None` = never fetched) -/
  slots : List (Option (Option Nat))
  canister : Option Nat
deriving Repr

def Store.init (providers : Nat) : Store := ⟨List.replicate providers none, none⟩

/-- `fetch_block_height`: every provider's entry is overwritten, then the canister height. -/
def Store.round (s : Store) (results : List (Option Nat)) (canister : Option Nat) : Store :=
  ⟨(s.slots.zip results).map (fun p => some p.2) ++ s.slots.drop results.length, canister⟩

/-- `health_status`: providers without an entry are skipped, failed ones contribute `None`. -/
def Store.explorers (s : Store) : List (Option Nat) := s.slots.filterMap id

def Store.decision (s : Store) (cfg : Cfg) : Status × Option Nat × Option Int × Option Bool :=
  let r := compareHeights s.canister s.explorers cfg
  (r.1, r.2.1, r.2.2, apiTarget r.1)

end Btc.Watchdog
