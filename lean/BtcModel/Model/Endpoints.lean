import BtcModel.Model.Canister

/-
  The public endpoints as whole messages: guards (`canister/src/lib.rs`), cycles accounting
  (`api/*.rs`) and the answer, composed in the order of the code. A trap rolls the message
  back: the state is unchanged and no cycles are accepted.
-/
namespace Btc.State

inductive Endpoint where
  | getUtxos | getUtxosQuery | getBalance | getBalanceQuery
  | getBlockHeaders | getCurrentFeePercentiles | sendTransaction
deriving Repr, DecidableEq, BEq

/-- does `verify_synced` apply? (`send_transaction` is exempt) -/
def Endpoint.syncRule : Endpoint → Bool
  | .sendTransaction => false
  | _ => true

inductive CallTrap where
  | refused (r : Refusal)
  | cycles
  | other
deriving Repr, DecidableEq, BEq

/-- outcome of a call: the (canonical) answer text is produced by the caller of these
    functions; here `α` is the typed answer -/
inductive CallResult (α : Type) where
  | trap (t : CallTrap)
  /-- answered (`ok` or a request-level error), with the cycles accepted -/
  | answered (a : α) (accepted : Nat) (s : State)

/-- Arguments of a data request -/
structure DataReq where
  reqNet : Tree.Net
  /-- cycles attached to the call -/
  available : Nat
  /-- value of the instruction counter when the variable fee is computed -/
  instructions : Nat
  addr : AddrArg := .malformed
  minConf : Nat := 0
  start : Nat := 0
  limit : Nat := 1000

/-- `bitcoin_get_utxos` (update) -/
def callGetUtxos (env : Env) (s : State) (r : DataReq) : CallResult (QResult UtxosResponse) :=
  match s.guard env r.reqNet true with
  | some g => .trap (.refused g)
  | none =>
    let f := s.fees
    if r.available < f.getUtxosMaximum || r.available < f.getUtxosBase then .trap .cycles
    else
      let res := s.getUtxos r.addr (.minConf r.minConf) r.limit
      match res with
      | .trap _ => .trap .other
      | .err e =>
        .answered (.err e) f.getUtxosBase s
      | .ok v =>
        match chargeMetered r.available f.getUtxosBase f.getUtxosCyclesPerTenInstructions f.getUtxosMaximum r.instructions false with
        | none => .trap .other
        | some acc => .answered (.ok v) acc s

/-- `bitcoin_get_utxos_query`: same answer, nothing charged -/
def callGetUtxosQuery (env : Env) (s : State) (r : DataReq) : CallResult (QResult UtxosResponse) :=
  match s.guard env r.reqNet true with
  | some g => .trap (.refused g)
  | none =>
    match s.getUtxos r.addr (.minConf r.minConf) r.limit with
    | .trap _ => .trap .other
    | res => .answered res 0 s

/-- `bitcoin_get_balance` (update) -/
def callGetBalance (env : Env) (s : State) (r : DataReq) : CallResult (QResult Nat) :=
  match s.guard env r.reqNet true with
  | some g => .trap (.refused g)
  | none =>
    match chargeFlat r.available s.fees.getBalance s.fees.getBalanceMaximum with
    | none => .trap .cycles
    | some acc =>
      match s.getBalance r.addr r.minConf with
      | .trap _ => .trap .other
      | res => .answered res acc s

/-- `bitcoin_get_balance_query` -/
def callGetBalanceQuery (env : Env) (s : State) (r : DataReq) : CallResult (QResult Nat) :=
  match s.guard env r.reqNet true with
  | some g => .trap (.refused g)
  | none =>
    match s.getBalance r.addr r.minConf with
    | .trap _ => .trap .other
    | res => .answered res 0 s

/-- `bitcoin_get_block_headers` -/
def callGetBlockHeaders (env : Env) (s : State) (r : DataReq) :
    CallResult (Except HeadersError (Nat × List String)) :=
  match s.guard env r.reqNet true with
  | some g => .trap (.refused g)
  | none =>
    let f := s.fees
    if r.available < f.getBlockHeadersMaximum || r.available < f.getBlockHeadersBase then .trap .cycles
    else
      match s.getBlockHeaders env.maxHeaders r.start none with
      | .error e => .answered (.error e) f.getBlockHeadersBase s
      | .ok v =>
        match chargeMetered r.available f.getBlockHeadersBase f.getBlockHeadersCyclesPerTenInstructions
            f.getBlockHeadersMaximum r.instructions false with
        | none => .trap .other
        | some acc => .answered (.ok v) acc s

/-- `bitcoin_get_current_fee_percentiles` -/
def callFeePercentiles (env : Env) (s : State) (r : DataReq) : CallResult (List Nat) :=
  match s.guard env r.reqNet true with
  | some g => .trap (.refused g)
  | none =>
    match chargeFlat r.available s.fees.getCurrentFeePercentiles s.fees.getCurrentFeePercentilesMaximum with
    | none => .trap .cycles
    | some acc =>
      match s.feePercentiles env.numTransactions with
      | none => .trap .other
      | some (s', p) => .answered p acc s'

/-- `bitcoin_send_transaction`: `(wellFormed, forwarded?)` -/
def callSendTransaction (env : Env) (s : State) (reqNet : Tree.Net) (available len : Nat) (wellFormed : Bool) :
    CallResult Bool :=
  match s.guard env reqNet false with
  | some g => .trap (.refused g)
  | none =>
    match chargeSend available s.fees.sendTransactionBase s.fees.sendTransactionPerByte len with
    | none => .trap .cycles
    | some acc =>
      let (s', fwd) := s.sendTransaction wellFormed
      .answered fwd acc s'

end Btc.State
