import BtcModel.Model.JsonTestHex
import BtcModel.Model.JsonTestHarness
import BtcModel.Model.JsonTestNumbers

/-
  Vectors for `Model/Json.lean`: hand-picked edge cases (literals, whitespace, numbers, strings and escapes, arrays, objects with duplicate keys and key order, invalid UTF-8, BOM, recursion limit, long inputs) and `utf8Valid` against `std::str::from_utf8`. More vectors: `JsonTestHarness.lean`, `JsonTestNumbers.lean`.

  Every expected value was printed by the real `std::str::from_utf8` and
  `serde_json::from_str::<serde_json::Value>` (serde_json 1.0.149 as locked in `/repo/Cargo.lock`, default
  features) through the generator kept next to this file as `JsonTest.probe.rs.txt`, using the
  formatting code of `/verif/harness/src/tf.rs` (`value_text`, `parsed_text`: `X` = not UTF-8 or not
  JSON). `(parse b).map render == some t` lines: `t` is `serde_json::to_string` of the parsed value
  (only emitted when all its numbers are integers, which `to_string` prints as the canonical literal).
  `#guard`s run in the compiled evaluator; the build fails if one of them is false.
  Verbatim generator output below; do not edit.
-/
namespace Btc.Json.Test
open Btc.Json

/-! ## section `edge` -/
-- literals and whitespace
#guard protoOfBody (hex "6e756c6c") == "n"
#guard (parse (hex "6e756c6c")).map render == some (hex "6e756c6c")
#guard protoOfBody (hex "74727565") == "t"
#guard (parse (hex "74727565")).map render == some (hex "74727565")
#guard protoOfBody (hex "66616c7365") == "f"
#guard (parse (hex "66616c7365")).map render == some (hex "66616c7365")
#guard protoOfBody (hex "206e756c6c") == "n"
#guard (parse (hex "206e756c6c")).map render == some (hex "6e756c6c")
#guard protoOfBody (hex "6e756c6c20") == "n"
#guard (parse (hex "6e756c6c20")).map render == some (hex "6e756c6c")
#guard protoOfBody (hex "090a0d206e756c6c0d0a0920") == "n"
#guard (parse (hex "090a0d206e756c6c0d0a0920")).map render == some (hex "6e756c6c")
#guard protoOfBody (hex "6e756c") == "X"
#guard protoOfBody (hex "6e756c6c6c") == "X"
#guard protoOfBody (hex "6e756c6c78") == "X"
#guard protoOfBody (hex "6e756c6c2078") == "X"
#guard protoOfBody (hex "6e756c6c2c") == "X"
#guard protoOfBody (hex "4e756c6c") == "X"
#guard protoOfBody (hex "4e554c4c") == "X"
#guard protoOfBody (hex "747275") == "X"
#guard protoOfBody (hex "7472756565") == "X"
#guard protoOfBody (hex "66616c73") == "X"
#guard protoOfBody (hex "66616c736565") == "X"
#guard protoOfBody (hex "") == "X"
#guard protoOfBody (hex "20") == "X"
#guard protoOfBody (hex "0a") == "X"
#guard protoOfBody (hex "0b6e756c6c") == "X"
#guard protoOfBody (hex "0c6e756c6c") == "X"
#guard protoOfBody (hex "6e756c6c0c") == "X"
#guard protoOfBody (hex "c2a06e756c6c") == "X"
#guard protoOfBody (hex "efbbbf6e756c6c") == "X"
#guard protoOfBody (hex "6e756c6cefbbbf") == "X"
#guard protoOfBody (hex "00") == "X"
#guard protoOfBody (hex "6e756c6c00") == "X"
#guard protoOfBody (hex "6e") == "X"
#guard protoOfBody (hex "74") == "X"
#guard protoOfBody (hex "66") == "X"
#guard protoOfBody (hex "6e75206c6c") == "X"
#guard protoOfBody (hex "747275652066616c7365") == "X"
#guard protoOfBody (hex "5b5d205b5d") == "X"
#guard protoOfBody (hex "7b7d207b7d") == "X"
#guard protoOfBody (hex "312032") == "X"
#guard protoOfBody (hex "22612220226222") == "X"
-- numbers
#guard protoOfBody (hex "30") == "u0"
#guard (parse (hex "30")).map render == some (hex "30")
#guard protoOfBody (hex "2d30") == "x"
#guard protoOfBody (hex "31") == "u1"
#guard (parse (hex "31")).map render == some (hex "31")
#guard protoOfBody (hex "2d31") == "x"
#guard (parse (hex "2d31")).map render == some (hex "2d31")
#guard protoOfBody (hex "3130") == "u10"
#guard (parse (hex "3130")).map render == some (hex "3130")
#guard protoOfBody (hex "3030") == "X"
#guard protoOfBody (hex "3031") == "X"
#guard protoOfBody (hex "2d3031") == "X"
#guard protoOfBody (hex "302e30") == "x"
#guard protoOfBody (hex "302e35") == "x"
#guard protoOfBody (hex "2e35") == "X"
#guard protoOfBody (hex "352e") == "X"
#guard protoOfBody (hex "312e") == "X"
#guard protoOfBody (hex "312e30") == "x"
#guard protoOfBody (hex "312e3030") == "x"
#guard protoOfBody (hex "2d312e35") == "x"
#guard protoOfBody (hex "316533") == "x"
#guard protoOfBody (hex "314533") == "x"
#guard protoOfBody (hex "31652b33") == "x"
#guard protoOfBody (hex "31652d33") == "x"
#guard protoOfBody (hex "3165") == "X"
#guard protoOfBody (hex "31652b") == "X"
#guard protoOfBody (hex "31652d") == "X"
#guard protoOfBody (hex "312e6533") == "X"
#guard protoOfBody (hex "312e356533") == "x"
#guard protoOfBody (hex "312e35452d33") == "x"
#guard protoOfBody (hex "31653033") == "x"
#guard protoOfBody (hex "31652b3033") == "x"
#guard protoOfBody (hex "306530") == "x"
#guard protoOfBody (hex "2d") == "X"
#guard protoOfBody (hex "2d2d31") == "X"
#guard protoOfBody (hex "2b31") == "X"
#guard protoOfBody (hex "2d2b31") == "X"
#guard protoOfBody (hex "312d") == "X"
#guard protoOfBody (hex "312b") == "X"
#guard protoOfBody (hex "3161") == "X"
#guard protoOfBody (hex "307831") == "X"
#guard protoOfBody (hex "315f30") == "X"
#guard protoOfBody (hex "312c") == "X"
#guard protoOfBody (hex "315d") == "X"
#guard protoOfBody (hex "3138343436373434303733373039353531363135") == "u18446744073709551615"
#guard (parse (hex "3138343436373434303733373039353531363135")).map render == some (hex "3138343436373434303733373039353531363135")
#guard protoOfBody (hex "3138343436373434303733373039353531363136") == "x"
#guard protoOfBody (hex "3138343436373434303733373039353531363134") == "u18446744073709551614"
#guard (parse (hex "3138343436373434303733373039353531363134")).map render == some (hex "3138343436373434303733373039353531363134")
#guard protoOfBody (hex "313834343637343430373337303935353136313530") == "x"
#guard protoOfBody (hex "3939393939393939393939393939393939393939") == "x"
#guard protoOfBody (hex "313030303030303030303030303030303030303030") == "x"
#guard protoOfBody (hex "2d39323233333732303336383534373735383038") == "x"
#guard (parse (hex "2d39323233333732303336383534373735383038")).map render == some (hex "2d39323233333732303336383534373735383038")
#guard protoOfBody (hex "2d39323233333732303336383534373735383039") == "x"
#guard protoOfBody (hex "2d3138343436373434303733373039353531363135") == "x"
#guard protoOfBody (hex "2d3138343436373434303733373039353531363136") == "x"
#guard protoOfBody (hex "39323233333732303336383534373735383037") == "u9223372036854775807"
#guard (parse (hex "39323233333732303336383534373735383037")).map render == some (hex "39323233333732303336383534373735383037")
#guard protoOfBody (hex "39323233333732303336383534373735383038") == "u9223372036854775808"
#guard (parse (hex "39323233333732303336383534373735383038")).map render == some (hex "39323233333732303336383534373735383038")
#guard protoOfBody (hex "303138343436373434303733373039353531363135") == "X"
#guard protoOfBody (hex "3165333038") == "x"
#guard protoOfBody (hex "3165333039") == "X"
#guard protoOfBody (hex "2d3165333039") == "X"
#guard protoOfBody (hex "3165343030") == "X"
#guard protoOfBody (hex "3065343030") == "x"
#guard protoOfBody (hex "302e3065343030") == "x"
#guard protoOfBody (hex "30653939393939393939393939") == "x"
#guard protoOfBody (hex "2d30653939393939393939393939") == "x"
#guard protoOfBody (hex "31652d343030") == "x"
#guard protoOfBody (hex "31652d3939393939393939393939") == "x"
#guard protoOfBody (hex "312e3739373639333133343836323331353765333038") == "x"
#guard protoOfBody (hex "312e3739373639333133343836323331353865333038") == "X"
#guard protoOfBody (hex "312e3739373639333133343836323331353965333038") == "X"
#guard protoOfBody (hex "313739373639333133343836323331353765323932") == "x"
#guard protoOfBody (hex "313739373639333133343836323331353865323932") == "X"
#guard protoOfBody (hex "313739373639333133343836323331353965323932") == "X"
#guard protoOfBody (hex "313739373639333133343836323331353730303030303030303030303030303030303030303030303030303030303030303030303030303030303030303030303030303030303030303030303030303030303030303030303030303030303030303030303030303030303030303030303030303030303030303030303030303030303030303030303030303030303030303030303030303030303030303030303030303030303030303030303030303030303030303030303030303030303030303030303030303030303030303030303030303030303030303030303030303030303030303030303030303030303030303030303030303030303030303030303030303030303030303030303030303030303030303030303030303030303030303030303030303030303030303030") == "x"
#guard protoOfBody (hex "31373937363933313334383632333135393030303030303030303030303030303030303030303030303030303030303030303030303030303030303030303030303030303030303030303030303030303030303030303030303030303030303030303030303030303030303030303030303030303030303030303030303030303030303030303030303030303030303030303030303030303030303030303030303030303030303030303030303030303030303030303030303030303030303030303030303030303030303030303030303030303030303030303030303030303030303030303030303030303030303030303030303030303030303030303030303030303030303030303030303030303030303030303030303030303030303030303030303030303030303030303030") == "x"
#guard protoOfBody (hex "316532313437343833363437") == "X"
#guard protoOfBody (hex "316532313437343833363438") == "X"
#guard protoOfBody (hex "306532313437343833363438") == "x"
#guard protoOfBody (hex "31652d32313437343833363438") == "x"
#guard protoOfBody (hex "302e303030303030303030303030303030303030303030303030303030303030303030303030303030303030303030303030303030303165343030") == "X"
#guard protoOfBody (hex "313030303030303030303030303030303030303030303030302e3065333030") == "X"
#guard protoOfBody (hex "31383434363734343037333730393535313631366530") == "x"
#guard protoOfBody (hex "31383434363734343037333730393535313631356530") == "x"
#guard protoOfBody (hex "31383434363734343037333730393535313631352e30") == "x"
#guard protoOfBody (hex "313834343637343430373337303935353136312e35") == "x"
#guard protoOfBody (hex "313834343637343430373337303935353136312e36") == "x"
#guard protoOfBody (hex "31383434363734343037333730393535313631362e35") == "x"
#guard protoOfBody (hex "20313220") == "u12"
#guard (parse (hex "20313220")).map render == some (hex "3132")
#guard protoOfBody (hex "31320a") == "u12"
#guard (parse (hex "31320a")).map render == some (hex "3132")
#guard protoOfBody (hex "31202e35") == "X"
#guard protoOfBody (hex "31206533") == "X"
#guard protoOfBody (hex "2d2031") == "X"
#guard protoOfBody (hex "5b312e5d") == "X"
#guard protoOfBody (hex "5b2e315d") == "X"
#guard protoOfBody (hex "5b2d5d") == "X"
#guard protoOfBody (hex "5b31655d") == "X"
#guard protoOfBody (hex "5b30315d") == "X"
#guard protoOfBody (hex "5b302c30305d") == "X"
#guard protoOfBody (hex "5b31653330395d") == "X"
#guard protoOfBody (hex "7b2261223a31653330397d") == "X"
#guard protoOfBody (hex "5b31653330382c31653330395d") == "X"
-- strings and escapes
#guard protoOfBody (hex "2222") == "s"
#guard (parse (hex "2222")).map render == some (hex "2222")
#guard protoOfBody (hex "226122") == "s61"
#guard (parse (hex "226122")).map render == some (hex "226122")
#guard protoOfBody (hex "2261626322") == "s616263"
#guard (parse (hex "2261626322")).map render == some (hex "2261626322")
#guard protoOfBody (hex "22") == "X"
#guard protoOfBody (hex "2261") == "X"
#guard protoOfBody (hex "6122") == "X"
#guard protoOfBody (hex "22612222") == "X"
#guard protoOfBody (hex "276127") == "X"
#guard protoOfBody (hex "225c2222") == "s22"
#guard (parse (hex "225c2222")).map render == some (hex "225c2222")
#guard protoOfBody (hex "225c5c22") == "s5c"
#guard (parse (hex "225c5c22")).map render == some (hex "225c5c22")
#guard protoOfBody (hex "225c2f22") == "s2f"
#guard (parse (hex "225c2f22")).map render == some (hex "222f22")
#guard protoOfBody (hex "222f22") == "s2f"
#guard (parse (hex "222f22")).map render == some (hex "222f22")
#guard protoOfBody (hex "225c625c665c6e5c725c7422") == "s080c0a0d09"
#guard (parse (hex "225c625c665c6e5c725c7422")).map render == some (hex "225c625c665c6e5c725c7422")
#guard protoOfBody (hex "225c6122") == "X"
#guard protoOfBody (hex "225c7622") == "X"
#guard protoOfBody (hex "225c3022") == "X"
#guard protoOfBody (hex "225c78343122") == "X"
#guard protoOfBody (hex "225c2722") == "X"
#guard protoOfBody (hex "225c22") == "X"
#guard protoOfBody (hex "225c") == "X"
#guard protoOfBody (hex "225c753030343122") == "s41"
#guard (parse (hex "225c753030343122")).map render == some (hex "224122")
#guard protoOfBody (hex "225c753030653922") == "sc3a9"
#guard (parse (hex "225c753030653922")).map render == some (hex "22c3a922")
#guard protoOfBody (hex "225c753030453922") == "sc3a9"
#guard (parse (hex "225c753030453922")).map render == some (hex "22c3a922")
#guard protoOfBody (hex "225c753230626622") == "se282bf"
#guard (parse (hex "225c753230626622")).map render == some (hex "22e282bf22")
#guard protoOfBody (hex "225c753030303022") == "s00"
#guard (parse (hex "225c753030303022")).map render == some (hex "225c753030303022")
#guard protoOfBody (hex "225c753030316622") == "s1f"
#guard (parse (hex "225c753030316622")).map render == some (hex "225c753030316622")
#guard protoOfBody (hex "225c753030376622") == "s7f"
#guard (parse (hex "225c753030376622")).map render == some (hex "227f22")
#guard protoOfBody (hex "225c753030383022") == "sc280"
#guard (parse (hex "225c753030383022")).map render == some (hex "22c28022")
#guard protoOfBody (hex "225c753037666622") == "sdfbf"
#guard (parse (hex "225c753037666622")).map render == some (hex "22dfbf22")
#guard protoOfBody (hex "225c753038303022") == "se0a080"
#guard (parse (hex "225c753038303022")).map render == some (hex "22e0a08022")
#guard protoOfBody (hex "225c756666666622") == "sefbfbf"
#guard (parse (hex "225c756666666622")).map render == some (hex "22efbfbf22")
#guard protoOfBody (hex "225c756437666622") == "sed9fbf"
#guard (parse (hex "225c756437666622")).map render == some (hex "22ed9fbf22")
#guard protoOfBody (hex "225c756530303022") == "see8080"
#guard (parse (hex "225c756530303022")).map render == some (hex "22ee808022")
#guard protoOfBody (hex "225c756438303022") == "X"
#guard protoOfBody (hex "225c756462666622") == "X"
#guard protoOfBody (hex "225c756463303022") == "X"
#guard protoOfBody (hex "225c756466666622") == "X"
#guard protoOfBody (hex "225c75643833645c756465303022") == "sf09f9880"
#guard (parse (hex "225c75643833645c756465303022")).map render == some (hex "22f09f988022")
#guard protoOfBody (hex "225c75443833445c754445303022") == "sf09f9880"
#guard (parse (hex "225c75443833445c754445303022")).map render == some (hex "22f09f988022")
#guard protoOfBody (hex "225c75643830305c756463303022") == "sf0908080"
#guard (parse (hex "225c75643830305c756463303022")).map render == some (hex "22f090808022")
#guard protoOfBody (hex "225c75646266665c756466666622") == "sf48fbfbf"
#guard (parse (hex "225c75646266665c756466666622")).map render == some (hex "22f48fbfbf22")
#guard protoOfBody (hex "225c756438336422") == "X"
#guard protoOfBody (hex "225c75643833647822") == "X"
#guard protoOfBody (hex "225c75643833645c6e22") == "X"
#guard protoOfBody (hex "225c75643833645c753030343122") == "X"
#guard protoOfBody (hex "225c75643833645c756438336422") == "X"
#guard protoOfBody (hex "225c75643833645c75643833645c756465303022") == "X"
#guard protoOfBody (hex "225c75646530305c756438336422") == "X"
#guard protoOfBody (hex "225c75643833645c22") == "X"
#guard protoOfBody (hex "225c75643833645c7522") == "X"
#guard protoOfBody (hex "225c75643833645c7564653022") == "X"
#guard protoOfBody (hex "225c75643833645c756465306722") == "X"
#guard protoOfBody (hex "225c7522") == "X"
#guard protoOfBody (hex "225c753022") == "X"
#guard protoOfBody (hex "225c75303022") == "X"
#guard protoOfBody (hex "225c7530303422") == "X"
#guard protoOfBody (hex "225c753030346722") == "X"
#guard protoOfBody (hex "225c752030343122") == "X"
#guard protoOfBody (hex "225c752b30343122") == "X"
#guard protoOfBody (hex "225c553030343122") == "X"
#guard protoOfBody (hex "225c75303034313122") == "s4131"
#guard (parse (hex "225c75303034313122")).map render == some (hex "22413122")
#guard protoOfBody (hex "22610a6222") == "X"
#guard protoOfBody (hex "2261096222") == "X"
#guard protoOfBody (hex "22610d6222") == "X"
#guard protoOfBody (hex "2261006222") == "X"
#guard protoOfBody (hex "22611f6222") == "X"
#guard protoOfBody (hex "22617f6222") == "s617f62"
#guard (parse (hex "22617f6222")).map render == some (hex "22617f6222")
#guard protoOfBody (hex "2261c2806222") == "s61c28062"
#guard (parse (hex "2261c2806222")).map render == some (hex "2261c2806222")
#guard protoOfBody (hex "22c3a922") == "sc3a9"
#guard (parse (hex "22c3a922")).map render == some (hex "22c3a922")
#guard protoOfBody (hex "22e282bf22") == "se282bf"
#guard (parse (hex "22e282bf22")).map render == some (hex "22e282bf22")
#guard protoOfBody (hex "22f09f988022") == "sf09f9880"
#guard (parse (hex "22f09f988022")).map render == some (hex "22f09f988022")
#guard protoOfBody (hex "22f48fbfbf22") == "sf48fbfbf"
#guard (parse (hex "22f48fbfbf22")).map render == some (hex "22f48fbfbf22")
#guard protoOfBody (hex "22efbbbf22") == "sefbbbf"
#guard (parse (hex "22efbbbf22")).map render == some (hex "22efbbbf22")
#guard protoOfBody (hex "2261206222") == "s612062"
#guard (parse (hex "2261206222")).map render == some (hex "2261206222")
#guard protoOfBody (hex "22615c75303032306222") == "s612062"
#guard (parse (hex "22615c75303032306222")).map render == some (hex "2261206222")
#guard protoOfBody (hex "225c753030323222") == "s22"
#guard (parse (hex "225c753030323222")).map render == some (hex "225c2222")
#guard protoOfBody (hex "225c753030356322") == "s5c"
#guard (parse (hex "225c753030356322")).map render == some (hex "225c5c22")
#guard protoOfBody (hex "225c75303035435c753030324622") == "s5c2f"
#guard (parse (hex "225c75303035435c753030324622")).map render == some (hex "225c5c2f22")
#guard protoOfBody (hex "2022782220") == "s78"
#guard (parse (hex "2022782220")).map render == some (hex "227822")
#guard protoOfBody (hex "22782279") == "X"
#guard protoOfBody (hex "5b2261222c2262225d") == "a(s61,s62)"
#guard (parse (hex "5b2261222c2262225d")).map render == some (hex "5b2261222c2262225d")
#guard protoOfBody (hex "5b226122202262225d") == "X"
#guard protoOfBody (hex "225c75643833645c75646530305c75643833645c756465303022") == "sf09f9880f09f9880"
#guard (parse (hex "225c75643833645c75646530305c75643833645c756465303022")).map render == some (hex "22f09f9880f09f988022")
#guard protoOfBody (hex "225c75643830305c756462666622") == "X"
#guard protoOfBody (hex "225c75646237665c756463303022") == "sf3afb080"
#guard (parse (hex "225c75646237665c756463303022")).map render == some (hex "22f3afb08022")
-- arrays
#guard protoOfBody (hex "5b5d") == "a()"
#guard (parse (hex "5b5d")).map render == some (hex "5b5d")
#guard protoOfBody (hex "5b205d") == "a()"
#guard (parse (hex "5b205d")).map render == some (hex "5b5d")
#guard protoOfBody (hex "5b0a5d") == "a()"
#guard (parse (hex "5b0a5d")).map render == some (hex "5b5d")
#guard protoOfBody (hex "5b") == "X"
#guard protoOfBody (hex "5d") == "X"
#guard protoOfBody (hex "5b5d5d") == "X"
#guard protoOfBody (hex "5b5b5d") == "X"
#guard protoOfBody (hex "5b5b5d5d") == "a(a())"
#guard (parse (hex "5b5b5d5d")).map render == some (hex "5b5b5d5d")
#guard protoOfBody (hex "5b5b5d2c5b5d5d") == "a(a(),a())"
#guard (parse (hex "5b5b5d2c5b5d5d")).map render == some (hex "5b5b5d2c5b5d5d")
#guard protoOfBody (hex "5b2c5d") == "X"
#guard protoOfBody (hex "5b312c5d") == "X"
#guard protoOfBody (hex "5b2c315d") == "X"
#guard protoOfBody (hex "5b312c2c325d") == "X"
#guard protoOfBody (hex "5b3120325d") == "X"
#guard protoOfBody (hex "5b312c325d") == "a(u1,u2)"
#guard (parse (hex "5b312c325d")).map render == some (hex "5b312c325d")
#guard protoOfBody (hex "5b2031202c2032205d") == "a(u1,u2)"
#guard (parse (hex "5b2031202c2032205d")).map render == some (hex "5b312c325d")
#guard protoOfBody (hex "5b312c32") == "X"
#guard protoOfBody (hex "5b312c") == "X"
#guard protoOfBody (hex "5b31") == "X"
#guard protoOfBody (hex "5b317d") == "X"
#guard protoOfBody (hex "5b313a325d") == "X"
#guard protoOfBody (hex "5b6e756c6c2c747275652c66616c73655d") == "a(n,t,f)"
#guard (parse (hex "5b6e756c6c2c747275652c66616c73655d")).map render == some (hex "5b6e756c6c2c747275652c66616c73655d")
#guard protoOfBody (hex "5b6e756c5d") == "X"
#guard protoOfBody (hex "5b5b5b5b5b5b315d5d5d5d5d5d") == "a(a(a(a(a(a(u1))))))"
#guard (parse (hex "5b5b5b5b5b5b315d5d5d5d5d5d")).map render == some (hex "5b5b5b5b5b5b315d5d5d5d5d5d")
#guard protoOfBody (hex "5b5b312c5b322c5b332c5b345d5d5d5d2c355d") == "a(a(u1,a(u2,a(u3,a(u4)))),u5)"
#guard (parse (hex "5b5b312c5b322c5b332c5b345d5d5d5d2c355d")).map render == some (hex "5b5b312c5b322c5b332c5b345d5d5d5d2c355d")
#guard protoOfBody (hex "5b2261222c312c7b7d5d") == "a(s61,u1,o())"
#guard (parse (hex "5b2261222c312c7b7d5d")).map render == some (hex "5b2261222c312c7b7d5d")
#guard protoOfBody (hex "5b7b7d5d") == "a(o())"
#guard (parse (hex "5b7b7d5d")).map render == some (hex "5b7b7d5d")
#guard protoOfBody (hex "5b7b7d2c7b7d5d") == "a(o(),o())"
#guard (parse (hex "5b7b7d2c7b7d5d")).map render == some (hex "5b7b7d2c7b7d5d")
#guard protoOfBody (hex "5b7b7d7b7d5d") == "X"
#guard protoOfBody (hex "5b09310d2c0a32205d") == "a(u1,u2)"
#guard (parse (hex "5b09310d2c0a32205d")).map render == some (hex "5b312c325d")
#guard protoOfBody (hex "5b315d78") == "X"
#guard protoOfBody (hex "5b315d2078") == "X"
#guard protoOfBody (hex "5b315d2c") == "X"
#guard protoOfBody (hex "785b315d") == "X"
#guard protoOfBody (hex "5b0c315d") == "X"
#guard protoOfBody (hex "5b31c2a05d") == "X"
-- objects: key order is byte order, last duplicate wins
#guard protoOfBody (hex "7b7d") == "o()"
#guard (parse (hex "7b7d")).map render == some (hex "7b7d")
#guard protoOfBody (hex "7b207d") == "o()"
#guard (parse (hex "7b207d")).map render == some (hex "7b7d")
#guard protoOfBody (hex "7b") == "X"
#guard protoOfBody (hex "7d") == "X"
#guard protoOfBody (hex "7b7d7d") == "X"
#guard protoOfBody (hex "7b7b7d") == "X"
#guard protoOfBody (hex "7b7b7d7d") == "X"
#guard protoOfBody (hex "7b2261223a317d") == "o(61:u1)"
#guard (parse (hex "7b2261223a317d")).map render == some (hex "7b2261223a317d")
#guard protoOfBody (hex "7b226122203a20317d") == "o(61:u1)"
#guard (parse (hex "7b226122203a20317d")).map render == some (hex "7b2261223a317d")
#guard protoOfBody (hex "7b202261223a31207d") == "o(61:u1)"
#guard (parse (hex "7b202261223a31207d")).map render == some (hex "7b2261223a317d")
#guard protoOfBody (hex "7b2261223a312c7d") == "X"
#guard protoOfBody (hex "7b2c2261223a317d") == "X"
#guard protoOfBody (hex "7b2261223a312c2c2262223a327d") == "X"
#guard protoOfBody (hex "7b2261223a31202262223a327d") == "X"
#guard protoOfBody (hex "7b2261223a312c2262223a327d") == "o(61:u1,62:u2)"
#guard (parse (hex "7b2261223a312c2262223a327d")).map render == some (hex "7b2261223a312c2262223a327d")
#guard protoOfBody (hex "7b2262223a322c2261223a317d") == "o(61:u1,62:u2)"
#guard (parse (hex "7b2262223a322c2261223a317d")).map render == some (hex "7b2261223a312c2262223a327d")
#guard protoOfBody (hex "7b2261223a312c2261223a327d") == "o(61:u2)"
#guard (parse (hex "7b2261223a312c2261223a327d")).map render == some (hex "7b2261223a327d")
#guard protoOfBody (hex "7b2261223a322c2261223a317d") == "o(61:u1)"
#guard (parse (hex "7b2261223a322c2261223a317d")).map render == some (hex "7b2261223a317d")
#guard protoOfBody (hex "7b2261223a312c2262223a352c2261223a327d") == "o(61:u2,62:u5)"
#guard (parse (hex "7b2261223a312c2262223a352c2261223a327d")).map render == some (hex "7b2261223a322c2262223a357d")
#guard protoOfBody (hex "7b2261223a312c2261223a322c2261223a337d") == "o(61:u3)"
#guard (parse (hex "7b2261223a312c2261223a322c2261223a337d")).map render == some (hex "7b2261223a337d")
#guard protoOfBody (hex "7b2261223a7b2278223a317d2c2261223a7b2279223a327d7d") == "o(61:o(79:u2))"
#guard (parse (hex "7b2261223a7b2278223a317d2c2261223a7b2279223a327d7d")).map render == some (hex "7b2261223a7b2279223a327d7d")
#guard protoOfBody (hex "7b2261223a312c225c7530303631223a327d") == "o(61:u2)"
#guard (parse (hex "7b2261223a312c225c7530303631223a327d")).map render == some (hex "7b2261223a327d")
#guard protoOfBody (hex "7b225c7530303631223a312c2261223a327d") == "o(61:u2)"
#guard (parse (hex "7b225c7530303631223a312c2261223a327d")).map render == some (hex "7b2261223a327d")
#guard protoOfBody (hex "7b2262223a312c226161223a322c2261223a332c22223a342c226162223a352c2242223a367d") == "o(:u4,42:u6,61:u3,6161:u2,6162:u5,62:u1)"
#guard (parse (hex "7b2262223a312c226161223a322c2261223a332c22223a342c226162223a352c2242223a367d")).map render == some (hex "7b22223a342c2242223a362c2261223a332c226161223a322c226162223a352c2262223a317d")
#guard protoOfBody (hex "7b22c3a9223a312c227a223a322c22e282bf223a332c22f09f9880223a342c225c7566666666223a357d") == "o(7a:u2,c3a9:u1,e282bf:u3,efbfbf:u5,f09f9880:u4)"
#guard (parse (hex "7b22c3a9223a312c227a223a322c22e282bf223a332c22f09f9880223a342c225c7566666666223a357d")).map render == some (hex "7b227a223a322c22c3a9223a312c22e282bf223a332c22efbfbf223a352c22f09f9880223a347d")
#guard protoOfBody (hex "7b22615c7530303030223a312c2261223a327d") == "o(61:u2,6100:u1)"
#guard (parse (hex "7b22615c7530303030223a312c2261223a327d")).map render == some (hex "7b2261223a322c22615c7530303030223a317d")
#guard protoOfBody (hex "7b225c75643833645c7564653030223a312c225c7566666666223a327d") == "o(efbfbf:u2,f09f9880:u1)"
#guard (parse (hex "7b225c75643833645c7564653030223a312c225c7566666666223a327d")).map render == some (hex "7b22efbfbf223a322c22f09f9880223a317d")
#guard protoOfBody (hex "7b2261227d") == "X"
#guard protoOfBody (hex "7b2261223a7d") == "X"
#guard protoOfBody (hex "7b22612220317d") == "X"
#guard protoOfBody (hex "7b2261223a31") == "X"
#guard protoOfBody (hex "7b2261223a") == "X"
#guard protoOfBody (hex "7b226122") == "X"
#guard protoOfBody (hex "7b2261") == "X"
#guard protoOfBody (hex "7b613a317d") == "X"
#guard protoOfBody (hex "7b2761273a317d") == "X"
#guard protoOfBody (hex "7b313a327d") == "X"
#guard protoOfBody (hex "7b6e756c6c3a317d") == "X"
#guard protoOfBody (hex "7b2261223a315d") == "X"
#guard protoOfBody (hex "7b2261223a5b7d") == "X"
#guard protoOfBody (hex "7b2261223a7b2262223a7b2263223a5b312c7b2264223a6e756c6c7d5d7d7d7d") == "o(61:o(62:o(63:a(u1,o(64:n)))))"
#guard (parse (hex "7b2261223a7b2262223a7b2263223a5b312c7b2264223a6e756c6c7d5d7d7d7d")).map render == some (hex "7b2261223a7b2262223a7b2263223a5b312c7b2264223a6e756c6c7d5d7d7d7d")
#guard protoOfBody (hex "7b22686569676874223a3730303030307d") == "o(686569676874:u700000)"
#guard (parse (hex "7b22686569676874223a3730303030307d")).map render == some (hex "7b22686569676874223a3730303030307d")
#guard protoOfBody (hex "7b2268656967687422203a09373030303030202c20226861736822203a202230306162227d") == "o(68617368:s30306162,686569676874:u700000)"
#guard (parse (hex "7b2268656967687422203a09373030303030202c20226861736822203a202230306162227d")).map render == some (hex "7b2268617368223a2230306162222c22686569676874223a3730303030307d")
#guard protoOfBody (hex "7b22686569676874223a312c22686569676874223a6e756c6c7d") == "o(686569676874:n)"
#guard (parse (hex "7b22686569676874223a312c22686569676874223a6e756c6c7d")).map render == some (hex "7b22686569676874223a6e756c6c7d")
#guard protoOfBody (hex "7b22686569676874223a6e756c6c2c22686569676874223a317d") == "o(686569676874:u1)"
#guard (parse (hex "7b22686569676874223a6e756c6c2c22686569676874223a317d")).map render == some (hex "7b22686569676874223a317d")
#guard protoOfBody (hex "5b7b22686569676874223a352c22686569676874223a367d2c7b22686569676874223a377d5d") == "a(o(686569676874:u6),o(686569676874:u7))"
#guard (parse (hex "5b7b22686569676874223a352c22686569676874223a367d2c7b22686569676874223a377d5d")).map render == some (hex "5b7b22686569676874223a367d2c7b22686569676874223a377d5d")
#guard protoOfBody (hex "7b2264617461223a7b22626573745f626c6f636b5f686569676874223a3831323334357d2c22636f6e74657874223a7b7d7d") == "o(636f6e74657874:o(),64617461:o(626573745f626c6f636b5f686569676874:u812345))"
#guard (parse (hex "7b2264617461223a7b22626573745f626c6f636b5f686569676874223a3831323334357d2c22636f6e74657874223a7b7d7d")).map render == some (hex "7b22636f6e74657874223a7b7d2c2264617461223a7b22626573745f626c6f636b5f686569676874223a3831323334357d7d")
#guard protoOfBody (hex "7b2264617461223a7b22626573745f626c6f636b5f686569676874223a317d2c2264617461223a7b22626573745f626c6f636b5f686569676874223a327d7d") == "o(64617461:o(626573745f626c6f636b5f686569676874:u2))"
#guard (parse (hex "7b2264617461223a7b22626573745f626c6f636b5f686569676874223a317d2c2264617461223a7b22626573745f626c6f636b5f686569676874223a327d7d")).map render == some (hex "7b2264617461223a7b22626573745f626c6f636b5f686569676874223a327d7d")
#guard protoOfBody (hex "7b2264617461223a7b22626573745f626c6f636b5f686569676874223a317d2c2264617461223a357d") == "o(64617461:u5)"
#guard (parse (hex "7b2264617461223a7b22626573745f626c6f636b5f686569676874223a317d2c2264617461223a357d")).map render == some (hex "7b2264617461223a357d")
#guard protoOfBody (hex "7b22223a317d") == "o(:u1)"
#guard (parse (hex "7b22223a317d")).map render == some (hex "7b22223a317d")
#guard protoOfBody (hex "7b22223a312c22223a327d") == "o(:u2)"
#guard (parse (hex "7b22223a312c22223a327d")).map render == some (hex "7b22223a327d")
#guard protoOfBody (hex "7b2261223a317d78") == "X"
#guard protoOfBody (hex "7b2261223a317d2078") == "X"
#guard protoOfBody (hex "7b2261220c3a317d") == "X"
#guard protoOfBody (hex "7b2261223a0c317d") == "X"
-- invalid UTF-8 / BOM / multi-byte
#guard protoOfBody (hex "ff") == "X"
#guard protoOfBody (hex "22ff22") == "X"
#guard protoOfBody (hex "22c322") == "X"
#guard protoOfBody (hex "22c3a922") == "sc3a9"
#guard (parse (hex "22c3a922")).map render == some (hex "22c3a922")
#guard protoOfBody (hex "22c08022") == "X"
#guard protoOfBody (hex "22c1bf22") == "X"
#guard protoOfBody (hex "22e0808022") == "X"
#guard protoOfBody (hex "22e09fbf22") == "X"
#guard protoOfBody (hex "22e0a08022") == "se0a080"
#guard (parse (hex "22e0a08022")).map render == some (hex "22e0a08022")
#guard protoOfBody (hex "22ed9fbf22") == "sed9fbf"
#guard (parse (hex "22ed9fbf22")).map render == some (hex "22ed9fbf22")
#guard protoOfBody (hex "22eda08022") == "X"
#guard protoOfBody (hex "22edbfbf22") == "X"
#guard protoOfBody (hex "22ee808022") == "see8080"
#guard (parse (hex "22ee808022")).map render == some (hex "22ee808022")
#guard protoOfBody (hex "22efbfbf22") == "sefbfbf"
#guard (parse (hex "22efbfbf22")).map render == some (hex "22efbfbf22")
#guard protoOfBody (hex "22f080808022") == "X"
#guard protoOfBody (hex "22f08fbfbf22") == "X"
#guard protoOfBody (hex "22f090808022") == "sf0908080"
#guard (parse (hex "22f090808022")).map render == some (hex "22f090808022")
#guard protoOfBody (hex "22f48fbfbf22") == "sf48fbfbf"
#guard (parse (hex "22f48fbfbf22")).map render == some (hex "22f48fbfbf22")
#guard protoOfBody (hex "22f490808022") == "X"
#guard protoOfBody (hex "22f580808022") == "X"
#guard protoOfBody (hex "22f88880808022") == "X"
#guard protoOfBody (hex "228022") == "X"
#guard protoOfBody (hex "22bf22") == "X"
#guard protoOfBody (hex "22e28222") == "X"
#guard protoOfBody (hex "22e282bf22") == "se282bf"
#guard (parse (hex "22e282bf22")).map render == some (hex "22e282bf22")
#guard protoOfBody (hex "22f09f9822") == "X"
#guard protoOfBody (hex "22f09f988022") == "sf09f9880"
#guard (parse (hex "22f09f988022")).map render == some (hex "22f09f988022")
#guard protoOfBody (hex "efbbbf7b7d") == "X"
#guard protoOfBody (hex "7b7defbbbf") == "X"
#guard protoOfBody (hex "5b312c325d80") == "X"
#guard protoOfBody (hex "c2a05b315d") == "X"
#guard protoOfBody (hex "5b315de280a8") == "X"
#guard protoOfBody (hex "7b2261223a317dff") == "X"
#guard protoOfBody (hex "31fe") == "X"
#guard protoOfBody (hex "6e756cc3ac") == "X"
-- recursion limit: depth 127 is accepted, 128 is not
#guard protoOfBody (hex "5b5d") == "a()"
#guard (parse (hex "5b5d")).map render == some (hex "5b5d")
#guard protoOfBody (hex "7b2261223a317d") == "o(61:u1)"
#guard (parse (hex "7b2261223a317d")).map render == some (hex "7b2261223a317d")
#guard protoOfBody (hex "5b5d") == "a()"
#guard (parse (hex "5b5d")).map render == some (hex "5b5d")
#guard protoOfBody (hex "5b5b5d5d") == "a(a())"
#guard (parse (hex "5b5b5d5d")).map render == some (hex "5b5b5d5d")
#guard protoOfBody (hex "7b2261223a7b2261223a317d7d") == "o(61:o(61:u1))"
#guard (parse (hex "7b2261223a7b2261223a317d7d")).map render == some (hex "7b2261223a7b2261223a317d7d")
#guard protoOfBody (hex "5b7b226b223a5b5d7d5d") == "a(o(6b:a()))"
#guard (parse (hex "5b7b226b223a5b5d7d5d")).map render == some (hex "5b7b226b223a5b5d7d5d")
#guard protoOfBody (hex "5b5b5b5b5b5b5b5b5b5b5b5b5b5b5b5b5b5b5b5b5b5b5b5b5b5b5b5b5b5b5b5b5b5b5b5b5b5b5b5b5b5b5b5b5b5b5b5b5b5b5b5b5b5b5b5b5b5b5b5b5b5b5b5b5b5b5b5b5b5b5b5b5b5b5b5b5b5b5b5b5b5b5b5b5b5b5b5b5b5b5b5b5b5b5b5b5b5b5b5b5d5d5d5d5d5d5d5d5d5d5d5d5d5d5d5d5d5d5d5d5d5d5d5d5d5d5d5d5d5d5d5d5d5d5d5d5d5d5d5d5d5d5d5d5d5d5d5d5d5d5d5d5d5d5d5d5d5d5d5d5d5d5d5d5d5d5d5d5d5d5d5d5d5d5d5d5d5d5d5d5d5d5d5d5d5d5d5d5d5d5d5d5d5d5d5d5d5d5d5d") == "a(a(a(a(a(a(a(a(a(a(a(a(a(a(a(a(a(a(a(a(a(a(a(a(a(a(a(a(a(a(a(a(a(a(a(a(a(a(a(a(a(a(a(a(a(a(a(a(a(a(a(a(a(a(a(a(a(a(a(a(a(a(a(a(a(a(a(a(a(a(a(a(a(a(a(a(a(a(a(a(a(a(a(a(a(a(a(a(a(a(a(a(a(a(a(a(a(a(a(a())))))))))))))))))))))))))))))))))))))))))))))))))))))))))))))))))))))))))))))))))))))))))))))))))))"
#guard (parse (hex "5b5b5b5b5b5b5b5b5b5b5b5b5b5b5b5b5b5b5b5b5b5b5b5b5b5b5b5b5b5b5b5b5b5b5b5b5b5b5b5b5b5b5b5b5b5b5b5b5b5b5b5b5b5b5b5b5b5b5b5b5b5b5b5b5b5b5b5b5b5b5b5b5b5b5b5b5b5b5b5b5b5b5b5b5b5b5b5b5b5b5b5b5b5b5b5b5b5b5b5b5d5d5d5d5d5d5d5d5d5d5d5d5d5d5d5d5d5d5d5d5d5d5d5d5d5d5d5d5d5d5d5d5d5d5d5d5d5d5d5d5d5d5d5d5d5d5d5d5d5d5d5d5d5d5d5d5d5d5d5d5d5d5d5d5d5d5d5d5d5d5d5d5d5d5d5d5d5d5d5d5d5d5d5d5d5d5d5d5d5d5d5d5d5d5d5d5d5d5d5d")).map render == some (hex "5b5b5b5b5b5b5b5b5b5b5b5b5b5b5b5b5b5b5b5b5b5b5b5b5b5b5b5b5b5b5b5b5b5b5b5b5b5b5b5b5b5b5b5b5b5b5b5b5b5b5b5b5b5b5b5b5b5b5b5b5b5b5b5b5b5b5b5b5b5b5b5b5b5b5b5b5b5b5b5b5b5b5b5b5b5b5b5b5b5b5b5b5b5b5b5b5b5b5b5b5d5d5d5d5d5d5d5d5d5d5d5d5d5d5d5d5d5d5d5d5d5d5d5d5d5d5d5d5d5d5d5d5d5d5d5d5d5d5d5d5d5d5d5d5d5d5d5d5d5d5d5d5d5d5d5d5d5d5d5d5d5d5d5d5d5d5d5d5d5d5d5d5d5d5d5d5d5d5d5d5d5d5d5d5d5d5d5d5d5d5d5d5d5d5d5d5d5d5d5d")
#guard protoOfBody (hex "7b2261223a7b2261223a7b2261223a7b2261223a7b2261223a7b2261223a7b2261223a7b2261223a7b2261223a7b2261223a7b2261223a7b2261223a7b2261223a7b2261223a7b2261223a7b2261223a7b2261223a7b2261223a7b2261223a7b2261223a7b2261223a7b2261223a7b2261223a7b2261223a7b2261223a7b2261223a7b2261223a7b2261223a7b2261223a7b2261223a7b2261223a7b2261223a7b2261223a7b2261223a7b2261223a7b2261223a7b2261223a7b2261223a7b2261223a7b2261223a7b2261223a7b2261223a7b2261223a7b2261223a7b2261223a7b2261223a7b2261223a7b2261223a7b2261223a7b2261223a7b2261223a7b2261223a7b2261223a7b2261223a7b2261223a7b2261223a7b2261223a7b2261223a7b2261223a7b2261223a7b2261223a7b2261223a7b2261223a7b2261223a7b2261223a7b2261223a7b2261223a7b2261223a7b2261223a7b2261223a7b2261223a7b2261223a7b2261223a7b2261223a7b2261223a7b2261223a7b2261223a7b2261223a7b2261223a7b2261223a7b2261223a7b2261223a7b2261223a7b2261223a7b2261223a7b2261223a7b2261223a7b2261223a7b2261223a7b2261223a7b2261223a7b2261223a7b2261223a7b2261223a7b2261223a7b2261223a7b2261223a7b2261223a7b2261223a7b2261223a317d7d7d7d7d7d7d7d7d7d7d7d7d7d7d7d7d7d7d7d7d7d7d7d7d7d7d7d7d7d7d7d7d7d7d7d7d7d7d7d7d7d7d7d7d7d7d7d7d7d7d7d7d7d7d7d7d7d7d7d7d7d7d7d7d7d7d7d7d7d7d7d7d7d7d7d7d7d7d7d7d7d7d7d7d7d7d7d7d7d7d7d7d7d7d7d7d7d7d7d") == "o(61:o(61:o(61:o(61:o(61:o(61:o(61:o(61:o(61:o(61:o(61:o(61:o(61:o(61:o(61:o(61:o(61:o(61:o(61:o(61:o(61:o(61:o(61:o(61:o(61:o(61:o(61:o(61:o(61:o(61:o(61:o(61:o(61:o(61:o(61:o(61:o(61:o(61:o(61:o(61:o(61:o(61:o(61:o(61:o(61:o(61:o(61:o(61:o(61:o(61:o(61:o(61:o(61:o(61:o(61:o(61:o(61:o(61:o(61:o(61:o(61:o(61:o(61:o(61:o(61:o(61:o(61:o(61:o(61:o(61:o(61:o(61:o(61:o(61:o(61:o(61:o(61:o(61:o(61:o(61:o(61:o(61:o(61:o(61:o(61:o(61:o(61:o(61:o(61:o(61:o(61:o(61:o(61:o(61:o(61:o(61:o(61:o(61:o(61:o(61:u1))))))))))))))))))))))))))))))))))))))))))))))))))))))))))))))))))))))))))))))))))))))))))))))))))))"
#guard protoOfBody (hex "5b7b226b223a5b7b226b223a5b7b226b223a5b7b226b223a5b7b226b223a5b7b226b223a5b7b226b223a5b7b226b223a5b7b226b223a5b7b226b223a5b7b226b223a5b7b226b223a5b7b226b223a5b7b226b223a5b7b226b223a5b7b226b223a5b7b226b223a5b7b226b223a5b7b226b223a5b7b226b223a5b7b226b223a5b7b226b223a5b7b226b223a5b7b226b223a5b7b226b223a5b7b226b223a5b7b226b223a5b7b226b223a5b7b226b223a5b7b226b223a5b7b226b223a5b7b226b223a5b7b226b223a5b7b226b223a5b7b226b223a5b7b226b223a5b7b226b223a5b7b226b223a5b7b226b223a5b7b226b223a5b7b226b223a5b7b226b223a5b7b226b223a5b7b226b223a5b7b226b223a5b7b226b223a5b7b226b223a5b7b226b223a5b7b226b223a5b7b226b223a5b5d7d5d7d5d7d5d7d5d7d5d7d5d7d5d7d5d7d5d7d5d7d5d7d5d7d5d7d5d7d5d7d5d7d5d7d5d7d5d7d5d7d5d7d5d7d5d7d5d7d5d7d5d7d5d7d5d7d5d7d5d7d5d7d5d7d5d7d5d7d5d7d5d7d5d7d5d7d5d7d5d7d5d7d5d7d5d7d5d7d5d7d5d7d5d7d5d7d5d7d5d") == "a(o(6b:a(o(6b:a(o(6b:a(o(6b:a(o(6b:a(o(6b:a(o(6b:a(o(6b:a(o(6b:a(o(6b:a(o(6b:a(o(6b:a(o(6b:a(o(6b:a(o(6b:a(o(6b:a(o(6b:a(o(6b:a(o(6b:a(o(6b:a(o(6b:a(o(6b:a(o(6b:a(o(6b:a(o(6b:a(o(6b:a(o(6b:a(o(6b:a(o(6b:a(o(6b:a(o(6b:a(o(6b:a(o(6b:a(o(6b:a(o(6b:a(o(6b:a(o(6b:a(o(6b:a(o(6b:a(o(6b:a(o(6b:a(o(6b:a(o(6b:a(o(6b:a(o(6b:a(o(6b:a(o(6b:a(o(6b:a(o(6b:a(o(6b:a()))))))))))))))))))))))))))))))))))))))))))))))))))))))))))))))))))))))))))))))))))))))))))))))))))))"
#guard protoOfBody (hex "5b5b5b5b5b5b5b5b5b5b5b5b5b5b5b5b5b5b5b5b5b5b5b5b5b5b5b5b5b5b5b5b5b5b5b5b5b5b5b5b5b5b5b5b5b5b5b5b5b5b5b5b5b5b5b5b5b5b5b5b5b5b5b5b5b5b5b5b5b5b5b5b5b5b5b5b5b5b5b5b5b5b5b5b5b5b5b5b5b5b5b5b5b5b5b5b5b5b5b5b5b5b5b5b5b5b5b5b5b5b5b5b5b5b5b5b5b5b5b5b5b5b5b5b5b5b5d5d5d5d5d5d5d5d5d5d5d5d5d5d5d5d5d5d5d5d5d5d5d5d5d5d5d5d5d5d5d5d5d5d5d5d5d5d5d5d5d5d5d5d5d5d5d5d5d5d5d5d5d5d5d5d5d5d5d5d5d5d5d5d5d5d5d5d5d5d5d5d5d5d5d5d5d5d5d5d5d5d5d5d5d5d5d5d5d5d5d5d5d5d5d5d5d5d5d5d5d5d5d5d5d5d5d5d5d5d5d5d5d5d5d5d5d5d5d5d5d5d5d5d5d5d") == "a(a(a(a(a(a(a(a(a(a(a(a(a(a(a(a(a(a(a(a(a(a(a(a(a(a(a(a(a(a(a(a(a(a(a(a(a(a(a(a(a(a(a(a(a(a(a(a(a(a(a(a(a(a(a(a(a(a(a(a(a(a(a(a(a(a(a(a(a(a(a(a(a(a(a(a(a(a(a(a(a(a(a(a(a(a(a(a(a(a(a(a(a(a(a(a(a(a(a(a(a(a(a(a(a(a(a(a(a(a(a(a(a(a(a(a(a(a(a(a(a(a(a(a(a(a())))))))))))))))))))))))))))))))))))))))))))))))))))))))))))))))))))))))))))))))))))))))))))))))))))))))))))))))))))))))))))))"
#guard (parse (hex "5b5b5b5b5b5b5b5b5b5b5b5b5b5b5b5b5b5b5b5b5b5b5b5b5b5b5b5b5b5b5b5b5b5b5b5b5b5b5b5b5b5b5b5b5b5b5b5b5b5b5b5b5b5b5b5b5b5b5b5b5b5b5b5b5b5b5b5b5b5b5b5b5b5b5b5b5b5b5b5b5b5b5b5b5b5b5b5b5b5b5b5b5b5b5b5b5b5b5b5b5b5b5b5b5b5b5b5b5b5b5b5b5b5b5b5b5b5b5b5b5b5b5b5b5b5b5d5d5d5d5d5d5d5d5d5d5d5d5d5d5d5d5d5d5d5d5d5d5d5d5d5d5d5d5d5d5d5d5d5d5d5d5d5d5d5d5d5d5d5d5d5d5d5d5d5d5d5d5d5d5d5d5d5d5d5d5d5d5d5d5d5d5d5d5d5d5d5d5d5d5d5d5d5d5d5d5d5d5d5d5d5d5d5d5d5d5d5d5d5d5d5d5d5d5d5d5d5d5d5d5d5d5d5d5d5d5d5d5d5d5d5d5d5d5d5d5d5d5d5d5d5d")).map render == some (hex "5b5b5b5b5b5b5b5b5b5b5b5b5b5b5b5b5b5b5b5b5b5b5b5b5b5b5b5b5b5b5b5b5b5b5b5b5b5b5b5b5b5b5b5b5b5b5b5b5b5b5b5b5b5b5b5b5b5b5b5b5b5b5b5b5b5b5b5b5b5b5b5b5b5b5b5b5b5b5b5b5b5b5b5b5b5b5b5b5b5b5b5b5b5b5b5b5b5b5b5b5b5b5b5b5b5b5b5b5b5b5b5b5b5b5b5b5b5b5b5b5b5b5b5b5b5b5d5d5d5d5d5d5d5d5d5d5d5d5d5d5d5d5d5d5d5d5d5d5d5d5d5d5d5d5d5d5d5d5d5d5d5d5d5d5d5d5d5d5d5d5d5d5d5d5d5d5d5d5d5d5d5d5d5d5d5d5d5d5d5d5d5d5d5d5d5d5d5d5d5d5d5d5d5d5d5d5d5d5d5d5d5d5d5d5d5d5d5d5d5d5d5d5d5d5d5d5d5d5d5d5d5d5d5d5d5d5d5d5d5d5d5d5d5d5d5d5d5d5d5d5d5d")
#guard protoOfBody (hex "7b2261223a7b2261223a7b2261223a7b2261223a7b2261223a7b2261223a7b2261223a7b2261223a7b2261223a7b2261223a7b2261223a7b2261223a7b2261223a7b2261223a7b2261223a7b2261223a7b2261223a7b2261223a7b2261223a7b2261223a7b2261223a7b2261223a7b2261223a7b2261223a7b2261223a7b2261223a7b2261223a7b2261223a7b2261223a7b2261223a7b2261223a7b2261223a7b2261223a7b2261223a7b2261223a7b2261223a7b2261223a7b2261223a7b2261223a7b2261223a7b2261223a7b2261223a7b2261223a7b2261223a7b2261223a7b2261223a7b2261223a7b2261223a7b2261223a7b2261223a7b2261223a7b2261223a7b2261223a7b2261223a7b2261223a7b2261223a7b2261223a7b2261223a7b2261223a7b2261223a7b2261223a7b2261223a7b2261223a7b2261223a7b2261223a7b2261223a7b2261223a7b2261223a7b2261223a7b2261223a7b2261223a7b2261223a7b2261223a7b2261223a7b2261223a7b2261223a7b2261223a7b2261223a7b2261223a7b2261223a7b2261223a7b2261223a7b2261223a7b2261223a7b2261223a7b2261223a7b2261223a7b2261223a7b2261223a7b2261223a7b2261223a7b2261223a7b2261223a7b2261223a7b2261223a7b2261223a7b2261223a7b2261223a7b2261223a7b2261223a7b2261223a7b2261223a7b2261223a7b2261223a7b2261223a7b2261223a7b2261223a7b2261223a7b2261223a7b2261223a7b2261223a7b2261223a7b2261223a7b2261223a7b2261223a7b2261223a7b2261223a7b2261223a7b2261223a7b2261223a7b2261223a7b2261223a7b2261223a7b2261223a7b2261223a7b2261223a317d7d7d7d7d7d7d7d7d7d7d7d7d7d7d7d7d7d7d7d7d7d7d7d7d7d7d7d7d7d7d7d7d7d7d7d7d7d7d7d7d7d7d7d7d7d7d7d7d7d7d7d7d7d7d7d7d7d7d7d7d7d7d7d7d7d7d7d7d7d7d7d7d7d7d7d7d7d7d7d7d7d7d7d7d7d7d7d7d7d7d7d7d7d7d7d7d7d7d7d7d7d7d7d7d7d7d7d7d7d7d7d7d7d7d7d7d7d7d7d7d7d7d7d7d7d") == "o(61:o(61:o(61:o(61:o(61:o(61:o(61:o(61:o(61:o(61:o(61:o(61:o(61:o(61:o(61:o(61:o(61:o(61:o(61:o(61:o(61:o(61:o(61:o(61:o(61:o(61:o(61:o(61:o(61:o(61:o(61:o(61:o(61:o(61:o(61:o(61:o(61:o(61:o(61:o(61:o(61:o(61:o(61:o(61:o(61:o(61:o(61:o(61:o(61:o(61:o(61:o(61:o(61:o(61:o(61:o(61:o(61:o(61:o(61:o(61:o(61:o(61:o(61:o(61:o(61:o(61:o(61:o(61:o(61:o(61:o(61:o(61:o(61:o(61:o(61:o(61:o(61:o(61:o(61:o(61:o(61:o(61:o(61:o(61:o(61:o(61:o(61:o(61:o(61:o(61:o(61:o(61:o(61:o(61:o(61:o(61:o(61:o(61:o(61:o(61:o(61:o(61:o(61:o(61:o(61:o(61:o(61:o(61:o(61:o(61:o(61:o(61:o(61:o(61:o(61:o(61:o(61:o(61:o(61:o(61:o(61:o(61:o(61:o(61:o(61:o(61:u1))))))))))))))))))))))))))))))))))))))))))))))))))))))))))))))))))))))))))))))))))))))))))))))))))))))))))))))))))))))))))))))"
#guard protoOfBody (hex "5b7b226b223a5b7b226b223a5b7b226b223a5b7b226b223a5b7b226b223a5b7b226b223a5b7b226b223a5b7b226b223a5b7b226b223a5b7b226b223a5b7b226b223a5b7b226b223a5b7b226b223a5b7b226b223a5b7b226b223a5b7b226b223a5b7b226b223a5b7b226b223a5b7b226b223a5b7b226b223a5b7b226b223a5b7b226b223a5b7b226b223a5b7b226b223a5b7b226b223a5b7b226b223a5b7b226b223a5b7b226b223a5b7b226b223a5b7b226b223a5b7b226b223a5b7b226b223a5b7b226b223a5b7b226b223a5b7b226b223a5b7b226b223a5b7b226b223a5b7b226b223a5b7b226b223a5b7b226b223a5b7b226b223a5b7b226b223a5b7b226b223a5b7b226b223a5b7b226b223a5b7b226b223a5b7b226b223a5b7b226b223a5b7b226b223a5b7b226b223a5b7b226b223a5b7b226b223a5b7b226b223a5b7b226b223a5b7b226b223a5b7b226b223a5b7b226b223a5b7b226b223a5b7b226b223a5b7b226b223a5b7b226b223a5b7b226b223a5b7b226b223a5b5d7d5d7d5d7d5d7d5d7d5d7d5d7d5d7d5d7d5d7d5d7d5d7d5d7d5d7d5d7d5d7d5d7d5d7d5d7d5d7d5d7d5d7d5d7d5d7d5d7d5d7d5d7d5d7d5d7d5d7d5d7d5d7d5d7d5d7d5d7d5d7d5d7d5d7d5d7d5d7d5d7d5d7d5d7d5d7d5d7d5d7d5d7d5d7d5d7d5d7d5d7d5d7d5d7d5d7d5d7d5d7d5d7d5d7d5d7d5d7d5d7d5d7d5d7d5d") == "a(o(6b:a(o(6b:a(o(6b:a(o(6b:a(o(6b:a(o(6b:a(o(6b:a(o(6b:a(o(6b:a(o(6b:a(o(6b:a(o(6b:a(o(6b:a(o(6b:a(o(6b:a(o(6b:a(o(6b:a(o(6b:a(o(6b:a(o(6b:a(o(6b:a(o(6b:a(o(6b:a(o(6b:a(o(6b:a(o(6b:a(o(6b:a(o(6b:a(o(6b:a(o(6b:a(o(6b:a(o(6b:a(o(6b:a(o(6b:a(o(6b:a(o(6b:a(o(6b:a(o(6b:a(o(6b:a(o(6b:a(o(6b:a(o(6b:a(o(6b:a(o(6b:a(o(6b:a(o(6b:a(o(6b:a(o(6b:a(o(6b:a(o(6b:a(o(6b:a(o(6b:a(o(6b:a(o(6b:a(o(6b:a(o(6b:a(o(6b:a(o(6b:a(o(6b:a(o(6b:a(o(6b:a(o(6b:a(o(6b:a()))))))))))))))))))))))))))))))))))))))))))))))))))))))))))))))))))))))))))))))))))))))))))))))))))))))))))))))))))))))))))))))"
#guard protoOfBody (hex "5b5b5b5b5b5b5b5b5b5b5b5b5b5b5b5b5b5b5b5b5b5b5b5b5b5b5b5b5b5b5b5b5b5b5b5b5b5b5b5b5b5b5b5b5b5b5b5b5b5b5b5b5b5b5b5b5b5b5b5b5b5b5b5b5b5b5b5b5b5b5b5b5b5b5b5b5b5b5b5b5b5b5b5b5b5b5b5b5b5b5b5b5b5b5b5b5b5b5b5b5b5b5b5b5b5b5b5b5b5b5b5b5b5b5b5b5b5b5b5b5b5b5b5b5b5b5b5d5d5d5d5d5d5d5d5d5d5d5d5d5d5d5d5d5d5d5d5d5d5d5d5d5d5d5d5d5d5d5d5d5d5d5d5d5d5d5d5d5d5d5d5d5d5d5d5d5d5d5d5d5d5d5d5d5d5d5d5d5d5d5d5d5d5d5d5d5d5d5d5d5d5d5d5d5d5d5d5d5d5d5d5d5d5d5d5d5d5d5d5d5d5d5d5d5d5d5d5d5d5d5d5d5d5d5d5d5d5d5d5d5d5d5d5d5d5d5d5d5d5d5d5d5d5d") == "a(a(a(a(a(a(a(a(a(a(a(a(a(a(a(a(a(a(a(a(a(a(a(a(a(a(a(a(a(a(a(a(a(a(a(a(a(a(a(a(a(a(a(a(a(a(a(a(a(a(a(a(a(a(a(a(a(a(a(a(a(a(a(a(a(a(a(a(a(a(a(a(a(a(a(a(a(a(a(a(a(a(a(a(a(a(a(a(a(a(a(a(a(a(a(a(a(a(a(a(a(a(a(a(a(a(a(a(a(a(a(a(a(a(a(a(a(a(a(a(a(a(a(a(a(a(a()))))))))))))))))))))))))))))))))))))))))))))))))))))))))))))))))))))))))))))))))))))))))))))))))))))))))))))))))))))))))))))))"
#guard (parse (hex "5b5b5b5b5b5b5b5b5b5b5b5b5b5b5b5b5b5b5b5b5b5b5b5b5b5b5b5b5b5b5b5b5b5b5b5b5b5b5b5b5b5b5b5b5b5b5b5b5b5b5b5b5b5b5b5b5b5b5b5b5b5b5b5b5b5b5b5b5b5b5b5b5b5b5b5b5b5b5b5b5b5b5b5b5b5b5b5b5b5b5b5b5b5b5b5b5b5b5b5b5b5b5b5b5b5b5b5b5b5b5b5b5b5b5b5b5b5b5b5b5b5b5b5b5b5b5b5d5d5d5d5d5d5d5d5d5d5d5d5d5d5d5d5d5d5d5d5d5d5d5d5d5d5d5d5d5d5d5d5d5d5d5d5d5d5d5d5d5d5d5d5d5d5d5d5d5d5d5d5d5d5d5d5d5d5d5d5d5d5d5d5d5d5d5d5d5d5d5d5d5d5d5d5d5d5d5d5d5d5d5d5d5d5d5d5d5d5d5d5d5d5d5d5d5d5d5d5d5d5d5d5d5d5d5d5d5d5d5d5d5d5d5d5d5d5d5d5d5d5d5d5d5d5d")).map render == some (hex "5b5b5b5b5b5b5b5b5b5b5b5b5b5b5b5b5b5b5b5b5b5b5b5b5b5b5b5b5b5b5b5b5b5b5b5b5b5b5b5b5b5b5b5b5b5b5b5b5b5b5b5b5b5b5b5b5b5b5b5b5b5b5b5b5b5b5b5b5b5b5b5b5b5b5b5b5b5b5b5b5b5b5b5b5b5b5b5b5b5b5b5b5b5b5b5b5b5b5b5b5b5b5b5b5b5b5b5b5b5b5b5b5b5b5b5b5b5b5b5b5b5b5b5b5b5b5b5d5d5d5d5d5d5d5d5d5d5d5d5d5d5d5d5d5d5d5d5d5d5d5d5d5d5d5d5d5d5d5d5d5d5d5d5d5d5d5d5d5d5d5d5d5d5d5d5d5d5d5d5d5d5d5d5d5d5d5d5d5d5d5d5d5d5d5d5d5d5d5d5d5d5d5d5d5d5d5d5d5d5d5d5d5d5d5d5d5d5d5d5d5d5d5d5d5d5d5d5d5d5d5d5d5d5d5d5d5d5d5d5d5d5d5d5d5d5d5d5d5d5d5d5d5d5d")
#guard protoOfBody (hex "7b2261223a7b2261223a7b2261223a7b2261223a7b2261223a7b2261223a7b2261223a7b2261223a7b2261223a7b2261223a7b2261223a7b2261223a7b2261223a7b2261223a7b2261223a7b2261223a7b2261223a7b2261223a7b2261223a7b2261223a7b2261223a7b2261223a7b2261223a7b2261223a7b2261223a7b2261223a7b2261223a7b2261223a7b2261223a7b2261223a7b2261223a7b2261223a7b2261223a7b2261223a7b2261223a7b2261223a7b2261223a7b2261223a7b2261223a7b2261223a7b2261223a7b2261223a7b2261223a7b2261223a7b2261223a7b2261223a7b2261223a7b2261223a7b2261223a7b2261223a7b2261223a7b2261223a7b2261223a7b2261223a7b2261223a7b2261223a7b2261223a7b2261223a7b2261223a7b2261223a7b2261223a7b2261223a7b2261223a7b2261223a7b2261223a7b2261223a7b2261223a7b2261223a7b2261223a7b2261223a7b2261223a7b2261223a7b2261223a7b2261223a7b2261223a7b2261223a7b2261223a7b2261223a7b2261223a7b2261223a7b2261223a7b2261223a7b2261223a7b2261223a7b2261223a7b2261223a7b2261223a7b2261223a7b2261223a7b2261223a7b2261223a7b2261223a7b2261223a7b2261223a7b2261223a7b2261223a7b2261223a7b2261223a7b2261223a7b2261223a7b2261223a7b2261223a7b2261223a7b2261223a7b2261223a7b2261223a7b2261223a7b2261223a7b2261223a7b2261223a7b2261223a7b2261223a7b2261223a7b2261223a7b2261223a7b2261223a7b2261223a7b2261223a7b2261223a7b2261223a7b2261223a7b2261223a7b2261223a7b2261223a7b2261223a7b2261223a7b2261223a317d7d7d7d7d7d7d7d7d7d7d7d7d7d7d7d7d7d7d7d7d7d7d7d7d7d7d7d7d7d7d7d7d7d7d7d7d7d7d7d7d7d7d7d7d7d7d7d7d7d7d7d7d7d7d7d7d7d7d7d7d7d7d7d7d7d7d7d7d7d7d7d7d7d7d7d7d7d7d7d7d7d7d7d7d7d7d7d7d7d7d7d7d7d7d7d7d7d7d7d7d7d7d7d7d7d7d7d7d7d7d7d7d7d7d7d7d7d7d7d7d7d7d7d7d7d7d") == "o(61:o(61:o(61:o(61:o(61:o(61:o(61:o(61:o(61:o(61:o(61:o(61:o(61:o(61:o(61:o(61:o(61:o(61:o(61:o(61:o(61:o(61:o(61:o(61:o(61:o(61:o(61:o(61:o(61:o(61:o(61:o(61:o(61:o(61:o(61:o(61:o(61:o(61:o(61:o(61:o(61:o(61:o(61:o(61:o(61:o(61:o(61:o(61:o(61:o(61:o(61:o(61:o(61:o(61:o(61:o(61:o(61:o(61:o(61:o(61:o(61:o(61:o(61:o(61:o(61:o(61:o(61:o(61:o(61:o(61:o(61:o(61:o(61:o(61:o(61:o(61:o(61:o(61:o(61:o(61:o(61:o(61:o(61:o(61:o(61:o(61:o(61:o(61:o(61:o(61:o(61:o(61:o(61:o(61:o(61:o(61:o(61:o(61:o(61:o(61:o(61:o(61:o(61:o(61:o(61:o(61:o(61:o(61:o(61:o(61:o(61:o(61:o(61:o(61:o(61:o(61:o(61:o(61:o(61:o(61:o(61:o(61:o(61:o(61:o(61:o(61:o(61:u1)))))))))))))))))))))))))))))))))))))))))))))))))))))))))))))))))))))))))))))))))))))))))))))))))))))))))))))))))))))))))))))))"
#guard protoOfBody (hex "5b7b226b223a5b7b226b223a5b7b226b223a5b7b226b223a5b7b226b223a5b7b226b223a5b7b226b223a5b7b226b223a5b7b226b223a5b7b226b223a5b7b226b223a5b7b226b223a5b7b226b223a5b7b226b223a5b7b226b223a5b7b226b223a5b7b226b223a5b7b226b223a5b7b226b223a5b7b226b223a5b7b226b223a5b7b226b223a5b7b226b223a5b7b226b223a5b7b226b223a5b7b226b223a5b7b226b223a5b7b226b223a5b7b226b223a5b7b226b223a5b7b226b223a5b7b226b223a5b7b226b223a5b7b226b223a5b7b226b223a5b7b226b223a5b7b226b223a5b7b226b223a5b7b226b223a5b7b226b223a5b7b226b223a5b7b226b223a5b7b226b223a5b7b226b223a5b7b226b223a5b7b226b223a5b7b226b223a5b7b226b223a5b7b226b223a5b7b226b223a5b7b226b223a5b7b226b223a5b7b226b223a5b7b226b223a5b7b226b223a5b7b226b223a5b7b226b223a5b7b226b223a5b7b226b223a5b7b226b223a5b7b226b223a5b7b226b223a5b7b226b223a5b5d7d5d7d5d7d5d7d5d7d5d7d5d7d5d7d5d7d5d7d5d7d5d7d5d7d5d7d5d7d5d7d5d7d5d7d5d7d5d7d5d7d5d7d5d7d5d7d5d7d5d7d5d7d5d7d5d7d5d7d5d7d5d7d5d7d5d7d5d7d5d7d5d7d5d7d5d7d5d7d5d7d5d7d5d7d5d7d5d7d5d7d5d7d5d7d5d7d5d7d5d7d5d7d5d7d5d7d5d7d5d7d5d7d5d7d5d7d5d7d5d7d5d7d5d7d5d") == "a(o(6b:a(o(6b:a(o(6b:a(o(6b:a(o(6b:a(o(6b:a(o(6b:a(o(6b:a(o(6b:a(o(6b:a(o(6b:a(o(6b:a(o(6b:a(o(6b:a(o(6b:a(o(6b:a(o(6b:a(o(6b:a(o(6b:a(o(6b:a(o(6b:a(o(6b:a(o(6b:a(o(6b:a(o(6b:a(o(6b:a(o(6b:a(o(6b:a(o(6b:a(o(6b:a(o(6b:a(o(6b:a(o(6b:a(o(6b:a(o(6b:a(o(6b:a(o(6b:a(o(6b:a(o(6b:a(o(6b:a(o(6b:a(o(6b:a(o(6b:a(o(6b:a(o(6b:a(o(6b:a(o(6b:a(o(6b:a(o(6b:a(o(6b:a(o(6b:a(o(6b:a(o(6b:a(o(6b:a(o(6b:a(o(6b:a(o(6b:a(o(6b:a(o(6b:a(o(6b:a(o(6b:a(o(6b:a(o(6b:a()))))))))))))))))))))))))))))))))))))))))))))))))))))))))))))))))))))))))))))))))))))))))))))))))))))))))))))))))))))))))))))))"
#guard protoOfBody (hex "5b5b5b5b5b5b5b5b5b5b5b5b5b5b5b5b5b5b5b5b5b5b5b5b5b5b5b5b5b5b5b5b5b5b5b5b5b5b5b5b5b5b5b5b5b5b5b5b5b5b5b5b5b5b5b5b5b5b5b5b5b5b5b5b5b5b5b5b5b5b5b5b5b5b5b5b5b5b5b5b5b5b5b5b5b5b5b5b5b5b5b5b5b5b5b5b5b5b5b5b5b5b5b5b5b5b5b5b5b5b5b5b5b5b5b5b5b5b5b5b5b5b5b5b5b5b5b5b5d5d5d5d5d5d5d5d5d5d5d5d5d5d5d5d5d5d5d5d5d5d5d5d5d5d5d5d5d5d5d5d5d5d5d5d5d5d5d5d5d5d5d5d5d5d5d5d5d5d5d5d5d5d5d5d5d5d5d5d5d5d5d5d5d5d5d5d5d5d5d5d5d5d5d5d5d5d5d5d5d5d5d5d5d5d5d5d5d5d5d5d5d5d5d5d5d5d5d5d5d5d5d5d5d5d5d5d5d5d5d5d5d5d5d5d5d5d5d5d5d5d5d5d5d5d5d5d") == "X"
#guard protoOfBody (hex "7b2261223a7b2261223a7b2261223a7b2261223a7b2261223a7b2261223a7b2261223a7b2261223a7b2261223a7b2261223a7b2261223a7b2261223a7b2261223a7b2261223a7b2261223a7b2261223a7b2261223a7b2261223a7b2261223a7b2261223a7b2261223a7b2261223a7b2261223a7b2261223a7b2261223a7b2261223a7b2261223a7b2261223a7b2261223a7b2261223a7b2261223a7b2261223a7b2261223a7b2261223a7b2261223a7b2261223a7b2261223a7b2261223a7b2261223a7b2261223a7b2261223a7b2261223a7b2261223a7b2261223a7b2261223a7b2261223a7b2261223a7b2261223a7b2261223a7b2261223a7b2261223a7b2261223a7b2261223a7b2261223a7b2261223a7b2261223a7b2261223a7b2261223a7b2261223a7b2261223a7b2261223a7b2261223a7b2261223a7b2261223a7b2261223a7b2261223a7b2261223a7b2261223a7b2261223a7b2261223a7b2261223a7b2261223a7b2261223a7b2261223a7b2261223a7b2261223a7b2261223a7b2261223a7b2261223a7b2261223a7b2261223a7b2261223a7b2261223a7b2261223a7b2261223a7b2261223a7b2261223a7b2261223a7b2261223a7b2261223a7b2261223a7b2261223a7b2261223a7b2261223a7b2261223a7b2261223a7b2261223a7b2261223a7b2261223a7b2261223a7b2261223a7b2261223a7b2261223a7b2261223a7b2261223a7b2261223a7b2261223a7b2261223a7b2261223a7b2261223a7b2261223a7b2261223a7b2261223a7b2261223a7b2261223a7b2261223a7b2261223a7b2261223a7b2261223a7b2261223a7b2261223a7b2261223a7b2261223a7b2261223a7b2261223a7b2261223a7b2261223a7b2261223a317d7d7d7d7d7d7d7d7d7d7d7d7d7d7d7d7d7d7d7d7d7d7d7d7d7d7d7d7d7d7d7d7d7d7d7d7d7d7d7d7d7d7d7d7d7d7d7d7d7d7d7d7d7d7d7d7d7d7d7d7d7d7d7d7d7d7d7d7d7d7d7d7d7d7d7d7d7d7d7d7d7d7d7d7d7d7d7d7d7d7d7d7d7d7d7d7d7d7d7d7d7d7d7d7d7d7d7d7d7d7d7d7d7d7d7d7d7d7d7d7d7d7d7d7d7d7d7d") == "X"
#guard protoOfBody (hex "5b7b226b223a5b7b226b223a5b7b226b223a5b7b226b223a5b7b226b223a5b7b226b223a5b7b226b223a5b7b226b223a5b7b226b223a5b7b226b223a5b7b226b223a5b7b226b223a5b7b226b223a5b7b226b223a5b7b226b223a5b7b226b223a5b7b226b223a5b7b226b223a5b7b226b223a5b7b226b223a5b7b226b223a5b7b226b223a5b7b226b223a5b7b226b223a5b7b226b223a5b7b226b223a5b7b226b223a5b7b226b223a5b7b226b223a5b7b226b223a5b7b226b223a5b7b226b223a5b7b226b223a5b7b226b223a5b7b226b223a5b7b226b223a5b7b226b223a5b7b226b223a5b7b226b223a5b7b226b223a5b7b226b223a5b7b226b223a5b7b226b223a5b7b226b223a5b7b226b223a5b7b226b223a5b7b226b223a5b7b226b223a5b7b226b223a5b7b226b223a5b7b226b223a5b7b226b223a5b7b226b223a5b7b226b223a5b7b226b223a5b7b226b223a5b7b226b223a5b7b226b223a5b7b226b223a5b7b226b223a5b7b226b223a5b7b226b223a5b7b226b223a5b7b226b223a5b5d7d5d7d5d7d5d7d5d7d5d7d5d7d5d7d5d7d5d7d5d7d5d7d5d7d5d7d5d7d5d7d5d7d5d7d5d7d5d7d5d7d5d7d5d7d5d7d5d7d5d7d5d7d5d7d5d7d5d7d5d7d5d7d5d7d5d7d5d7d5d7d5d7d5d7d5d7d5d7d5d7d5d7d5d7d5d7d5d7d5d7d5d7d5d7d5d7d5d7d5d7d5d7d5d7d5d7d5d7d5d7d5d7d5d7d5d7d5d7d5d7d5d7d5d7d5d7d5d") == "X"
#guard protoOfBody (hex "5b5b5b5b5b5b5b5b5b5b5b5b5b5b5b5b5b5b5b5b5b5b5b5b5b5b5b5b5b5b5b5b5b5b5b5b5b5b5b5b5b5b5b5b5b5b5b5b5b5b5b5b5b5b5b5b5b5b5b5b5b5b5b5b5b5b5b5b5b5b5b5b5b5b5b5b5b5b5b5b5b5b5b5b5b5b5b5b5b5b5b5b5b5b5b5b5b5b5b5b5b5b5b5b5b5b5b5b5b5b5b5b5b5b5b5b5b5b5b5b5b5b5b5b5b5b5b5b5b5d5d5d5d5d5d5d5d5d5d5d5d5d5d5d5d5d5d5d5d5d5d5d5d5d5d5d5d5d5d5d5d5d5d5d5d5d5d5d5d5d5d5d5d5d5d5d5d5d5d5d5d5d5d5d5d5d5d5d5d5d5d5d5d5d5d5d5d5d5d5d5d5d5d5d5d5d5d5d5d5d5d5d5d5d5d5d5d5d5d5d5d5d5d5d5d5d5d5d5d5d5d5d5d5d5d5d5d5d5d5d5d5d5d5d5d5d5d5d5d5d5d5d5d5d5d5d5d5d") == "X"
#guard protoOfBody (hex "7b2261223a7b2261223a7b2261223a7b2261223a7b2261223a7b2261223a7b2261223a7b2261223a7b2261223a7b2261223a7b2261223a7b2261223a7b2261223a7b2261223a7b2261223a7b2261223a7b2261223a7b2261223a7b2261223a7b2261223a7b2261223a7b2261223a7b2261223a7b2261223a7b2261223a7b2261223a7b2261223a7b2261223a7b2261223a7b2261223a7b2261223a7b2261223a7b2261223a7b2261223a7b2261223a7b2261223a7b2261223a7b2261223a7b2261223a7b2261223a7b2261223a7b2261223a7b2261223a7b2261223a7b2261223a7b2261223a7b2261223a7b2261223a7b2261223a7b2261223a7b2261223a7b2261223a7b2261223a7b2261223a7b2261223a7b2261223a7b2261223a7b2261223a7b2261223a7b2261223a7b2261223a7b2261223a7b2261223a7b2261223a7b2261223a7b2261223a7b2261223a7b2261223a7b2261223a7b2261223a7b2261223a7b2261223a7b2261223a7b2261223a7b2261223a7b2261223a7b2261223a7b2261223a7b2261223a7b2261223a7b2261223a7b2261223a7b2261223a7b2261223a7b2261223a7b2261223a7b2261223a7b2261223a7b2261223a7b2261223a7b2261223a7b2261223a7b2261223a7b2261223a7b2261223a7b2261223a7b2261223a7b2261223a7b2261223a7b2261223a7b2261223a7b2261223a7b2261223a7b2261223a7b2261223a7b2261223a7b2261223a7b2261223a7b2261223a7b2261223a7b2261223a7b2261223a7b2261223a7b2261223a7b2261223a7b2261223a7b2261223a7b2261223a7b2261223a7b2261223a7b2261223a7b2261223a7b2261223a7b2261223a7b2261223a7b2261223a7b2261223a7b2261223a7b2261223a317d7d7d7d7d7d7d7d7d7d7d7d7d7d7d7d7d7d7d7d7d7d7d7d7d7d7d7d7d7d7d7d7d7d7d7d7d7d7d7d7d7d7d7d7d7d7d7d7d7d7d7d7d7d7d7d7d7d7d7d7d7d7d7d7d7d7d7d7d7d7d7d7d7d7d7d7d7d7d7d7d7d7d7d7d7d7d7d7d7d7d7d7d7d7d7d7d7d7d7d7d7d7d7d7d7d7d7d7d7d7d7d7d7d7d7d7d7d7d7d7d7d7d7d7d7d7d7d7d") == "X"
#guard protoOfBody (hex "5b7b226b223a5b7b226b223a5b7b226b223a5b7b226b223a5b7b226b223a5b7b226b223a5b7b226b223a5b7b226b223a5b7b226b223a5b7b226b223a5b7b226b223a5b7b226b223a5b7b226b223a5b7b226b223a5b7b226b223a5b7b226b223a5b7b226b223a5b7b226b223a5b7b226b223a5b7b226b223a5b7b226b223a5b7b226b223a5b7b226b223a5b7b226b223a5b7b226b223a5b7b226b223a5b7b226b223a5b7b226b223a5b7b226b223a5b7b226b223a5b7b226b223a5b7b226b223a5b7b226b223a5b7b226b223a5b7b226b223a5b7b226b223a5b7b226b223a5b7b226b223a5b7b226b223a5b7b226b223a5b7b226b223a5b7b226b223a5b7b226b223a5b7b226b223a5b7b226b223a5b7b226b223a5b7b226b223a5b7b226b223a5b7b226b223a5b7b226b223a5b7b226b223a5b7b226b223a5b7b226b223a5b7b226b223a5b7b226b223a5b7b226b223a5b7b226b223a5b7b226b223a5b7b226b223a5b7b226b223a5b7b226b223a5b7b226b223a5b7b226b223a5b7b226b223a5b5d7d5d7d5d7d5d7d5d7d5d7d5d7d5d7d5d7d5d7d5d7d5d7d5d7d5d7d5d7d5d7d5d7d5d7d5d7d5d7d5d7d5d7d5d7d5d7d5d7d5d7d5d7d5d7d5d7d5d7d5d7d5d7d5d7d5d7d5d7d5d7d5d7d5d7d5d7d5d7d5d7d5d7d5d7d5d7d5d7d5d7d5d7d5d7d5d7d5d7d5d7d5d7d5d7d5d7d5d7d5d7d5d7d5d7d5d7d5d7d5d7d5d7d5d7d5d7d5d") == "X"
#guard protoOfBody (hex "5b5b5b5b5b5b5b5b5b5b5b5b5b5b5b5b5b5b5b5b5b5b5b5b5b5b5b5b5b5b5b5b5b5b5b5b5b5b5b5b5b5b5b5b5b5b5b5b5b5b5b5b5b5b5b5b5b5b5b5b5b5b5b5b5b5b5b5b5b5b5b5b5b5b5b5b5b5b5b5b5b5b5b5b5b5b5b5b5b5b5b5b5b5b5b5b5b5b5b5b5b5b5b5b5b5b5b5b5b5b5b5b5b5b5b5b5b5b5b5b5b5b5b5b5b5b5b5b5b5b5b5b5b5b5b5b5b5b5b5b5b5b5b5b5b5b5b5b5b5b5b5b5b5b5b5b5b5b5b5b5b5b5b5b5b5b5b5b5b5b5b5b5b5b5b5b5b5b5b5b5b5b5b5b5b5b5b5b5b5b5b5b5b5b5b5b5b5b5b5b5d5d5d5d5d5d5d5d5d5d5d5d5d5d5d5d5d5d5d5d5d5d5d5d5d5d5d5d5d5d5d5d5d5d5d5d5d5d5d5d5d5d5d5d5d5d5d5d5d5d5d5d5d5d5d5d5d5d5d5d5d5d5d5d5d5d5d5d5d5d5d5d5d5d5d5d5d5d5d5d5d5d5d5d5d5d5d5d5d5d5d5d5d5d5d5d5d5d5d5d5d5d5d5d5d5d5d5d5d5d5d5d5d5d5d5d5d5d5d5d5d5d5d5d5d5d5d5d5d5d5d5d5d5d5d5d5d5d5d5d5d5d5d5d5d5d5d5d5d5d5d5d5d5d5d5d5d5d5d5d5d5d5d5d5d5d5d5d5d5d5d5d5d5d5d5d5d5d5d5d5d5d5d5d5d5d5d5d5d5d5d5d5d5d5d5d5d5d5d5d") == "X"
#guard protoOfBody (hex "7b2261223a7b2261223a7b2261223a7b2261223a7b2261223a7b2261223a7b2261223a7b2261223a7b2261223a7b2261223a7b2261223a7b2261223a7b2261223a7b2261223a7b2261223a7b2261223a7b2261223a7b2261223a7b2261223a7b2261223a7b2261223a7b2261223a7b2261223a7b2261223a7b2261223a7b2261223a7b2261223a7b2261223a7b2261223a7b2261223a7b2261223a7b2261223a7b2261223a7b2261223a7b2261223a7b2261223a7b2261223a7b2261223a7b2261223a7b2261223a7b2261223a7b2261223a7b2261223a7b2261223a7b2261223a7b2261223a7b2261223a7b2261223a7b2261223a7b2261223a7b2261223a7b2261223a7b2261223a7b2261223a7b2261223a7b2261223a7b2261223a7b2261223a7b2261223a7b2261223a7b2261223a7b2261223a7b2261223a7b2261223a7b2261223a7b2261223a7b2261223a7b2261223a7b2261223a7b2261223a7b2261223a7b2261223a7b2261223a7b2261223a7b2261223a7b2261223a7b2261223a7b2261223a7b2261223a7b2261223a7b2261223a7b2261223a7b2261223a7b2261223a7b2261223a7b2261223a7b2261223a7b2261223a7b2261223a7b2261223a7b2261223a7b2261223a7b2261223a7b2261223a7b2261223a7b2261223a7b2261223a7b2261223a7b2261223a7b2261223a7b2261223a7b2261223a7b2261223a7b2261223a7b2261223a7b2261223a7b2261223a7b2261223a7b2261223a7b2261223a7b2261223a7b2261223a7b2261223a7b2261223a7b2261223a7b2261223a7b2261223a7b2261223a7b2261223a7b2261223a7b2261223a7b2261223a7b2261223a7b2261223a7b2261223a7b2261223a7b2261223a7b2261223a7b2261223a7b2261223a7b2261223a7b2261223a7b2261223a7b2261223a7b2261223a7b2261223a7b2261223a7b2261223a7b2261223a7b2261223a7b2261223a7b2261223a7b2261223a7b2261223a7b2261223a7b2261223a7b2261223a7b2261223a7b2261223a7b2261223a7b2261223a7b2261223a7b2261223a7b2261223a7b2261223a7b2261223a7b2261223a7b2261223a7b2261223a7b2261223a7b2261223a7b2261223a7b2261223a7b2261223a7b2261223a7b2261223a7b2261223a7b2261223a7b2261223a7b2261223a7b2261223a7b2261223a7b2261223a7b2261223a7b2261223a7b2261223a7b2261223a7b2261223a7b2261223a7b2261223a7b2261223a7b2261223a7b2261223a7b2261223a7b2261223a7b2261223a7b2261223a7b2261223a7b2261223a7b2261223a7b2261223a7b2261223a7b2261223a7b2261223a7b2261223a7b2261223a7b2261223a7b2261223a7b2261223a7b2261223a317d7d7d7d7d7d7d7d7d7d7d7d7d7d7d7d7d7d7d7d7d7d7d7d7d7d7d7d7d7d7d7d7d7d7d7d7d7d7d7d7d7d7d7d7d7d7d7d7d7d7d7d7d7d7d7d7d7d7d7d7d7d7d7d7d7d7d7d7d7d7d7d7d7d7d7d7d7d7d7d7d7d7d7d7d7d7d7d7d7d7d7d7d7d7d7d7d7d7d7d7d7d7d7d7d7d7d7d7d7d7d7d7d7d7d7d7d7d7d7d7d7d7d7d7d7d7d7d7d7d7d7d7d7d7d7d7d7d7d7d7d7d7d7d7d7d7d7d7d7d7d7d7d7d7d7d7d7d7d7d7d7d7d7d7d7d7d7d7d7d7d7d7d7d7d7d7d7d7d7d7d7d7d7d7d7d7d7d7d7d7d7d7d7d7d7d7d7d7d7d") == "X"
#guard protoOfBody (hex "5b7b226b223a5b7b226b223a5b7b226b223a5b7b226b223a5b7b226b223a5b7b226b223a5b7b226b223a5b7b226b223a5b7b226b223a5b7b226b223a5b7b226b223a5b7b226b223a5b7b226b223a5b7b226b223a5b7b226b223a5b7b226b223a5b7b226b223a5b7b226b223a5b7b226b223a5b7b226b223a5b7b226b223a5b7b226b223a5b7b226b223a5b7b226b223a5b7b226b223a5b7b226b223a5b7b226b223a5b7b226b223a5b7b226b223a5b7b226b223a5b7b226b223a5b7b226b223a5b7b226b223a5b7b226b223a5b7b226b223a5b7b226b223a5b7b226b223a5b7b226b223a5b7b226b223a5b7b226b223a5b7b226b223a5b7b226b223a5b7b226b223a5b7b226b223a5b7b226b223a5b7b226b223a5b7b226b223a5b7b226b223a5b7b226b223a5b7b226b223a5b7b226b223a5b7b226b223a5b7b226b223a5b7b226b223a5b7b226b223a5b7b226b223a5b7b226b223a5b7b226b223a5b7b226b223a5b7b226b223a5b7b226b223a5b7b226b223a5b7b226b223a5b7b226b223a5b7b226b223a5b7b226b223a5b7b226b223a5b7b226b223a5b7b226b223a5b7b226b223a5b7b226b223a5b7b226b223a5b7b226b223a5b7b226b223a5b7b226b223a5b7b226b223a5b7b226b223a5b7b226b223a5b7b226b223a5b7b226b223a5b7b226b223a5b7b226b223a5b7b226b223a5b7b226b223a5b7b226b223a5b7b226b223a5b7b226b223a5b7b226b223a5b7b226b223a5b7b226b223a5b7b226b223a5b7b226b223a5b7b226b223a5b7b226b223a5b7b226b223a5b7b226b223a5b7b226b223a5b7b226b223a5b7b226b223a5b7b226b223a5b5d7d5d7d5d7d5d7d5d7d5d7d5d7d5d7d5d7d5d7d5d7d5d7d5d7d5d7d5d7d5d7d5d7d5d7d5d7d5d7d5d7d5d7d5d7d5d7d5d7d5d7d5d7d5d7d5d7d5d7d5d7d5d7d5d7d5d7d5d7d5d7d5d7d5d7d5d7d5d7d5d7d5d7d5d7d5d7d5d7d5d7d5d7d5d7d5d7d5d7d5d7d5d7d5d7d5d7d5d7d5d7d5d7d5d7d5d7d5d7d5d7d5d7d5d7d5d7d5d7d5d7d5d7d5d7d5d7d5d7d5d7d5d7d5d7d5d7d5d7d5d7d5d7d5d7d5d7d5d7d5d7d5d7d5d7d5d7d5d7d5d7d5d7d5d7d5d7d5d7d5d7d5d7d5d7d5d7d5d7d5d7d5d7d5d7d5d7d5d7d5d") == "X"
#guard protoOfBody (hex "5b5b5b5b5b5b5b5b5b5b5b5b5b5b5b5b5b5b5b5b5b5b5b5b5b5b5b5b5b5b5b5b5b5b5b5b5b5b5b5b5b5b5b5b5b5b5b5b5b5b5b5b5b5b5b5b5b5b5b5b5b5b5b5b5b5b5b5b5b5b5b5b5b5b5b5b5b5b5b5b5b5b5b5b5b5b5b5b5b5b5b5b5b5b5b5b5b5b5b5b5b5b5b5b5b5b5b5b5b5b5b5b5b5b5b5b5b5b5b5b5b5b5b5b5b5b5b5b5b5b5b5b5b5b5b5b5b5b5b5b5b5b5b5b5b5b5b5b5b5b5b5b5b5b5b5b5b5b5b5b5b5b5b5b5b5b5b5b5b5b5b5b5b5b5b5b5b5b5b5b5b5b5b5b5b5b5b5b5b5b5b5b5b5b5b5b5b5b5b5b") == "X"
#guard protoOfBody (hex "5b5b5b5b5b5b5b5b5b5b5b5b5b5b5b5b5b5b5b5b5b5b5b5b5b5b5b5b5b5b5b5b5b5b5b5b5b5b5b5b5b5b5b5b5b5b5b5b5b5b5b5b5b5b5b5b5b5b5b5b5b5b5b5b5b5b5b5b5b5b5b5b5b5b5b5b5b5b5b5b5b5b5b5b5b5b5b5b5b5b5b5b5b5b5b5b5b5b5b5b5b5b5b5b5b5b5b5b5b5b5b5b5b5b5b5b5b5b5b5b5b5b5b5b5b5b5b") == "X"
#guard protoOfBody (hex "5b5b5b5b5b5b5b5b5b5b5b5b5b5b5b5b5b5b5b5b5b5b5b5b5b5b5b5b5b5b5b5b5b5b5b5b5b5b5b5b5b5b5b5b5b5b5b5b5b5b5b5b5b5b5b5b5b5b5b5b5b5b5b5b5b5b5b5b5b5b5b5b5b5b5b5b5b5b5b5b5b5b5b5b5b5b5b5b5b5b5b5b5b5b5b5b5b5b5b5b5b5b5b5b5b5b5b5b5b5b5b5b5b5b5b5b5b5b5b5b5b5b5b5b5b5b5b5b") == "X"
#guard protoOfBody (hex "7b7b7b7b7b7b7b7b7b7b7b7b7b7b7b7b7b7b7b7b7b7b7b7b7b7b7b7b7b7b7b7b7b7b7b7b7b7b7b7b7b7b7b7b7b7b7b7b7b7b7b7b7b7b7b7b7b7b7b7b7b7b7b7b7b7b7b7b7b7b7b7b7b7b7b7b7b7b7b7b7b7b7b7b7b7b7b7b7b7b7b7b7b7b7b7b7b7b7b7b7b7b7b7b7b7b7b7b7b7b7b7b7b7b7b7b7b7b7b7b7b7b7b7b7b7b7b7b") == "X"
#guard protoOfBody (hex "5d5d5d5d5d5d5d5d5d5d5d5d5d5d5d5d5d5d5d5d5d5d5d5d5d5d5d5d5d5d5d5d5d5d5d5d5d5d5d5d5d5d5d5d5d5d5d5d5d5d5d5d5d5d5d5d5d5d5d5d5d5d5d5d5d5d5d5d5d5d5d5d5d5d5d5d5d5d5d5d5d5d5d5d5d5d5d5d5d5d5d5d5d5d5d5d5d5d5d5d5d5d5d5d5d5d5d5d5d5d5d5d5d5d5d5d5d5d5d5d5d5d5d5d5d5d5d5d") == "X"
#guard protoOfBody (hex "5b5b5b5b5b5b5b5b5b5b5b5b5b5b5b5b5b5b5b5b5b5b5b5b5b5b5b5b5b5b5b5b5b5b5b5b5b5b5b5b5b5b5b5b5b5b5b5b5b5b5b5b5b5b5b5b5b5b5b5b5b5b5b5b5b5b5b5b5b5b5b5b5b5b5b5b5b5b5b5b5b5b5b5b5b5b5b5b5b5b5b5b5b5b5b5b5b5b5b5b5b5b5b5b5b5b5b5b5b5b5b5b5b5b5b5b5b5b5b5b5b5b5b5b5b5b5b315d5d5d5d5d5d5d5d5d5d5d5d5d5d5d5d5d5d5d5d5d5d5d5d5d5d5d5d5d5d5d5d5d5d5d5d5d5d5d5d5d5d5d5d5d5d5d5d5d5d5d5d5d5d5d5d5d5d5d5d5d5d5d5d5d5d5d5d5d5d5d5d5d5d5d5d5d5d5d5d5d5d5d5d5d5d5d5d5d5d5d5d5d5d5d5d5d5d5d5d5d5d5d5d5d5d5d5d5d5d5d5d5d5d5d5d5d5d5d5d5d5d5d5d5d5d5d") == "a(a(a(a(a(a(a(a(a(a(a(a(a(a(a(a(a(a(a(a(a(a(a(a(a(a(a(a(a(a(a(a(a(a(a(a(a(a(a(a(a(a(a(a(a(a(a(a(a(a(a(a(a(a(a(a(a(a(a(a(a(a(a(a(a(a(a(a(a(a(a(a(a(a(a(a(a(a(a(a(a(a(a(a(a(a(a(a(a(a(a(a(a(a(a(a(a(a(a(a(a(a(a(a(a(a(a(a(a(a(a(a(a(a(a(a(a(a(a(a(a(a(a(a(a(a(a(u1)))))))))))))))))))))))))))))))))))))))))))))))))))))))))))))))))))))))))))))))))))))))))))))))))))))))))))))))))))))))))))))))"
#guard (parse (hex "5b5b5b5b5b5b5b5b5b5b5b5b5b5b5b5b5b5b5b5b5b5b5b5b5b5b5b5b5b5b5b5b5b5b5b5b5b5b5b5b5b5b5b5b5b5b5b5b5b5b5b5b5b5b5b5b5b5b5b5b5b5b5b5b5b5b5b5b5b5b5b5b5b5b5b5b5b5b5b5b5b5b5b5b5b5b5b5b5b5b5b5b5b5b5b5b5b5b5b5b5b5b5b5b5b5b5b5b5b5b5b5b5b5b5b5b5b5b5b5b5b5b5b5b5b5b5b315d5d5d5d5d5d5d5d5d5d5d5d5d5d5d5d5d5d5d5d5d5d5d5d5d5d5d5d5d5d5d5d5d5d5d5d5d5d5d5d5d5d5d5d5d5d5d5d5d5d5d5d5d5d5d5d5d5d5d5d5d5d5d5d5d5d5d5d5d5d5d5d5d5d5d5d5d5d5d5d5d5d5d5d5d5d5d5d5d5d5d5d5d5d5d5d5d5d5d5d5d5d5d5d5d5d5d5d5d5d5d5d5d5d5d5d5d5d5d5d5d5d5d5d5d5d5d")).map render == some (hex "5b5b5b5b5b5b5b5b5b5b5b5b5b5b5b5b5b5b5b5b5b5b5b5b5b5b5b5b5b5b5b5b5b5b5b5b5b5b5b5b5b5b5b5b5b5b5b5b5b5b5b5b5b5b5b5b5b5b5b5b5b5b5b5b5b5b5b5b5b5b5b5b5b5b5b5b5b5b5b5b5b5b5b5b5b5b5b5b5b5b5b5b5b5b5b5b5b5b5b5b5b5b5b5b5b5b5b5b5b5b5b5b5b5b5b5b5b5b5b5b5b5b5b5b5b5b5b315d5d5d5d5d5d5d5d5d5d5d5d5d5d5d5d5d5d5d5d5d5d5d5d5d5d5d5d5d5d5d5d5d5d5d5d5d5d5d5d5d5d5d5d5d5d5d5d5d5d5d5d5d5d5d5d5d5d5d5d5d5d5d5d5d5d5d5d5d5d5d5d5d5d5d5d5d5d5d5d5d5d5d5d5d5d5d5d5d5d5d5d5d5d5d5d5d5d5d5d5d5d5d5d5d5d5d5d5d5d5d5d5d5d5d5d5d5d5d5d5d5d5d5d5d5d5d")
#guard protoOfBody (hex "5b5b5b5b5b5b5b5b5b5b5b5b5b5b5b5b5b5b5b5b5b5b5b5b5b5b5b5b5b5b5b5b5b5b5b5b5b5b5b5b5b5b5b5b5b5b5b5b5b5b5b5b5b5b5b5b5b5b5b5b5b5b5b5b5b5b5b5b5b5b5b5b5b5b5b5b5b5b5b5b5b5b5b5b5b5b5b5b5b5b5b5b5b5b5b5b5b5b5b5b5b5b5b5b5b5b5b5b5b5b5b5b5b5b5b5b5b5b5b5b5b5b5b5b5b5b5b2278222c7b7d5d5d5d5d5d5d5d5d5d5d5d5d5d5d5d5d5d5d5d5d5d5d5d5d5d5d5d5d5d5d5d5d5d5d5d5d5d5d5d5d5d5d5d5d5d5d5d5d5d5d5d5d5d5d5d5d5d5d5d5d5d5d5d5d5d5d5d5d5d5d5d5d5d5d5d5d5d5d5d5d5d5d5d5d5d5d5d5d5d5d5d5d5d5d5d5d5d5d5d5d5d5d5d5d5d5d5d5d5d5d5d5d5d5d5d5d5d5d5d5d5d5d5d5d5d5d5d") == "X"
#guard protoOfBody (hex "5b5b5b5b5b5b5b5b5b5b5b5b5b5b5b5b5b5b5b5b5b5b5b5b5b5b5b5b5b5b5b5b5b5b5b5b5b5b5b5b5b5b5b5b5b5b5b5b5b5b5b5b5b5b5b5b5b5b5b5b5b5b5b5b5b5b5b5b5b5b5b5b5b5b5b5b5b5b5b5b5b5b5b5b5b5b5b5b5b5b5b5b5b5b5b5b5b5b5b5b5b5b5b5b5b5b5b5b5b5b5b5b5b5b5b5b5b5b5b5b5b5b5b5b5b5b5b5b5d5d5d5d5d5d5d5d5d5d5d5d5d5d5d5d5d5d5d5d5d5d5d5d5d5d5d5d5d5d5d5d5d5d5d5d5d5d5d5d5d5d5d5d5d5d5d5d5d5d5d5d5d5d5d5d5d5d5d5d5d5d5d5d5d5d5d5d5d5d5d5d5d5d5d5d5d5d5d5d5d5d5d5d5d5d5d5d5d5d5d5d5d5d5d5d5d5d5d5d5d5d5d5d5d5d5d5d5d5d5d5d5d5d5d5d5d5d5d5d5d5d5d5d5d5d5d5d") == "X"
#guard protoOfBody (hex "5b5b5b5b5b5b5b5b5b5b5b5b5b5b5b5b5b5b5b5b5b5b5b5b5b5b5b5b5b5b5b5b5b5b5b5b5b5b5b5b5b5b5b5b5b5b5b5b5b5b5b5b5b5b5b5b5b5b5b5b5b5b5b5b5b5b5b5b5b5b5b5b5b5b5b5b5b5b5b5b5b5b5b5b5b5b5b5b5b5b5b5b5b5b5b5b5b5b5b5b5b5b5b5b5b5b5b5b5b5b5b5b5b5b5b5b5b5b5b5b5b5b5b5b5b5b5b7b7d5d5d5d5d5d5d5d5d5d5d5d5d5d5d5d5d5d5d5d5d5d5d5d5d5d5d5d5d5d5d5d5d5d5d5d5d5d5d5d5d5d5d5d5d5d5d5d5d5d5d5d5d5d5d5d5d5d5d5d5d5d5d5d5d5d5d5d5d5d5d5d5d5d5d5d5d5d5d5d5d5d5d5d5d5d5d5d5d5d5d5d5d5d5d5d5d5d5d5d5d5d5d5d5d5d5d5d5d5d5d5d5d5d5d5d5d5d5d5d5d5d5d5d5d5d5d5d") == "X"
#guard protoOfBody (hex "5b312c5b312c5b312c5b312c5b312c5b312c5b312c5b312c5b312c5b312c5b312c5b312c5b312c5b312c5b312c5b312c5b312c5b312c5b312c5b312c5b312c5b312c5b312c5b312c5b312c5b312c5b312c5b312c5b312c5b312c5b312c5b312c5b312c5b312c5b312c5b312c5b312c5b312c5b312c5b312c5b312c5b312c5b312c5b312c5b312c5b312c5b312c5b312c5b312c5b312c5b312c5b312c5b312c5b312c5b312c5b312c5b312c5b312c5b312c5b312c5b312c5b312c5b312c5b312c5b312c5b312c5b312c5b312c5b312c5b312c5b312c5b312c5b312c5b312c5b312c5b312c5b312c5b312c5b312c5b312c5b312c5b312c5b312c5b312c5b312c5b312c5b312c5b312c5b312c5b312c5b312c5b312c5b312c5b312c5b312c5b312c5b312c5b312c5b312c5b312c5b312c5b312c5b312c5b312c5b312c5b312c5b312c5b312c5b312c5b312c5b312c5b312c5b312c5b312c5b312c5b312c5b312c5b312c5b312c5b312c5b312c5b312c5b312c5b312c5b312c5b312c5b312c325d5d5d5d5d5d5d5d5d5d5d5d5d5d5d5d5d5d5d5d5d5d5d5d5d5d5d5d5d5d5d5d5d5d5d5d5d5d5d5d5d5d5d5d5d5d5d5d5d5d5d5d5d5d5d5d5d5d5d5d5d5d5d5d5d5d5d5d5d5d5d5d5d5d5d5d5d5d5d5d5d5d5d5d5d5d5d5d5d5d5d5d5d5d5d5d5d5d5d5d5d5d5d5d5d5d5d5d5d5d5d5d5d5d5d5d5d5d5d5d5d5d5d5d5d5d5d") == "a(u1,a(u1,a(u1,a(u1,a(u1,a(u1,a(u1,a(u1,a(u1,a(u1,a(u1,a(u1,a(u1,a(u1,a(u1,a(u1,a(u1,a(u1,a(u1,a(u1,a(u1,a(u1,a(u1,a(u1,a(u1,a(u1,a(u1,a(u1,a(u1,a(u1,a(u1,a(u1,a(u1,a(u1,a(u1,a(u1,a(u1,a(u1,a(u1,a(u1,a(u1,a(u1,a(u1,a(u1,a(u1,a(u1,a(u1,a(u1,a(u1,a(u1,a(u1,a(u1,a(u1,a(u1,a(u1,a(u1,a(u1,a(u1,a(u1,a(u1,a(u1,a(u1,a(u1,a(u1,a(u1,a(u1,a(u1,a(u1,a(u1,a(u1,a(u1,a(u1,a(u1,a(u1,a(u1,a(u1,a(u1,a(u1,a(u1,a(u1,a(u1,a(u1,a(u1,a(u1,a(u1,a(u1,a(u1,a(u1,a(u1,a(u1,a(u1,a(u1,a(u1,a(u1,a(u1,a(u1,a(u1,a(u1,a(u1,a(u1,a(u1,a(u1,a(u1,a(u1,a(u1,a(u1,a(u1,a(u1,a(u1,a(u1,a(u1,a(u1,a(u1,a(u1,a(u1,a(u1,a(u1,a(u1,a(u1,a(u1,a(u1,a(u1,a(u1,a(u1,a(u1,a(u1,a(u1,u2)))))))))))))))))))))))))))))))))))))))))))))))))))))))))))))))))))))))))))))))))))))))))))))))))))))))))))))))))))))))))))))))"
#guard protoOfBody (hex "5b312c5b312c5b312c5b312c5b312c5b312c5b312c5b312c5b312c5b312c5b312c5b312c5b312c5b312c5b312c5b312c5b312c5b312c5b312c5b312c5b312c5b312c5b312c5b312c5b312c5b312c5b312c5b312c5b312c5b312c5b312c5b312c5b312c5b312c5b312c5b312c5b312c5b312c5b312c5b312c5b312c5b312c5b312c5b312c5b312c5b312c5b312c5b312c5b312c5b312c5b312c5b312c5b312c5b312c5b312c5b312c5b312c5b312c5b312c5b312c5b312c5b312c5b312c5b312c5b312c5b312c5b312c5b312c5b312c5b312c5b312c5b312c5b312c5b312c5b312c5b312c5b312c5b312c5b312c5b312c5b312c5b312c5b312c5b312c5b312c5b312c5b312c5b312c5b312c5b312c5b312c5b312c5b312c5b312c5b312c5b312c5b312c5b312c5b312c5b312c5b312c5b312c5b312c5b312c5b312c5b312c5b312c5b312c5b312c5b312c5b312c5b312c5b312c5b312c5b312c5b312c5b312c5b312c5b312c5b312c5b312c5b312c5b312c5b312c5b312c5b312c5b312c5b312c325d5d5d5d5d5d5d5d5d5d5d5d5d5d5d5d5d5d5d5d5d5d5d5d5d5d5d5d5d5d5d5d5d5d5d5d5d5d5d5d5d5d5d5d5d5d5d5d5d5d5d5d5d5d5d5d5d5d5d5d5d5d5d5d5d5d5d5d5d5d5d5d5d5d5d5d5d5d5d5d5d5d5d5d5d5d5d5d5d5d5d5d5d5d5d5d5d5d5d5d5d5d5d5d5d5d5d5d5d5d5d5d5d5d5d5d5d5d5d5d5d5d5d5d5d5d5d5d") == "X"
#guard protoOfBody (hex "5b5b5b5b5b5b5b5b5b5b5b5b5b5b5b5b5b5b5b5b5b5b5b5b5b5b5b5b5b5b5b5b5b5b5b5b5b5b5b5b5b5b5b5b5b5b5b5b5b5b5b5b5b5b5b5b5b5b5b5b5b5b5b5b5b5b5b5b5b5b5b5b5b5b5b5b5b5b5b5b5b5b5b5b5b5b5b5b5b5b5b5b5b5b5b5b5b5b5b5b5b5b5b5b5b5b5b5b5b5b5b5b5b5b5b5b5b5b5b5b5b5b5b5b5b5b5b5d5d5d5d5d5d5d5d5d5d5d5d5d5d5d5d5d5d5d5d5d5d5d5d5d5d5d5d5d5d5d5d5d5d5d5d5d5d5d5d5d5d5d5d5d5d5d5d5d5d5d5d5d5d5d5d5d5d5d5d5d5d5d5d5d5d5d5d5d5d5d5d5d5d5d5d5d5d5d5d5d5d5d5d5d5d5d5d5d5d5d5d5d5d5d5d5d5d5d5d5d5d5d5d5d5d5d5d5d5d5d5d5d5d5d5d5d5d5d5d5d5d5d5d5d5d2c5b5b5b5b5b5b5b5b5b5b5b5b5b5b5b5b5b5b5b5b5b5b5b5b5b5b5b5b5b5b5b5b5b5b5b5b5b5b5b5b5b5b5b5b5b5b5b5b5b5b5b5b5b5b5b5b5b5b5b5b5b5b5b5b5b5b5b5b5b5b5b5b5b5b5b5b5b5b5b5b5b5b5b5b5b5b5b5b5b5b5b5b5b5b5b5b5b5b5b5b5b5b5b5b5b5b5b5b5b5b5b5b5b5b5b5b5b5b5b5b5b5b5b5b5b5b5d5d5d5d5d5d5d5d5d5d5d5d5d5d5d5d5d5d5d5d5d5d5d5d5d5d5d5d5d5d5d5d5d5d5d5d5d5d5d5d5d5d5d5d5d5d5d5d5d5d5d5d5d5d5d5d5d5d5d5d5d5d5d5d5d5d5d5d5d5d5d5d5d5d5d5d5d5d5d5d5d5d5d5d5d5d5d5d5d5d5d5d5d5d5d5d5d5d5d5d5d5d5d5d5d5d5d5d5d5d5d5d5d5d5d5d5d5d5d5d5d5d5d5d5d5d5d") == "a(a(a(a(a(a(a(a(a(a(a(a(a(a(a(a(a(a(a(a(a(a(a(a(a(a(a(a(a(a(a(a(a(a(a(a(a(a(a(a(a(a(a(a(a(a(a(a(a(a(a(a(a(a(a(a(a(a(a(a(a(a(a(a(a(a(a(a(a(a(a(a(a(a(a(a(a(a(a(a(a(a(a(a(a(a(a(a(a(a(a(a(a(a(a(a(a(a(a(a(a(a(a(a(a(a(a(a(a(a(a(a(a(a(a(a(a(a(a(a(a(a(a(a(a(a(a()))))))))))))))))))))))))))))))))))))))))))))))))))))))))))))))))))))))))))))))))))))))))))))))))))))))))))))))))))))))))))))),a(a(a(a(a(a(a(a(a(a(a(a(a(a(a(a(a(a(a(a(a(a(a(a(a(a(a(a(a(a(a(a(a(a(a(a(a(a(a(a(a(a(a(a(a(a(a(a(a(a(a(a(a(a(a(a(a(a(a(a(a(a(a(a(a(a(a(a(a(a(a(a(a(a(a(a(a(a(a(a(a(a(a(a(a(a(a(a(a(a(a(a(a(a(a(a(a(a(a(a(a(a(a(a(a(a(a(a(a(a(a(a(a(a(a(a(a(a(a(a(a(a(a(a(a(a()))))))))))))))))))))))))))))))))))))))))))))))))))))))))))))))))))))))))))))))))))))))))))))))))))))))))))))))))))))))))))))))"
#guard protoOfBody (hex "5b5b5b5b5b5b5b5b5b5b5b5b5b5b5b5b5b5b5b5b5b5b5b5b5b5b5b5b5b5b5b5b5b5b5b5b5b5b5b5b5b5b5b5b5b5b5b5b5b5b5b5b5b5b5b5b5b5b5b5b5b5b5b5b5b5b5b5b5b5b5b5b5b5b5b5b5b5b5b5b5b5b5b5b5b5b5b5b5b5b5b5b5b5b5b5b5b5b5b5b5b5b5b5b5b5b5b5b5b5b5b5b5b5b5b5b5b5b5b5b5b5b5b5b5b5b5b5d5d5d5d5d5d5d5d5d5d5d5d5d5d5d5d5d5d5d5d5d5d5d5d5d5d5d5d5d5d5d5d5d5d5d5d5d5d5d5d5d5d5d5d5d5d5d5d5d5d5d5d5d5d5d5d5d5d5d5d5d5d5d5d5d5d5d5d5d5d5d5d5d5d5d5d5d5d5d5d5d5d5d5d5d5d5d5d5d5d5d5d5d5d5d5d5d5d5d5d5d5d5d5d5d5d5d5d5d5d5d5d5d5d5d5d5d5d5d5d5d5d5d5d5d5d2c5b5b5b5b5b5b5b5b5b5b5b5b5b5b5b5b5b5b5b5b5b5b5b5b5b5b5b5b5b5b5b5b5b5b5b5b5b5b5b5b5b5b5b5b5b5b5b5b5b5b5b5b5b5b5b5b5b5b5b5b5b5b5b5b5b5b5b5b5b5b5b5b5b5b5b5b5b5b5b5b5b5b5b5b5b5b5b5b5b5b5b5b5b5b5b5b5b5b5b5b5b5b5b5b5b5b5b5b5b5b5b5b5b5b5b5b5b5b5b5b5b5b5b5b5b5b5b5d5d5d5d5d5d5d5d5d5d5d5d5d5d5d5d5d5d5d5d5d5d5d5d5d5d5d5d5d5d5d5d5d5d5d5d5d5d5d5d5d5d5d5d5d5d5d5d5d5d5d5d5d5d5d5d5d5d5d5d5d5d5d5d5d5d5d5d5d5d5d5d5d5d5d5d5d5d5d5d5d5d5d5d5d5d5d5d5d5d5d5d5d5d5d5d5d5d5d5d5d5d5d5d5d5d5d5d5d5d5d5d5d5d5d5d5d5d5d5d5d5d5d5d5d5d5d5d") == "X"
-- long flat inputs (fuel)
#guard protoOfBody (hex "5b312c312c312c312c312c312c312c312c312c312c312c312c312c312c312c312c312c312c312c312c312c312c312c312c312c312c312c312c312c312c312c312c312c312c312c312c312c312c312c312c312c312c312c312c312c312c312c312c312c312c312c312c312c312c312c312c312c312c312c312c312c312c312c312c312c312c312c312c312c312c312c312c312c312c312c312c312c312c312c312c312c312c312c312c312c312c312c312c312c312c312c312c312c312c312c312c312c312c312c312c312c312c312c312c312c312c312c312c312c312c312c312c312c312c312c312c312c312c312c312c312c312c312c312c312c312c312c312c312c312c312c312c312c312c312c312c312c312c312c312c312c312c312c312c312c312c312c312c312c312c312c312c312c312c312c312c312c312c312c312c312c312c312c312c312c312c312c312c312c312c312c312c312c312c312c312c312c312c312c312c312c312c312c312c312c312c312c312c312c312c312c312c312c312c312c312c312c312c312c312c312c312c312c312c312c312c312c312c312c312c312c312c312c312c312c312c312c312c312c312c312c312c312c312c312c312c312c312c312c312c312c312c312c312c312c312c312c312c312c312c312c312c312c312c312c312c312c312c312c312c312c312c312c312c312c312c312c312c312c312c312c312c312c312c312c312c312c312c312c312c312c312c312c312c312c312c312c312c312c312c312c312c312c312c312c312c312c312c312c312c312c312c312c312c312c312c312c312c312c312c315d") == "a(u1,u1,u1,u1,u1,u1,u1,u1,u1,u1,u1,u1,u1,u1,u1,u1,u1,u1,u1,u1,u1,u1,u1,u1,u1,u1,u1,u1,u1,u1,u1,u1,u1,u1,u1,u1,u1,u1,u1,u1,u1,u1,u1,u1,u1,u1,u1,u1,u1,u1,u1,u1,u1,u1,u1,u1,u1,u1,u1,u1,u1,u1,u1,u1,u1,u1,u1,u1,u1,u1,u1,u1,u1,u1,u1,u1,u1,u1,u1,u1,u1,u1,u1,u1,u1,u1,u1,u1,u1,u1,u1,u1,u1,u1,u1,u1,u1,u1,u1,u1,u1,u1,u1,u1,u1,u1,u1,u1,u1,u1,u1,u1,u1,u1,u1,u1,u1,u1,u1,u1,u1,u1,u1,u1,u1,u1,u1,u1,u1,u1,u1,u1,u1,u1,u1,u1,u1,u1,u1,u1,u1,u1,u1,u1,u1,u1,u1,u1,u1,u1,u1,u1,u1,u1,u1,u1,u1,u1,u1,u1,u1,u1,u1,u1,u1,u1,u1,u1,u1,u1,u1,u1,u1,u1,u1,u1,u1,u1,u1,u1,u1,u1,u1,u1,u1,u1,u1,u1,u1,u1,u1,u1,u1,u1,u1,u1,u1,u1,u1,u1,u1,u1,u1,u1,u1,u1,u1,u1,u1,u1,u1,u1,u1,u1,u1,u1,u1,u1,u1,u1,u1,u1,u1,u1,u1,u1,u1,u1,u1,u1,u1,u1,u1,u1,u1,u1,u1,u1,u1,u1,u1,u1,u1,u1,u1,u1,u1,u1,u1,u1,u1,u1,u1,u1,u1,u1,u1,u1,u1,u1,u1,u1,u1,u1,u1,u1,u1,u1,u1,u1,u1,u1,u1,u1,u1,u1,u1,u1,u1,u1,u1,u1,u1,u1,u1,u1,u1,u1,u1,u1,u1,u1,u1,u1,u1,u1,u1,u1,u1,u1,u1)"
#guard protoOfBody (hex "7b226b30223a302c226b31223a312c226b32223a322c226b33223a332c226b34223a342c226b35223a352c226b36223a362c226b37223a372c226b38223a382c226b39223a392c226b3130223a31302c226b3131223a31312c226b3132223a31322c226b3133223a31332c226b3134223a31342c226b3135223a31352c226b3136223a31362c226b3137223a31372c226b3138223a31382c226b3139223a31392c226b3230223a32302c226b3231223a32312c226b3232223a32322c226b3233223a32332c226b3234223a32342c226b3235223a32352c226b3236223a32362c226b3237223a32372c226b3238223a32382c226b3239223a32392c226b3330223a33302c226b3331223a33312c226b3332223a33322c226b3333223a33332c226b3334223a33342c226b3335223a33352c226b3336223a33362c226b3337223a33372c226b3338223a33382c226b3339223a33392c226b30223a34302c226b31223a34312c226b32223a34322c226b33223a34332c226b34223a34342c226b35223a34352c226b36223a34362c226b37223a34372c226b38223a34382c226b39223a34392c226b3130223a35302c226b3131223a35312c226b3132223a35322c226b3133223a35332c226b3134223a35342c226b3135223a35352c226b3136223a35362c226b3137223a35372c226b3138223a35382c226b3139223a35392c226b3230223a36302c226b3231223a36312c226b3232223a36322c226b3233223a36332c226b3234223a36342c226b3235223a36352c226b3236223a36362c226b3237223a36372c226b3238223a36382c226b3239223a36392c226b3330223a37302c226b3331223a37312c226b3332223a37322c226b3333223a37332c226b3334223a37342c226b3335223a37352c226b3336223a37362c226b3337223a37372c226b3338223a37382c226b3339223a37392c226b30223a38302c226b31223a38312c226b32223a38322c226b33223a38332c226b34223a38342c226b35223a38352c226b36223a38362c226b37223a38372c226b38223a38382c226b39223a38392c226b3130223a39302c226b3131223a39312c226b3132223a39322c226b3133223a39332c226b3134223a39342c226b3135223a39352c226b3136223a39362c226b3137223a39372c226b3138223a39382c226b3139223a39392c226b3230223a3130302c226b3231223a3130312c226b3232223a3130322c226b3233223a3130332c226b3234223a3130342c226b3235223a3130352c226b3236223a3130362c226b3237223a3130372c226b3238223a3130382c226b3239223a3130392c226b3330223a3131302c226b3331223a3131312c226b3332223a3131322c226b3333223a3131332c226b3334223a3131342c226b3335223a3131352c226b3336223a3131362c226b3337223a3131372c226b3338223a3131382c226b3339223a3131392c226b30223a3132302c226b31223a3132312c226b32223a3132322c226b33223a3132332c226b34223a3132342c226b35223a3132352c226b36223a3132362c226b37223a3132372c226b38223a3132382c226b39223a3132392c226b3130223a3133302c226b3131223a3133312c226b3132223a3133322c226b3133223a3133332c226b3134223a3133342c226b3135223a3133352c226b3136223a3133362c226b3137223a3133372c226b3138223a3133382c226b3139223a3133392c226b3230223a3134302c226b3231223a3134312c226b3232223a3134322c226b3233223a3134332c226b3234223a3134342c226b3235223a3134352c226b3236223a3134362c226b3237223a3134372c226b3238223a3134382c226b3239223a3134397d") == "o(6b30:u120,6b31:u121,6b3130:u130,6b3131:u131,6b3132:u132,6b3133:u133,6b3134:u134,6b3135:u135,6b3136:u136,6b3137:u137,6b3138:u138,6b3139:u139,6b32:u122,6b3230:u140,6b3231:u141,6b3232:u142,6b3233:u143,6b3234:u144,6b3235:u145,6b3236:u146,6b3237:u147,6b3238:u148,6b3239:u149,6b33:u123,6b3330:u110,6b3331:u111,6b3332:u112,6b3333:u113,6b3334:u114,6b3335:u115,6b3336:u116,6b3337:u117,6b3338:u118,6b3339:u119,6b34:u124,6b35:u125,6b36:u126,6b37:u127,6b38:u128,6b39:u129)"
#guard protoOfBody (hex "5b5b5d2c5b5d2c5b5d2c5b5d2c5b5d2c5b5d2c5b5d2c5b5d2c5b5d2c5b5d2c5b5d2c5b5d2c5b5d2c5b5d2c5b5d2c5b5d2c5b5d2c5b5d2c5b5d2c5b5d2c5b5d2c5b5d2c5b5d2c5b5d2c5b5d2c5b5d2c5b5d2c5b5d2c5b5d2c5b5d2c5b5d2c5b5d2c5b5d2c5b5d2c5b5d2c5b5d2c5b5d2c5b5d2c5b5d2c5b5d2c5b5d2c5b5d2c5b5d2c5b5d2c5b5d2c5b5d2c5b5d2c5b5d2c5b5d2c5b5d2c5b5d2c5b5d2c5b5d2c5b5d2c5b5d2c5b5d2c5b5d2c5b5d2c5b5d2c5b5d2c5b5d2c5b5d2c5b5d2c5b5d2c5b5d2c5b5d2c5b5d2c5b5d2c5b5d2c5b5d2c5b5d2c5b5d2c5b5d2c5b5d2c5b5d2c5b5d2c5b5d2c5b5d2c5b5d2c5b5d2c5b5d2c5b5d2c5b5d2c5b5d2c5b5d2c5b5d2c5b5d2c5b5d2c5b5d2c5b5d2c5b5d2c5b5d2c5b5d2c5b5d2c5b5d2c5b5d2c5b5d2c5b5d2c5b5d2c5b5d2c5b5d2c5b5d2c5b5d2c5b5d2c5b5d2c5b5d2c5b5d2c5b5d2c5b5d2c5b5d2c5b5d2c5b5d2c5b5d2c5b5d2c5b5d2c5b5d2c5b5d2c5b5d2c5b5d2c5b5d2c5b5d2c5b5d2c5b5d2c5b5d2c5b5d2c5b5d2c5b5d2c5b5d2c5b5d2c5b5d2c5b5d2c5b5d2c5b5d2c5b5d2c5b5d2c5b5d2c5b5d2c5b5d2c5b5d2c5b5d2c5b5d2c5b5d2c5b5d2c5b5d2c5b5d2c5b5d2c5b5d2c5b5d2c5b5d2c5b5d2c5b5d2c5b5d2c5b5d2c5b5d2c5b5d2c5b5d2c5b5d2c5b5d2c5b5d2c5b5d2c5b5d2c5b5d2c5b5d2c5b5d2c5b5d2c5b5d2c5b5d2c5b5d2c5b5d2c5b5d2c5b5d2c5b5d2c5b5d2c5b5d2c5b5d2c5b5d2c5b5d2c5b5d2c5b5d2c5b5d2c5b5d2c5b5d2c5b5d2c5b5d2c5b5d2c5b5d2c5b5d2c5b5d2c5b5d2c5b5d2c5b5d2c5b5d2c5b5d2c5b5d2c5b5d2c5b5d2c5b5d2c5b5d2c5b5d2c5b5d2c7b7d5d") == "a(a(),a(),a(),a(),a(),a(),a(),a(),a(),a(),a(),a(),a(),a(),a(),a(),a(),a(),a(),a(),a(),a(),a(),a(),a(),a(),a(),a(),a(),a(),a(),a(),a(),a(),a(),a(),a(),a(),a(),a(),a(),a(),a(),a(),a(),a(),a(),a(),a(),a(),a(),a(),a(),a(),a(),a(),a(),a(),a(),a(),a(),a(),a(),a(),a(),a(),a(),a(),a(),a(),a(),a(),a(),a(),a(),a(),a(),a(),a(),a(),a(),a(),a(),a(),a(),a(),a(),a(),a(),a(),a(),a(),a(),a(),a(),a(),a(),a(),a(),a(),a(),a(),a(),a(),a(),a(),a(),a(),a(),a(),a(),a(),a(),a(),a(),a(),a(),a(),a(),a(),a(),a(),a(),a(),a(),a(),a(),a(),a(),a(),a(),a(),a(),a(),a(),a(),a(),a(),a(),a(),a(),a(),a(),a(),a(),a(),a(),a(),a(),a(),a(),a(),a(),a(),a(),a(),a(),a(),a(),a(),a(),a(),a(),a(),a(),a(),a(),a(),a(),a(),a(),a(),a(),a(),a(),a(),a(),a(),a(),a(),a(),a(),a(),a(),a(),a(),a(),a(),a(),a(),a(),a(),a(),a(),a(),a(),a(),a(),a(),a(),o())"
#guard protoOfBody (hex "5b5b5b5d5d2c5b5b5d5d2c5b5b5d5d2c5b5b5d5d2c5b5b5d5d2c5b5b5d5d2c5b5b5d5d2c5b5b5d5d2c5b5b5d5d2c5b5b5d5d2c5b5b5d5d2c5b5b5d5d2c5b5b5d5d2c5b5b5d5d2c5b5b5d5d2c5b5b5d5d2c5b5b5d5d2c5b5b5d5d2c5b5b5d5d2c5b5b5d5d2c5b5b5d5d2c5b5b5d5d2c5b5b5d5d2c5b5b5d5d2c5b5b5d5d2c5b5b5d5d2c5b5b5d5d2c5b5b5d5d2c5b5b5d5d2c5b5b5d5d2c5b5b5d5d2c5b5b5d5d2c5b5b5d5d2c5b5b5d5d2c5b5b5d5d2c5b5b5d5d2c5b5b5d5d2c5b5b5d5d2c5b5b5d5d2c5b5b5d5d2c5b5b5d5d2c5b5b5d5d2c5b5b5d5d2c5b5b5d5d2c5b5b5d5d2c5b5b5d5d2c5b5b5d5d2c5b5b5d5d2c5b5b5d5d2c5b5b5d5d2c5b5b5d5d2c5b5b5d5d2c5b5b5d5d2c5b5b5d5d2c5b5b5d5d2c5b5b5d5d2c5b5b5d5d2c5b5b5d5d2c5b5b5d5d2c5b5b5d5d2c5b5b5d5d2c5b5b5d5d2c5b5b5d5d2c5b5b5d5d2c5b5b5d5d2c5b5b5d5d2c5b5b5d5d2c5b5b5d5d2c5b5b5d5d2c5b5b5d5d2c5b5b5d5d2c5b5b5d5d2c5b5b5d5d2c5b5b5d5d2c5b5b5d5d2c5b5b5d5d2c5b5b5d5d2c5b5b5d5d2c5b5b5d5d2c5b5b5d5d2c5b5b5d5d2c5b5b5d5d2c5b5b5d5d2c5b5b5d5d2c5b5b5d5d2c5b5b5d5d2c5b5b5d5d2c5b5b5d5d2c5b5b5d5d2c5b5b5d5d2c5b5b5d5d2c5b5b5d5d2c5b5b5d5d2c5b5b5d5d2c5b5b5d5d2c5b5b5d5d2c5b5b5d5d2c5b5b5d5d2c5b5b5d5d2c5b5b5d5d2c5b5b7b7d5d5d5d") == "a(a(a()),a(a()),a(a()),a(a()),a(a()),a(a()),a(a()),a(a()),a(a()),a(a()),a(a()),a(a()),a(a()),a(a()),a(a()),a(a()),a(a()),a(a()),a(a()),a(a()),a(a()),a(a()),a(a()),a(a()),a(a()),a(a()),a(a()),a(a()),a(a()),a(a()),a(a()),a(a()),a(a()),a(a()),a(a()),a(a()),a(a()),a(a()),a(a()),a(a()),a(a()),a(a()),a(a()),a(a()),a(a()),a(a()),a(a()),a(a()),a(a()),a(a()),a(a()),a(a()),a(a()),a(a()),a(a()),a(a()),a(a()),a(a()),a(a()),a(a()),a(a()),a(a()),a(a()),a(a()),a(a()),a(a()),a(a()),a(a()),a(a()),a(a()),a(a()),a(a()),a(a()),a(a()),a(a()),a(a()),a(a()),a(a()),a(a()),a(a()),a(a()),a(a()),a(a()),a(a()),a(a()),a(a()),a(a()),a(a()),a(a()),a(a()),a(a()),a(a()),a(a()),a(a()),a(a()),a(a()),a(a()),a(a()),a(a()),a(a()),a(a(o())))"

/-! ## section `utf8` -/
#guard utf8Valid (hex "") == true
#guard utf8Valid (hex "61") == true
#guard utf8Valid (hex "7f") == true
#guard utf8Valid (hex "80") == false
#guard utf8Valid (hex "c2") == false
#guard utf8Valid (hex "c280") == true
#guard utf8Valid (hex "c27f") == false
#guard utf8Valid (hex "c2c0") == false
#guard utf8Valid (hex "dfbf") == true
#guard utf8Valid (hex "e0a080") == true
#guard utf8Valid (hex "e0a0") == false
#guard utf8Valid (hex "e0") == false
#guard utf8Valid (hex "e18080") == true
#guard utf8Valid (hex "ecbfbf") == true
#guard utf8Valid (hex "ed8080") == true
#guard utf8Valid (hex "ed9fbf") == true
#guard utf8Valid (hex "eda080") == false
#guard utf8Valid (hex "ee8080") == true
#guard utf8Valid (hex "efbfbf") == true
#guard utf8Valid (hex "f0908080") == true
#guard utf8Valid (hex "f09080") == false
#guard utf8Valid (hex "f090") == false
#guard utf8Valid (hex "f0") == false
#guard utf8Valid (hex "f1808080") == true
#guard utf8Valid (hex "f3bfbfbf") == true
#guard utf8Valid (hex "f4808080") == true
#guard utf8Valid (hex "f48fbfbf") == true
#guard utf8Valid (hex "f4908080") == false
#guard utf8Valid (hex "f5808080") == false
#guard utf8Valid (hex "f7bfbfbf") == false
#guard utf8Valid (hex "f888808080") == false
#guard utf8Valid (hex "fe") == false
#guard utf8Valid (hex "ff") == false
#guard utf8Valid (hex "c0af") == false
#guard utf8Valid (hex "c181") == false
#guard utf8Valid (hex "e09fbf") == false
#guard utf8Valid (hex "f08fbfbf") == false
#guard utf8Valid (hex "61c3a962") == true
#guard utf8Valid (hex "61c362") == false
#guard utf8Valid (hex "c3a9c3") == false
#guard utf8Valid (hex "e282bfe282") == false
#guard utf8Valid (hex "f09f9880f09f98") == false
#guard utf8Valid (hex "e282bf61f09f9880c3a9") == true
#guard utf8Valid (hex "c3a980") == false
#guard utf8Valid (hex "e180c0") == false
#guard utf8Valid (hex "f180807f") == false
#guard utf8Valid (hex "f180c080") == false
#guard utf8Valid (hex "f1c08080") == false
#guard utf8Valid (hex "b811") == false
#guard utf8Valid (hex "77") == true
#guard utf8Valid (hex "f09f9880f2b9acb9e9") == false
#guard utf8Valid (hex "f3879ca3") == true
#guard utf8Valid (hex "ec7f809f") == false
#guard utf8Valid (hex "f09f98804c") == true
#guard utf8Valid (hex "f3a6ad95e282bff1bf9003") == false
#guard utf8Valid (hex "f09f98803a") == true
#guard utf8Valid (hex "f09f9880") == true
#guard utf8Valid (hex "c0c0a0") == false
#guard utf8Valid (hex "57c3a9f480baaaf09f9880") == true
#guard utf8Valid (hex "f0bdb691") == true
#guard utf8Valid (hex "e282bfee8fc0") == false
#guard utf8Valid (hex "2aa3") == false
#guard utf8Valid (hex "698c") == false
#guard utf8Valid (hex "c3a9e282bf") == true
#guard utf8Valid (hex "c3a9") == true
#guard utf8Valid (hex "f29098b2e0a0") == false
#guard utf8Valid (hex "e282bfe282bff09f9880") == true
#guard utf8Valid (hex "f0a487b0") == true
#guard utf8Valid (hex "e282bf") == true
#guard utf8Valid (hex "f4") == false
#guard utf8Valid (hex "f09f9880") == true
#guard utf8Valid (hex "c3a924") == true
#guard utf8Valid (hex "f3ac9a8ff09f9880b2e282bf") == false
#guard utf8Valid (hex "ffa07f9fe282bfc3a9f09f9880") == false
#guard utf8Valid (hex "c3a9f480a2b74a") == true
#guard utf8Valid (hex "cbf09080a0") == false
#guard utf8Valid (hex "52c213c0bf8f") == false
#guard utf8Valid (hex "f09f988015e282bff5") == false
#guard utf8Valid (hex "f09f9880112686") == false
#guard utf8Valid (hex "f2a390b3e282bfe282bf") == true
#guard utf8Valid (hex "c3a9f29599a8") == true
#guard utf8Valid (hex "8d5048") == false
#guard utf8Valid (hex "f09f9880e282bf") == true
#guard utf8Valid (hex "f09f9880") == true
#guard utf8Valid (hex "f3bdb890") == true
#guard utf8Valid (hex "ff9fa04df1b0aba0f09f9880") == false
#guard utf8Valid (hex "c3a9e282bfe282bf") == true
#guard utf8Valid (hex "f1a19bb3") == true
#guard utf8Valid (hex "4f") == true
#guard utf8Valid (hex "32") == true
#guard utf8Valid (hex "c3a9") == true
#guard utf8Valid (hex "e282bff09f98801fffc0a080") == false
#guard utf8Valid (hex "c3a971") == true
#guard utf8Valid (hex "e282bf") == true
#guard utf8Valid (hex "f39eb5a170") == true
#guard utf8Valid (hex "f284b9a7") == true
#guard utf8Valid (hex "f090a0e282bf") == false
#guard utf8Valid (hex "f3a9bd8fe282bfc3a9") == true
#guard utf8Valid (hex "f482bd82") == true
#guard utf8Valid (hex "e282bfc27f80f0") == false
#guard utf8Valid (hex "4c") == true
#guard utf8Valid (hex "f0a0909ff09f988025e282bf") == true
#guard utf8Valid (hex "e4c1c0907fc3a9f1") == false
#guard utf8Valid (hex "c3a9e282bf") == true
#guard utf8Valid (hex "e282bf") == true
#guard utf8Valid (hex "e282bf") == true
#guard utf8Valid (hex "8d9c7560") == false
#guard utf8Valid (hex "f56f4a") == false
#guard utf8Valid (hex "f9e282bf6878") == false
#guard utf8Valid (hex "27") == true
#guard utf8Valid (hex "94571e") == false
#guard utf8Valid (hex "f3848e962aff90c0") == false
#guard utf8Valid (hex "83") == false
#guard utf8Valid (hex "e9") == false
#guard utf8Valid (hex "e6") == false
#guard utf8Valid (hex "c3a9") == true
#guard utf8Valid (hex "f39e8187c3a9e282bf4c") == true
#guard utf8Valid (hex "e282bff09f988045") == true
#guard utf8Valid (hex "61") == true
#guard utf8Valid (hex "c3a9e282bf") == true
#guard utf8Valid (hex "f09f988063fbc2bf") == false
#guard utf8Valid (hex "ea") == false
#guard utf8Valid (hex "faed7f8fe1c1") == false
#guard utf8Valid (hex "f09f9880f09f988058") == true
#guard utf8Valid (hex "ecf0b38c8b") == false
#guard utf8Valid (hex "e282bff09f9880") == true
#guard utf8Valid (hex "c2df61") == false
#guard utf8Valid (hex "c4f3b5aebb2b") == false
#guard utf8Valid (hex "24c3a9") == true
#guard utf8Valid (hex "c3a9c3a9e26f") == false
#guard utf8Valid (hex "f09f98800ec3a9f09f9880") == true
#guard utf8Valid (hex "f19692b8c3a9") == true
#guard utf8Valid (hex "e282bfefc3a978") == false
#guard utf8Valid (hex "c3a9") == true
#guard utf8Valid (hex "f4829f86c29f7f") == true
#guard utf8Valid (hex "e282bfc3a9e282bfe282bf") == true
#guard utf8Valid (hex "e282bfc3a9c3a9") == true
#guard utf8Valid (hex "9947f09f988034") == false
#guard utf8Valid (hex "c3a9f2869cb2c3a9d5") == false
#guard utf8Valid (hex "e282bff09f9880c3a96a") == true
#guard utf8Valid (hex "c3a9f09f9880") == true
#guard utf8Valid (hex "c3a99f") == false
#guard utf8Valid (hex "f1a7ae93e09fe282bff2b4ac9b") == false
#guard utf8Valid (hex "f4bf8052c17f90") == false
#guard utf8Valid (hex "ee908fc0") == false
#guard utf8Valid (hex "f09f9083") == true
#guard utf8Valid (hex "f18f8a9b75aef2a29ebe") == false
#guard utf8Valid (hex "f256ece282bf") == false
#guard utf8Valid (hex "ff18") == false
#guard utf8Valid (hex "c3a9f09f9880de") == false
#guard utf8Valid (hex "52f09f9880f09f9880") == true
#guard utf8Valid (hex "c3a9d0") == false
#guard utf8Valid (hex "c3a979f1c0") == false
#guard utf8Valid (hex "9f") == false
#guard utf8Valid (hex "5de282bf") == true
#guard utf8Valid (hex "0ee282bf") == true
#guard utf8Valid (hex "f1929c90ed7f9fc0") == false
#guard utf8Valid (hex "e0d4") == false
#guard utf8Valid (hex "c3a9c3a9f0907f8ff09f9880") == false
#guard utf8Valid (hex "3c25") == true
#guard utf8Valid (hex "f4c0a090") == false
#guard utf8Valid (hex "4778") == true
#guard utf8Valid (hex "49") == true
#guard utf8Valid (hex "e282bf") == true
#guard utf8Valid (hex "de") == false
#guard utf8Valid (hex "e282bfe282bff09f9880") == true
#guard utf8Valid (hex "c3a904eebf8f8027") == false
#guard utf8Valid (hex "aa") == false
#guard utf8Valid (hex "f0efc0") == false
#guard utf8Valid (hex "e7c3a9f09f9880e282bf") == false
#guard utf8Valid (hex "869c") == false
#guard utf8Valid (hex "11f09f9880") == true
#guard utf8Valid (hex "16f09f9880df9fc09024") == false
#guard utf8Valid (hex "19") == true
#guard utf8Valid (hex "f09f9880f29081aef29c88884b") == true
#guard utf8Valid (hex "190e7238") == true
#guard utf8Valid (hex "67f49f80c3a956") == false
#guard utf8Valid (hex "f181ab9e2112e282bf") == true
#guard utf8Valid (hex "c1bf80b465") == false
#guard utf8Valid (hex "f19ff09f9880") == false
#guard utf8Valid (hex "f0") == false
#guard utf8Valid (hex "5d") == true
#guard utf8Valid (hex "c3a95c41") == true
#guard utf8Valid (hex "f2a2bda1f09f9880efe08fbf8f") == false
#guard utf8Valid (hex "20f09f988011c3a9") == true
#guard utf8Valid (hex "c3a9e282bff59f0c") == false
#guard utf8Valid (hex "12f09f9880") == true
#guard utf8Valid (hex "01") == true
#guard utf8Valid (hex "c3a905dfbfbf") == false
#guard utf8Valid (hex "c3a914f1889181") == true
#guard utf8Valid (hex "6f50") == true
#guard utf8Valid (hex "f4") == false
#guard utf8Valid (hex "72") == true
#guard utf8Valid (hex "f09f9880") == true
#guard utf8Valid (hex "f09f9880") == true
#guard utf8Valid (hex "ed8fc0523b2f") == false
#guard utf8Valid (hex "f488abb3") == true
#guard utf8Valid (hex "f487b3a7") == true

end Btc.Json.Test
