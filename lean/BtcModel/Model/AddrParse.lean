import BtcModel.Model.BlockCodec

/-
  Executable model of how the canister reads the ADDRESS STRING of a `get_utxos` / `get_balance`
  request (`/repo/canister/src/api/get_utxos.rs`, `get_balance.rs`):

      Address::from_str_checked(&request.address, network)          -- /repo/canister/src/types.rs
        = BitcoinAddress::from_str(s)            .map_err(MalformedAddress)
            .require_network(into_bitcoin_network(network))  .map_err(WrongNetwork)
            .map(|a| Address(a.to_string()))

  with the vendored crates `bitcoin-dogecoin-0.32.7-doge.0` (rust-bitcoin 0.32 fork), `bech32-0.11.1`
  and `base58ck-0.1.0`:

  * `bitcoin/src/address/mod.rs`   : `impl FromStr for Address<NetworkUnchecked>`: FIRST
        `bech32::segwit::decode(s)`; if that succeeds the result is final (an unknown human-readable
        part is an error, base58 is not tried); only if it fails: `s.len() > 50` → error,
        `base58::decode_check`, payload length 21, version byte 0x00/0x05 (main) 0x6f/0xc4 (test);
        `is_valid_for_network`: legacy: `NetworkKind` (main / test: testnet, testnet4, signet and
        regtest share the base58 prefixes), segwit: `KnownHrp` (`bc` / `tb` / `bcrt`);
        `KnownHrp::from_hrp` (case-insensitive `Hrp` equality).
  * `bech32/src/primitives/decode.rs` : `SegwitHrpstring::new` (length ≤ 90, `check_characters`:
        last `'1'` is the separator, characters behind it from the bech32 alphabet in either case,
        no mixed case in the WHOLE string; `Hrp::parse`: 1..=83 characters in 33..=126; witness
        version ≤ 16; checksum Bech32 for version 0, Bech32m otherwise; `validate_segwit`:
        padding of at most 4 zero bits, program length 2..=40 and 20 or 32 for version 0).
  * `bech32/src/primitives/iter.rs`   : `FesToBytes` (complete bytes of the 5-bit stream).
  * `base58ck/src/lib.rs`             : `decode`, `decode_check`.

  The string is the list of its UTF-8 bytes (`Nat`s `< 256`). All lengths the Rust code takes are
  byte lengths (`str::len`), `'1'` and the ASCII letters never occur inside a multi-byte character,
  and every test on a non-ASCII `char` fails exactly when the test on each of its bytes (`≥ 128`)
  fails, so the byte-level reading below is exact for every `&str`.

  The canister networks are rust-bitcoin's `Bitcoin`, `Testnet4`, `Regtest` (`into_bitcoin_network`).

  Import-free of Mathlib/Batteries.
-/
namespace Btc.AddrParse

open Btc.BlockCodec
open Btc.Merkle (sha256d)

/-- Outcome of `Address::from_str_checked`: the script the address denotes
    (`Address::script_pubkey`), `AddressParseError::WrongNetwork`, `AddressParseError::MalformedAddress`. -/
inductive ParseResult where
  | ok (script : List Nat)
  | wrongNetwork
  | malformed
deriving DecidableEq, Repr

/-! ## ASCII case -/

/-- `u8::is_ascii_uppercase` -/
def isUpper (c : Nat) : Bool := decide (65 ≤ c ∧ c ≤ 90)

/-- `u8::is_ascii_lowercase` -/
def isLower (c : Nat) : Bool := decide (97 ≤ c ∧ c ≤ 122)

/-- `to_ascii_lowercase` (`b | 32` on `A..Z`) -/
def toLower (c : Nat) : Nat := if isUpper c then c + 32 else c

/-- `to_ascii_uppercase` -/
def toUpper (c : Nat) : Nat := if isLower c then c - 32 else c

def lowerCase (s : List Nat) : List Nat := s.map toLower

def upperCase (s : List Nat) : List Nat := s.map toUpper

/-- `has_upper && has_lower` of `check_characters` -/
def mixedCase (s : List Nat) : Bool := s.any isUpper && s.any isLower

/-! ## Table look-ups -/

/-- Position of the first occurrence of `c`. -/
def indexOf (c : Nat) : List Nat → Option Nat
  | [] => none
  | x :: xs => if x = c then some 0 else (indexOf c xs).map (· + 1)

/-- All results, or `none` if one is missing. -/
def mapOpt (f : Nat → Option Nat) : List Nat → Option (List Nat)
  | [] => some []
  | c :: cs =>
    match f c with
    | none => none
    | some d =>
      match mapOpt f cs with
      | none => none
      | some ds => some (d :: ds)

/-- `Fe32::from_char` (`CHARS_INV`): both cases of the 32 characters. -/
def fe32OfChar (c : Nat) : Option Nat := indexOf (toLower c) bech32Charset

/-- `BASE58_DIGITS` -/
def base58Digit (c : Nat) : Option Nat := indexOf c b58Alphabet

/-! ## Bech32 segwit string (`bech32::segwit::decode`) -/

/-- `check_characters`, separator: split at the LAST `'1'`. -/
def splitLastSep : List Nat → Option (List Nat × List Nat)
  | [] => none
  | c :: cs =>
    match splitLastSep cs with
    | some (h, d) => some (c :: h, d)
    | none => if c = 49 then some ([], cs) else none

/-- `Hrp::parse` (the mixed-case test is part of `mixedCase` of the whole string). -/
def hrpValid (hrp : List Nat) : Bool :=
  !hrp.isEmpty && decide (hrp.length ≤ 83) && hrp.all (fun b => decide (33 ≤ b ∧ b ≤ 126))

/-- The five bits of a field element, most significant first. -/
def feBits (d : Nat) : List Bool :=
  [d / 16 % 2 == 1, d / 8 % 2 == 1, d / 4 % 2 == 1, d / 2 % 2 == 1, d % 2 == 1]

def byteOfBits (b0 b1 b2 b3 b4 b5 b6 b7 : Bool) : Nat :=
  b0.toNat * 128 + b1.toNat * 64 + b2.toNat * 32 + b3.toNat * 16 + b4.toNat * 8 + b5.toNat * 4 +
    b6.toNat * 2 + b7.toNat

/-- Complete groups of eight bits; a shorter rest is dropped. -/
def groups8 : List Bool → List Nat
  | b0 :: b1 :: b2 :: b3 :: b4 :: b5 :: b6 :: b7 :: rest =>
    byteOfBits b0 b1 b2 b3 b4 b5 b6 b7 :: groups8 rest
  | _ => []

/-- `FesToBytes`: the complete bytes of the 5-bit stream (`len * 5 / 8` of them). -/
def fesToBytes (fes : List Nat) : List Nat := groups8 (fes.flatMap feBits)

/-- `validate_segwit_padding`: at most four padding bits, all of them (the low bits of the last
    field element) zero; no data is correct padding. -/
def paddingOk (fes : List Nat) : Bool :=
  match fes.getLast? with
  | none => true
  | some last =>
    let padLen := fes.length * 5 % 8
    decide (padLen ≤ 4) && last % 2 ^ padLen == 0

/-- `Checksum::TARGET_RESIDUE`: Bech32 (1) for witness version 0, Bech32m otherwise. -/
def bech32Const (v : Nat) : Nat := if v = 0 then 1 else 0x2bc830a3

/-- `bech32::segwit::decode`: human-readable part as written, witness version, witness program. -/
def segwitDecode (s : List Nat) : Option (List Nat × Nat × List Nat) :=
  if 90 < s.length then none
  else
    match splitLastSep s with
    | none => none
    | some (hrp, dchars) =>
      match mapOpt fe32OfChar dchars with
      | none => none
      | some fes =>
        if mixedCase s then none
        else if !hrpValid hrp then none
        else
          match fes with
          | [] => none
          | v :: _ =>
            if 16 < v then none
            else if fes.length < 6 then none
            else if polymod (hrpExpand (lowerCase hrp) ++ fes) ≠ bech32Const v then none
            else
              match fes.take (fes.length - 6) with
              | [] => none
              | _ :: progFes =>
                let prog := fesToBytes progFes
                if !paddingOk progFes then none
                else if !witnessProgramOk v prog then none
                else some (hrp, v, prog)

/-- `KnownHrp::from_hrp` (`Hrp` equality ignores ASCII case), as the canister network whose
    `KnownHrp::from_network` it is: `Mainnet`, `Testnets`, `Regtest`. -/
def knownHrp (hrp : List Nat) : Option Tree.Net :=
  let l := lowerCase hrp
  if l = hrpOf .mainnet then some .mainnet
  else if l = hrpOf .testnet then some .testnet
  else if l = hrpOf .regtest then some .regtest
  else none

/-- `ScriptBuf::new_witness_program`: version opcode, push of the program. -/
def witnessScript (v : Nat) (prog : List Nat) : List Nat :=
  (if v = 0 then 0 else v + 0x50) :: prog.length :: prog

/-! ## Base58Check (`base58ck::decode_check`) -/

/-- Digits in base `base` (most significant first) of `n`, prepended to `acc`; none for `0`. -/
def digitsBE (base : Nat) : Nat → Nat → List Nat → List Nat
  | 0, _, acc => acc
  | fuel + 1, n, acc => if n = 0 then acc else digitsBE base fuel (n / base) (n % base :: acc)

/-- The bytes of `n`, big-endian, without leading zero bytes. -/
def natBytes (n : Nat) : List Nat := digitsBE 256 n n []

/-- Value of base-58 digits. -/
def b58Val (ds : List Nat) : Nat := ds.foldl (fun acc d => acc * 58 + d) 0

/-- `base58::decode`: one zero byte per leading `'1'`, then the bytes of the number. -/
def base58Decode (s : List Nat) : Option (List Nat) :=
  match mapOpt base58Digit s with
  | none => none
  | some ds => some (List.replicate (leadingZeros ds) 0 ++ natBytes (b58Val ds))

/-- `base58::decode_check`: at least four bytes, the last four the start of the SHA256d of the
    others; the payload without them. -/
def base58DecodeCheck (s : List Nat) : Option (List Nat) :=
  match base58Decode s with
  | none => none
  | some ret =>
    if ret.length < 4 then none
    else
      let body := ret.take (ret.length - 4)
      if (sha256d body).take 4 = ret.drop (ret.length - 4) then some body else none

def p2pkhScript (hash : List Nat) : List Nat := [0x76, 0xa9, 0x14] ++ hash ++ [0x88, 0xac]

def p2shScript (hash : List Nat) : List Nat := [0xa9, 0x14] ++ hash ++ [0x87]

/-- The version byte of a legacy address: (`NetworkKind::Main`?, script hash?). -/
def legacyPrefix (p : Nat) : Option (Bool × Bool) :=
  if p = 0x00 then some (true, false)
  else if p = 0x6f then some (false, false)
  else if p = 0x05 then some (true, true)
  else if p = 0xc4 then some (false, true)
  else none

/-- The base58 branch of `from_str` followed by `require_network`. -/
def parseLegacy (net : Tree.Net) (s : List Nat) : ParseResult :=
  if 50 < s.length then .malformed
  else
    match base58DecodeCheck s with
    | none => .malformed
    | some data =>
      if data.length ≠ 21 then .malformed
      else
        match data with
        | [] => .malformed
        | p :: hash =>
          match legacyPrefix p with
          | none => .malformed
          | some (main, sh) =>
            if main = decide (net = .mainnet) then .ok (if sh then p2shScript hash else p2pkhScript hash)
            else .wrongNetwork

/-! ## The request's address -/

/-- `types::Address::from_str_checked(s, net)`. -/
def parseAddress (net : Tree.Net) (s : List Nat) : ParseResult :=
  match segwitDecode s with
  | some (hrp, v, prog) =>
    match knownHrp hrp with
    | none => .malformed
    | some k => if k = net then .ok (witnessScript v prog) else .wrongNetwork
  | none => parseLegacy net s

/-- The ledger key the endpoints use after a successful parse: `address.to_string()`, the canonical
    text of the parsed address (what `Address::from_script` gives for outputs). -/
def requestKey (net : Tree.Net) (s : List Nat) : Option (List Nat) :=
  match parseAddress net s with
  | .ok script => addressOf net script
  | _ => none

end Btc.AddrParse
