import BtcModel.Model.Tree

/-
  Model of `validation/src/header/mod.rs` and `validation/src/constants.rs`, together with the
  pieces of rust-bitcoin's `pow.rs` they call (compact target encoding, retargeting).
  Import-free apart from `Tree` (for `Net`).
-/
namespace Btc.Header

open Btc.Tree (Net)

def two256 : Nat := 2 ^ 256

/-- `Target::from_compact` (U256 arithmetic: the shift amount is taken modulo 256 and bits
    shifted out are dropped) -/
def fromCompact (bits : Nat) : Nat :=
  let e := bits / 2 ^ 24
  let m := bits % 2 ^ 24
  let (mant, expt) := if e ≤ 3 then (m / 2 ^ (8 * (3 - e)), 0) else (m, 8 * (e - 3))
  if mant > 0x7FFFFF then 0 else (mant * 2 ^ (expt % 256)) % two256

/-- number of significant bits -/
def bitLen (x : Nat) : Nat := if x = 0 then 0 else Nat.log2 x + 1

/-- `Target::to_compact_lossy` -/
def toCompactLossy (t : Nat) : Nat :=
  let size := (bitLen t + 7) / 8
  let compact := if size ≤ 3 then (t * 2 ^ (8 * (3 - size))) % 2 ^ 32 else (t / 2 ^ (8 * (size - 3))) % 2 ^ 32
  let (compact, size) := if compact / 2 ^ 23 % 2 = 1 then (compact / 256, size + 1) else (compact, size)
  -- `compact | (size << 24)`: the mantissa is below 2^24 here, so `|` is `+`
  compact % 2 ^ 24 + size * 2 ^ 24

/-- `max_target` per network (`Target::MAX_ATTAINABLE_*`) -/
def maxTarget : Net → Nat
  | .mainnet => 0xFFFF * 2 ^ 208
  | .testnet => 0xFFFF * 2 ^ 208
  | .regtest => 0x7FFFFF00 * 2 ^ 224

/-- `pow_limit_bits` -/
def powLimitBits : Net → Nat
  | .mainnet => 0x1d00ffff
  | .testnet => 0x1d00ffff
  | .regtest => 0x207fffff

def noPowRetargeting : Net → Bool
  | .regtest => true
  | _ => false

def difficultyAdjustmentInterval : Nat := 2016
def tenMinutes : Nat := 600
def powTargetTimespan : Nat := 14 * 24 * 60 * 60

/-- `CompactTarget::from_next_work_required` -/
def fromNextWorkRequired (net : Net) (last : Nat) (timespan : Nat) : Nat :=
  if noPowRetargeting net then last
  else
    let minT := powTargetTimespan / 4
    let maxT := powTargetTimespan * 4
    let actual := max minT (min timespan maxT)
    let prevTarget := fromCompact last
    let maximumRetarget := min ((prevTarget * 4) % two256) (maxTarget net)
    let retarget := (prevTarget * actual) / powTargetTimespan
    if retarget ≥ maximumRetarget then toCompactLossy maximumRetarget else toCompactLossy retarget

/-- A header as far as validation is concerned. `hash`/`prev` are the numbers whose 32-byte
    big-endian form is the stored byte vector. -/
structure Hdr where
  hash : Nat
  prev : Nat
  time : Nat
  bits : Nat
deriving Repr, DecidableEq, BEq

/-- reverse the 32 bytes of a number (stored byte order → the little-endian number compared
    with the target) -/
def reverse32 (x : Nat) : Nat :=
  (List.range 32).foldl (fun acc i => acc * 256 + (x / 256 ^ i) % 256) 0

/-- `Target::is_met_by` -/
def powOk (h : Hdr) (target : Nat) : Bool := reverse32 h.hash ≤ target

/-- `HeaderStore` -/
structure Store where
  getByHash : Nat → Option Hdr
  getByHeight : Nat → Option Hdr
  height : Nat

def Store.initialHash (s : Store) : Option Nat := (s.getByHeight 0).map (·.hash)

inductive Error where
  | headerIsOld
  | tooFarInFuture
  | invalidPoWForHeaderTarget
  | invalidPoWForComputedTarget
  | targetDifficultyAboveMax
  | prevHeaderNotFound
deriving Repr, DecidableEq, BEq

/-- the timestamps collected by `is_timestamp_valid`: up to 11 ancestors, stopping after the
    initial header -/
def ancestorTimes (s : Store) (initial : Nat) : Nat → Nat → List Nat
  | 0, _ => []
  | fuel + 1, prevHash =>
    match s.getByHash prevHash with
    | none => []
    | some p => p.time :: (if prevHash = initial then [] else ancestorTimes s initial fuel p.prev)

def insertNat (x : Nat) : List Nat → List Nat
  | [] => [x]
  | y :: ys => if x ≤ y then x :: y :: ys else y :: insertNat x ys

def sortNat (l : List Nat) : List Nat := l.foldr insertNat []

/-- `is_timestamp_valid` -/
def timestampCheck (s : Store) (h : Hdr) (now : Nat) : Option Error :=
  if h.time > now + 7200 then some .tooFarInFuture
  else
    let times := sortNat (ancestorTimes s ((s.initialHash).getD 0) 11 h.prev)
    let median := times.getD (times.length / 2) 0
    if h.time ≤ median then some .headerIsOld else none

/-- `find_next_difficulty_in_chain` (testnet / regtest): walk back while the header carries the
    minimum difficulty and is not at a retarget boundary -/
def findNextDifficulty (net : Net) (s : Store) (initial : Nat) : Nat → Hdr → Nat → Option Nat
  | 0, _, _ => some (powLimitBits net)
  | fuel + 1, cur, curHeight =>
    if cur.bits ≠ powLimitBits net || curHeight % difficultyAdjustmentInterval = 0 then some cur.bits
    else if cur.hash = initial then some (powLimitBits net)
    else match s.getByHash cur.prev with
      | none => none   -- panic: "previous header should be in the header store"
      | some p => findNextDifficulty net s initial fuel p (curHeight - 1)

/-- `compute_next_difficulty`; `none` = "Last adjustment header must exist" panic -/
def computeNextDifficulty (net : Net) (s : Store) (prev : Hdr) (prevHeight : Nat) : Option Nat :=
  let height := prevHeight + 1
  if height % difficultyAdjustmentInterval ≠ 0 || noPowRetargeting net then some prev.bits
  else
    match s.getByHeight (height - difficultyAdjustmentInterval) with
    | none => none
    | some lastAdj =>
      let last := match net with
        | .testnet => lastAdj.bits   -- BIP94 (testnet4): base is the period's first block
        | _ => prev.bits
      some (fromNextWorkRequired net last (prev.time - lastAdj.time))

/-- `get_next_target` -/
def nextTarget (net : Net) (s : Store) (prev : Hdr) (prevHeight : Nat) (timestamp : Nat) : Option Nat :=
  match net with
  | .mainnet => (computeNextDifficulty net s prev prevHeight).map fromCompact
  | _ =>
    if (prevHeight + 1) % difficultyAdjustmentInterval ≠ 0 then
      if timestamp > prev.time + tenMinutes * 2 then some (maxTarget net)
      else (findNextDifficulty net s ((s.initialHash).getD 0) (prevHeight + 2) prev prevHeight).map fromCompact
    else (computeNextDifficulty net s prev prevHeight).map fromCompact

inductive Verdict where
  | ok
  | err (e : Error)
  | trap
deriving Repr, DecidableEq, BEq

/-- `HeaderValidator::validate_header` -/
def validateHeader (net : Net) (s : Store) (h : Hdr) (now : Nat) : Verdict :=
  match s.getByHash h.prev with
  | none => .err .prevHeaderNotFound
  | some prev =>
    match timestampCheck s h now with
    | some e => .err e
    | none =>
      let target := fromCompact h.bits
      if target > maxTarget net then .err .targetDifficultyAboveMax
      else if !powOk h target then .err .invalidPoWForHeaderTarget
      else match nextTarget net s prev s.height h.time with
        | none => .trap
        | some required =>
          if target ≠ required then .err .invalidPoWForComputedTarget else .ok

end Btc.Header
